"""C39 — replicas that apply the same updates converge (delta replication; crdt/*.go, actor/replicator.go).

Tie: real replicatorActor instances (2..3) with all seven CRDT types, driven message by message through the
in-memory network of the C41 harness (scripted delivery of the published deltas / anti-entropy full states:
any order, duplicated, never); the complete store (full internal state of every CRDT, versions) is dumped
after every op and compared with the Lean model = Model.C41.step (replicator) over Model/Crdt (CRDT types)
with Model.C40.wire (codec) in between.  Oracle = Spec.C39: the value each replica must expose is computed
from the history of updates and the set of updates the replica has seen (Lean judge)."""
import re

ID = "C39"
LEAN_MODULES = ["GoaktVerif.Props.C39", "GoaktVerif.Props.C39OS", "GoaktVerif.Props.C39MV"]
THEOREMS = [
    "GoaktVerif.C39.J_sameSet",
    "GoaktVerif.C39.J_append",
    "GoaktVerif.C39.reach_inv",
    "GoaktVerif.C39.converge",
    "GoaktVerif.C39.complete_eq_join_all",
    "GoaktVerif.C39.below_join_all",
    "GoaktVerif.C39.incr_eq_join",
    "GoaktVerif.C39.gc_laws",
    "GoaktVerif.C39.pn_laws",
    "GoaktVerif.C39.fl_laws",
    "GoaktVerif.C39.C39_gcounter",
    "GoaktVerif.C39.C39_pncounter",
    "GoaktVerif.C39.C39_flag",
    "GoaktVerif.C39.C39_partial",
    "GoaktVerif.C39.orset_violates_delta_law",
    "GoaktVerif.C39.orset_delta_loses_add",
    "GoaktVerif.C39.lww_stale_write_ignored",
    "GoaktVerif.C39.lw_laws",
    "GoaktVerif.C39.C39_lww",
    "GoaktVerif.C39.ormap_readd_diverges",
    "GoaktVerif.C39.C39_refuted",
    "GoaktVerif.C39.osCoreOf_merge",
    "GoaktVerif.C39.add_inflationary",
    "GoaktVerif.C39.remove_inflationary",
    "GoaktVerif.C39.upd_states_eq",
    "GoaktVerif.C39.os_laws",
    "GoaktVerif.C39.C39_orset_fullstate",
    "GoaktVerif.C39.mvCoreOf_merge",
    "GoaktVerif.C39.mv_laws",
    "GoaktVerif.C39.C39_mvregister",
]
INPKG = ["actor/zz_verif_c41.go", "crdt/zz_verif_c38.go"]
TIMEOUT = 900
ORACLE_NEEDS_JUDGE = True
MANIFEST = {
    "level_text": "Kernel-checked: (1) a GENERIC convergence theorem over the replicator model (Model/C41 handlers handleUpdate/handleDelta, any number of replicas, codec between publisher and receiver, deltas delivered in any order / duplicated / never): if a type's merge is a join on cores and its mutators are delta-mutators (Laws), every replica's core is the join of the deltas it has seen (reach_inv), so replicas with the same seen-set hold the same core (converge) and a replica that has seen everything holds the join of all deltas (complete_eq_join_all, below_join_all); the ACI-fold lemmas J_sameSet/J_append are proved from the semilattice laws. (2) Instances: the MV register (guard: a dot names one write) and the OR-set under full-state replication (Props/C39MV, Props/C39OS), G-counter and PN-counter (no-overflow guard), Flag, and — since fix 670e96a — the LWW register (guard: a stamp names one write, timestamps >= 0) satisfy the laws (gc_laws, pn_laws, fl_laws, lw_laws) hence converge (C39_gcounter, C39_pncounter, C39_flag, C39_lww, C39_partial); the network of the theorem has delta deliveries in any order / duplicated / never AND full-state merges between any two replicas at any time. (3) The full statement over the seven types is REFUTED (C39_refuted) with two independent model witnesses evaluated by the kernel and replayed on the real code: OR-set deltas lose earlier adds (orset_delta_loses_add; Add is not a delta-mutator: orset_violates_delta_law), OR-map remove+re-set (ormap_readd_diverges); the former third witness (stale LWW write, C39-F2) is fixed by 670e96a and kept as lww_stale_write_ignored. Tie: real replicator actors with all seven types driven message by message, full store dumps compared with the model after every message.",
    "level_note": "Partial. Proved instances: G-counter, PN-counter, Flag, LWW register, MV register (mv_laws, C39_mvregister: real ops and codec; guard: a dot names one write) and the OR-set under full-state replication (os_laws, C39_orset_fullstate: Merge is a join and Add/Remove are inflationary on the observation clock-function x (element,dot)-relation, C38's equivalence made an equality by extensionality; updates propagate their full state, delivered late / out of order / duplicated / never, plus fresh full-state merges; the codec is the identity in this instance, its preservation of entries/dots/clock being C40.orset_roundtrip). Not proved: OR-map without removes (differential + Spec.C39 oracle only). Findings C39-F1 and C39-F3 are open (F1 needs a dot context in the delta: not a small fix; F3 is the OR-map value-merge design); C39-F2 is fixed (670e96a, seeded/C39-revert-lww-set). uint64 wrap of counters is excluded by guard.",
    "technique": "Lean 4 proof (generic delta-CRDT convergence theorem over the replicator model + per-type law instances, refutation witnesses by kernel evaluation) + per-message differential against real replicator actors",
}
TRUSTED = [
    "harness/verifdrv/c39: in-memory network around real replicator actors (collector actor as topic actor, scripted delivery)",
    "crdt.VerifDump (in-package canonical printer of the full internal state)",
    "Spec.C39's reading of 'seen the same set of updates': what a delta carries is, per type, the update itself (or-set), the originator's slot history (counters) or everything the originator had seen (full-state deltas)",
]
RULE = ("scripts over 2-3 real replicators: updates of the seven CRDT types (own node id), delivery of logged deltas / full states in any "
        "order with duplicates and omissions, anti-entropy digests, prune (compaction), gets; 75% single-type scripts, plus 'safe' families "
        "(lww with increasing stamps, or-set with one add per node, or-map without removes) so that the known findings do not mask the rest; "
        "non-trivial = at least one op produced a dump; distinct by (case, output)")

KEYS = ["gc", "pn", "fl", "lw", "mv", "os", "om"]


class Gen:
    def __init__(self, rng, n, keys, safe):
        self.rng, self.n, self.keys, self.safe = rng, n, keys, safe
        self.ts = 0
        self.added = set()

    def mut(self, k, r):
        rng = self.rng
        if k == "gc":
            return f"i.{rng.randint(0, 5)}"
        if k == "pn":
            return f"{rng.choice('id')}.{rng.randint(0, 5)}"
        if k == "fl":
            return "e"
        if k == "lw":
            if self.safe:
                self.ts += rng.randint(1, 3)
                return f"s.{rng.randint(0, 9)}.{self.ts}"
            return f"s.{rng.randint(0, 9)}.{rng.randint(1, 6)}"
        if k == "mv":
            return f"s.{rng.randint(0, 9)}"
        if k == "os":
            if self.safe:
                if r in self.added:
                    return f"r.{rng.randint(0, 3)}" if rng.random() < 0.3 else None
                self.added.add(r)
                return f"a.{rng.randint(0, 3)}"
            return f"a.{rng.randint(0, 3)}" if rng.random() < 0.7 else f"r.{rng.randint(0, 3)}"
        if k == "om":
            if self.safe or rng.random() < 0.75:
                return f"s.{rng.randint(0, 2)}.{rng.randint(0, 5)}"
            return f"r.{rng.randint(0, 2)}"

    def case(self, nops):
        rng = self.rng
        ops, logn = [], 0
        for _ in range(nops):
            r = rng.randrange(self.n)
            x = rng.random()
            if x < 0.45:
                k = rng.choice(self.keys)
                m = self.mut(k, r)
                if m is None:
                    continue
                ops.append(f"u:{r}:{k}:{m}"); logn += 1
            elif x < 0.80:
                ops.append(f"s:{r}:{rng.randrange(0, logn + 1)}")
            elif x < 0.88:
                ops.append(f"a:{r}:{rng.randrange(self.n)}"); logn += 1
            elif x < 0.95:
                ops.append(f"g:{r}:{rng.choice(self.keys)}")
            else:
                ops.append(f"p:{r}")
        return f"n={self.n} " + " ".join(ops)


def rand_case(rng, nops):
    n = rng.choice([2, 2, 3])
    x = rng.random()
    if x < 0.5:
        keys, safe = [rng.choice(KEYS)], False
    elif x < 0.75:
        keys, safe = [rng.choice(["lw", "os", "om"])], True
    elif x < 0.9:
        keys, safe = rng.sample(["gc", "pn", "fl", "mv"], 2), False
    else:
        keys, safe = KEYS, False
    return Gen(rng, n, keys, safe).case(nops)


def compact_cases():
    """a same-node re-add, a prune tick (Compact keeps one dot per node) and a concurrent remove that saw only the
    first dot, in several delivery orders (OR-set, and OR-map key set)"""
    out = []
    for pr in ("p:0", "p:0 p:0", "p:1 p:0"):
        # A=0 adds x (log 0) -> B=1, C=2; A adds x again (log 1) -> B; C removes x having seen only the first dot (log 2);
        # A compacts; C's remove reaches A, then everybody exchanges full states
        out.append(f"n=3 u:0:os:a.1 s:1:0 s:2:0 u:0:os:a.1 s:1:1 u:2:os:r.1 {pr} s:0:2 g:0:os g:1:os a:1:0 s:1:3 g:1:os")
        out.append(f"n=3 u:0:os:a.1 s:2:0 u:0:os:a.1 u:2:os:r.1 s:0:2 {pr} g:0:os s:1:1 p:1 s:1:2 g:1:os")
        out.append(f"n=3 u:0:om:s.1.2 s:1:0 s:2:0 u:0:om:s.1.3 s:1:1 u:2:om:r.1 {pr} s:0:2 g:0:om g:1:om")
    out.append("n=2 u:0:os:a.1 u:0:os:a.1 u:0:os:a.1 p:0 g:0:os s:1:2 p:1 g:1:os u:1:os:r.1 s:0:3 g:0:os")
    return out


def gen_cases(rng, tier):
    return compact_cases() + [rand_case(rng, rng.randint(3, 36)) for _ in range(260 if tier == "quick" else 7000)]


def search_cases(rng, tier):
    return compact_cases() + [rand_case(rng, rng.randint(3, 24)) for _ in range(1500 if tier == "quick" else 8000)]


def compare(case, impl, model):
    return None if impl == model else f"impl={impl[:400]!r} model={model[:400]!r}"


def is_trivial(case, impl):
    return impl in ("", "bad-case") or impl.startswith("CRASH") or "!" not in impl


def tag(case, impl):
    ks = sorted({t.split(":")[2] for t in case.split()[1:] if t.startswith("u:")})
    return case.split()[0] + " keys=" + ",".join(ks)


def oracle(case, impl, judge):
    if impl.startswith("CRASH") or impl.startswith("panic"):
        return "harness failed: " + impl[:200]
    if judge is None:
        return None
    return None if judge.startswith("ok") else judge


# ---- "is this failure one of the recorded findings?" is decided by the MODEL ----------------------------------------
# The Lean model (Model/Crdt + Model/C41 + Model/C40) is the code as it is, recorded defects included, and the
# differential keeps it equal to the code.  A failing script belongs to a recorded finding exactly when the model run
# on the same script fails the oracle in the same way (same op, same key, same expected/exposed values).  A seeded or
# new defect makes the implementation fail where the model does not (or differently) -> not classified -> VIOLATION
# with that script.  The textual signatures below are kept as a second, necessary condition.
import os as _os, subprocess as _sp
_DRIVER = _os.path.join(_os.path.dirname(_os.path.dirname(_os.path.dirname(_os.path.abspath(__file__)))), "lean", ".lake", "build", "bin", "gvdriver")
_cache = {}


def _model_verdict(case):
    """the judge's verdict on the MODEL's own output for this script (None when the driver is unavailable)"""
    if case in _cache:
        return _cache[case]
    v = None
    try:
        if _os.path.exists(_DRIVER):
            m = _sp.run([_DRIVER, "C39", "model"], input=case + "\n", capture_output=True, text=True, timeout=120).stdout.split("\n")[0]
            v = _sp.run([_DRIVER, "C39", "judge"], input=case + "\t" + m + "\n", capture_output=True, text=True, timeout=120).stdout.split("\n")[0]
    except Exception:
        v = None
    _cache[case] = v
    return v


def classify(case, impl, why):
    fid = _classify_text(case, impl, why)
    if fid is None:
        return None
    mv = _model_verdict(case)
    if mv is None:
        return fid  # driver unavailable: textual signature only
    return fid if mv == (why or "") else None


def _set(s):
    return {x for x in s.split(",") if x != ""}


def _classify_text(case, impl, why):
    """C39-F1: the or-set value check fails (elements lost; or, as a consequence, a remove that does not take effect on a
    peer because the remover had itself lost the dot) in a script where, before the failing op, some replica performed at
    least two or-set updates and some logged message was delivered - the precondition of the defect.
    C39-F3: or-map replicas that saw the same updates expose the same keys but different values, and a seen update removed a key."""
    why = why or ""
    m = re.search(r"bad op=(\d+) tok=\S+ key=os kind=value exp=(\S*) act=(\S*)", why)
    if m:
        idx = int(m.group(1))
        ops = case.split()[1:idx + 1]
        per = {}
        for t in ops:
            f = t.split(":")
            if f[0] == "u" and len(f) == 4 and f[2] == "os":
                per[f[1]] = per.get(f[1], 0) + 1
        delivered = any(t.startswith("s:") for t in ops)
        return "C39-F1" if delivered and per and max(per.values()) >= 2 else None
    m = re.search(r"key=om kind=converge other=\d+ a=(\S*) b=(\S*) rem=1$", why)
    if m and m.group(1).split("#")[0] == m.group(2).split("#")[0]:
        return "C39-F3"
    return None


# no shrink(): check.py's shrinker accepts a candidate on which model and implementation merely DIFFER, which for this
# property loses the oracle's explanation (expected vs exposed value); the unshrunk failing script is kept instead.

"""C10 — each watcher receives exactly one Terminated for a watched actor."""
import importlib.util, os

_here = os.path.dirname(os.path.abspath(__file__))
_spec = importlib.util.spec_from_file_location("prop_c09_shared", os.path.join(_here, "c09.py"))
_c09 = importlib.util.module_from_spec(_spec)
_spec.loader.exec_module(_c09)

ID = "C10"
LEAN_MODULES = ["GoaktVerif.Props.C10"]
THEOREMS = [
    "GoaktVerif.Model.C10.notifyAll_count",
    "GoaktVerif.Model.C10.watchers_snapshot_nodup",
    "GoaktVerif.Model.C10.wn_step",
    "GoaktVerif.C10.C10_holds",
    "GoaktVerif.C10.hyps_reachable",
    "GoaktVerif.C10.not_in_snapshot_gets_none",
    "GoaktVerif.C10.unwatch_not_in_watchers",
    "GoaktVerif.C10.unwatched_before_gets_none",
    "GoaktVerif.C10.at_most_one",
    "GoaktVerif.C10.shutdown_offline_noop",
]
INPKG = ["actor/zz_verif_c09.go", "actor/zz_verif_c09sys.go"]
MANIFEST = {
    "level_text": ("Kernel-checked (C10_holds): over the tree model of C09 and freeWatchers with an ARBITRARY environment "
                   "(other goroutines' Watch/UnWatch/start/stop steps before the snapshot and between any two loop "
                   "iterations, any number, any order), one termination of p delivers to every actor w exactly "
                   "1 Terminated(p) if w is in watchers(p) at the instant of the snapshot and IsRunning() at its turn, "
                   "0 otherwise; never 2 (at_most_one); a watcher whose UnWatch linearised before the snapshot gets none "
                   "(unwatched_before_gets_none); Shutdown of an offline actor is a no-op, so freeWatchers runs once per "
                   "incarnation (shutdown_offline_noop). The hypotheses (tree consistent, watchers a map) hold in every "
                   "tree reachable by any op sequence (hyps_reachable). Tie: the tree model is compared with the real "
                   "tree after every op (C09 differential); the stop path is compared with a REAL started actor system "
                   "on deterministic watch/unwatch/stop/restart scripts (one goroutine, mailbox-empty + dispatch-idle "
                   "quiescence): Terminated counts per (watcher, watchee) must equal the model's and the specification's."),
    "level_note": ("Local watchers only (remote watchers are best-effort RemoteTell, excluded by the property). The "
                   "delivery itself (Tell -> mailbox -> Receive exactly once) is C02's; here a Terminated is counted when "
                   "it is enqueued in the model and when Receive sees it on the real system. Sibling/cousin watch pairs "
                   "inside one stopped subtree and pairs stopped together by system Stop race by design and are not "
                   "judged. C10-F1 (a watcher's own restart silently dropped its watches) was fixed by b59b9b2; its witnesses stay in the corpus. The race named by "
                   "the property (UnWatch after the snapshot still gets one Terminated; Watch after the snapshot gets "
                   "none, ever) is part of the theorem's statement, not an alarm."),
    "technique": "Lean 4 proof over all interleavings of an environment with freeWatchers on the tree model + scenario differential and spec oracle on a real actor system",
}
TRUSTED = [
    "every termination path reaches doStop -> freeWatchers (read from pid.go; the scenario differential exercises Shutdown, PoisonPill, parent.Stop, Kill, Restart, system Stop)",
    "tree ops are atomic (single RWMutex in pid_tree.go), so an interleaving is a sequence of whole ops",
    "quiescence of an actor = empty mailbox and idle dispatch state (in-package read)",
]
RULE = ("sys scripts: 2-9 actors (depth <= 3), 2-10 Watch/UnWatch ops incl. re-watch and double watch, optional failures that "
        "leave actors suspended (watched before and after), 1-3 terminations by "
        "Shutdown/PoisonPill/parent.Stop/Kill/Restart, optional system Stop; non-trivial = at least one Terminated was "
        "owed or received; distinct by (case, output)")
TIMEOUT = 900


def _gen(rng, max_nodes):
    sc = _c09._Scn()
    ops, n = [], 0

    def new():
        nonlocal n
        n += 1
        return f"a{n}"

    for _ in range(rng.randint(2, 4)):
        x = new()
        sc.spawn(x)
        ops.append(f"S:{x}")
    while n < max_nodes:
        cands = [x for x in sc.order if sc.depth(x) < 2 and len(sc.kids[x]) < 2]
        if not cands:
            break
        p = rng.choice(cands)
        x = new()
        sc.spawn(x, p)
        ops.append(f"C:{p}:{x}")
    names = list(sc.order)

    def ok(w, y):
        return w != y and (sc.top(w) != sc.top(y) or sc.related(w, y))

    def watches(k):
        out = []
        for _ in range(k):
            w, y = rng.choice(names), rng.choice(names)
            if not ok(w, y):
                continue
            r = rng.random()
            out.append(f"W:{w}:{y}")
            if r < 0.2:
                out.append(f"U:{w}:{y}")
            elif r < 0.3:
                out += [f"U:{w}:{y}", f"W:{w}:{y}"]
            elif r < 0.4:
                out.append(f"W:{w}:{y}")  # watching twice is still one watch
        return out

    ops += watches(rng.randint(2, 8))
    # failures: the actor is suspended by supervision (alive, not IsRunning); watches placed on it afterwards
    # (and before) must still be honoured when it terminates
    if rng.random() < 0.45:
        for x in rng.sample(names, min(len(names), rng.randint(1, 2))):
            ops.append(f"F:{x}")
            sc.suspended.add(x)
            for _ in range(rng.randint(0, 2)):
                w = rng.choice(names)
                if ok(w, x):
                    ops.append(f"W:{w}:{x}")
                    if rng.random() < 0.2:
                        ops.append(f"U:{w}:{x}")
        ops += watches(rng.randint(0, 2))
    for i in range(rng.randint(1, 3)):
        live = [x for x in names if x in sc.running]
        if not live:
            break
        x = rng.choice(live)
        r = rng.random()
        has_susp = any(y in sc.suspended for y in sc.sub(x))
        if r < 0.12 and not has_susp:
            ops.append(f"R:{x}")
        else:
            if r < 0.45 or (x in sc.suspended and r < 0.65):
                ops.append(f"K:{x}")
            elif r < 0.65:
                ops.append(f"P:{x}")
            elif r < 0.8 and sc.parent[x] is not None and sc.usable(sc.parent[x]):
                ops.append(f"T:{sc.parent[x]}:{x}")
            else:
                ops.append(f"Q:{x}")
            sc.stop(x)
        if rng.random() < 0.4:
            ops += watches(rng.randint(1, 3))  # includes watching stopped actors (no-op) and by stopped actors
    if rng.random() < 0.2:
        ops.append("Z")
    return "sys " + " ".join(ops)


FIXED = [
    # a SUSPENDED (not running) watcher among running co-watchers: freeWatchers must skip it and still tell every
    # running one, wherever the map iteration visits it (several running watchers make a wrong early exit visible
    # for almost every iteration order)
    "sys S:a1 S:a2 S:a3 S:a4 S:a5 S:a6 S:a7 W:a2:a1 W:a3:a1 W:a4:a1 W:a5:a1 W:a6:a1 W:a7:a1 F:a4 K:a1",
    "sys S:a1 S:a2 S:a3 S:a4 S:a5 S:a6 W:a2:a1 W:a3:a1 W:a4:a1 W:a5:a1 W:a6:a1 F:a2 F:a6 Q:a1",
    "sys S:a1 C:a1:a2 S:a3 S:a4 S:a5 S:a6 W:a3:a2 W:a4:a2 W:a5:a2 W:a6:a2 F:a5 T:a1:a2",
    "sys S:a1 S:a2 S:a3 S:a4 S:a5 W:a2:a1 W:a3:a1 W:a4:a1 W:a5:a1 F:a3 P:a1",
    # watching a SUSPENDED actor (failed, parked by supervision, alive) is a watch like any other
    "sys S:a1 C:a1:a2 S:a3 S:a4 W:a3:a2 F:a2 W:a4:a2 T:a1:a2",
    "sys S:a1 S:a2 F:a1 W:a2:a1 K:a1",
    "sys S:a1 S:a2 F:a1 W:a2:a1 U:a2:a1 Q:a1",
    "sys S:a1 S:a2 W:a1:a2 F:a1 K:a2",
    "sys S:a1 S:a2 W:a2:a1 K:a1",
    "sys S:a1 S:a2 W:a2:a1 U:a2:a1 K:a1",
    "sys S:a1 S:a2 W:a2:a1 W:a2:a1 P:a1",
    "sys S:a1 S:a2 S:a3 W:a2:a1 W:a3:a1 U:a3:a1 W:a3:a1 Q:a1 K:a1",
    "sys S:a1 C:a1:a2 S:a3 W:a3:a2 T:a1:a2",
    "sys S:a1 S:a2 W:a2:a1 K:a2 K:a1",
    "sys S:a1 S:a2 W:a2:a1 K:a1 W:a2:a1 K:a1",
    "sys S:a1 S:a2 W:a2:a1 R:a1 K:a1",
]


def gen_cases(rng, tier):
    n = 150 if tier == "quick" else 4000
    return list(FIXED) + [_gen(rng, rng.choice([2, 3, 5, 7, 9])) for _ in range(n)]


def search_cases(rng, tier):
    return list(FIXED) + [_gen(rng, rng.choice([2, 3, 5, 7, 9])) for _ in range(800)]


# ---------------------------------------------------------------------------
# spec mirror (python copy of Spec/C10.lean, used when the Lean judge is unavailable and by classify)
# ---------------------------------------------------------------------------

def _spec(case):
    sc = _c09._Scn()
    W, owed, racy = set(), {}, set()
    history = []  # (index, kind, payload) for classify
    for i, tok in enumerate(case.split()[1:]):
        f = tok.split(":")
        k = f[0]
        if k == "S":
            sc.spawn(f[1])
        elif k == "C":
            if sc.usable(f[1]):
                sc.spawn(f[2], f[1])
                W.add((f[1], f[2]))
        elif k == "F":
            if sc.usable(f[1]):
                sc.suspended.add(f[1])
        elif k == "W":
            if f[1] in sc.running and f[2] in sc.running:
                W.add((f[1], f[2]))
                history.append((i, "W", (f[1], f[2])))
        elif k == "U":
            W.discard((f[1], f[2]))
        elif k in ("K", "P", "Q", "T", "R"):
            x = f[2] if k == "T" else f[1]
            dead = {y for y in sc.sub(x) if y in sc.running} if x in sc.parent else set()
            for (w, y) in sorted(W):
                if y in dead and w not in dead and sc.usable(w):
                    owed[(w, y)] = owed.get((w, y), 0) + 1
                    history.append((i, "owed", (w, y)))
            if k == "R":
                W = {(w, y) for (w, y) in W if y not in dead}
                for c in dead:
                    p = sc.parent.get(c)
                    if p is not None:
                        W.add((p, c))
                history.append((i, "R", frozenset(dead)))
            else:
                W = {(w, y) for (w, y) in W if w not in dead and y not in dead}
                sc.running -= dead
            sc.suspended -= dead
        elif k == "Z":
            racy |= sc.running
            sc.running.clear()
            sc.suspended.clear()
            W = set()
    return owed, racy, history


def _got(impl):
    last = impl.split("#")[-1]
    term = last.partition("term=")[2].partition(";tree=")[0]
    return {tuple(k.split(">")): v for k, v in _c09._termdict(term).items()}


def _first_bad(case, impl):
    owed, racy, history = _spec(case)
    got = _got(impl)
    for (w, y) in sorted(set(owed) | set(got)):
        if y in racy:
            continue
        if got.get((w, y), 0) != owed.get((w, y), 0):
            return w, y, got.get((w, y), 0), owed.get((w, y), 0), history
    return None


def compare(case, impl, model):
    return _c09.compare(case, impl, model)


def oracle(case, impl, judge):
    if impl.startswith(("CRASH", "panic")):
        return "harness crashed or panicked: " + impl[:200]
    if impl == "bad-case" or _c09._inconclusive(impl):
        return None
    if judge is not None:
        return None if judge.startswith("ok") else judge
    bad = _first_bad(case, impl)
    if bad:
        w, y, n, e, _ = bad
        return f"bad watcher {w} received {n} Terminated for {y}, expected {e}"
    return None


def classify(case, impl, why):
    """C10-F1 (fixed by b59b9b2, no longer listed as open, so a recurrence is a VIOLATION): the ONLY mismatch family mapped is: a watcher got 0 instead of 1 and that watcher was restarted
    (an R op covering it) after its Watch and before the watched actor terminated."""
    if not impl or _c09._inconclusive(impl):
        return None
    bad = _first_bad(case, impl)
    if not bad:
        return None
    w, y, n, e, history = bad
    if not (n == 0 and e == 1):
        return None
    i_watch = max((i for i, k, p in history if k == "W" and p == (w, y)), default=None)
    i_owed = max((i for i, k, p in history if k == "owed" and p == (w, y)), default=None)
    if i_watch is None or i_owed is None:
        return None
    if any(k == "R" and w in p and i_watch < i < i_owed for i, k, p in history):
        return "C10-F1"
    return None


def is_trivial(case, impl):
    if impl in ("", "bad-case") or impl.startswith(("CRASH", "panic")) or _c09._inconclusive(impl):
        return True
    owed, _, _ = _spec(case)
    return not owed and not _got(impl)


def tag(case, impl):
    kinds = sorted({t.split(":")[0] for t in case.split()[1:]} & set("KPQTRZUF"))
    return "".join(kinds) + (":inconclusive" if impl and _c09._inconclusive(impl) else "")


def shrink(case):
    return _c09.shrink(case)

"""C13 — stashed messages are neither lost, duplicated nor reordered (E2 through a scripted actor in a real actor system)."""
import itertools

ID = "C13"
LEAN_MODULES = ["GoaktVerif.Props.C13", "GoaktVerif.Props.C13.Pool"]
THEOREMS = [
    "GoaktVerif.C13.inv_doAct",
    "GoaktVerif.C13.inv_sysStep",
    "GoaktVerif.C13.inv_run",
    "GoaktVerif.C13.delivered_fifo",
    "GoaktVerif.C13.redelivered_prefix",
    "GoaktVerif.C13.pending_accounted",
    "GoaktVerif.C13.drained_mailbox",
    "GoaktVerif.C13.exactly_once_quiescent",
    "GoaktVerif.C13.unstash_oldest",
    "GoaktVerif.C13.unstash_empty",
    "GoaktVerif.C13.unstashAll_order",
    "GoaktVerif.C13.stash_appends",
    "GoaktVerif.C13.no_buffer",
    "GoaktVerif.C13.no_buffer_run",
    "GoaktVerif.C13.C13_holds",
    "GoaktVerif.C13.runCase_is_run",
    "GoaktVerif.C13.runCase_inv",
    # physical layer: which ReceiveContext object is where (pools.go / intrusive mailboxes / clones)
    "GoaktVerif.C13.Pool.good_step",
    "GoaktVerif.C13.Pool.pool_no_alias",
    "GoaktVerif.C13.Pool.stashed_not_pooled",
    "GoaktVerif.C13.Pool.pool_fast_aliases",
]
INPKG = ["actor/zz_verif_c13.go"]
TIMEOUT = 1500
MANIFEST = {
    "level_text": "Kernel-checked theorems over a model of PID.stash/unstash/unstashAll (actor/stash.go) with re-entry at the mailbox tail (doReceive), for ANY message type, ANY interleaving of arrivals and deliveries and ANY list of Stash/Unstash/UnstashAll calls per delivery (C13_holds, induction over runs of arbitrary length): conservation invariant (stashed = released ++ stash, enqueued = delivered ++ mailbox), hence re-deliveries are a prefix of the released messages which are a prefix of the stashed ones (same order, never duplicated), nothing is lost, and with drained mailbox and empty stash the re-deliveries are exactly the stashed messages once each in stash order; Unstash releases the oldest, UnstashAll all in order; without a buffer every call returns ErrStashBufferNotSet and changes nothing. The model is tied to /repo on every run by a differential against a scripted actor in a real actor system (deterministic arrival order through gate messages, quiescence by a counting mailbox wrapper), and the spec oracle (Spec/C13.check) is evaluated on the real actor's observations. Physical layer (Model/C13/Pool, Props/C13/Pool): with contexts as objects, mailbox sentinels, recycling of the previous sentinel into the global pool on Dequeue, getContext/cloneContext and other actors draining the pool, pool_no_alias proves for every run that main sentinel (= handled context), queued main contexts, stash sentinel, stashed contexts and free pooled contexts are pairwise distinct; pool_fast_aliases shows the seeded fast path (no clone) breaks it. Tied by an observation on the real objects at the end of every delivery (chains of both mailboxes and a snapshot of contextCh): `alias=0`.",
    "level_note": "Tie is a differential (sampled), not a translation; cloneContext's field copy is modelled as copying the payload (the copied err/response fields are outside the model); the physical layer is tied by an invariant observation on the real objects (not a differential of object identities: the global pool is shared with the system actors, so identities are not reproducible), and the model lets a Dequeue always pool the old sentinel (the real pool drops it when full - fewer free contexts, same invariant); the reentrancy stash path (enableReentrancyStash/unstashAll after a blocking request) uses the same three functions but is not driven by the harness; mailbox FIFO itself is C03/C04's subject and is assumed here for UnboundedMailbox (observed by the differential).",
    "technique": "Lean 4 proof (inductive conservation invariant over arbitrary runs) + model/implementation differential through a real actor system + executable spec oracle on the implementation's observations",
}
TRUSTED = [
    "harness/verifdrv/c13: scripted actor, gate messages that park the actor while a batch is enqueued, counting mailbox wrapper around the real UnboundedMailbox",
    "cloneContext copies the message payload faithfully (pool reuse of ReceiveContext is not modelled)",
]
RULE = ("case = (stash buffer yes/no, batches of distinct message ids sent while the actor is parked, one decision per delivery: h or a string over S/U/A); "
        "quick: all decision lists of length <= 4 over {h,S,U,A} on a 3-message stream, with and without buffer, plus 400 random multi-batch cases; "
        "thorough: length <= 6, a 7-token alphabet with multi-call decisions up to length 4, two-batch splits, 6000 random; "
        "non-trivial = at least one delivery; distinct by (case, output)")
EXHAUSTIVE = {"quick": False, "thorough": False}

TOK4 = ["h", "S", "U", "A"]
TOK7 = ["h", "S", "U", "A", "SU", "SS", "SA"]


def _line(buf, batches, ds):
    b = "/".join(",".join(map(str, x)) for x in batches) if batches else "-"
    if b == "":
        b = "-"
    return f"{1 if buf else 0} {b} {','.join(ds) if ds else '-'}"


def _random_case(rng, big=False):
    buf = rng.random() < 0.9
    n = rng.randint(0, 14 if big else 9)
    ids = list(range(1, n + 1))
    if rng.random() < 0.3:
        rng.shuffle(ids)
    nb = rng.choice([1, 1, 2, 3]) if n else rng.choice([0, 1])
    cuts = sorted(rng.randint(0, n) for _ in range(max(nb - 1, 0)))
    batches, prev = [], 0
    for c in cuts + [n]:
        batches.append(ids[prev:c])
        prev = c
    if nb == 0:
        batches = []
    style = rng.random()
    ds = []
    for _ in range(rng.randint(0, 2 * n + 4)):
        r = rng.random()
        if style < 0.3:      # stash a run, then release
            tok = "S" if r < 0.55 else "A" if r < 0.65 else "U" if r < 0.8 else "h"
        elif style < 0.6:    # mostly unstash-one
            tok = "S" if r < 0.4 else "U" if r < 0.7 else "SU" if r < 0.8 else "h"
        else:
            tok = rng.choice(TOK7 + ["US", "UU", "AS", "SUS", "SSA", "AUS", "h", "h"])
        ds.append(tok)
    return _line(buf, batches, ds)


def gen_cases(rng, tier):
    cases = ["1 - -", "0 - -", "1 1,2,3 S,S,h,A", "0 1,2 S,U,A,SUA", "1 1,2,3/4,5 S,S,U,h,U,h,h", "1 1,2 U,SS,A,h,h",
             "1 1,2,3 SU,SU,SU,SU,SU,SU,h", "1 1,2/ S,A", "1 1,2,3 S,S,S,h", "1 /1,2/ S,S"]
    maxlen = 4 if tier == "quick" else 6
    for L in range(0, maxlen + 1):
        for ds in itertools.product(TOK4, repeat=L):
            cases.append(_line(True, [[1, 2, 3]], list(ds)))
            if L <= 3:
                cases.append(_line(False, [[1, 2, 3]], list(ds)))
    if tier != "quick":
        for L in range(1, 5):
            for ds in itertools.product(TOK7, repeat=L):
                cases.append(_line(True, [[1, 2], [3, 4]], list(ds)))
        for L in range(1, 6):
            for ds in itertools.product(TOK4, repeat=L):
                cases.append(_line(True, [[1], [2, 3], [4]], list(ds)))
    for _ in range(400 if tier == "quick" else 6000):
        cases.append(_random_case(rng, big=(tier != "quick")))
    return cases


def search_cases(rng, tier):
    cases = []
    for L in range(0, 5):
        for ds in itertools.product(TOK4, repeat=L):
            cases.append(_line(True, [[1, 2, 3]], list(ds)))
            cases.append(_line(True, [[1, 2], [3]], list(ds)))
    for ds in itertools.product(TOK4, repeat=2):
        cases.append(_line(False, [[1, 2]], list(ds)))
    for _ in range(1500):
        cases.append(_random_case(rng, big=True))
    return cases


# ---- python mirror of Spec/C13.check (used when the Lean judge is unavailable) ----

def _parse(case):
    f = case.split()
    if len(f) != 3 or f[0] not in ("0", "1"):
        return None
    try:
        batches = [] if f[1] == "-" else [[int(x) for x in b.split(",")] if b else [] for b in f[1].split("/")]
    except ValueError:
        return None
    ds = [] if f[2] == "-" else f[2].split(",")
    for d in ds:
        if d == "" or (d != "h" and any(ch not in "SUA" for ch in d)):
            return None
    return f[0] == "1", batches, ds


def _check(case, impl):
    p = _parse(case)
    if p is None:
        return None if impl == "bad-case" else "harness accepted an unparsable case"
    buf, batches, ds = p
    try:
        evs, rest = impl.split(";st=")
        st, al = rest.split(";alias=")
        if al != "0":
            return "one ReceiveContext object is in two places at once (main mailbox / stash mailbox / pool): " + al
        st = int(st)
    except ValueError:
        return "unparsable output: " + impl
    stream = [x for b in batches for x in b]
    stash, released, deliveries = [], [], []
    for idx, e in enumerate(evs.split()):
        d = ds[idx] if idx < len(ds) else "h"
        ident, _, codes = e.partition(":")
        try:
            ident = int(ident)
        except ValueError:
            return "unparsable output: " + impl
        deliveries.append(ident)
        acts = "" if d == "h" else d
        if (":" in e) != (d != "h") or len(codes) != len(acts):
            return f"delivery {idx} does not report the calls its decision prescribes"
        for a, c in zip(acts, codes):
            if not buf:
                if c != "n":
                    return f"delivery {idx}: a stash call without a stash buffer did not report ErrStashBufferNotSet"
            elif a == "S":
                stash.append(ident)
                if c != "o":
                    return f"delivery {idx}: Stash reported an error although a buffer exists"
            elif a == "U":
                if not stash:
                    if c != "e":
                        return f"delivery {idx}: Unstash on an empty stash did not report the empty-stash error"
                else:
                    released.append((stash.pop(0), idx))
                    if c != "o":
                        return f"delivery {idx}: Unstash reported an error although the stash holds messages"
            elif a == "A":
                released += [(x, idx) for x in stash]
                stash = []
                if c != "o":
                    return f"delivery {idx}: UnstashAll reported an error although a buffer exists"
    if st != len(stash):
        return f"StashSize {st} but {len(stash)} stashed messages were never released"
    if len(deliveries) != len(stream) + len(released):
        return f"{len(deliveries)} deliveries for {len(stream)} sent messages and {len(released)} released ones (lost or duplicated)"
    if len(set(stream)) != len(stream):
        return None
    seen, firsts, later = set(), [], []
    for idx, d in enumerate(deliveries):
        if d in seen:
            later.append((d, idx))
        else:
            seen.add(d)
            firsts.append(d)
    if firsts != stream:
        return "first deliveries are not the sent messages in sending order"
    if len(later) != len(released) or any(x != y or at >= idx for (x, at), (y, idx) in zip(released, later)):
        return "re-deliveries are not exactly the released messages, in release order, after their release"
    return None


def compare(case, impl, model):
    if impl == "HANG-skipped":
        return None  # not run: the harness gave up after several HANG/RUNAWAY cases (those are reported)
    return None if impl == model else f"impl={impl!r} model={model!r}"


def is_trivial(case, impl):
    return impl in ("", "bad-case", ";st=0;alias=0") or impl.startswith(("CRASH", "panic", "HANG", "LOST", "RUNAWAY", "UNSTABLE", "spawn-error", "tell-error"))


def tag(case, impl):
    p = _parse(case)
    if p is None:
        return "malformed"
    buf, batches, ds = p
    ns = sum(d.count("S") for d in ds)
    rel = sum(d.count("U") + d.count("A") for d in ds)
    return f"{'buf' if buf else 'nobuf'}:batches={len(batches)}:S={'0' if ns == 0 else '1-3' if ns <= 3 else '4+'}:rel={'0' if rel == 0 else '1+'}"


def oracle(case, impl, judge):
    if impl == "HANG-skipped":
        return None
    if impl.startswith("RUNAWAY"):
        f = impl.split()
        return (f"runaway re-delivery: delivery number {f[1]} happened although only {int(f[1]) - 1} are possible "
                "(messages sent + Stash calls) - a message was delivered again without any Unstash; deliveries seen: " + " ".join(f[2:]))
    if impl.startswith("UNSTABLE"):
        return ("the same script, run again on an actor whose messages travel in recycled ReceiveContext objects, gave different "
                "observations (state survives in a pooled context): " + impl[:300])
    if impl.startswith("LOST"):
        return "a message sent to the actor was never delivered although the mailbox was drained (" + impl + ")"
    if impl in ("CRASH deadline", "CRASH timeout-abort", "CRASH too-many-crashes"):
        return None  # the engine stopped running cases; nothing was observed
    if impl.startswith("HANG"):
        return "the actor never quiesced / never reached a gate within the watchdog (" + impl + ")"
    if impl.startswith(("CRASH", "panic", "spawn-error", "tell-error")):
        return "harness failed: " + impl
    if judge is not None:
        return None if judge.startswith("ok") else judge
    return _check(case, impl)


def classify(case, impl, why):
    return None


def shrink(case):
    p = _parse(case)
    if p is None:
        return
    buf, batches, ds = p
    for i in range(len(ds)):
        yield _line(buf, batches, ds[:i] + ds[i + 1:])
    for bi, b in enumerate(batches):
        for j in range(len(b)):
            yield _line(buf, batches[:bi] + [b[:j] + b[j + 1:]] + batches[bi + 1:], ds)
    if len(batches) > 1:
        yield _line(buf, [[x for b in batches for x in b]], ds)
    for i, d in enumerate(ds):
        if d != "h":
            yield _line(buf, batches, ds[:i] + ["h"] + ds[i + 1:])
            if len(d) > 1:
                for j in range(len(d)):
                    yield _line(buf, batches, ds[:i] + [d[:j] + d[j + 1:]] + ds[i + 1:])

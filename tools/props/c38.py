"""C38 — CRDT merge is a join (commutative, associative, idempotent w.r.t. the observable value,
inflationary, pure).  E2 on the real crdt package: register machine over 2-4 variables.
Case / dump format: harness/verifdrv/c38/main.go, harness/inpkg/crdt/zz_verif_c38.go."""
import itertools

ID = "C38"
LEAN_MODULES = ["GoaktVerif.Props.C38"]
THEOREMS = ["GoaktVerif.C38." + t for t in [
    "GCounter_join", "PNCounter_join", "Flag_join",
    "LWW_join", "LWW_join_unique_stamps", "LWW_assoc_idem_infl", "LWW_comm_shared_node_refuted",
    "MV_join", "ORSet_join",
    "ORMap_comm_idem_infl", "ORMap_assoc_guarded", "ORMap_assoc_keys", "ORMap_assoc_refuted",
    "C38_refuted", "C38_partial",
    # invariants behind the laws (each is an induction over the reachability predicate)
    "GCounter.wf_of_reachable", "ORSet.wf_of_reachable", "ORMap.wf_of_reachable", "MV.inv_of_reachable", "LWW.inv_of_reachable",
]]
INPKG = ["crdt/zz_verif_c38.go"]
TIMEOUT = 1500
MANIFEST = {
    "level_text": "Kernel-checked theorems over hand-written Lean models of all seven CRDT types (field by field incl. delta/dirty bookkeeping): for EVERY state reachable by any operation sequence with any arguments on any replicas, merged in any grouping (inductive Reachable predicates; for MVRegister reachable systems of replicas writing under their own node id), Merge is commutative, associative, idempotent w.r.t. the replicated state and public value, and inflationary in the type's information order — proved via invariants (maps sorted, dots <= clock, a dot names one write, ORMap domain = key set). The full statement is REFUTED for the current code (C38_refuted, explicit witness replayed on the real code): ORMap.Merge is not associative on values when a key is removed and concurrently re-set (C38-F2). LWWRegister (C38-F1, fixed: Set orders a same-node same-timestamp write after the stored one) is proved a join on every reachable system of replicas writing under their own node id (LWW_join). C38_partial is the strongest true statement: everything else, ORMap associativity on the key set always and on values under the decidable guard noResurrect. Model tied to /repo by a differential run of the real crdt package after every operation (dumps of the complete internal state of every variable) and the same laws + purity judged on the implementation's own merges.",
    "level_note": "Trusted: Lean kernel + propext/Classical.choice/Quot.sound; the hand-written models are tied to the code only by the differential (bounded-exhaustive <=4 ops over 3 replicas in thorough, random <=30 ops in both tiers), not by translation. Modelled, not verified: node ids / elements / values are naturals (harness names node k 'n%04d' so Go string order = numeric order), dot counters are unbounded Nat (uint64 wrap needs 2^64 writes), ORMap values are GCounters in the differential (the theorems are generic in the value CRDT), Merge with a value of another CRDT type (returns the receiver) is not modelled. Purity is by construction in Lean; on the Go side it is a test (before/after dumps around every Merge/Clone, mutation of results).",
    "technique": "Lean 4 proofs (invariants over an inductive reachability predicate) on a hand-written model of the crdt package, model/implementation differential on op sequences, algebraic-law oracle on the implementation's own merges",
}
TRUSTED = [
    "hand-written models Model/Crdt/*.lean, tied to /repo/crdt by the differential only (every op, complete internal state incl. delta/dirty, all variables)",
    "node ids, elements and register values are naturals; the harness names node k n%04d ('' for 0) so that Go's string order on node ids is the numeric order",
    "dot counters are unbounded (a uint64 counter wraps after 2^64 writes by one node); GCounter slots and Value() wrap modulo 2^64 as in Go",
    "MVRegister laws assume the nodeID contract: only replica n calls Set(n, .) and a replica never loses its own state (MVRegister.World)",
    "ORMap values are GCounters in the differential; Merge across different CRDT types is not modelled",
]
ASSUMPTIONS = [
    "MVRegister: each node id is used by one replica only (otherwise two writes share a dot and Merge keeps the receiver's value)",
    "LWWRegister: each node id is used by one replica only, and timestamps are below MaxInt64 (the tick of Set does not apply at MaxInt64)",
]
EXHAUSTIVE = {"quick": False, "thorough": False}
EXPLANATION = ("thorough: every script of <=3 ops, and every script of 4 ops for gc pn fl lw mv (a 25000-script sample for os om), over 3 replicas / 2 nodes "
               "(3 for mv) / 2 elements from the alphabet {local update on replica i, merge replica j into i}, each followed by the law section over all 9 pairs "
               "and 27 triples; plus 700 random scripts of <=30 ops per type; quick: corpus + 22 random scripts per type")
RULE = ("per type (gc pn fl lw mv os om): random op scripts of 1..30 ops over 2-4 variables, 1-3 nodes, 2-3 elements, "
        "ending in a law section over every pair/triple of variables; thorough adds bounded-exhaustive scripts of <=4 ops over "
        "2 nodes / 2 elements; non-trivial = the law section was produced and at least one variable is not the initial state; "
        "distinct by (case, output)")

TYPES = ["gc", "pn", "fl", "lw", "mv", "os", "om"]
U64 = 2 ** 64


# ---------------------------------------------------------------------------
# generators
# ---------------------------------------------------------------------------

def type_op(rng, ty, d, a, nodes, elems):
    n = rng.choice(nodes)
    if ty == "gc":
        return f"i:{d}:{a}:{n}:{rng.choice([0, 1, 1, 2, 3, 7, 2**63, U64 - 1, U64 - 2])}"
    if ty == "pn":
        return f"{rng.choice('ik')}:{d}:{a}:{n}:{rng.choice([0, 1, 1, 2, 3, 7, 2**63 - 1, 2**63, U64 - 1])}"
    if ty == "fl":
        return f"e:{d}:{a}"
    if ty == "lw":
        return f"s:{d}:{a}:{rng.choice([0, 1, 2, 3])}:{rng.choice([-3, 0, 1, 2, 2, 5, 9])}:{rng.choice(nodes)}"
    if ty == "mv":
        return f"s:{d}:{a}:{n}:{rng.choice([0, 1, 2, 3])}"
    if ty == "os":
        r = rng.random()
        if r < 0.55:
            return f"a:{d}:{a}:{n}:{rng.choice(elems)}"
        if r < 0.93:
            return f"x:{d}:{a}:{rng.choice(elems)}"
        return f"p:{d}:{a}"
    if ty == "om":
        r = rng.random()
        if r < 0.55:
            return f"s:{d}:{a}:{n}:{rng.choice(elems)}:{rng.choice(nodes)}:{rng.choice([0, 1, 2, 5])}"
        if r < 0.93:
            return f"x:{d}:{a}:{rng.choice(elems)}"
        return f"p:{d}:{a}"
    raise ValueError(ty)


def random_case(rng, ty, maxops=30):
    """free-form script: any op on any variable (the join laws of gc pn fl lw os om need no discipline)"""
    nv = rng.choice([2, 3, 3, 3, 4]) if maxops > 8 else rng.choice([2, 3])
    nodes = list(range(1, rng.choice([1, 2, 2, 3]) + 1))
    elems = list(range(rng.choice([1, 2, 2, 3])))
    ops = []
    for _ in range(rng.randint(1, maxops)):
        r = rng.random()
        d, a, b = rng.randrange(nv), rng.randrange(nv), rng.randrange(nv)
        if r < 0.5:
            if rng.random() < 0.7:
                a = d
            ops.append(type_op(rng, ty, d, a, nodes, elems))
        elif r < 0.78:
            ops.append(f"m:{d}:{a}:{b}")
        elif r < 0.84:
            ops.append(f"c:{d}:{a}")
        elif r < 0.92:
            ops.append(f"r:{a}")
        else:
            ops.append(f"D:{d}:{a}")
        if rng.random() < 0.04:
            ops.append("L")
    ops.append("L")
    return f"{ty} {nv} " + " ".join(ops)


def replica_case(rng, ty, maxops=30):
    """replica discipline (needed by mv, and the natural use of every type): variables 0..R-1 are
    replicas, replica i writes only under its own node id i+1 and is only ever updated in place or by
    merging something into it; the remaining variables are scratch (messages, snapshots, deltas,
    merges of anything), never written to by a type operation."""
    R = rng.choice([2, 3])
    nv = R + rng.choice([0, 1, 1])
    elems = list(range(rng.choice([1, 2, 2, 3])))
    ops = []
    for _ in range(rng.randint(1, maxops)):
        r = rng.random()
        i = rng.randrange(R)
        if r < 0.45:
            ops.append(type_op(rng, ty, i, i, [i + 1], elems))
        elif r < 0.7:
            ops.append(f"m:{i}:{i}:{rng.randrange(nv)}")
        elif r < 0.76:
            ops.append(f"r:{rng.randrange(nv)}")
        elif nv > R:
            t = rng.randrange(R, nv)
            k = rng.random()
            if k < 0.4:
                ops.append(f"m:{t}:{rng.randrange(nv)}:{rng.randrange(nv)}")
            elif k < 0.7:
                ops.append(f"c:{t}:{rng.randrange(nv)}")
            else:
                ops.append(f"D:{t}:{rng.randrange(nv)}")
    ops.append("L")
    return f"{ty} {nv} " + " ".join(ops)


def exhaustive(ty, maxlen):
    """bounded-exhaustive: 3 replicas (nodes 1,2,1... no: replica i writes as node (i%2)+1 for the types whose
    laws need no node discipline, as node i+1 for mv), 2 elements, scripts of <= maxlen ops from
    {local update on replica i, merge j into i}."""
    R = 3
    alpha = []
    for i in range(R):
        n = i + 1 if ty in ("mv", "lw") else (i % 2) + 1
        if ty == "gc":
            alpha += [f"i:{i}:{i}:{n}:1", f"i:{i}:{i}:{n}:2"]
        elif ty == "pn":
            alpha += [f"i:{i}:{i}:{n}:1", f"k:{i}:{i}:{n}:2"]
        elif ty == "fl":
            alpha += [f"e:{i}:{i}"]
        elif ty == "lw":
            alpha += [f"s:{i}:{i}:{i}:{ts}:{n}" for ts in (1, 2)]
        elif ty == "mv":
            alpha += [f"s:{i}:{i}:{n}:{v}" for v in (0, 1)]
        elif ty == "os":
            alpha += [f"a:{i}:{i}:{n}:{e}" for e in (0, 1)] + [f"x:{i}:{i}:{e}" for e in (0, 1)]
        elif ty == "om":
            alpha += [f"s:{i}:{i}:{n}:{e}:{n}:{i + 1}" for e in (0, 1)] + [f"x:{i}:{i}:{e}" for e in (0, 1)]
        for j in range(R):
            if j != i:
                alpha.append(f"m:{i}:{i}:{j}")
    out = []
    for k in range(1, maxlen + 1):
        for seq in itertools.product(alpha, repeat=k):
            # symmetry/pruning: a script whose first op is a merge of two initial states is redundant
            if seq[0].startswith("m:"):
                continue
            out.append(f"{ty} {R} " + " ".join(seq) + " L")
    return out


def gen_cases(rng, tier):
    cases = []
    per = 22 if tier == "quick" else 700
    for ty in TYPES:
        for _ in range(per):
            if ty in ("mv", "lw"):
                cases.append(replica_case(rng, ty))
            elif rng.random() < 0.35:
                cases.append(replica_case(rng, ty))
            else:
                cases.append(random_case(rng, ty, maxops=rng.choice([6, 12, 30])))
    if tier == "thorough":
        for ty in TYPES:
            cases += exhaustive(ty, 3)
            ex4 = [c for c in exhaustive(ty, 4) if len(c.split()) == 7]
            # <=4 ops: complete for gc pn fl lw mv; a 25000-script sample of the 70k scripts for os / om
            cases += ex4 if len(ex4) <= 25000 else rng.sample(ex4, 25000)
    return cases


def search_cases(rng, tier):
    cases = []
    for ty in TYPES:
        cases += exhaustive(ty, 3)
        for _ in range(400):
            cases.append(replica_case(rng, ty) if (ty in ("mv", "lw") or rng.random() < 0.4) else random_case(rng, ty, maxops=rng.choice([4, 8, 16, 30])))
    return cases


# ---------------------------------------------------------------------------
# comparison, oracle (python mirror of Spec.C38 without the inflation clause), classification
# ---------------------------------------------------------------------------

def compare(case, impl, model):
    if impl == model:
        return None
    a, b = impl.split("|"), model.split("|")
    for i, (x, y) in enumerate(zip(a, b)):
        if x != y:
            xs, ys = x.split(";"), y.split(";")
            for p, q in zip(xs, ys):
                if p != q:
                    return f"segment {i}: impl {p[:300]!r} model {q[:300]!r}"
            return f"segment {i}: impl {x[:300]!r} model {y[:300]!r}"
    return f"segment count impl={len(a)} model={len(b)}"


def _parts(d):
    if "~" not in d:
        return [], d
    s, v = d.split("~", 1)
    return s.split("/"), v


def _sort_items(s):
    return ",".join(sorted(x for x in s.split(",") if x != ""))


def _strip_nested(s):
    out = []
    for it in s.split(","):
        if it == "":
            continue
        f = it.split(">")
        out.append(f[0] + ">" + f[1] if len(f) == 3 else it)
    return ",".join(out)


def obs(ty, d):
    f, v = _parts(d)
    g = lambda i: f[i] if i < len(f) else "?"
    if ty == "gc":
        return g(0) + "~" + v
    if ty == "pn":
        return g(0) + "/" + g(2) + "~" + v
    if ty == "fl":
        return g(0) + "~" + v
    if ty == "lw":
        return "/".join([g(0), g(1), g(2)]) + "~" + v
    if ty == "mv":
        return _sort_items(g(0)) + "/" + g(1) + "~" + _sort_items(v)
    if ty == "os":
        return g(0) + "/" + g(1) + "~" + v
    if ty == "om":
        vv = v.split("#")
        if len(vv) == 3:
            v = vv[0] + "#" + vv[1] + "#" + _strip_nested(vv[2])
        return g(0) + "/" + g(1) + "/" + _strip_nested(g(4)) + "~" + v
    return d


def law_items(impl):
    """list of dicts, one per law section"""
    out = []
    for seg in impl.split("|"):
        if seg.startswith("L;"):
            d = {}
            for it in seg.split(";")[1:]:
                if "=" in it:
                    k, v = it.split("=", 1)
                    d[k] = v
            out.append(d)
    return out


def law_failures(ty, items):
    n = len([k for k in items if k.startswith("V")])
    get = lambda k: items.get(k, "<missing " + k + ">")
    bad = []
    if get("P") != "ok":
        bad.append("pure " + get("P"))
    for i in range(n):
        if get(f"C{i}") != get(f"V{i}"):
            bad.append(f"clone {i}")
        if obs(ty, get(f"M{i}{i}")) != obs(ty, get(f"V{i}")):
            bad.append(f"idem {i}")
    for i in range(n):
        for j in range(i + 1, n):
            if obs(ty, get(f"M{i}{j}")) != obs(ty, get(f"M{j}{i}")):
                bad.append(f"comm {i} {j}")
    for i in range(n):
        for j in range(n):
            for k in range(n):
                if obs(ty, get(f"A{i}{j}{k}")) != obs(ty, get(f"B{i}{j}{k}")):
                    bad.append(f"assoc {i} {j} {k}")
    return bad


def oracle(case, impl, judge):
    if impl.startswith("CRASH") or impl.startswith("panic"):
        return "bad crash " + impl[:200]
    if impl == "bad-case":
        return None
    if judge is not None and not judge.startswith("CRASH"):
        return None if judge.startswith("ok") else judge
    ty = case.split()[0]
    bad = []
    for items in law_items(impl):
        bad += law_failures(ty, items)
    return ("bad " + ", ".join(bad[:60])) if bad else None


def _om_vals(d):
    """key -> nested state of an ORMap dump, and its element list"""
    f, v = _parts(d)
    vals = {}
    for it in (f[4].split(",") if len(f) > 4 and f[4] else []):
        p = it.split(">")
        vals[p[0]] = p[1] if len(p) > 1 else ""
    elems = [x for x in v.split("#")[0].split(",") if x != ""]
    return vals, elems


def classify(case, impl, why):
    """C38-F1: lw, every failure is `comm i j` between two registers with the same (timestamp,node) and
    different values.  C38-F2: om, every failure is `assoc i j k` where both groupings agree on the key
    set and clock and differ only in the value of keys that are absent from an intermediate merge
    (x.y or y.z) although one of its operands holds a value for them."""
    if not why or not why.startswith("bad ") or impl is None:
        return None
    ty = case.split()[0]
    fails = [f.strip() for f in why[4:].split(", ")]
    secs = law_items(impl)
    if not secs:
        return None

    def holds_in_some_section(pred):
        return any(pred(items) for items in secs)

    if ty == "lw":
        for f in fails:
            w = f.split()
            if w[0] != "comm" or len(w) != 3:
                return None
            i, j = w[1], w[2]

            def tie(items):
                a, _ = _parts(items.get("V" + i, ""))
                b, _ = _parts(items.get("V" + j, ""))
                return len(a) == 4 and len(b) == 4 and a[1] == b[1] and a[2] == b[2] and a[0] != b[0]
            if not holds_in_some_section(tie):
                return None
        return "C38-F1"
    if ty == "om":
        for f in fails:
            w = f.split()
            if w[0] != "assoc" or len(w) != 4:
                return None
            i, j, k = w[1], w[2], w[3]

            def resurrect(items):
                A, B = items.get(f"A{i}{j}{k}", ""), items.get(f"B{i}{j}{k}", "")
                fa, _ = _parts(A)
                fb, _ = _parts(B)
                if len(fa) < 6 or fa[0] != fb[0] or fa[1] != fb[1]:
                    return False      # key sets or clocks differ: not this finding
                va, ea = _om_vals(A)
                vb, eb = _om_vals(B)
                if ea != eb:
                    return False
                vi, _ = _om_vals(items.get("V" + i, ""))
                vj, _ = _om_vals(items.get("V" + j, ""))
                vk, _ = _om_vals(items.get("V" + k, ""))
                _, eij = _om_vals(items.get(f"M{i}{j}", ""))
                _, ejk = _om_vals(items.get(f"M{j}{k}", ""))
                diff = [q for q in set(va) | set(vb) if va.get(q) != vb.get(q)]
                if not diff:
                    return False
                for q in diff:
                    dropped_l = q not in eij and (q in vi or q in vj)
                    dropped_r = q not in ejk and (q in vj or q in vk)
                    if not (dropped_l or dropped_r):
                        return False
                return True
            if not holds_in_some_section(resurrect):
                return None
        return "C38-F2"
    return None


def is_trivial(case, impl):
    if impl is None or impl in ("", "bad-case") or impl.startswith("CRASH") or impl.startswith("panic"):
        return True
    segs = impl.split("|")
    return not any(s and not s.startswith("L;") and s != "N" for s in segs)


def tag(case, impl):
    f = case.split()
    t = f[0] + ":" + ("<=4" if len(f) - 3 <= 4 else "<=12" if len(f) - 3 <= 12 else "<=31")
    return t


def shrink(case):
    f = case.split()
    head, ops = f[:2], f[2:]
    body = ops[:-1] if ops and ops[-1] == "L" else ops
    for i in range(len(body)):
        yield " ".join(head + body[:i] + body[i + 1:] + ["L"])

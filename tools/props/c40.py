"""C40 — CRDT values survive encoding (internal/ddata/crdt_codec.go, internal/codec/codec.go).

Tie (E1): the real EncodeCRDT/DecodeCRDT (production CRDTValueSerializer) and EncodeCRDTKey/DecodeCRDTKey
run on states reached by generated op sequences (merges, deltas, resets, compaction and earlier wire
round trips included); full state dumps of x, Decode(Encode(x)) and of the merges are compared with the
Lean model (Model/C40.lean over Model/Crdt/*.lean).  Oracle = Spec.C40 on the implementation's canonical
`core` prints (value + causal metadata, no delta/dirty bookkeeping; crdt.VerifCore)."""

ID = "C40"
LEAN_MODULES = ["GoaktVerif.Props.C40"]
THEOREMS = [
    "GoaktVerif.C40.gc_roundtrip",
    "GoaktVerif.C40.pn_roundtrip",
    "GoaktVerif.C40.flag_roundtrip",
    "GoaktVerif.C40.lww_roundtrip",
    "GoaktVerif.C40.mv_roundtrip",
    "GoaktVerif.C40.orset_roundtrip",
    "GoaktVerif.C40.ormap_roundtrip",
    "GoaktVerif.C40.wire_core",
    "GoaktVerif.C40.observe_core",
    "GoaktVerif.C40.merge_core",
    "GoaktVerif.C40.key_roundtrip",
    "GoaktVerif.C40.key_reject",
    "GoaktVerif.C40.key_decode_sound",
    "GoaktVerif.C40.C40_holds",
]
INPKG = ["crdt/zz_verif_c38.go", "crdt/zz_verif_c40.go"]
MANIFEST = {
    "level_text": "Kernel-checked theorems over a model of EncodeCRDT/DecodeCRDT for all seven CRDT types (state models of Model/Crdt, delta/dirty bookkeeping included; element serializer and nested ORMap value codec are parameters with a round-trip law as hypothesis): for every state satisfying the representation guard and every encoding that exists, decoding succeeds and yields the same core = entries, dots, clocks, counters, timestamps, node ids (wire_core; per type *_roundtrip, ormap_roundtrip for ANY value type, hence any nesting depth), hence the same public observation (observe_core) and the same result when merged on either side with any value (merge_core, C40_holds); keys round-trip with their type, out-of-range types are rejected (key_roundtrip, key_reject, key_decode_sound). Tied to the code by a differential run of the real functions on states reached by op sequences, compared through full state dumps.",
    "level_note": "Full statement proved (C40_holds). Guard: maps sorted (representation of a Go map) and no ORSet entry with an empty dot list (RawState drops those; unreachable through the API). Encode is partial (serializer errors, e.g. the nil value of a never-set LWW register): the statement is about encodings that exist. Trusted/parameters: remote.Serializer round trip on the element domain (builtin primitives; pointers/structs/proto messages as ORSet elements or map keys compare by identity after decoding and are outside the domain), protobuf marshalling itself (the harness calls Encode/Decode in-process on message structs, C23/C25 cover bytes). delta/dirty flags are intentionally not carried (a decoded enabled Flag is dirty).",
    "technique": "Lean 4 proof over an executable codec model + function differential (E1) on the real codec with op-sequence generated states",
}
TRUSTED = [
    "remote.Serializer (CRDTValueSerializer = proto|CBOR) round-trips the element/key/value domain (hypothesis SerLaw; observed on Go ints, strings, int64, bool, float64, uint8 by the differential)",
    "protobuf wire marshalling of internalpb.CRDTData (the codec functions are exercised on message structs in-process)",
    "crdt.VerifDump / crdt.VerifCore (in-package canonical printers)",
]
RULE = ("per type (gc pn fl lw mv os om oms omm osx) random op sequences of length 0-28 over three variables: type mutators, merges, "
        "Delta(), ResetDelta(), CompactData(), earlier wire round trips; x = var 0, y = var 1; plus key cases for every data type -2..9 "
        "and raw wire enum values; non-trivial = Encode succeeded; distinct by (case, output)")

TYPES = ["gc", "pn", "fl", "lw", "mv", "os", "om", "oms", "omm", "osx"]
LITS = ["i.5", "i.6", "s.abc", "s.", "i64.5", "b.1", "b.0", "f.2.5", "u8.7", "s.n0001"]


def mut(rng, t, v):
    node = rng.choice([0, 1, 1, 2, 3])
    if t == "gc":
        return f"{v}:i:{node}:{rng.choice([0, 1, 2, 7, 2**62, 2**63 - 1])}"
    if t == "pn":
        return f"{v}:{rng.choice('id')}:{node}:{rng.choice([0, 1, 3, 9, 2**63 - 1])}"
    if t == "fl":
        return f"{v}:e"
    if t == "lw":
        return f"{v}:s:{rng.randint(0, 9)}:{rng.choice([-5, 0, 1, 1, 2, 100, 2**62])}:{node}"
    if t == "mv":
        return f"{v}:s:{node}:{rng.randint(0, 9)}"
    if t == "os":
        return f"{v}:a:{node}:{rng.randint(0, 4)}" if rng.random() < 0.7 else f"{v}:r:{rng.randint(0, 4)}"
    if t == "osx":
        return f"{v}:a:{node}:{rng.choice(LITS)}" if rng.random() < 0.75 else f"{v}:r:{rng.choice(LITS)}"
    # om, oms, omm
    return f"{v}:s:{node}:{rng.randint(0, 3)}:{rng.randint(0, 5)}" if rng.random() < 0.75 else f"{v}:r:{rng.randint(0, 3)}"


def rand_case(rng, t, n):
    ops = []
    for _ in range(n):
        v = rng.choice([0, 0, 1, 1, 2])
        x = rng.random()
        if x < 0.62:
            ops.append(mut(rng, t, v))
        elif x < 0.78:
            ops.append(f"{v}:m:{rng.randrange(3)}")
        elif x < 0.84:
            ops.append(f"{v}:R")
        elif x < 0.89:
            ops.append(f"{v}:D")
        elif x < 0.92:
            ops.append(f"{v}:C")
        elif x < 0.95 and t in ("mv", "os"):
            ops.append(f"{v}:B:{rng.choice([1, 2, 3])}:{rng.choice([2**32, 2**32 + 7, 2**53 + 1, 2**63])}:{rng.randint(0, 4)}")
        else:
            ops.append(f"{v}:W")
    return t + " " + " ".join(ops)


def key_cases():
    out = ["nilkey", "nildata"]
    for dt in range(-2, 10):
        out.append(f"key k{dt} {dt}")
        out.append(f"rawkey r{dt} {dt}")
    out += ["key a/b.c 3", "rawkey x 2147483647", "rawkey x -2147483648"]
    return out


def big_cases():
    """dot counters and clocks beyond 32 / 53 bits (states built with *FromRawState)"""
    out = []
    for c in (2**32, 2**32 + 7, 2**53 + 1, 2**63):
        out.append(f"mv 0:B:1:{c}:3")
        out.append(f"mv 0:B:1:{c}:3 1:s:2:5 0:m:1 1:B:3:{c + 1}:4")
        out.append(f"os 0:B:2:{c}:1 0:a:2:2 1:a:1:1")
        out.append(f"os 1:B:2:{c}:1 0:a:1:4 0:m:1 0:r:4")
    return out


def gen_cases(rng, tier):
    cases = key_cases() + big_cases() + [t for t in TYPES]  # fresh states too
    per = 45 if tier == "quick" else 1500
    for t in TYPES:
        for _ in range(per):
            cases.append(rand_case(rng, t, rng.randint(1, 28)))
    return cases


def search_cases(rng, tier):
    cases = key_cases() + big_cases() + [t for t in TYPES]
    for t in TYPES:
        for _ in range(400 if tier == "quick" else 3000):
            cases.append(rand_case(rng, t, rng.randint(1, 16)))
    return cases


def compare(case, impl, model):
    if model == "*":
        return None
    fi, fm = impl.split("|"), model.split("|")
    if len(fi) != len(fm):
        return f"field count impl={len(fi)} model={len(fm)}: impl={impl[:200]!r} model={model[:200]!r}"
    for i, (a, b) in enumerate(zip(fi, fm)):
        if b != "*" and a != b:
            return f"field {i}: impl={a[:200]!r} model={b[:200]!r}"
    return None


def is_trivial(case, impl):
    return impl in ("", "bad-case") or impl.startswith("CRASH") or impl.endswith("|err") or impl.endswith("dec=err")


def tag(case, impl):
    t = case.split()[0]
    return t + (":err" if impl.endswith("err") else "")


def py_judge(case, impl):
    try:
        return _py_judge(case, impl)
    except (ValueError, IndexError):
        return "ok"  # malformed case line (only the shrinker can produce one)


def _py_judge(case, impl):
    f = case.split()
    if f[0] == "key":
        dt = int(f[2])
        want = f"enc={f[1]}/{dt + 1} " + (f"dec={f[1]}/{dt}" if 0 <= dt <= 6 else "dec=err")
        return "ok" if impl == want else "bad key does not round-trip: " + impl
    if f[0] == "rawkey":
        w = int(f[2])
        want = f"dec={f[1]}/{w - 1}" if 1 <= w <= 7 else "dec=err"
        return "ok" if impl == want else "bad raw key decode: " + impl
    if f[0] in ("nilkey", "nildata"):
        return "ok" if impl == "dec=err" else "bad nil accepted"
    if impl == "bad-case":
        return "ok"
    o = impl.split("|")
    if len(o) >= 9 and o[1] == "ok":
        if o[3] != o[4]:
            return "bad decoded state differs: " + o[3] + " vs " + o[4]
        if o[5] != o[6] or o[7] != o[8]:
            return "bad merging the decoded value differs from merging the original"
        return "ok"
    if len(o) == 2 and o[1] == "err" and f[0] == "lw" and o[0].startswith("_/"):
        return "ok"
    return "bad encode failed for a value in the serializer's domain"


def oracle(case, impl, judge):
    if impl.startswith("CRASH") or impl.startswith("panic"):
        return "harness failed: " + impl[:200]
    j = judge if judge is not None else py_judge(case, impl)
    return None if j.startswith("ok") else j


def classify(case, impl, why):
    return None


def shrink(case):
    f = case.split()
    if f[0] in ("key", "rawkey", "nilkey", "nildata"):
        return
    for i in range(1, len(f)):
        yield " ".join(f[:i] + f[i + 1:])

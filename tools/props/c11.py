"""C11 — a name maps to at most one running actor in a system (phase-gated scripts on one real actor system)."""
import os, re

ID = "C11"
LEAN_MODULES = ["GoaktVerif.Props.C11"]
THEOREMS = [
    "GoaktVerif.C11.inv_addProc",
    "GoaktVerif.C11.inv_end",
    "GoaktVerif.C11.step_ok",
    "GoaktVerif.C11.run_ok",
    "GoaktVerif.C11.witness_stop_race_fixed",
    "GoaktVerif.C11.witness_name_index_fixed",
    "GoaktVerif.C11.C11_refuted",
    "GoaktVerif.C11.C11_partial",
]
INPKG = ["actor/zz_verif_c11.go"]
TIMEOUT = 1500
REPO = os.environ.get("VERIF_REPO", "/repo")
MANIFEST = {
    "level_text": "Kernel-checked theorems over a phase-level machine of name-based spawning (operations = begin/end of Spawn, SpawnNamedFromFunc, SpawnChild and of Shutdown, full calls, concurrent groups; every interleaving of any number of callers is an operation sequence): the full property is REFUTED (C11_refuted: a spawn racing a stop of the same path returns a non-running PID, leaves a second instance running outside the tree and the count, and lets two instances of the path run at once); C11_partial proves, for every operation sequence without a stop in flight, that every caller receives a running PID, callers of one path receive the same PID, at most one actor per path runs at any time and the actor count equals the number of running user actors (inductive invariant, step_ok/run_ok). The model is tied to the code by running the same scripts on a real actor system with gates inside PreStart/PostStop that realise the phases deterministically; outputs and final tree/count/live-instance digests must coincide.",
    "level_note": "Partial: the interleaving granularity is the phase (single-flight join + checks + PreStart entry | PreStart return + attachAndPublish; stop flag + children + PostStop entry | PostStop return + death watch), not the instruction; golang.org/x/sync/singleflight's contract (DoChan: one leader per key, followers share its result) is assumed and pinned by source fact cases; followers of an open flight block and are only exercised through concurrent groups whose outcome is order-independent; the retry-once-on-shared-cancellation path of runSpawnActivation and context cancellation are not modelled; remote spawn, cluster publication and reliable-delivery companions are outside the model.",
    "technique": "Lean 4 inductive invariant over an operation-sequence (phase interleaving) model + script differential on a real actor system with hook gates",
}
TRUSTED = [
    "golang.org/x/sync/singleflight DoChan contract (one execution per key at a time, followers receive the leader's result); source fact cases pin runSpawnActivation / Spawn / spawnChildLocal to it",
    "phase granularity: code between two gates is executed atomically in the model; the gates sit in the PreStart and PostStop hooks of the spawned actors",
    "context cancellation and the retry-once path of runSpawnActivation, remote spawns and cluster publication are not modelled",
]
RULE = ("scripts of 2-14 operations over top-level names a,b,c and child names x,y: full/held spawns of the three kinds, concurrent groups of 2-4 spawns, "
        "followers of a held spawn (waiting, cancelled, joined), full/held stops; non-trivial = the harness produced a digest; distinct by (case, output)")
EXPLANATION = "Each script runs on a fresh real actor system and on the Lean model; per-operation results (PID identity by first appearance, running flag, errors) and the final digest (tree, actor count, live instances, instances started, paths that had two live instances) must be equal."

SRC_FACTS = {
    "fact spawn-singleflight": ("actor/spawn.go", r"func \(x \*actorSystem\) Spawn\((?s:.*?)return x\.runSpawnActivation\(ctx, x\.actorReference\(name\)\.String\(\), func\(\) \(\*PID, error\) \{"),
    "fact func-singleflight": ("actor/spawn.go", r"func \(x \*actorSystem\) SpawnNamedFromFunc\((?s:.*?)return x\.runSpawnActivation\(ctx, x\.actorReference\(name\)\.String\(\), func\(\) \(\*PID, error\) \{"),
    "fact child-singleflight": ("actor/pid.go", r"func \(pid \*PID\) spawnChildLocal\((?s:.*?)return pid\.actorSystem\.runSpawnActivation\(ctx, childAddress\.String\(\), func\(\) \(\*PID, error\) \{"),
    "fact dochan": ("actor/spawn.go", r"func \(x \*actorSystem\) runSpawnActivation\((?s:.*?)ch := x\.spawnActivation\.DoChan\(key, func\(\) \(any, error\) \{\s*return fn\(\)"),
    "fact group-field": ("actor/actor_system.go", r"spawnActivation\s+singleflight\.Group"),
}

TOP = ["a", "a", "b", "c"]
KID = ["x", "y"]


def _req(rng, tops_only=False):
    k = rng.random()
    if tops_only or k < 0.45:
        return "S." + rng.choice(TOP)
    if k < 0.6:
        return "F." + rng.choice(TOP)
    if k < 0.95:
        return "C." + rng.choice(TOP[:3]) + "." + rng.choice(KID)
    return "S." + rng.choice(KID)          # a top-level actor named like a child (name index quirk)


def _follower_of(rng, r):
    """a spawn request that shares the single flight of the held request r (same path, any kind that uses that path)"""
    f = r.split(".")
    if f[0] == "C":
        return "C." + ".".join(f[1:])
    return rng.choice(["S", "F"]) + "." + f[1]


def _case(rng, stops=True, followers=True):
    n = rng.randint(2, 14)
    toks = []
    open_s, open_k, fol = [], [], []
    for _ in range(n):
        k = rng.random()
        if k < 0.36:
            toks.append(_req(rng))
        elif k < 0.46:
            r = _req(rng)
            toks.append("b" + r)
            open_s.append(r)
        elif k < 0.55 and open_s:
            r = open_s.pop(rng.randrange(len(open_s)))
            toks.append("e" + r)
        elif k < 0.64 and open_s and followers:
            # followers of a held spawn: a second caller, possibly cancelled, then a third one
            r = rng.choice(open_s)
            q = _follower_of(rng, r)
            toks.append("f" + q)
            fol.append(q)
            if rng.random() < 0.5:
                toks.append("c" + q)
                fol.remove(q)
                q2 = _follower_of(rng, r)
                toks.append("f" + q2)
                fol.append(q2)
        elif k < 0.68 and fol:
            q = fol.pop(rng.randrange(len(fol)))
            toks.append(rng.choice(["c", "j"]) + q)
        elif k < 0.75 and not open_k:
            m = rng.randint(2, 4)
            rs, used = [], {}
            for _ in range(m):
                r = _req(rng)
                f = r.split(".")
                # a group never creates a parent and spawns its child at once (the outcome would depend on timing)
                if f[0] == "C" and any(q.split(".")[1] == f[1] and q[0] in "SF" for q in rs):
                    continue
                if f[0] in "SF" and any(q[0] == "C" and q.split(".")[1] == f[1] for q in rs):
                    continue
                if used.get(f[-1], ".".join(f[1:])) != ".".join(f[1:]):
                    continue
                used[f[-1]] = ".".join(f[1:])
                rs.append(r)
            if rs:
                toks.append("P(" + ",".join(rs) + ")")
        elif stops and k < 0.85:
            r = _req(rng)
            toks.append("K." + ".".join(r.split(".")[1:]))
        elif stops and k < 0.92:
            r = _req(rng)
            p = ".".join(r.split(".")[1:])
            toks.append("bK." + p)
            open_k.append(p)
        elif stops and open_k:
            p = open_k.pop(rng.randrange(len(open_k)))
            toks.append("eK." + p)
        else:
            toks.append(_req(rng))
    # settle: close what is open (most of the time)
    if rng.random() < 0.85:
        for r in open_s:
            toks.append("e" + r)
        for q in sorted(set(fol)):
            toks.append("j" + q)
        for p in open_k:
            toks.append("eK." + p)
    return " ".join(toks)


# every follower operation costs the harness its grace period (0.3 s): they are generated in a fraction of the scripts
def gen_cases(rng, tier):
    n, pf = (300, 0.25) if tier == "quick" else (5000, 0.06)
    return list(SRC_FACTS) + [_case(rng, followers=rng.random() < pf) for _ in range(n)]


def search_cases(rng, tier):
    n = 1500 if tier == "quick" else 8000
    return [_case(rng, stops=False, followers=rng.random() < 0.06) for _ in range(n)] + [_case(rng, followers=rng.random() < 0.06) for _ in range(n)]


def compare(case, impl, model):
    if case in SRC_FACTS:
        rel, pat = SRC_FACTS[case]
        try:
            src = open(os.path.join(REPO, rel)).read()
        except OSError as e:
            return f"cannot read {rel}: {e}"
        return None if re.search(pat, src) else f"source fact `{case}` no longer holds in {rel} (the model assumes the per-path single flight)"
    return None if impl == model else f"impl={impl!r} model={model!r}"


def oracle(case, impl, judge):
    if case in SRC_FACTS:
        return None
    if impl.startswith("CRASH") or impl.startswith("panic"):
        return "harness crashed: " + impl[:200]
    if "timeout" in impl.split(" | ")[0].split():
        return "an operation did not complete: " + impl[:200]
    if judge is not None:
        return None if judge.startswith("ok") else judge
    if " | " not in impl:
        return None
    res, d = impl.split(" | ", 1)
    for t in res.replace("[", " ").replace("]", " ").replace(",", " ").split():
        if re.fullmatch(r"p\d+s", t):
            return "bad a successful spawn returned an actor that is not running"
    f = dict(w.split("=", 1) for w in d.split() if "=" in w)
    if f.get("over"):
        return f"bad two live instances of one path ({f['over']})"
    live = [x for x in f.get("live", "").split(",") if x]
    if f.get("open") == "0" and int(f.get("num", "0")) != len(live):
        return f"bad settled actor count {f.get('num')} differs from the number of running user actors {len(live)}"
    return None


def _spawn_in_stop_window(case):
    """a spawn of path k is issued (or completes) while a stop of k is held between bK.k and eK.k"""
    held = set()
    for t in case.split():
        if t.startswith("bK."):
            held.add(t[3:])
        elif t.startswith("eK."):
            held.discard(t[3:])
        else:
            subs = t[2:-1].split(",") if t.startswith("P(") else [t]
            for s in subs:
                f = s.split(".")
                if f[0] in ("S", "F", "C", "bS", "bF", "bC", "eS", "eF", "eC") and ".".join(f[1:]) in held:
                    return True
    return False


def _shared_name(case):
    """some name is used both for a top-level actor and for a child, and a stop occurs in the script"""
    tops, kids, stop = set(), set(), False
    for t in case.split():
        subs = t[2:-1].split(",") if t.startswith("P(") else [t]
        for s in subs:
            f = s.split(".")
            k = f[0].lstrip("be") if f[0] not in ("K",) else f[0]
            if f[0] in ("K", "bK", "eK"):
                stop = True
            elif k in ("S", "F") and len(f) == 2:
                tops.add(f[1])
            elif k == "C" and len(f) == 3:
                kids.add(f[2])
    return stop and bool(tops & kids)


def _parent_stopped_while_child_held(case):
    """a stop of p is issued between bC.p.x and eC.p.x"""
    held = set()
    for t in case.split():
        f = t.split(".")
        if f[0] == "bC" and len(f) == 3:
            held.add((f[1], f[2]))
        elif f[0] == "eC" and len(f) == 3:
            held.discard((f[1], f[2]))
        elif f[0] in ("K", "bK") and len(f) == 2 and any(p == f[1] for p, _ in held):
            return True
    return False


def classify(case, impl, why):
    if not why or not why.startswith("bad "):
        return None
    if _parent_stopped_while_child_held(case):
        return "C11-F3"
    return None


def is_trivial(case, impl):
    return " | " not in (impl or "")


def tag(case, impl):
    if case in SRC_FACTS:
        return "fact"
    t = []
    if "bK." in case:
        t.append("held-stop")
    if "P(" in case:
        t.append("parallel")
    if re.search(r"\bb[SFC]\.", case):
        t.append("held-spawn")
    if re.search(r"\bf[SFC]\.", case):
        t.append("follower")
    return "+".join(t) or "sequential"

"""C29 — per-message context metadata is restored on the receiver.

Case line:  prop <tell|stell|ask|bask> <maxBatch> <reps> | <spec> | <spec> ...   (see harness/verifdrv/c29/main.go)
"""
ID = "C29"
LEAN_MODULES = ["GoaktVerif.Props.C29"]
THEOREMS = [
    "GoaktVerif.C29.foldl_set_distinct",
    "GoaktVerif.C29.restore_distinct",
    "GoaktVerif.C29.C29_roundtrip",
    "GoaktVerif.C29.C29_holds",
    "GoaktVerif.C29.C29_oracle",
    "GoaktVerif.C29.C29_per_index",
    "GoaktVerif.C29.C29_sequence",
]
TIMEOUT = 900
MANIFEST = {
    "level_text": "Kernel-checked theorem over a model of the metadata path (client injectMessageMetadata / enrichContext: first value per header, keys as written; wire: one map per RemoteMessage inside a batch, or request-level metadata; server messageMetadata / extractContextWithPropagator: http.Header.Set, i.e. textproto.CanonicalMIMEHeaderKey, applied per message to the request-level context): for ALL single-valued header maps with distinct canonical keys and ALL batches (any list of messages of any callers) every message is delivered with exactly its own headers, keys in canonical MIME form (C29_holds, C29_per_index, C29_roundtrip); same for request-level exchanges (asks, synchronous tells). Tied to the code by a differential against a real actor system with remoting on loop-back TCP and a real remoteclient.Client (coalescing on), both with a recording ContextPropagator, concurrent callers with different header maps sharing batches, plus sequences of mixed request-level and per-message calls with shrinking key sets on one client (C29_sequence); for asks the reply must answer its own request (RemoteBatchAsk in request order).",
    "level_note": "partial only in its parameters: textproto.CanonicalMIMEHeaderKey is modelled for ASCII keys (Model.C29.canonKey, compared with net/http on every generated key by the differential); protobuf map transport and TCP are assumptions; Go map iteration order is irrelevant under the stated guard (distinct canonical keys) and is outside it (observation: keys equal up to case collapse, one value wins; multi-valued headers keep only the first value). Which messages share a batch is decided by the Go scheduler in the tie (not controlled); the theorem covers every batching.",
    "technique": "Lean 4 proof (list induction) over a functional model + model/implementation differential through a real two-sided remoting round trip",
}
TRUSTED = [
    "net/http Header.Set/Add canonicalise keys with textproto.CanonicalMIMEHeaderKey (modelled by Model.C29.canonKey for ASCII; exercised by the differential)",
    "protobuf map<string,string> round-trips keys and values unchanged; TCP",
    "the recording propagator of the harness writes the http.Header the way the case line says (Add vs raw assignment)",
]
RULE = ("sequences (seq): 2..7 calls of kinds ask / batch-ask / coalesced tell on one client and one OS thread, key sets shrinking, unrelated or empty; modes tell (coalesced) / stell / ask / bask, maxBatch 1..8, 1..6 concurrent callers x 1..4 messages, header maps of 0..4 entries with "
        "mixed-case, raw (non-canonical) and non-token keys, occasional multi-valued entries; non-trivial = at least one message carried a header; distinct by (case, output)")

_KEYS = ["x-trace-id", "X-Trace-Id", "tenant", "Authorization", "a", "b-c", "x_y", "k.1", "UPPER-CASE", "mIxEd-cAsE-key", "traceparent", "x-b3-spanid", "9lives", "a-", "-a", "a--b"]
_RAWONLY = ["b@c", "we(ird", "x:y"]


def _canon(k):
    tok = "!#$%&'*+-.^_`|~"
    if not all(c.isalnum() and c.isascii() or c in tok for c in k):
        return k
    out, up = [], True
    for c in k:
        c = c.upper() if up else c.lower()
        out.append(c)
        up = c == "-"
    return "".join(out)


def _spec(rng):
    n = rng.choice([0, 1, 1, 2, 2, 3, 4])
    if n == 0:
        return "-"
    used, ents = set(), []
    tries = 0
    while len(ents) < n and tries < 30:
        tries += 1
        raw = rng.random() < 0.3
        k = rng.choice(_KEYS + (_RAWONLY if raw else []))
        ck = _canon(k)
        if ck in used or k in used:
            continue
        used.add(ck); used.add(k)
        nv = 2 if rng.random() < 0.12 else 1
        vals = ["".join(rng.choice("abcXYZ019-_.") for _ in range(rng.randint(1, 6))) for _ in range(nv)]
        ents.append(("~" if raw else "") + k + "=" + ";".join(vals))
    return ",".join(ents)


def _gen_one(rng, big=False):
    mode = rng.choice(["tell", "tell", "tell", "stell", "ask", "bask"])
    mb = rng.choice([1, 2, 3, 4, 8])
    callers = rng.randint(1, 6 if not big else 12)
    reps = rng.randint(1, 4 if not big else 8)
    return "prop %s %d %d | %s" % (mode, mb, reps, " | ".join(_spec(rng) for _ in range(callers)))


def _subspec(rng, spec):
    """a spec over a (often strictly smaller) subset of the keys of `spec`, with fresh values"""
    if spec == "-":
        return "-"
    ents = [e for e in spec.split(",") if rng.random() < 0.5]
    if not ents:
        return "-"
    out = []
    for e in ents:
        k = e.split("=", 1)[0]
        out.append(k + "=" + "".join(rng.choice("abcXYZ019") for _ in range(rng.randint(1, 5))))
    return ",".join(out)


def _gen_seq(rng):
    """one client, one goroutine: request-level calls and coalesced tells alternate, key sets mostly shrink"""
    n = rng.randint(2, 7)
    steps = []
    cur = _spec(rng)
    for i in range(n):
        kind = rng.choice("aabstttt") if i else rng.choice("aabst")
        r = rng.random()
        if r < 0.55:
            cur = _subspec(rng, cur)      # shrink
        elif r < 0.8:
            cur = _spec(rng)              # unrelated key set
        steps.append("%s:%s" % (kind, cur))
        if cur == "-" and rng.random() < 0.7:
            cur = _spec(rng)
    return "seq %d | %s" % (rng.choice([1, 2, 4, 8]), " | ".join(steps))


def _structured_seq():
    return [
        "seq 4 | a:x-trace=a0,x-tenant=acme | t:x-trace=t0",
        "seq 4 | a:x-trace=a0,x-tenant=acme | t:-",
        "seq 2 | t:a=1,b=2 | a:a=3 | t:b=4 | s:- | t:- | b:a=5,c=6 | t:c=7",
        "seq 1 | b:~raw-key=1,K=2 | t:K=3 | t:~raw-key=4",
    ]


def _structured():
    return _structured_seq() + [
        "prop tell 2 3 | x-trace-id=a1,Tenant=t | - | ~x-raw=r1,K=v1",
        "prop tell 1 4 | a=1 | a=2 | a=3 | a=4 | a=5 | a=6",
        "prop tell 8 4 | a=1 | a=2 | a=3 | a=4 | a=5 | a=6",
        "prop ask 2 2 | x-trace-id=a1 | ~lower-key=z | -",
        "prop bask 2 4 | a=1 | b=2 | -",
        "prop stell 2 2 | a=1,~b@c=3 | -",
        "prop tell 4 2 | K=v1;v2 | k2=w",
    ]


def gen_cases(rng, tier):
    n = 120 if tier == "quick" else 2500
    m = 50 if tier == "quick" else 1000
    return _structured() + [_gen_one(rng) for _ in range(n)] + [_gen_seq(rng) for _ in range(m)]


def search_cases(rng, tier):
    n = 300 if tier == "quick" else 3000
    return _structured() + [_gen_one(rng, big=(i % 4 == 0)) for i in range(n)] + [_gen_seq(rng) for _ in range(n // 2)]


def compare(case, impl, model):
    if model is None:
        return None
    return None if impl == model else "impl=%r model=%r" % (impl[:500], model[:500])


def _expected(spec):
    spec = spec.strip()
    h = {}
    order = []
    if spec in ("-", ""):
        return {}
    for part in spec.split(","):
        k, v = part.split("=", 1)
        vals = v.split(";")
        key = k[1:] if k.startswith("~") else _canon(k)
        if key not in h:
            h[key] = []
            order.append(key)
        h[key] += vals
    out = {}
    for key in order:          # Set in map order; with distinct canonical keys the order is irrelevant
        out[_canon(key)] = h[key][0]
    return out


def oracle(case, impl, judge):
    if impl.startswith(("CRASH", "panic", "system-error", "SEND-ERROR", "MISSING")):
        return "harness could not complete the run: " + impl
    if impl == "bad-case":
        return None
    if judge is not None:
        return None if judge.startswith("ok") else judge
    parts = case.split("|")
    if parts[0].split()[0] == "seq":
        reps, specs = 1, [p.strip()[2:] for p in parts[1:]]
    else:
        reps, specs = int(parts[0].split()[3]), parts[1:]
    toks = impl.split()
    if len(toks) != len(specs) * reps:
        return "bad %d messages observed, %d sent" % (len(toks), len(specs) * reps)
    for t in toks:
        if t.endswith("!reply"):
            return "bad the reply to message %s does not answer that request" % t.split("[")[0]
        ij, body = t.split("[", 1)
        body = body[:-1]
        got = dict(kv.split("=", 1) for kv in body.split(",")) if body else {}
        i = int(ij.split(".")[0])
        if got != _expected(specs[i]):
            return "bad message %s was delivered with headers [%s], its caller injected %r" % (ij, body, _expected(specs[i]))
    return None


def classify(case, impl, why):
    # no known findings; a class name keeps the shrinker on property failures (not mere model differences)
    return "C29-property-failure" if why and why.startswith(("bad", "harness")) else None


def is_trivial(case, impl):
    return (not impl) or impl.startswith(("bad-case", "CRASH", "panic", "system-error", "SEND-ERROR", "MISSING")) or "=" not in impl


def tag(case, impl):
    if case.startswith("seq"):
        kinds = "".join(p.strip()[0] for p in case.split("|")[1:])
        return "seq:" + ("ask-then-tell" if any(k in "abs" and "t" in kinds[i + 1:] for i, k in enumerate(kinds)) else "other")
    f = case.split("|")[0].split()
    t = [f[1], "mb" + f[2]]
    if "~" in case:
        t.append("raw")
    if ";" in case:
        t.append("multi")
    return ":".join(t)


def shrink(case):
    parts = case.split("|")
    head, specs = parts[0], parts[1:]
    for i in range(len(specs)):
        if len(specs) > 1:
            yield "|".join([head] + specs[:i] + specs[i + 1:])
    f = head.split()
    if f[0] != "seq" and int(f[3]) > 1:
        yield "|".join([" ".join(f[:3] + [str(int(f[3]) - 1)]) + " "] + specs)

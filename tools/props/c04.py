"""C04 — every mailbox behaves like its sequential specification (E3 controlled schedules)."""
ID = "C04"
WIP = True  # not claimed in MANIFEST until the theorems exist
LEAN_MODULES = ["GoaktVerif.Model.C04.Unbounded"]
THEOREMS = []
INPKG = ["actor/zz_verif_mbox.go"]
INSTRUMENT = ["actor/unbounded_mailbox.go"]
SITES = {
    "actor/unbounded_mailbox.go:UnboundedMailbox.Enqueue": ["Store:next", "Swap:tail", "Store:next"],
    "actor/unbounded_mailbox.go:UnboundedMailbox.Dequeue": ["Load:head", "Load:next", "Store:head", "Store:next"],
    "actor/unbounded_mailbox.go:UnboundedMailbox.IsEmpty": ["Load:head", "Load:next"],
}
JUDGE = False


def gen_cases(rng, tier):
    cases = []
    n = 200 if tier == "quick" else 3000
    for _ in range(n):
        np = rng.randint(1, 3)
        mid = 1
        progs = []
        for _p in range(np):
            ops = []
            for _ in range(rng.randint(1, 3)):
                ops.append(f"e{mid}")
                mid += 1
            progs.append(" ".join(ops))
        cons = []
        for _ in range(rng.randint(1, 5)):
            cons.append(rng.choice(["d", "d", "d", "emp", "len"]))
        progs.append(" ".join(cons))
        nt = np + 1
        sched = [str(rng.randrange(nt)) for _ in range(rng.randint(0, 30))]
        cases.append("unbounded | " + " ; ".join(progs) + " | " + " ".join(sched))
    return cases


def is_trivial(case, impl):
    return not impl.startswith("T ")


def tag(case, impl):
    return case.split("|")[0].strip()

"""C04 — every mailbox behaves like its sequential specification (E3 controlled schedules).

Case line:   <mailbox> [args] | prog0 ; prog1 ; … | schedule
  mailboxes: unbounded | segmented <segSize> | fair | uprio <pf> | usprio <pf> | bprio <cap> <pf> |
             bsprio <cap> <pf> | ring <cap> | bounded <cap>   (bounded: one sequential program)
  ops: e<k> Enqueue(message k)   e<k>@<s> … from sender s   d Dequeue   emp IsEmpty   len Len
Output line: T <tid:label …> | R <res@invoked-returned,…;…> | F <drained ids> # <Len>
"""
import os, re

ID = "C04"
LEAN_MODULES = ["GoaktVerif.Props.C04"]
_T = "GoaktVerif.C04."
THEOREMS = [_T + t for t in [
    "C04_refuted",
    "F2_unbounded_reports_empty_behind_inflight",
    "F3_fixed_fair_serves_sender",
    "F4_fixed_bounded_priority_accepts_when_not_full",
    "F5_fixed_segmented_no_recycling",
    "F6_fixed_uprio_counts_inside_lock",
    "F7_fixed_segmented_no_skip",
    "F8_fixed_segmented_no_relink",
    "F9_fixed_fair_counts_before_publishing",
    "F9b_fixed_fair_length_does_not_dip",
    "F10_fixed_fair_skips_idle_sender",
    "fair_activation_protocol_partial",
    "fair_no_stranded_sender_when_quiescent_partial",
    "fair_subqueue_frame",
    "fair_counting_identity_partial",
    "fair_no_stranded_sender_partial",
    "fair_hypothesis_instances",
    "fair_never_consumes_uncounted",
    "fair_counting_identity",
    "fair_no_stranded_sender",
    "fair_subqueue_accounting",
    "fair_wellFormed_hyp",
    "C04_spec_fifo",
    "rq_run_conserve",
    "rq_deq_none",
    "unbounded_forward_simulation",
    "unbounded_linearizable",
    "unbounded_dequeued_nodup",
    "C04_empty_sound_partial",
    "unbounded_recycled_not_aliased",
    "wellFormed_hyp",
    "uprio_priority_order",
    "intake_priority_order",
    "stable_priority_then_arrival",
    "bounded_priority_capacity",
    "uprio_empty_sound",
    "ring_capacity",
    "ring_reject_only_when_full",
    "ring_nil_only_when_head_unpublished",
    "ring_no_overwrite",
    "ring_fifo_exactly_once",
    "segmented_head_advance_rule",
    "segmented_no_skipped_slot",
    "segmented_segment_list",
    "segmented_fifo_exactly_once",
    "intake_invariants",
    "intake_conservation",
    "intake_exactly_once",
    "C04_all_refine",
    "heap_all_sequences",
    "Heap.push_inv",
    "Heap.pop_inv",
    "Heap.pop_min",
    "Heap.pop_perm",
    "Heap.push_perm",
]]
INPKG = ["actor/zz_verif_mbox.go", "actor/zz_verif_c04.go"]
INSTRUMENT = [
    "actor/unbounded_mailbox.go",
    "actor/unbounded_segmented_mailbox.go",
    "actor/unbounded_fair_mailbox.go",
    "actor/unbounded_priority_mailbox.go",
    "actor/unbounded_stable_priority_mailbox.go",
    "actor/bounded_priority_mailbox.go",
    "actor/bounded_stable_priority_mailbox.go",
    "actor/non_blocking_bounded_mailbox.go",
    "actor/priority_intake.go",
]
_A = "actor/"
SITES = {
    _A + "unbounded_mailbox.go:UnboundedMailbox.Enqueue": ["Store:next", "Swap:tail", "Store:next"],
    _A + "unbounded_mailbox.go:UnboundedMailbox.Dequeue": ["Load:head", "Load:next", "Store:head", "Store:next"],
    _A + "unbounded_mailbox.go:UnboundedMailbox.IsEmpty": ["Load:head", "Load:next"],
    _A + "unbounded_mailbox.go:UnboundedMailbox.Len": ["Load:head", "Load:next", "Load:next"],
    _A + "unbounded_segmented_mailbox.go:UnboundedSegmentedMailbox.Enqueue":
        ["Load:tail", "Add:writeIdx", "Store:data", "Add:length", "Load:next", "CAS:tail", "CAS:next", "CAS:tail"],
    _A + "unbounded_segmented_mailbox.go:UnboundedSegmentedMailbox.Dequeue":
        ["Load:head", "Load:writeIdx", "Load:deqIdx", "Load:data", "Store:data", "Store:deqIdx", "Add:length",
         "Load:next", "Store:head"],
    _A + "unbounded_segmented_mailbox.go:UnboundedSegmentedMailbox.IsEmpty": ["Load:head", "Load:writeIdx", "Load:deqIdx", "Load:next"],
    _A + "unbounded_segmented_mailbox.go:UnboundedSegmentedMailbox.Len": ["Load:length"],
    _A + "unbounded_fair_mailbox.go:activeSenders.enqueue": ["Store:value", "Store:next", "Swap:tail", "Store:next"],
    _A + "unbounded_fair_mailbox.go:activeSenders.dequeue": ["Load:head", "Load:next", "Store:head", "Load:value", "Store:next", "Store:value"],
    _A + "unbounded_fair_mailbox.go:UnboundedFairMailbox.Enqueue": ["Add:length", "Add:pending", "CAS:active"],
    _A + "unbounded_fair_mailbox.go:UnboundedFairMailbox.Dequeue": ["Store:active", "CAS:active", "Load:length", "Load:pending", "Add:length", "Add:pending"],
    _A + "unbounded_fair_mailbox.go:UnboundedFairMailbox.finalizeSender": ["Store:pending", "Store:active", "Load:pending", "CAS:active"],
    _A + "unbounded_fair_mailbox.go:UnboundedFairMailbox.IsEmpty": ["Load:length"],
    _A + "unbounded_fair_mailbox.go:UnboundedFairMailbox.Len": ["Load:length"],
    _A + "unbounded_priority_mailbox.go:UnboundedPriorityMailBox.Enqueue": ["Lock:lock", "Add:length"],
    _A + "unbounded_priority_mailbox.go:UnboundedPriorityMailBox.Dequeue": ["Lock:lock", "Add:length"],
    _A + "unbounded_priority_mailbox.go:UnboundedPriorityMailBox.Len": ["Load:length"],
    _A + "unbounded_stable_priority_mailbox.go:UnboundedStablePriorityMailbox.Enqueue": ["Add:length"],
    _A + "unbounded_stable_priority_mailbox.go:UnboundedStablePriorityMailbox.Dequeue": ["Load:length", "Add:length"],
    _A + "unbounded_stable_priority_mailbox.go:UnboundedStablePriorityMailbox.Len": ["Load:length"],
    _A + "bounded_priority_mailbox.go:BoundedPriorityMailbox.Enqueue": ["Load:length", "CAS:length"],
    _A + "bounded_priority_mailbox.go:BoundedPriorityMailbox.Dequeue": ["Load:length", "Add:length"],
    _A + "bounded_priority_mailbox.go:BoundedPriorityMailbox.Len": ["Load:length"],
    _A + "bounded_stable_priority_mailbox.go:BoundedStablePriorityMailbox.Enqueue": ["Load:length", "CAS:length"],
    _A + "bounded_stable_priority_mailbox.go:BoundedStablePriorityMailbox.Dequeue": ["Load:length", "Add:length"],
    _A + "bounded_stable_priority_mailbox.go:BoundedStablePriorityMailbox.Len": ["Load:length"],
    _A + "non_blocking_bounded_mailbox.go:NonBlockingBoundedMailbox.Enqueue":
        ["Load:enqueuePos", "Load:seq", "Store:seq", "CAS:enqueuePos", "Load:enqueuePos"],
    _A + "non_blocking_bounded_mailbox.go:NonBlockingBoundedMailbox.Dequeue":
        ["Load:dequeuePos", "Load:seq", "Store:seq", "CAS:dequeuePos", "Load:dequeuePos"],
    _A + "non_blocking_bounded_mailbox.go:NonBlockingBoundedMailbox.Len": ["Load:enqueuePos", "Load:dequeuePos"],
    _A + "priority_intake.go:priorityIntake.push": ["Load:head", "Store:next", "CAS:head"],
    _A + "priority_intake.go:priorityIntake.drain": ["Swap:head", "Load:next", "Store:next"],
    _A + "priority_intake.go:chainNext": ["Load:next"],
    _A + "priority_intake.go:chainUnlink": ["Store:next"],
}
JUDGE = True
TIMEOUT = 900
MANIFEST = {
    "level_text": "All nine mailbox algorithms are modelled in Lean at atomic-operation granularity (one transition per sync/atomic site of the Go code, labels as emitted by yieldinject) and tied to /repo by controlled-schedule replay: same step labels, same results with real-time stamps, same final drain. Kernel-checked: the full property C04_full (history oracle over all mailboxes, programs and schedules) is REFUTED (C04_refuted) by the witness F2 (Vyukov window, inherent), replayed on the real code (corpus/C04); eight further defects F3..F10 found by this check were repaired in /repo (fix: commits; F9: fair mailbox consumed a message before it was counted, counters drifted, sender stranded, message lost; F10: late activation, spurious nil) and their witness schedules are kept as regression tests on model and code; the reservation-queue specification is FIFO in reservation order and exactly-once for all event sequences (C04_spec_fifo, rq_run_conserve). UnboundedMailbox (the default mailbox, Vyukov MPSC list): forward simulation from the small-step model to the reservation queue for ALL schedules, any number of producers, one consumer (unbounded_forward_simulation, inductive invariant UB.Inv); corollaries for every run (unbounded_linearizable): values returned by Dequeue = the successful dequeues of the specification run = a prefix of the reservation sequence, which never repeats; accepted messages are dequeued or READY (never lost); the recycled sentinel is referenced by nobody (unbounded_recycled_not_aliased); empty-soundness under the guard 'no enqueue between reserve and publish' (C04_empty_sound_partial). Priority mailboxes: container/heap = stableHeap refines a priority queue for all operation sequences and an arbitrary strict weak order (Heap.push_inv/pop_inv/pop_min/pop_perm, heap_all_sequences); heap order is an invariant of every reachable configuration of all four priority mailbox models, so every removal takes a minimum (uprio_priority_order, intake_priority_order), priority-then-arrival for the stable variants (stable_priority_then_arrival); the bounded variants' counter never exceeds the capacity (bounded_priority_capacity); uprio's counter is exact and its critical section exclusive (uprio_empty_sound). NonBlockingBoundedMailbox (Vyukov ring): Owicki-Gries invariants for all schedules: at most size positions reserved and unreleased, slot marks, reject only when full, nil only when the head position is unpublished, no overwrite, no two owners of a position (ring_capacity, ring_reject_only_when_full, ring_nil_only_when_head_unpublished, ring_no_overwrite), and values: the messages returned by Dequeue are exactly the first dequeuePos messages of the reservation sequence, for every schedule (ring_fifo_exactly_once). UnboundedSegmentedMailbox (repaired): slot discipline and head-advance rule, segment-list invariant, and exactly-once + FIFO of the values across segment boundaries for every schedule (segmented_head_advance_rule, segmented_no_skipped_slot, segmented_segment_list, segmented_fifo_exactly_once).",
    "level_note": "Partial: the simulation to the reservation queue is proved for UnboundedMailbox; for the intake-based priority mailboxes heap refinement, capacity and the Treiber-intake conservation (accepted = inserted into the heap, in acceptance order) and the value-level exactly-once statement (returned ++ heap ++ batch rest ++ stack is a permutation of the accepted messages, intake_exactly_once) are proved; for the repaired fair mailbox (240356c, 762e7d2, 6fbb6ce) it is proved for ALL schedules that no message is consumed before it is counted (fair_never_consumes_uncounted: Owicki-Gries over ghost reservation/counting lists per sender; sub-dequeues <= reservations <= counted, pending = counted - subtracted), hence the counting identity length = sum of pending +- in flight (fair_counting_identity) and 'no stranded sender' (fair_no_stranded_sender: a sender with counted messages is active or about to be re-checked, active at quiescence) unconditionally; its sub-queues are driven by UnboundedMailbox steps only (fair_subqueue_frame); theorems named _partial keep a hypothesis on the run; NOT proved: the structure of the active-senders list (an active sender is listed exactly once), so exactly-once of the composite is tied and judged on every run only (design/C04.md). BoundedMailbox (third-party Workiva ring buffer) is a black-box parameter, tied sequentially only. sync.Pool is pinned to one P without GC in the harness and modelled as private slot + LIFO. Counter wrap-around at 2^64 is not modelled.",
    "technique": "Lean 4 small-step models + controlled-schedule differential (cooperative scheduler injected at every atomic operation) + history oracle with real-time intervals",
}
TRUSTED = [
    "tools/yieldinject + harness/vsched: the cooperative scheduler changes timing, not semantics; one logical thread runs at a time, so atomics are sequentially consistent as in the Go memory model",
    "sync.Pool under GOMAXPROCS(1) with GC off during a case behaves as private slot + LIFO (harness pins it; model mirrors it)",
    "Workiva RingBuffer (BoundedMailbox) is a parameter: FIFO of capacity roundUp(cap), Put blocks when full; sampled sequentially only",
    "uint64 positions / sequence numbers do not wrap (2^64 operations out of reach)",
]
RULE = ("per mailbox: 1-4 producers x <=3 ops + one consumer, schedules random / few-context-switch blocks / PCT-style; "
        "capacities {1,2,3,4,5,8}, priority functions lt/gt/d2(ties)/m3(ties); ring wrap-around cases; segmented cases crossing "
        "1-3 segment boundaries (real segmentSize) with recycling; non-trivial = the run produced a trace; distinct by (case, output)")
EXPLANATION = ("evaluations = controlled schedules executed on the real mailbox code and replayed on the Lean model "
               "(labels, results, stamps, drain compared); the oracle (python + Lean judge) checks exactly-once, order, "
               "empty-soundness and capacity on the implementation's history")

REPO = os.environ.get("VERIF_REPO", "/repo")
PFS = ["lt", "gt", "d2", "m3"]
CAPS = [1, 2, 3, 4, 5, 8]
FIFO_TYPES = {"unbounded", "segmented", "ring", "bounded"}
PRIO_TYPES = {"uprio", "usprio", "bprio", "bsprio"}
STABLE_TYPES = {"usprio", "bsprio"}
VYUKOV_TYPES = {"unbounded", "fair", "ring", "segmented"}   # reserve/publish windows (finding C04-F2)


def seg_size():
    """the Go constant segmentSize, read from the CURRENT source (the harness refuses another value)"""
    try:
        src = open(os.path.join(REPO, "actor", "unbounded_segmented_mailbox.go")).read()
        m = re.search(r"const\s+segmentSize\s*=\s*(\d+)", src)
        if m:
            return int(m.group(1))
    except OSError:
        pass
    return 256


def lt_of(pf):
    return {"lt": lambda a, b: a < b, "gt": lambda a, b: a > b,
            "d2": lambda a, b: a // 2 < b // 2, "m3": lambda a, b: a % 3 < b % 3}[pf]


def pow2_at_least(n, floor):
    p = floor
    while p < n:
        p *= 2
    return p


def eff_cap(kind, args):
    if kind == "ring":
        return pow2_at_least(int(args[0]), 2)
    if kind == "bounded":
        return pow2_at_least(int(args[0]), 1)
    if kind in ("bprio", "bsprio"):
        return int(args[0])
    return None


# ---------------------------------------------------------------------------
# generators
# ---------------------------------------------------------------------------

def _sched_random(rng, nt, n):
    return [rng.randrange(nt) for _ in range(n)]


def _sched_blocks(rng, nt, nblocks, maxrun):
    """few context switches: each block lets one thread run several steps in a row"""
    out = []
    for _ in range(nblocks):
        out += [rng.randrange(nt)] * rng.randint(1, maxrun)
    return out


def _sched_pct(rng, nt, n, d=2):
    """PCT-style: run the highest-priority thread; at d random change points demote the running one"""
    prio = list(range(nt))
    rng.shuffle(prio)
    change = sorted(rng.randrange(max(n, 1)) for _ in range(d))
    out = []
    for i in range(n):
        if change and i == change[0]:
            change.pop(0)
            prio.append(prio.pop(0))
        # the top thread may already be done; interleave a second one sometimes so the run advances
        out.append(prio[0] if rng.random() < 0.85 else prio[1 % nt])
    return out


def _schedule(rng, nt, steps):
    k = rng.random()
    if k < 0.4:
        return _sched_random(rng, nt, rng.randint(0, steps))
    if k < 0.75:
        return _sched_blocks(rng, nt, rng.randint(1, 8), max(2, steps // 3))
    return _sched_pct(rng, nt, rng.randint(1, steps))


def _cfg(rng, kind):
    if kind == "segmented":
        return f"segmented {seg_size()}"
    if kind in ("uprio", "usprio"):
        return f"{kind} {rng.choice(PFS)}"
    if kind in ("bprio", "bsprio"):
        return f"{kind} {rng.choice(CAPS)} {rng.choice(PFS)}"
    if kind == "ring":
        return f"ring {rng.choice(CAPS)}"
    return kind


def _small_case(rng, kind, tier):
    np_ = rng.randint(1, 3) if tier == "quick" else rng.randint(2, 4)
    mid = 1
    progs = []
    keys = [0, 1, 2]
    for _p in range(np_):
        ops = []
        for _ in range(rng.randint(1, 3)):
            if rng.random() < 0.12:
                ops.append("len")      # Len from any goroutine; IsEmpty/Dequeue belong to the one consumer
                continue
            if kind == "fair":
                ops.append(f"e{mid}@{rng.choice(keys)}" if rng.random() < 0.8 else f"e{mid}")
            else:
                ops.append(f"e{mid}")
            mid += 1
        progs.append(" ".join(ops))
    cons = [rng.choice(["d", "d", "d", "d", "emp", "len"]) for _ in range(rng.randint(1, 6))]
    progs.append(" ".join(cons))
    nt = np_ + 1
    steps = 6 * sum(len(p.split()) for p in progs)
    sched = _schedule(rng, nt, steps)
    return _cfg(rng, kind) + " | " + " ; ".join(progs) + " | " + " ".join(map(str, sched))


def _bounded_case(rng):
    cap = rng.choice(CAPS)
    eff = pow2_at_least(cap, 1)
    held, mid, ops = 0, 1, []
    for _ in range(rng.randint(1, 14)):
        r = rng.random()
        if r < 0.5 and held < eff:        # Put on a full ring blocks: never generated
            ops.append(f"e{mid}")
            mid += 1
            held += 1
        elif r < 0.85:
            ops.append("d")
            held = max(0, held - 1)
        else:
            ops.append(rng.choice(["emp", "len"]))
    return f"bounded {cap} | " + " ".join(ops) + " | "


def _segment_boundary_case(rng, crossings):
    """enough messages to cross `crossings` segment boundaries; concurrency concentrated around the boundaries"""
    S = seg_size()
    total = crossings * S + rng.randint(1, 4)
    # thread 0: the bulk producer; thread 1: a second producer; thread 2: consumer
    p0 = [f"e{i}" for i in range(1, total + 1)]
    p1 = [f"e{100000 + i}" for i in range(1, rng.randint(2, 5))]
    ndeq = rng.choice([0, 3, S, S + 3]) if crossings < 2 else crossings * S - rng.randint(0, 3)
    cons = ["d"] * ndeq + [rng.choice(["emp", "len", "d"])]
    sched = []
    done0 = 0
    for c in range(crossings):
        # fill up to a few slots before the boundary without interleaving (4 steps per enqueue)
        fill = (c + 1) * S - rng.randint(1, 3) - done0
        sched += [0] * (4 * fill)
        done0 += fill
        # interleave all three threads around the boundary (newSegment has S+5 steps)
        sched += _sched_blocks(rng, 3, rng.randint(3, 10), S // 2 + 8)
        # let the consumer drain a full segment so it is recycled
        if crossings >= 2:
            sched += [2] * (7 * S + 12)
    sched += _sched_random(rng, 3, rng.randint(0, 40))
    return f"segmented {S} | " + " ; ".join([" ".join(p0), " ".join(p1), " ".join(cons)]) + " | " + " ".join(map(str, sched))


def _ring_wrap_case(rng):
    """the ring indices wrap: more enqueues than slots, consumer keeps up"""
    cap = rng.choice([1, 2, 3, 4])
    n = 3 * pow2_at_least(cap, 2) + rng.randint(0, 3)
    p0 = [f"e{i}" for i in range(1, n + 1)]
    p1 = [f"e{1000 + i}" for i in range(1, rng.randint(2, 4))]
    cons = ["d"] * (n + rng.randint(0, 3))
    sched = _sched_random(rng, 3, rng.randint(20, 12 * n))
    return f"ring {cap} | " + " ; ".join([" ".join(p0), " ".join(p1), " ".join(cons)]) + " | " + " ".join(map(str, sched))


KINDS = ["unbounded", "segmented", "fair", "uprio", "usprio", "bprio", "bsprio", "ring"]


_FAIR_LATE = [
    # (programs, blocks): the witnesses of C04-F9 / F9b / F10 as (thread, steps) blocks
    ("e1@1 e4@1 ; e2@1 ; e3@1 ; d d d d d",
     [(0, 10), (3, 13), (1, 5), (3, 6), (3, 15), (2, 3), (1, 5), (3, 16), (2, 7), (3, 12), (0, 5), (3, 2)]),
    ("e1@2 ; e2@2 ; e3@2 ; e5@1 ; e6@1 ; d d d d d",
     [(0, 10), (5, 13), (1, 5), (5, 6), (5, 15), (2, 3), (1, 5), (5, 16), (3, 2), (4, 10), (5, 12), (3, 3), (2, 7), (5, 16)]),
    ("e1@1 ; e2@1 ; e3@2 ; d d len d d",
     [(0, 10), (3, 13), (1, 5), (3, 6), (3, 15), (1, 5), (2, 10), (3, 1), (3, 12), (3, 15)]),
]


def _fair_late_activation_case(rng):
    """neighbourhood of the late-activation schedules (a producer parked between `Add:pending` = 1 and its
    `CAS:active` while the consumer serves and deactivates the sender): block lengths and owners perturbed"""
    progs, seq = rng.choice(_FAIR_LATE)
    nt = len(progs.split(";"))
    out = []
    for (t, n) in seq:
        r = rng.random()
        if r < 0.25:
            n = max(0, n + rng.choice([-3, -2, -1, 1, 2, 3]))
        elif r < 0.30:
            t = rng.randrange(nt)
        out.append((t, n))
    if rng.random() < 0.3:
        i = rng.randrange(len(out) - 1)
        out[i], out[i + 1] = out[i + 1], out[i]
    if rng.random() < 0.5:
        progs = progs + " d"
    sched = []
    for t, n in out:
        sched += [t] * n
    return "fair | " + progs + " | " + " ".join(map(str, sched))


def gen_cases(rng, tier):
    cases = []
    per = 60 if tier == "quick" else 2200
    for kind in KINDS:
        for _ in range(per):
            cases.append(_small_case(rng, kind, tier))
    for _ in range(40 if tier == "quick" else 600):
        cases.append(_bounded_case(rng))
    for _ in range(10 if tier == "quick" else 150):
        cases.append(_ring_wrap_case(rng))
    for _ in range(2 if tier == "quick" else 25):
        cases.append(_segment_boundary_case(rng, 1))
    for _ in range(1 if tier == "quick" else 25):
        cases.append(_segment_boundary_case(rng, 2))
    if tier == "thorough":
        for _ in range(4):
            cases.append(_segment_boundary_case(rng, 3))
    for _ in range(25 if tier == "quick" else 600):
        cases.append(_fair_late_activation_case(rng))
    return cases


def search_cases(rng, tier):
    cases = []
    for kind in KINDS:
        for _ in range(1500):
            cases.append(_small_case(rng, kind, "thorough"))
    for _ in range(300):
        cases.append(_bounded_case(rng))
    for _ in range(100):
        cases.append(_ring_wrap_case(rng))
    for _ in range(20):
        cases.append(_segment_boundary_case(rng, rng.choice([1, 2])))
    for _ in range(600):
        cases.append(_fair_late_activation_case(rng))
    return cases


# ---------------------------------------------------------------------------
# implementation oracle (independent of the Lean model): evaluated on R / F / T of the real run
# ---------------------------------------------------------------------------

class Ev:
    __slots__ = ("tid", "op", "kind", "id", "key", "res", "s", "e")

    def __repr__(self):
        return f"{self.tid}:{self.op}={self.res}@{self.s}-{self.e}"


def parse(case, impl):
    """-> (kind, args, events, drained, final_len, trace) or a string describing why it cannot be parsed"""
    cp = case.split("|")
    if len(cp) != 3:
        return "bad-case"
    cfg = cp[0].split()
    kind, args = cfg[0], cfg[1:]
    progs = [p.split() for p in cp[1].split(";")]
    m = re.match(r"^T ?(.*?) ?\| R (.*?) \| F ?(.*)$", impl)
    if not m:
        return "unparsable output: " + impl[:80]
    trace = m.group(1).split()
    rs = [r.split(",") if r else [] for r in m.group(2).split(";")]
    fin = m.group(3)
    if "#" not in fin:
        return "unfinished run: F=" + fin[:40]
    ids, flen = fin.split("#")
    try:
        drained = [int(x) for x in ids.split()]
        final_len = int(flen)
    except ValueError:
        return "bad final digest: " + fin[:60]
    if len(rs) != len(progs):
        return "thread count mismatch in R"
    evs = []
    clock = 0
    for tid, (prog, res) in enumerate(zip(progs, rs)):
        if len(prog) != len(res):
            return f"thread {tid} finished {len(res)} of {len(prog)} operations"
        for op, r in zip(prog, res):
            ev = Ev()
            ev.tid, ev.op = tid, op
            if "@" in r:
                val, st = r.rsplit("@", 1)
                a, b = st.split("-")
                ev.s, ev.e = int(a), int(b)
            else:                      # sequential black-box runs carry no stamps
                val = r
                clock += 2
                ev.s, ev.e = clock - 1, clock
            ev.res = val
            if op.startswith("e") and op != "emp":
                ev.kind = "enq"
                body = op[1:]
                ev.key = 0
                if "@" in body:
                    body, k = body.split("@")
                    ev.key = int(k)
                ev.id = int(body)
                if val not in ("ok", "full"):
                    return f"enqueue returned {val!r}"
            elif op == "d":
                ev.kind = "deq"
                ev.key = None
                if val == "nil":
                    ev.id = None
                else:
                    try:
                        ev.id = int(val)
                    except ValueError:
                        return f"dequeue returned {val!r}"
            else:
                ev.kind = op
                ev.id = ev.key = None
                if op == "emp" and val not in ("true", "false"):
                    return f"IsEmpty returned {val!r}"
                if op == "len":
                    try:
                        int(val)
                    except ValueError:
                        return f"Len returned {val!r}"
            evs.append(ev)
    return kind, args, evs, drained, final_len, trace


def check_history(kind, args, evs, drained, final_len, trace):
    """returns a list of failure strings (empty = the run satisfies the property)"""
    fails = []
    enq = {e.id: e for e in evs if e.kind == "enq"}
    accepted = {i for i, e in enq.items() if e.res == "ok"}
    deqs = sorted((e for e in evs if e.kind == "deq"), key=lambda e: e.s)
    INF = 10 ** 9
    # output sequence: (id, start, end) of every successful removal; drained ones after everything
    out = [(e.id, e.s, e.e) for e in deqs if e.id is not None] + [(i, INF + k, INF + k) for k, i in enumerate(drained)]
    pos = {}
    for p, (i, _, _) in enumerate(out):
        if i not in accepted:
            fails.append(f"phantom: {i} came out but was never accepted")
        if i in pos:
            fails.append(f"dup: message {i} came out twice")
        pos.setdefault(i, p)
    lost = sorted(accepted - set(pos))
    if lost:
        fails.append(f"lost: accepted messages never came out ids={lost} finallen={final_len}")
    elif final_len != 0:
        fails.append(f"len: Len() = {final_len} after a complete drain")
    # FIFO in real-time order (covers per-producer order)
    if kind in FIFO_TYPES or kind == "fair":
        acc = sorted((enq[i] for i in accepted if i in pos), key=lambda e: e.e)
        for ai, a in enumerate(acc):
            for b in acc:
                if a.e < b.s and (kind != "fair" or a.key == b.key) and pos[a.id] > pos[b.id]:
                    fails.append(f"order: enqueue of {a.id} returned before enqueue of {b.id} was invoked, but {b.id} came out first")
                    break
            else:
                continue
            break
    # priority order on every removal: nothing that was surely inside outranks what came out
    if kind in PRIO_TYPES:
        lt = lt_of(args[-1])
        for p, (x, xs, xe) in enumerate(out):
            if x not in enq:
                continue
            for y in accepted:
                ey = enq[y]
                if y == x or ey.e >= xs or (y in pos and pos[y] < p):
                    continue
                if lt(y, x):
                    fails.append(f"prio: {x} came out while {y} (higher priority, enqueue completed earlier) was inside")
                    break
                if kind in STABLE_TYPES and not lt(x, y) and ey.e < enq[x].s:
                    fails.append(f"stable: {x} came out before {y} (same priority, {y} arrived first)")
                    break
            else:
                continue
            break
    # empty soundness: nil / IsEmpty=true while a completed enqueue has not been dequeued
    for x in evs:
        if (x.kind == "deq" and x.id is None) or (x.kind == "emp" and x.res == "true"):
            surely = {i for i in accepted if enq[i].e < x.s}
            gone = {e.id for e in deqs if e.id is not None and e.s < x.e}
            left = sorted(surely - gone)
            if left:
                infl = [e for e in evs if e.kind == "enq" and e.s < x.e and e.e > x.s]
                fails.append(f"empty-unsound: {'Dequeue=nil' if x.kind == 'deq' else 'IsEmpty=true'} at {x.s}-{x.e} "
                             f"while completed enqueue(s) {left} not dequeued inflight={len(infl)}")
                break
    # capacity
    cap = eff_cap(kind, args)
    if cap is not None:
        for a in (enq[i] for i in accepted):
            held = sum(1 for i in accepted if enq[i].e <= a.e) - sum(1 for e in deqs if e.id is not None and e.s <= a.e)
            if held > cap:
                fails.append(f"cap: {held} messages held after enqueue of {a.id}, capacity {cap}")
                break
        for x in (e for e in evs if e.kind == "enq" and e.res == "full"):
            upper = sum(1 for i in accepted if enq[i].s < x.e) - sum(1 for e in deqs if e.id is not None and e.e < x.s)
            if upper < cap:
                other = [e for e in evs if e.kind == "enq" and e.res == "full" and e is not x and e.s < x.e and e.e > x.s]
                fails.append(f"spurious-full: enqueue of {x.id} rejected with at most {upper} of {cap} slots taken "
                             f"overlapping-rejected={len(other)}")
                break
    elif any(e.kind == "enq" and e.res == "full" for e in evs):
        fails.append("full: an unbounded mailbox rejected a message")
    return fails


_KIND = {"phantom": "exactly-once", "dup": "exactly-once", "lost": "exactly-once", "len": "len", "order": "order",
         "prio": "prio", "stable": "prio", "empty-unsound": "empty-unsound", "cap": "cap", "spurious-full": "cap", "full": "cap"}


def oracle(case, impl, judge):
    """python evaluation of the property on the implementation's history (it carries the details the
    classifier needs); the Lean judge (Spec/C04.lean `verdict`, the functions C04_full is stated with)
    must agree with it clause by clause"""
    if impl is None:
        return None
    if impl == "bad-case":
        return "harness rejected the case (constructor arguments / segment size differ from what the case assumes)"
    if impl.startswith("CRASH") or impl.startswith("panic") or impl == "stuck":
        return "implementation " + impl[:120]
    if "!stuck" in impl or " cap |" in impl or impl.startswith("T cap"):
        return "a logical thread did not finish (stuck or spinning)"
    if "panic:" in impl:
        return "panic inside a mailbox operation: " + impl[impl.index("panic:"):][:100]
    p = parse(case, impl)
    if isinstance(p, str):
        return p
    fails = check_history(*p)
    mine = ("bad " + _KIND.get(fails[0].split(":")[0], "?")) if fails else "ok"
    if judge is not None and judge != mine:
        return f"judge: Lean spec oracle says {judge!r}, python mirror says {mine!r}" + (" (" + fails[0] + ")" if fails else "")
    if fails and p[0] == "fair":
        late, unc = fair_events(case, impl)
        return fails[0] + f" [late-activation={late} uncounted-consumption={unc}]"
    return fails[0] if fails else None


def fair_events(case, impl):
    """(late_activation, uncounted_consumption) of a fair-mailbox run, recomputed from the trace
    (diagnostic only since 762e7d2/6fbb6ce: F9/F10 are repaired, `classify` no longer uses it; `oracle` appends it to a fair-mailbox failure).
    pending[k] is replayed from the `Add:pending` steps: the n-th one of a producer thread belongs to its
    n-th enqueue (key from the program), the n-th one of the consumer to its n-th successful Dequeue (key of
    the message it returned); `Store:pending` is finalizeSender's reset to 0.
    late activation  = a producer's CAS:active succeeds (its next step is Store:value) while pending[k] <= 0;
    uncounted consumption = the consumer decrements pending[k] while it is <= 0."""
    try:
        cp = case.split("|")
        progs = [p.split() for p in cp[1].split(";")]
        ct = len(progs) - 1
        keyof = {}
        enqkeys = []
        for p in progs:
            ks = []
            for op in p:
                if op.startswith("e") and op != "emp":
                    body = op[1:].split("@")
                    k = int(body[1]) if len(body) > 1 else 0
                    keyof[int(body[0])] = k
                    ks.append(k)
            enqkeys.append(ks)
        parts = impl.split("|")
        toks = [t for t in parts[0].split()[1:] if ":" in t]
        res = parts[1].split()[1].split(";")[ct] if len(parts) > 1 else ""
        got = []
        for op, r in zip(progs[ct], res.split(",")):
            v = r.split("@")[0]
            if op == "d" and v.isdigit():
                got.append(int(v))
        pend = {}
        nadd = [0] * len(progs)
        cur = {}
        late = uncounted = False
        steps = [(int(t.split(":", 1)[0]), t.split(":", 1)[1]) for t in toks]
        for i, (t, lab) in enumerate(steps):
            if lab == "Add:pending":
                if t == ct:
                    if nadd[t] >= len(got):
                        continue
                    k = keyof.get(got[nadd[t]], 0)
                    if pend.get(k, 0) <= 0:
                        uncounted = True
                    pend[k] = pend.get(k, 0) - 1
                else:
                    if nadd[t] >= len(enqkeys[t]):
                        continue
                    k = enqkeys[t][nadd[t]]
                    pend[k] = pend.get(k, 0) + 1
                cur[t] = k
                nadd[t] += 1
            elif lab == "Store:pending" and t == ct and t in cur:
                pend[cur[t]] = 0
            elif lab == "CAS:active" and t != ct and t in cur:
                nxt = next((l for (u, l) in steps[i + 1:] if u == t), None)
                if nxt == "Store:value" and pend.get(cur[t], 0) <= 0:
                    late = True
        return late, uncounted
    except Exception:
        return False, False


def classify(case, impl, why):
    """map an oracle failure to a known finding id — exact signature only.
    (F3..F10 are repaired in /repo; their signatures were removed so that a regression is a VIOLATION.)"""
    if not why or not impl:
        return None
    kind = case.split("|")[0].split()[0]
    if why.startswith("empty-unsound"):
        m = re.search(r"inflight=(\d+)", why)
        infl = int(m.group(1)) if m else 0
        # C04-F2: an unpublished (in-flight) enqueue hides completed ones behind it; Vyukov-style queues only;
        # IsEmpty is affected only where it follows the links (unbounded)
        if infl >= 1 and kind in VYUKOV_TYPES and ("Dequeue=nil" in why or kind == "unbounded"):
            return "C04-F2"
    # not a recorded finding: name the violated clause, so that the shrinker keeps to failures of the
    # same clause (a pure model/implementation difference has no oracle failure and is classified None)
    head = why.split(":")[0]
    if head in _KIND:
        return "unlisted-" + head
    return None


def is_trivial(case, impl):
    return not impl.startswith("T")


def tag(case, impl):
    f = case.split("|")[0].split()
    t = f[0]
    if t == "segmented":
        n = case.count(" e")
        t += "-cross" if n > seg_size() else "-small"
    return t


def shrink(case):
    cfg, progs, sched = case.split("|")
    s = sched.split()
    for cut in (len(s) // 2, len(s) - 1):
        if 0 <= cut < len(s):
            yield cfg + "|" + progs + "| " + " ".join(s[:cut])
    ps = [p.split() for p in progs.split(";")]
    for i, p in enumerate(ps):
        if len(p) > 1:
            q = [list(x) for x in ps]
            q[i] = p[:-1]
            yield cfg + "| " + " ; ".join(" ".join(x) for x in q) + " |" + sched

"""C06 — lifecycle hooks are ordered and never overlap message handling.

Lean: small-step model of pid.go's stop/passivation/restart paths over an abstract dispatch turn,
an inductive invariant for guarded schedules (C06_partial), the PoisonPill path for all schedules
(C06_pill_path), one refutation witness per clause (C06_refuted ...).
Tie: scenario differential on a REAL actor system whose hooks park at harness gates
(harness/verifdrv/c06): same script into the model under the prompt reading; the spec monitor
(Spec.C06.monOf) judges the recorded hook history of the implementation.
"""
import re

ID = "C06"
LEAN_MODULES = ["GoaktVerif.Props.C06"]
THEOREMS = [
    "GoaktVerif.C06.C06_mon_is_log",
    "GoaktVerif.C06.inv_init",
    "GoaktVerif.C06.inv_step",
    "GoaktVerif.C06.C06_overlap_external",
    "GoaktVerif.C06.C06_recv_after_poststop_external",
    "GoaktVerif.C06.C06_late_passivation_once",
    "GoaktVerif.C06.C06_restart_enters_window_only_idle",
    "GoaktVerif.C06.C06_restart_of_scheduled_actor_waits",
    "GoaktVerif.C06.C06_prestart_overlap_stale_tell",
    "GoaktVerif.C06.C06_refuted",
    "GoaktVerif.C06.C06_partial",
    "GoaktVerif.C06.C06_pill_path",
]
INPKG = ["actor/zz_verif_c06.go"]
HARNESS = "c06"
TIMEOUT = 1500
MANIFEST = {
    "level_text": "Kernel-checked theorems over a small-step model of actor/pid.go's lifecycle (Shutdown/doStop/reset, tryPassivation, restartSubtree, Tell/doReceive, the turn loop with in-turn PoisonPill handling) for ANY number of senders, stoppers, passivation attempts and restarts and ANY schedule: the full property is refuted with machine-checked witnesses (C06_refuted, C06_overlap_external, C06_recv_after_poststop_external; clause 1 only through a stale Tell: C06_prestart_overlap_stale_tell; the restart-of-a-Scheduled-actor defect C06-F3 was fixed by 4b1d5a5: C06_restart_enters_window_only_idle, C06_restart_of_scheduled_actor_waits; the clause-2 defect C06-F2 was fixed by 6f92e10 and is now the regression theorem C06_late_passivation_once); the four clauses are proved for every schedule of the PoisonPill path (C06_pill_path) and for every schedule in which the actor's turn, external stop critical sections and restart windows do not overlap (C06_partial, inductive invariant inv_step). Every witness is replayed deterministically on the real actor system (hooks parked at harness gates, no sleeps) and the same spec monitor judges the recorded hook history per stop path.",
    "level_note": "Partial: the property is false of the current code for every stop entered from outside the actor's own turn (finding C06-F1; C06-F2 and C06-F3 fixed). The dispatch turn is abstract (one turn at a time = C01, no lost wake-up = C02 are assumed); children/watchers, failing handlers and ctx.Shutdown() inside the handler are not in the model (the latter is still judged on the implementation). The tie is a scenario differential at gate granularity (PreStart/Receive/PostStop entry, stopLocker blocking observed one-sidedly within a bounded window), not an instruction-level one; cases the prompt reading makes racy are judged by the monitor only.",
    "technique": "Lean 4 inductive invariant over an interleaving model + deterministic gated-scenario differential against the real actor system + spec monitor on recorded hook histories",
}
TRUSTED = [
    "the abstract dispatch turn: at most one turn of an actor at a time (C01) and no lost wake-up (C02)",
    "stop-path attribution by the Go call stack at PostStop entry (caller of the innermost (*PID).Shutdown / tryPassivation frame)",
    "goroutine identity read from runtime.Stack",
    "the prompt reading of a script (each launched goroutine runs until it finishes, parks or blocks before the harness continues); a bounded window (250 ms) decides `pending`, and a `pending` where the model expected progress makes the case inconclusive, never an alarm",
]
RULE = ("scripts over {gates, Tell, PoisonPill, self-stop, Kill, PID.Stop, parent stop, ctx.Stop from the parent's turn, "
        "supervisor one-for-all stop, passivation attempt, Restart, worker hogging, probe} × topology {solo, child, sib} × "
        "dispatcher budget {32,1,2,3}: every stop path × {idle, mid-handler, backlog over budget} systematically, plus random "
        "scripts of 2..9 actions; non-trivial = the harness produced a hook history; distinct by (case, canonical output)")

EXTERNAL = {"kill", "stop", "parent", "sup", "ctx", "pass", "restart", "direct"}
STOPS = {"solo": ["kill", "pass", "restart", "pill"],
         "child": ["kill", "pass", "restart", "pill", "pstop", "ctx", "parent"],
         "sib": ["kill", "pass", "pill", "pstop", "ctx", "sup", "parent"]}
TERMINAL = {"parent", "sup"}


def systematic():
    cases = []
    for topo, stops in STOPS.items():
        for st in stops:
            if topo != "solo" and st in ("kill", "pass", "restart", "pill"):
                continue
            cases.append(f"{topo} | {st} t probe")                               # idle
            cases.append(f"{topo} | g+r t {st} probe g-r probe")                 # mid-handler
            cases.append(f"{topo} b=2 | g+r t t t t {st} g-r probe")             # backlog over the budget
            cases.append(f"{topo} | g+r g+p t t {st} g-r g-p probe")             # Receive after PostStop began
            cases.append(f"{topo} | g+p {st} kill t g-p probe")                  # second stop while PostStop runs
    cases += ["solo | kill pass", "solo | pill pass", "solo | pass pass", "solo | pass kill",
              "solo | g+s hog t restart unhog g-s probe", "solo | hog t kill unhog probe",
              "solo | self t", "solo | g+r t self g-r t", "solo | restart restart t probe",
              "solo | g+s restart t pill pass g-s probe t"]
    return cases


def rand_script(rng):
    topo = rng.choice(["solo", "solo", "child", "sib"])
    budget = rng.choice([32, 32, 32, 1, 2, 3])
    n = rng.randint(2, 9)
    ops = []
    closed = set()
    terminal = False
    hogged = False
    used_sup = False
    restarted = False
    restart_gated = False
    stops_issued = False
    maybe_stopped = False
    for _ in range(n):
        r = rng.random()
        if r < 0.22:
            g = rng.choice("rps")
            if g in closed:
                closed.discard(g)
                ops.append(f"g-{g}")
                if g == "p" and stops_issued:
                    maybe_stopped = True
            else:
                closed.add(g)
                ops.append(f"g+{g}")
        elif r < 0.45:
            ops.append("t")
        elif r < 0.50:
            ops.append("probe")
        elif r < 0.54 and topo == "solo":
            if hogged:
                ops.append("unhog")
            else:
                ops.append("hog")
            hogged = not hogged
        elif r < 0.57:
            ops.append("self")
            stops_issued = True
            if "p" not in closed:
                maybe_stopped = True
        else:
            cands = [s for s in STOPS[topo]]
            if terminal:
                cands = [s for s in cands if s in ("kill", "pass", "pill")]
            if hogged:
                cands = [s for s in cands if s in ("kill", "pass", "pill", "restart")]
            if used_sup:
                cands = [s for s in cands if s != "sup"]
            if stops_issued:
                # ReceiveContext.Stop on a child that is already stopping reports ErrActorNotFound through
                # rctx.Err, which makes the PARENT fail (supervision of P is outside this model)
                cands = [s for s in cands if s != "ctx"]
            if maybe_stopped:
                # once a stop may have completed, the death-watch actor removes A from the actor tree
                # asynchronously: name/tree based stops would race with it
                cands = [s for s in cands if s in ("pass", "pill", "restart")]
            if restarted and (closed or restart_gated):
                # concurrent restarts of one actor can wait for each other forever (liveness, not C06)
                cands = [s for s in cands if s != "restart"]
            if restarted:
                # a restarted actor's place in the actor tree is outside this model (C09/C11): only
                # stops that go through the PID itself afterwards
                cands = [s for s in cands if s in ("pass", "pill", "restart")]
            if not cands:
                ops.append("t")
                continue
            st = rng.choice(cands)
            ops.append(st)
            stops_issued = True
            if "p" not in closed:
                maybe_stopped = True
            if st in TERMINAL:
                terminal = True
            if st == "sup":
                used_sup = True
            if st == "restart":
                restarted = True
                restart_gated = restart_gated or bool(closed)
    cfg = topo + ("" if budget == 32 else f" b={budget}")
    return cfg + " | " + " ".join(ops)


def gen_cases(rng, tier):
    n = 110 if tier == "quick" else 3000
    cases = systematic()
    for _ in range(n):
        cases.append(rand_script(rng))
    return cases


def search_cases(rng, tier):
    return systematic() + [rand_script(rng) for _ in range(400 if tier == "quick" else 4000)]


_gid = re.compile(r"@\d+")


def canon_impl(case, out):
    """renumber goroutine ids by first appearance (stable evidence, same information for the monitor)"""
    if out is None or "| LOG" not in out:
        return out
    ids = {}

    def ren(m):
        g = m.group(0)
        if g not in ids:
            ids[g] = f"@{len(ids)}"
        return ids[g]
    return _gid.sub(ren, out)


def _split(o):
    p = [x.strip() for x in o.split("|")]
    if len(p) != 3:
        return None
    return p[0].split(), p[1], p[2]


def compare(case, impl, model):
    if model == "*" or model is None:
        return None
    if impl.startswith("CRASH") or impl == "bad-case" or model == "bad-case":
        return None if impl == model else f"impl={impl!r} model={model!r}"
    a, b = _split(_gid.sub("", impl)), _split(model)
    if a is None or b is None:
        return f"unparsable impl={impl!r} model={model!r}"
    ra, rb = a[0], b[0]
    if len(ra) != len(rb):
        return f"result count differs impl={ra} model={rb}"
    for x, y in zip(ra, rb):
        if x == "pending" and y != "blocked":
            return None  # one-sided window expired where the model expected progress: inconclusive
    rb = ["pending" if y == "blocked" else y for y in rb]
    if ra != rb:
        return f"results differ impl={' '.join(ra)} model={' '.join(rb)}"
    if a[1] != b[1]:
        return f"hook history differs impl=[{a[1]}] model=[{b[1]}]"
    if a[2] != b[2]:
        return f"final state differs impl=[{a[2]}] model=[{b[2]}]"
    return None


def is_trivial(case, impl):
    return impl is None or "| LOG" not in impl


def tag(case, impl):
    cfg, _, ops = case.partition("|")
    kinds = sorted({o for o in ops.split() if o in ("kill", "pstop", "parent", "ctx", "sup", "pass", "restart", "pill", "self")})
    return cfg.split()[0] + ":" + ("+".join(kinds) or "none")


def _monitor(impl):
    """python mirror of Spec.C06.monStep / Driver.C06.violations (used only without the Lean judge)"""
    sp = _split(impl)
    if sp is None:
        return "bad unparsable output"
    pre_done, posts, recv_by, post_by, start = False, [], None, [], "spawn"
    active = []
    out = []
    for tok in sp[1].split()[1:]:
        kind, _, rest = tok.partition("@")
        g, _, via = rest.partition("/")
        if kind == "preB":
            pre_done, posts, start = False, [], via
        elif kind == "preE":
            pre_done = True
        elif kind == "recvB":
            pv = "+".join(posts)
            if not pre_done:
                out.append("c1:" + start)
            if posts:
                out.append("c3:" + pv)
            if any(x != g for x in post_by):
                out.append("c4:" + "+".join(v for (x, v) in active if x != g))
            recv_by = g
        elif kind == "recvE":
            recv_by = None
        elif kind == "postB":
            if posts:
                out.append("c2:" + "+".join(posts + [via]))
            posts.append(via)
            if recv_by is not None and recv_by != g:
                out.append("c4:" + via)
            post_by.append(g)
            active.append((g, via))
        elif kind == "postE":
            post_by = [x for x in post_by if x != g]
            active = [(x, v) for (x, v) in active if x != g]
    seen = []
    for o in out:
        if o not in seen:
            seen.append(o)
    return "ok" if not seen else "bad " + " ".join(seen)


def oracle(case, impl, judge):
    if impl.startswith("CRASH"):
        return "harness crashed: " + impl
    if impl == "bad-case":
        return None
    v = judge if judge is not None else _monitor(impl)
    return None if v.startswith("ok") else v


def classify(case, impl, why):
    """exact signature per stop path: `c<k>:<stop paths of the incarnation, last = the PostStop involved>`"""
    if not why or not why.startswith("bad c"):
        return None
    found = []
    for tok in why.split()[1:]:
        m = re.fullmatch(r"c([1-4]):([a-z+:A-Za-z0-9_.()*]*)", tok)
        if not m:
            return None
        clause, vias = m.group(1), m.group(2).split("+")
        last = vias[-1]
        if clause == "4" and all(v in EXTERNAL for v in vias):
            found.append("C06-F1")
        elif clause == "3" and last in EXTERNAL:
            found.append("C06-F1")
        else:
            return None
    return found[0] if found else None


def shrink(case):
    cfg, _, ops = case.partition("|")
    ops = ops.split()
    for i in range(len(ops)):
        yield cfg.strip() + " | " + " ".join(ops[:i] + ops[i + 1:])

"""C14 — behaviour switching follows stack semantics (E2 through a real actor in a real actor system)."""
import itertools

ID = "C14"
LEAN_MODULES = ["GoaktVerif.Props.C14", "GoaktVerif.Props.C14.Conc"]
THEOREMS = [
    "GoaktVerif.C14.applyOp_nodes",
    "GoaktVerif.C14.applyOp_len_inv",
    "GoaktVerif.C14.good_applyOp",
    "GoaktVerif.C14.unbecome_clears",
    "GoaktVerif.C14.unbecomeStacked_keeps_base",
    "GoaktVerif.C14.C14_inprogress",
    "GoaktVerif.C14.run_eq_doc",
    "GoaktVerif.C14.run_final",
    "GoaktVerif.C14.run_events",
    "GoaktVerif.C14.C14_holds",
    "GoaktVerif.C14.C14_stack",
    "GoaktVerif.C14.C14_never_deaf",
    # concurrent layer (behavior_stack.go at atomic-operation granularity, all schedules)
    "GoaktVerif.C14.Conc.inv_init",
    "GoaktVerif.C14.Conc.inv_step",
    "GoaktVerif.C14.Conc.abs_exec",
    "GoaktVerif.C14.Conc.conc_refines",
    "GoaktVerif.C14.Conc.conc_reachable",
    "GoaktVerif.C14.Conc.conc_peek_result",
    "GoaktVerif.C14.Conc.conc_pop_empty_result",
    "GoaktVerif.C14.Conc.conc_pop_result",
    "GoaktVerif.C14.Conc.conc_len_inv",
    "GoaktVerif.C14.Conc.conc_len_quiescent",
    "GoaktVerif.C14.Conc.conc_len_reset_diverges",
    "GoaktVerif.C14.Conc.conc_len_transient_negative",
    "GoaktVerif.C14.Conc.conc_solo_step",
    "GoaktVerif.C14.Conc.conc_solo",
]
INPKG = ["actor/zz_verif_c14.go"]
# engine E3: the real behavior_stack.go under controlled schedules; SITES = the atomic-site sequence per
# function that Model/C14/Conc.lean mirrors (a change of the atomic structure breaks the correspondence)
INSTRUMENT = ["actor/behavior_stack.go"]
SITES = {
    "actor/behavior_stack.go:behaviorStack.Len": ["Load:length"],
    "actor/behavior_stack.go:behaviorStack.Peek": ["Load:top"],
    "actor/behavior_stack.go:behaviorStack.Pop": ["Load:top", "Load:next", "Add:length", "CAS:top"],
    "actor/behavior_stack.go:behaviorStack.Push": ["Load:top", "Add:length", "CAS:top"],
    "actor/behavior_stack.go:behaviorStack.Reset": ["Store:top", "Store:length"],
}
TIMEOUT = 1500
MANIFEST = {
    "level_text": "Kernel-checked theorems over a model of behaviorStack (nodes + length counter) + PID.setBehavior/resetBehavior/setBehaviorStacked/unsetBehaviorStacked + handleReceived (Peek once per message): for ALL message streams and ALL switch scripts, with no guard, the handler of every message is the top of the DOCUMENTED stack at the start of that message (Become replaces, BecomeStacked pushes, UnBecomeStacked pops but never the base, UnBecome leaves only the default) and every call made while a message is handled is executed by the behaviour that started it (C14_holds, C14_inprogress, induction under the representation invariant length = node count); the stack left behind and Len() are the documented ones (C14_stack) and no message is ever left without a handler (C14_never_deaf). The model is tied to /repo on every run by a differential against a real actor in a real actor system driven through Tell and the public ReceiveContext API. Concurrent layer (Model/C14/Conc, Props/C14/Conc): behavior_stack.go at atomic-operation granularity (one transition per sync/atomic site, any number of threads, any programs, EVERY schedule): the linked chain is a linearizable stack (conc_refines: each step changes the abstract stack by exactly the sequential effect of its linearization point; returned values are the sequential ones), Len() is refuted as linearizable (conc_len_transient_negative: reads -1; conc_len_reset_diverges: with a concurrent Reset counter and chain disagree forever) and proved eventually consistent without Reset (conc_len_inv, conc_len_quiescent) and exact at every operation boundary for one thread, which is how the PID uses it under fieldsLocker (conc_solo); tied by lockstep replay of the real code under controlled schedules (yieldinject labels, SITES).",
    "level_note": "Tie is a differential (exhaustive over all op sequences up to length 6 over 8 op tokens in the thorough tier, up to length 3 plus random scripts up to 20 calls in the quick tier), not a translation of the Go source; in the PID-level model the stack operations are atomic steps (justified by conc_solo: all PID callers hold fieldsLocker and run on the handler goroutine, i.e. one logical thread); the concurrent layer covers the CAS loops; the one unlocked caller, pid.reset() from doStop, can interleave its two stores with a handler's Push/Pop (conc_len_reset_diverges) - the actor is stopped then and resetBehavior rebuilds the stack on restart, so it is not observable through the behaviour API; linearization points are identified by the step-level forward simulation, there is no separate history-level theorem; sync/atomic assumed sequentially consistent; Go's GC never reuses a node somebody points to (no ABA).",
    "technique": "Lean 4 proof (induction over message streams and scripts, refinement to the documented list stack; inductive invariant + forward simulation over a small-step model of the lock-free stack, all schedules) + model/implementation differential through a real actor system + lockstep replay of the real stack under controlled schedules (yield injection)",
}
TRUSTED = [
    "sync/atomic operations are sequentially consistent; plain statements between two atomic sites execute with the preceding site (the granularity yieldinject gives the real code); Go's GC keeps a node alive while a goroutine points to it, so node addresses are never reused (the model allocates a fresh address at the successful CAS)",
    "the uint64 length counter is modelled as an Int (exact while fewer than 2^63 operations ran; a wrapped counter reads as -1 through int(...), as in Go)",
    "harness/verifdrv/c14: numbered closures as behaviours, counting mailbox wrapper around the real UnboundedMailbox for quiescence detection",
    "switch calls are only made from inside handlers (one goroutine at a time), so the lock-free stack's CAS loops never retry; they are modelled as atomic steps",
]
RULE = ("case = stream of messages, each carrying the switch calls its handler makes (B1-3 Become, S1-3 BecomeStacked, P UnBecomeStacked, U UnBecome); "
        "quick: every op sequence of length <= 3 one call per message, plus random scripts up to 20 calls grouped randomly into messages and followed by a pop-drain; "
        "thorough: every op sequence of length <= 6, every grouping of every sequence of length <= 4, 3000 random; "
        "bs: the bare behaviorStack under controlled schedules: 1-4 threads of Push/Pop/Peek/Len/Reset with distinct pushed values, schedules of 0-40 entries then round-robin completion "
        "(250 quick / 6000 thorough; shapes: one thread, handler + concurrent Reset, no Reset, anything); "
        "non-trivial = at least one message sent / a trace produced; distinct by (case, output)")
EXHAUSTIVE = {"quick": False, "thorough": True}
EXPLANATION = ("thorough tier enumerates all 8^0+..+8^6 = 299593 sequences over the 8 op tokens (4 ops x 3 behaviours) one call per message with a final probe, "
               "and all message groupings of the 4681 sequences of length <= 4")

OPS = ["B1", "B2", "B3", "S1", "S2", "S3", "P", "U"]


def _line(msgs):
    return "t " + ("|".join(",".join(m) for m in msgs) if msgs else "-")


def _groupings(seq):
    """all ways to cut seq into consecutive non-empty messages, plus a final probe"""
    n = len(seq)
    if n == 0:
        yield [[]]
        return
    for mask in range(1 << (n - 1)):
        msgs, cur = [], [seq[0]]
        for i in range(1, n):
            if mask >> (i - 1) & 1:
                msgs.append(cur)
                cur = []
            cur.append(seq[i])
        msgs.append(cur)
        yield msgs + [[]]


def _random_case(rng, maxops):
    n = rng.randint(1, maxops)
    # bias: mostly-well-formed scripts (push-heavy) or uniform
    style = rng.random()
    seq = []
    depth = 1
    for _ in range(n):
        if style < 0.5:
            cand = OPS
        else:
            cand = OPS[3:6] * 2 + ["P"] * (3 if depth > 1 else 0) + ["U", "B1", "B2"] + (["P"] if rng.random() < 0.05 else [])
        op = rng.choice(cand)
        seq.append(op)
        if op[0] == "S":
            depth += 1
        elif op == "P":
            depth = max(depth - 1, 0)
        else:
            depth = 1
    msgs, cur = [], []
    for op in seq:
        cur.append(op)
        if rng.random() < 0.6:
            msgs.append(cur)
            cur = []
    if cur:
        msgs.append(cur)
    # interleave probes
    out = []
    for m in msgs:
        out.append(m)
        if rng.random() < 0.3:
            out.append([])
    out.append([])
    # drain suffix reveals the whole stack through the public API
    for _ in range(rng.choice([0, 0, 2, 4, depth + 1])):
        out.append(["P"])
    out.append([])
    return _line(out)


def _bs_case(rng, nthreads, maxops, schedlen, reset):
    """bs | prog0 ; prog1 ; ... | schedule  — ops p<k> o k l r; distinct pushed values"""
    vid = 1
    progs = []
    for _ in range(nthreads):
        ops = []
        for _ in range(rng.randint(1, maxops)):
            r = rng.random()
            if r < 0.4:
                ops.append(f"p{vid}")
                vid += 1
            elif r < 0.7:
                ops.append("o")
            elif r < 0.8:
                ops.append("k")
            elif r < 0.92 or not reset:
                ops.append("l")
            else:
                ops.append("r")
        progs.append(ops)
    sched = []
    while len(sched) < schedlen:
        t = rng.randrange(nthreads)
        sched += [t] * rng.choice([1, 1, 2, 2, 3, 5])
    return "bs | " + " ; ".join(" ".join(p) for p in progs) + " | " + " ".join(map(str, sched[:schedlen]))


BS_WITNESSES = [
    "bs | p1 ; r | 0 0 1 1 0",            # Reset between a push's CAS and its Add: chain empty, len=1 for ever
    "bs | p1 ; o l | 0 0 1 1 1 1 1",      # Len() reads -1 transiently
    "bs | p1 p2 o l ; o k ; r l | 0 0 1 1 1 2 0 0",
    "bs | p1 p2 p3 o o o o l | ",         # one thread: sequential stack
    "bs | p1 r p2 l k | 0 0 0",
]


def _bs_cases(rng, tier):
    n = 250 if tier == "quick" else 6000
    cases = list(BS_WITNESSES)
    for _ in range(n):
        shape = rng.random()
        if shape < 0.15:    # the PID-level shape: one thread, Reset allowed
            cases.append(_bs_case(rng, 1, 8, rng.randint(0, 10), True))
        elif shape < 0.30:  # handler thread + a concurrent Reset (external Shutdown)
            c = _bs_case(rng, 1, 5, 0, True)
            progs = c.split("|")[1].strip()
            sched = " ".join(str(rng.randrange(2)) for _ in range(rng.randint(0, 16)))
            cases.append(f"bs | {progs} ; r | {sched}")
        elif shape < 0.65:  # 2-3 threads, no Reset: linearizable stack, counter eventually consistent
            cases.append(_bs_case(rng, rng.randint(2, 3), 4, rng.randint(0, 30), False))
        else:               # anything goes
            cases.append(_bs_case(rng, rng.randint(2, 4), 4, rng.randint(0, 40), True))
    return cases


def gen_cases(rng, tier):
    return _t_cases(rng, tier) + _bs_cases(rng, tier)


def _t_cases(rng, tier):
    cases = ["t -", "t |", "t S1,U|P||", "t S1|U|P||", "t B1|S2|U|P||"]
    maxlen = 3 if tier == "quick" else 6
    for L in range(1, maxlen + 1):
        for seq in itertools.product(OPS, repeat=L):
            cases.append("t " + "|".join(seq) + "|")
    if tier != "quick":
        for L in range(2, 5):
            for seq in itertools.product(OPS, repeat=L):
                for g in _groupings(list(seq)):
                    if len(g) != L + 1:  # the one-call-per-message grouping is already there
                        cases.append(_line(g))
    for _ in range(300 if tier == "quick" else 3000):
        cases.append(_random_case(rng, 20))
    return cases


def search_cases(rng, tier):
    return _t_search(rng, tier) + _bs_cases(rng, "quick") + [_bs_case(rng, rng.randint(2, 4), 5, rng.randint(10, 60), rng.random() < 0.5) for _ in range(1500)]


def _t_search(rng, tier):
    cases = ["t S1,U|P||", "t S1|U|P||", "t P||", "t B1|P||"]
    for L in range(1, 5):
        for seq in itertools.product(OPS, repeat=L):
            cases.append("t " + "|".join(seq) + "|")
            if L <= 3:
                cases.append(_line([list(seq), []]))
    for _ in range(1000):
        cases.append(_random_case(rng, 24))
    return cases


# ---- python mirror of Spec/C14 (used when the Lean judge is unavailable, and by classify) ----

def _parse(case):
    f = case.split()
    if len(f) != 2 or f[0] != "t":
        return None
    if f[1] == "-":
        return []
    msgs = []
    for m in f[1].split("|"):
        ops = [] if m == "" else m.split(",")
        for op in ops:
            if not (op in ("P", "U") or (len(op) == 2 and op[0] in "BS" and op[1] in "123456789")):
                return None
        msgs.append(ops)
    return msgs


def _predict(msgs, doc):
    s = [0]
    hs = []
    for m in msgs:
        hs.append(str(s[0]) if s else "-")
        if not s:
            continue
        for op in m:
            if op[0] == "B":
                s = [int(op[1])]
            elif op[0] == "S":
                s = [int(op[1])] + s
            elif op == "U":
                s = [0]
            elif op == "P":
                if doc:
                    if len(s) > 1:
                        s = s[1:]
                else:
                    s = s[1:]
    return hs, len(s)


def _impl_handlers(impl):
    return impl.split(";")[0].split()


def _impl_obs(impl):
    """(handlers, depth, len) or None"""
    f = impl.split(";")
    try:
        return f[0].split(), int(f[2][len("depth="):]), int(f[1][len("len="):])
    except (IndexError, ValueError):
        return None


def _is_bs(case):
    return case.split("|")[0].split() == ["bs"]


def _bs_oracle(case, impl):
    """property oracle on the real stack's output under a controlled schedule (python; the Lean side is the
    model replay): values are conserved, a value is popped at most once, a single-thread run is a sequential
    stack with a truthful Len(), and without Reset the final counter equals the final chain depth."""
    if impl == "bad-case":
        return None
    try:
        tpart, rpart, fpart = [x.strip() for x in impl.split("|")]
        progs = [p.split() for p in case.split("|")[1].split(";")]
        res = [r.split(",") if r else [] for r in rpart[1:].strip().split(";")] if rpart[1:].strip() else [[] for _ in progs]
        fin = dict(kv.split("=") for kv in fpart[1:].split())
    except Exception:
        return "unparsable E3 output: " + impl[:200]
    if "unfinished" in fpart or "!stuck" in tpart or " cap" in (" " + tpart):
        return "the stack operations did not terminate under the schedule: " + impl[:200]
    if len(res) != len(progs) or any(len(a) != len(b) for a, b in zip(res, progs)):
        return "wrong number of results: " + impl[:200]
    pushed = [int(op[1:]) for p in progs for op in p if op.startswith("p")]
    popped = [int(r) for p, rs in zip(progs, res) for op, r in zip(p, rs) if op == "o" and r != "nil"]
    chain = [] if fin.get("chain", "-") == "-" else [int(x) for x in fin["chain"].split(".")]
    has_reset = any(op == "r" for p in progs for op in p)
    if len(set(popped)) != len(popped):
        return f"a value was popped twice: {popped}"
    if any(v not in pushed for v in popped + chain):
        return "a value appeared that was never pushed"
    if set(popped) & set(chain):
        return "a popped value is still on the stack"
    if not has_reset:
        if sorted(popped + chain) != sorted(pushed):
            return f"values lost: pushed {sorted(pushed)} popped {sorted(popped)} left {chain}"
        if int(fin["len"]) != len(chain):
            return f"no Reset anywhere, all operations finished, but Len()={fin['len']} and {len(chain)} nodes are linked"
    if len(progs) == 1:
        st = []
        for op, r in zip(progs[0], res[0]):
            if op.startswith("p"):
                st.insert(0, int(op[1:])); exp = "ok"
            elif op == "o":
                exp = str(st.pop(0)) if st else "nil"
            elif op == "k":
                exp = str(st[0]) if st else "nil"
            elif op == "l":
                exp = str(len(st))
            else:
                st = []; exp = "ok"
            if r != exp:
                return f"single thread: {op} returned {r}, a sequential stack returns {exp}"
        if chain != st or int(fin["len"]) != len(st):
            return f"single thread: final chain {chain} len {fin['len']}, sequential stack {st}"
    return None


def compare(case, impl, model):
    if impl == "HANG-skipped":
        return None  # not run: the harness gave up after several HANG cases (those are reported)
    return None if impl == model else f"impl={impl!r} model={model!r}"


def is_trivial(case, impl):
    return impl in ("", "bad-case") or impl.startswith(("CRASH", "panic", "HANG")) or case.strip() == "t -"


def tag(case, impl):
    if _is_bs(case):
        progs = case.split("|")[1].split(";")
        return f"bs:threads={len(progs)}:{'reset' if any('r' in p.split() for p in progs) else 'noreset'}"
    msgs = _parse(case) or []
    n = sum(len(m) for m in msgs)
    b = "0" if n == 0 else "1-3" if n <= 3 else "4-6" if n <= 6 else "7-12" if n <= 12 else "13+"
    deaf = "deaf" if impl and "-" in _impl_handlers(impl) else "live"
    return f"calls:{b}:{deaf}"


def oracle(case, impl, judge):
    if _is_bs(case):
        if impl.startswith(("CRASH deadline", "CRASH timeout-abort", "CRASH too-many-crashes")):
            return None
        if impl.startswith(("CRASH", "panic")):
            return "harness failed: " + impl
        return _bs_oracle(case, impl)
    if impl == "HANG-skipped":
        return None
    if impl in ("CRASH deadline", "CRASH timeout-abort", "CRASH too-many-crashes"):
        return None  # the engine stopped running cases; nothing was observed
    if impl.startswith("HANG"):
        return "the actor never quiesced within the watchdog"
    if impl.startswith(("CRASH", "panic", "spawn-error", "tell-error")):
        return "harness failed: " + impl
    if judge is not None:
        return None if judge.startswith("ok") else judge
    msgs = _parse(case)
    if msgs is None:
        return None if impl == "bad-case" else "harness accepted an unparsable case"
    obs = _impl_obs(impl)
    if obs is None:
        return "unparsable output: " + impl
    hs, dep, ln = obs
    if any("+" in h for h in hs):
        return "a message was handled by more than one behaviour"
    if ln != dep:
        return f"length counter {ln} differs from the number of stacked nodes {dep}"
    dh, dd = _predict(msgs, True)
    if hs != dh or dep != dd:
        return "handler or stack depth differs from the documented stack; documented handlers " + " ".join(dh) + f" depth {dd}"
    return None


def classify(case, impl, why):
    if _is_bs(case):
        return None
    return None  # no open finding (C14-F1 was fixed in /repo)


def shrink(case):
    if _is_bs(case):
        cfg, progs, sched = case.split("|")
        ps = [p.split() for p in progs.split(";")]
        sc = sched.split()
        for i in range(len(sc)):
            yield f"bs | {' ; '.join(' '.join(p) for p in ps)} | {' '.join(sc[:i] + sc[i + 1:])}"
        for i, p in enumerate(ps):
            for j in range(len(p)):
                q = ps[:i] + [p[:j] + p[j + 1:]] + ps[i + 1:]
                if all(q):
                    yield f"bs | {' ; '.join(' '.join(x) for x in q)} | {' '.join(sc)}"
        return
    msgs = _parse(case)
    if not msgs:
        return
    for i in range(len(msgs)):
        yield _line(msgs[:i] + msgs[i + 1:])
    for i, m in enumerate(msgs):
        for j in range(len(m)):
            yield _line(msgs[:i] + [m[:j] + m[j + 1:]] + msgs[i + 1:])
    for i, m in enumerate(msgs):
        for j, op in enumerate(m):
            if len(op) == 2 and op[1] != "1":
                yield _line(msgs[:i] + [m[:j] + [op[0] + "1"] + m[j + 1:]] + msgs[i + 1:])

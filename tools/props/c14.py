"""C14 — behaviour switching follows stack semantics (E2 through a real actor in a real actor system)."""
import itertools

ID = "C14"
LEAN_MODULES = ["GoaktVerif.Props.C14"]
THEOREMS = [
    "GoaktVerif.C14.applyOp_nodes",
    "GoaktVerif.C14.applyOp_len_inv",
    "GoaktVerif.C14.good_applyOp",
    "GoaktVerif.C14.unbecome_clears",
    "GoaktVerif.C14.unbecomeStacked_keeps_base",
    "GoaktVerif.C14.C14_inprogress",
    "GoaktVerif.C14.run_eq_doc",
    "GoaktVerif.C14.run_final",
    "GoaktVerif.C14.run_events",
    "GoaktVerif.C14.C14_holds",
    "GoaktVerif.C14.C14_stack",
    "GoaktVerif.C14.C14_never_deaf",
]
INPKG = ["actor/zz_verif_c14.go"]
TIMEOUT = 1500
MANIFEST = {
    "level_text": "Kernel-checked theorems over a model of behaviorStack (nodes + length counter) + PID.setBehavior/resetBehavior/setBehaviorStacked/unsetBehaviorStacked + handleReceived (Peek once per message): for ALL message streams and ALL switch scripts, with no guard, the handler of every message is the top of the DOCUMENTED stack at the start of that message (Become replaces, BecomeStacked pushes, UnBecomeStacked pops but never the base, UnBecome leaves only the default) and every call made while a message is handled is executed by the behaviour that started it (C14_holds, C14_inprogress, induction under the representation invariant length = node count); the stack left behind and Len() are the documented ones (C14_stack) and no message is ever left without a handler (C14_never_deaf). The model is tied to /repo on every run by a differential against a real actor in a real actor system driven through Tell and the public ReceiveContext API.",
    "level_note": "Tie is a differential (exhaustive over all op sequences up to length 6 over 8 op tokens in the thorough tier, up to length 3 plus random scripts up to 20 calls in the quick tier), not a translation of the Go source; the CAS retry loops of the lock-free stack are modelled as atomic steps (switch calls come from the single goroutine that is handling the message, under fieldsLocker); Restart re-pushing the default and reset() on shutdown are outside the model.",
    "technique": "Lean 4 proof (induction over message streams and scripts, refinement to the documented list stack) + model/implementation differential through a real actor system",
}
TRUSTED = [
    "harness/verifdrv/c14: numbered closures as behaviours, counting mailbox wrapper around the real UnboundedMailbox for quiescence detection",
    "switch calls are only made from inside handlers (one goroutine at a time), so the lock-free stack's CAS loops never retry; they are modelled as atomic steps",
]
RULE = ("case = stream of messages, each carrying the switch calls its handler makes (B1-3 Become, S1-3 BecomeStacked, P UnBecomeStacked, U UnBecome); "
        "quick: every op sequence of length <= 3 one call per message, plus random scripts up to 20 calls grouped randomly into messages and followed by a pop-drain; "
        "thorough: every op sequence of length <= 6, every grouping of every sequence of length <= 4, 3000 random; "
        "non-trivial = at least one message sent; distinct by (case, output)")
EXHAUSTIVE = {"quick": False, "thorough": True}
EXPLANATION = ("thorough tier enumerates all 8^0+..+8^6 = 299593 sequences over the 8 op tokens (4 ops x 3 behaviours) one call per message with a final probe, "
               "and all message groupings of the 4681 sequences of length <= 4")

OPS = ["B1", "B2", "B3", "S1", "S2", "S3", "P", "U"]


def _line(msgs):
    return "t " + ("|".join(",".join(m) for m in msgs) if msgs else "-")


def _groupings(seq):
    """all ways to cut seq into consecutive non-empty messages, plus a final probe"""
    n = len(seq)
    if n == 0:
        yield [[]]
        return
    for mask in range(1 << (n - 1)):
        msgs, cur = [], [seq[0]]
        for i in range(1, n):
            if mask >> (i - 1) & 1:
                msgs.append(cur)
                cur = []
            cur.append(seq[i])
        msgs.append(cur)
        yield msgs + [[]]


def _random_case(rng, maxops):
    n = rng.randint(1, maxops)
    # bias: mostly-well-formed scripts (push-heavy) or uniform
    style = rng.random()
    seq = []
    depth = 1
    for _ in range(n):
        if style < 0.5:
            cand = OPS
        else:
            cand = OPS[3:6] * 2 + ["P"] * (3 if depth > 1 else 0) + ["U", "B1", "B2"] + (["P"] if rng.random() < 0.05 else [])
        op = rng.choice(cand)
        seq.append(op)
        if op[0] == "S":
            depth += 1
        elif op == "P":
            depth = max(depth - 1, 0)
        else:
            depth = 1
    msgs, cur = [], []
    for op in seq:
        cur.append(op)
        if rng.random() < 0.6:
            msgs.append(cur)
            cur = []
    if cur:
        msgs.append(cur)
    # interleave probes
    out = []
    for m in msgs:
        out.append(m)
        if rng.random() < 0.3:
            out.append([])
    out.append([])
    # drain suffix reveals the whole stack through the public API
    for _ in range(rng.choice([0, 0, 2, 4, depth + 1])):
        out.append(["P"])
    out.append([])
    return _line(out)


def gen_cases(rng, tier):
    cases = ["t -", "t |", "t S1,U|P||", "t S1|U|P||", "t B1|S2|U|P||"]
    maxlen = 3 if tier == "quick" else 6
    for L in range(1, maxlen + 1):
        for seq in itertools.product(OPS, repeat=L):
            cases.append("t " + "|".join(seq) + "|")
    if tier != "quick":
        for L in range(2, 5):
            for seq in itertools.product(OPS, repeat=L):
                for g in _groupings(list(seq)):
                    if len(g) != L + 1:  # the one-call-per-message grouping is already there
                        cases.append(_line(g))
    for _ in range(300 if tier == "quick" else 3000):
        cases.append(_random_case(rng, 20))
    return cases


def search_cases(rng, tier):
    cases = ["t S1,U|P||", "t S1|U|P||", "t P||", "t B1|P||"]
    for L in range(1, 5):
        for seq in itertools.product(OPS, repeat=L):
            cases.append("t " + "|".join(seq) + "|")
            if L <= 3:
                cases.append(_line([list(seq), []]))
    for _ in range(1000):
        cases.append(_random_case(rng, 24))
    return cases


# ---- python mirror of Spec/C14 (used when the Lean judge is unavailable, and by classify) ----

def _parse(case):
    f = case.split()
    if len(f) != 2 or f[0] != "t":
        return None
    if f[1] == "-":
        return []
    msgs = []
    for m in f[1].split("|"):
        ops = [] if m == "" else m.split(",")
        for op in ops:
            if not (op in ("P", "U") or (len(op) == 2 and op[0] in "BS" and op[1] in "123456789")):
                return None
        msgs.append(ops)
    return msgs


def _predict(msgs, doc):
    s = [0]
    hs = []
    for m in msgs:
        hs.append(str(s[0]) if s else "-")
        if not s:
            continue
        for op in m:
            if op[0] == "B":
                s = [int(op[1])]
            elif op[0] == "S":
                s = [int(op[1])] + s
            elif op == "U":
                s = [0]
            elif op == "P":
                if doc:
                    if len(s) > 1:
                        s = s[1:]
                else:
                    s = s[1:]
    return hs, len(s)


def _impl_handlers(impl):
    return impl.split(";")[0].split()


def _impl_obs(impl):
    """(handlers, depth, len) or None"""
    f = impl.split(";")
    try:
        return f[0].split(), int(f[2][len("depth="):]), int(f[1][len("len="):])
    except (IndexError, ValueError):
        return None


def compare(case, impl, model):
    if impl == "HANG-skipped":
        return None  # not run: the harness gave up after several HANG cases (those are reported)
    return None if impl == model else f"impl={impl!r} model={model!r}"


def is_trivial(case, impl):
    return impl in ("", "bad-case") or impl.startswith(("CRASH", "panic", "HANG")) or case.strip() == "t -"


def tag(case, impl):
    msgs = _parse(case) or []
    n = sum(len(m) for m in msgs)
    b = "0" if n == 0 else "1-3" if n <= 3 else "4-6" if n <= 6 else "7-12" if n <= 12 else "13+"
    deaf = "deaf" if impl and "-" in _impl_handlers(impl) else "live"
    return f"calls:{b}:{deaf}"


def oracle(case, impl, judge):
    if impl == "HANG-skipped":
        return None
    if impl in ("CRASH deadline", "CRASH timeout-abort", "CRASH too-many-crashes"):
        return None  # the engine stopped running cases; nothing was observed
    if impl.startswith("HANG"):
        return "the actor never quiesced within the watchdog"
    if impl.startswith(("CRASH", "panic", "spawn-error", "tell-error")):
        return "harness failed: " + impl
    if judge is not None:
        return None if judge.startswith("ok") else judge
    msgs = _parse(case)
    if msgs is None:
        return None if impl == "bad-case" else "harness accepted an unparsable case"
    obs = _impl_obs(impl)
    if obs is None:
        return "unparsable output: " + impl
    hs, dep, ln = obs
    if any("+" in h for h in hs):
        return "a message was handled by more than one behaviour"
    if ln != dep:
        return f"length counter {ln} differs from the number of stacked nodes {dep}"
    dh, dd = _predict(msgs, True)
    if hs != dh or dep != dd:
        return "handler or stack depth differs from the documented stack; documented handlers " + " ".join(dh) + f" depth {dd}"
    return None


def classify(case, impl, why):
    return None  # no open finding (C14-F1 was fixed in /repo)


def shrink(case):
    msgs = _parse(case)
    if not msgs:
        return
    for i in range(len(msgs)):
        yield _line(msgs[:i] + msgs[i + 1:])
    for i, m in enumerate(msgs):
        for j in range(len(m)):
            yield _line(msgs[:i] + [m[:j] + m[j + 1:]] + msgs[i + 1:])
    for i, m in enumerate(msgs):
        for j, op in enumerate(m):
            if len(op) == 2 and op[1] != "1":
                yield _line(msgs[:i] + [m[:j] + [op[0] + "1"] + m[j + 1:]] + msgs[i + 1:])

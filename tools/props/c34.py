"""C34 — membership events are emitted once and only after rebalancing settles (E2 on the real
cluster struct, in-package; model = Lean Model/C34; oracle = Lean Spec/C34 with a python mirror)."""
import itertools
import os

ID = "C34"
LEAN_MODULES = ["GoaktVerif.Props.C34"]
THEOREMS = [
    "GoaktVerif.C34.run_getElem",
    "GoaktVerif.C34.Inv_after",
    "GoaktVerif.C34.self_never_joined",
    "GoaktVerif.C34.self_left_only_if_notified",
    "GoaktVerif.C34.emitted_left_ts",
    "GoaktVerif.C34.left_once",
    "GoaktVerif.C34.join_once",
    "GoaktVerif.C34.gate_model",
    "GoaktVerif.C34.gate_step",
    "GoaktVerif.C34.witness_emits",
    "GoaktVerif.C34.witness_gate",
    "GoaktVerif.C34.self_never_left",
    "GoaktVerif.C34.C34_refuted",
    "GoaktVerif.C34.C34_partial",
    "GoaktVerif.C34.verdict_sound",
]
INPKG = ["internal/cluster/zz_verif_c34.go"]
MANIFEST = {
    "level_text": "Kernel-checked theorems over ALL notification histories (any length, node ids, epoch numbers, duplicates, reorderings) of a Lean model of internal/cluster/cluster.go's membership-event bookkeeping: a node is reported as left at most once (left_once), between two NodeJoined(n) there is an opposite event (join_once), the local node is never reported as joined or left (self_never_joined, self_never_left), every NodeLeft carries the timestamp of a left notification for that node (emitted_left_ts) and is emitted only by the timeout or when some node-left epoch has been announced started and complete (gate_model). The full property is REFUTED with explicit witnesses (C34_refuted: a second departure is handed the previous, completed epoch and is announced before its own rebalance) and PROVED under a decidable guard that excludes exactly the two open findings (C34_partial); verdict_sound shows that the oracle predicate Spec.C34.verdict, which the check evaluates on the implementation's output, never flags the model's own run on a guarded history (the oracle and the theorem are the same predicate). The model is tied to the real cluster struct (built by cluster.New, not started) by a differential run through handleClusterEvent/emitOverdueNodeLeft that compares the events of every step and the whole bookkeeping state.",
    "level_note": "partial: the property is false of the current code (findings C34-F1, C34-F3, reported as KNOWN-FINDING; C34-F2 is fixed). Outside the model: the 256-slot events channel (dropped events when full), LeaderChanged detection, the real 30 s time.AfterFunc (the timeout is the op `overdue n`, driven by calling emitOverdueNodeLeft), goroutine interleaving of handlers (each handler body runs under eventsLock and is one atomic step). Ground truth for \"the epoch covering a departure\" is an annotation carried by the left notification in the generated causal scripts.",
    "technique": "Lean 4 proof (inductive invariants over notification histories) on a hand-written model tied to the real cluster struct by a differential run that compares emitted events and the full bookkeeping state",
}
TRUSTED = [
    "the hand-written model Model/C34 (factored into a global part and per-node parts; justified because every Go loop over a node-keyed map touches only the visited key) — compared with the real struct on every generated history, events and full state",
    "ground-truth annotation `cov` on left notifications: the generator's causal script numbers epochs in start order and sets cov(n) = first epoch starting after n's real departure",
    "events.NodeJoinEvent/NodeLeftEvent/RebalanceStartEvent/RebalanceCompleteEvent JSON field names (the harness writes the payloads by hand)",
]
RULE = ("histories over nodes s,a,b,c and epochs 0..9: all histories of a bounded length over the departure-side alphabet "
        "(quick: length 4; thorough: length 6, plus length 5 with timeouts and length 4 with joins/self ops), causal scripts "
        "(in-order, and with duplicates/reorderings/losses) over 3 peers / 3 epochs, and uniformly random histories; "
        "non-trivial = at least one event emitted; distinct by (case, output)")
EXHAUSTIVE = {"quick": False, "thorough": False}

PEERS = "abc"
TIMEOUT = 14400

# exhaustive enumeration of ALL histories of length <= 7 over the 14-token alphabet (2 peers, 2 epochs,
# timeouts and joins included): 113 million histories, far too many for one line each.  A case line
# `enum 7 <t1> <t2>` makes the harness run every history that starts with the two tokens on the real code
# and the Lean driver walk the same tree on the model; both print the number of histories and an
# order-independent 64-bit checksum of (history, events of every step, full state digest).  196 shards.
# VERIF_C34_ENUM7 = number of shards per thorough run (default 4, `all` = 196, about 4.5 CPU-hours on the Go
# side); the seed rotates the starting shard, so repeated background runs cover the whole space.
ENUM_TOKENS = ["la1", "la2", "lb1", "lb2", "SL1a", "C1", "SL2a", "C2", "oa", "ob", "ja", "jb", "SJ1a", "SJ2a"]
ENUM_BAD_PREFIX = []


def enum_shards(rng, tier):
    want = os.environ.get("VERIF_C34_ENUM7", "4" if tier == "thorough" else "0")
    shards = [f"enum 7 {a} {b}" for a in ENUM_TOKENS for b in ENUM_TOKENS]
    n = len(shards) if want == "all" else max(0, min(len(shards), int(want or 0)))
    off = rng.randrange(len(shards))
    return [shards[(off + i) % len(shards)] for i in range(n)]


# ---------------------------------------------------------------------------
# generators
# ---------------------------------------------------------------------------

def script_case(rng, npeers, maxep, jitter, pdup, ploss):
    """a causal script (real departures/arrivals, each triggering its own rebalance epoch, epochs
    numbered in start order) turned into a delivered notification history.  cov(n) = number of the
    first epoch that starts after n really departed."""
    peers = PEERS[:npeers]
    present = {p for p in peers if rng.random() < 0.6}
    real = []          # (kind, payload...)
    queue = []         # pending triggers (reason, node)
    nepoch = 0
    running = None
    for _ in range(rng.randint(3, 9)):
        r = rng.random()
        if r < 0.35:
            cand = [p for p in peers if p in present]
            if cand:
                n = rng.choice(cand)
                present.discard(n)
                real.append(("D", n, nepoch + 1))
                queue.append(("L", n))
                continue
        if r < 0.5:
            cand = [p for p in peers if p not in present]
            if cand:
                n = rng.choice(cand)
                present.add(n)
                real.append(("A", n))
                queue.append(("J", n))
                continue
        if running is not None and rng.random() < 0.7:
            real.append(("C", running))
            running = None
            continue
        if queue and nepoch < maxep:
            reason, n = queue.pop(0)
            nepoch += 1
            if running is not None and rng.random() < 0.5:
                real.append(("C", running))
            running = nepoch
            real.append(("S", reason, nepoch, n))
    if running is not None and rng.random() < 0.8:
        real.append(("C", running))
    msgs = []
    for i, ev in enumerate(real):
        if ev[0] == "D":
            tok = f"l{ev[1]}{min(ev[2], 9)}"
        elif ev[0] == "A":
            tok = f"j{ev[1]}"
        elif ev[0] == "S":
            tok = f"S{ev[1]}{ev[2]}{ev[3]}"
        else:
            tok = f"C{ev[1]}"
        if rng.random() < ploss:
            continue
        key = i + (rng.random() * jitter if jitter else 0)
        msgs.append((key, len(msgs), tok))
        if rng.random() < pdup:
            msgs.append((key + rng.random() * (jitter + 2), len(msgs), tok))
        if ev[0] == "D" and rng.random() < 0.25:
            msgs.append((key + 0.5 + rng.random() * 4, len(msgs), f"o{ev[1]}"))
    if rng.random() < 0.15:
        msgs.append((rng.random() * len(real), len(msgs), rng.choice(["js", "SJ1s", "SO2a", "oa", "ob", "SL0a", "C0"])))
    msgs.sort()
    return " ".join(m[2] for m in msgs[:16])


def alphabet(npeers, neps, joins=True, overdue=True, selfops=False):
    peers = PEERS[:npeers]
    al = []
    for p in peers:
        for c in range(1, neps + 1):
            al.append(f"l{p}{c}")
    for e in range(1, neps + 1):
        al.append(f"SL{e}a")
        al.append(f"C{e}")
    if overdue:
        al += [f"o{p}" for p in peers]
    if joins:
        al += [f"j{p}" for p in peers]
        al += [f"SJ{e}a" for e in range(1, neps + 1)]
    if selfops:
        al += ["js", "ls1", "SJ1s"]
    return al


def exhaustive(al, length, first=None):
    """all histories of exactly `length` over `al` (shorter ones are their prefixes: the harness
    prints every step, so prefixes are checked too)"""
    for t in itertools.product(al, repeat=length):
        if first is not None and t[0] not in first:
            continue
        yield " ".join(t)


def random_case(rng, npeers, neps, maxlen):
    al = alphabet(npeers, neps, True, True, False) + ["js", "SJ1s", "SO1a", "SL0a", "C0"]
    if rng.random() < 0.1:
        al = al + ["ls1"]
    return " ".join(rng.choice(al) for _ in range(rng.randint(1, maxlen)))


def gen_cases(rng, tier):
    cases = []
    left2 = alphabet(2, 2, joins=False, overdue=False)          # la1 la2 lb1 lb2 SL1a C1 SL2a C2
    if tier == "quick":
        cases += list(exhaustive(left2, 4))
        n_script, n_rand = 900, 600
    else:
        # all histories of length <= 6 over the departure-side alphabet (2 peers, 2 epochs); by the
        # a<->b symmetry only histories whose first op is not about b alone are kept
        cases += list(exhaustive(left2, 6, first=[x for x in left2 if not x.startswith("lb")]))
        cases += list(exhaustive(alphabet(2, 2, joins=False, overdue=True), 5))
        cases += list(exhaustive(alphabet(2, 2, joins=True, overdue=True, selfops=True), 4))
        n_script, n_rand = 12000, 8000
    for i in range(n_script):
        mode = i % 3
        if mode == 0:      # in-order delivery, no loss
            cases.append(script_case(rng, 3, 3, 0, 0.15, 0.0))
        elif mode == 1:    # duplicates and reorderings
            cases.append(script_case(rng, 3, 3, 2.5, 0.3, 0.05))
        else:
            cases.append(script_case(rng, rng.choice([2, 3]), rng.choice([2, 3, 5]), rng.choice([0, 1.0, 4.0]), 0.2, 0.1))
    for _ in range(n_rand):
        cases.append(random_case(rng, 3, 3, 12))
    cases.append("enum 4")          # every history of length <= 4 over the 14-token alphabet, one line
    cases += enum_shards(rng, tier)
    return [c for c in cases if c]


def search_cases(rng, tier):
    cases = list(exhaustive(alphabet(2, 2, joins=False, overdue=True), 4))
    cases += list(exhaustive(alphabet(2, 2, joins=True, overdue=True, selfops=True), 3))
    for i in range(6000):
        cases.append(script_case(rng, 3, 3, [0, 2.5][i % 2], 0.25, 0.05))
    for _ in range(4000):
        cases.append(random_case(rng, 3, 3, 12))
    for pre in ENUM_BAD_PREFIX[:2]:
        # an enumeration shard differed: list its histories one per line (up to 4 more ops)
        for k in range(0, 5):
            for t in itertools.product(ENUM_TOKENS, repeat=k):
                cases.append(" ".join(pre + list(t)))
    return [c for c in cases if c]


# ---------------------------------------------------------------------------
# comparison / oracle
# ---------------------------------------------------------------------------

def compare(case, impl, model):
    if case.startswith("enum ") and impl != model:
        ENUM_BAD_PREFIX.append(case.split()[2:])
    return None if impl == model else f"diff: impl={impl!r} model={model!r}"


def is_trivial(case, impl):
    if case.startswith("enum "):
        return not impl.startswith("n=")
    if impl in ("", "bad-case") or impl.startswith(("CRASH", "panic", "err")):
        return True
    steps = impl.split(" | ")[0].split()
    return all(s == "-" for s in steps)


def tag(case, impl):
    if case.startswith("enum "):
        return "enum:" + (impl.split()[0] if impl else "")
    if not impl or " | " not in impl:
        return "other"
    steps = impl.split(" | ")[0].split()
    nl = sum(s.count("L") for s in steps)
    nj = sum(s.count("J") for s in steps)
    return f"len{min(len(case.split()), 12) // 4 * 4}+:L{min(nl, 3)}J{min(nj, 3)}"


def parse_obs(impl):
    steps = impl.split(" | ")[0].split()
    out = []
    for s in steps:
        evs = []
        if s != "-":
            for w in s.split(","):
                kind, node, ts = w[0], w[1], int(w.split("@")[1])
                if kind not in "LJ":
                    raise ValueError(w)
                evs.append((kind, node, ts))
        out.append(evs)
    return out


def py_verdict(case, impl):
    """python mirror of Spec.C34.verdict (used when the Lean judge is unavailable)"""
    ops = case.split()
    try:
        obs = parse_obs(impl)
    except (ValueError, IndexError):
        return "unparsable output"
    if len(obs) != len(ops):
        return "wrong-number-of-steps"
    bl, bj = set(), set()
    for i, (op, evs) in enumerate(zip(ops, obs)):
        if op[0] == "l":
            bj.discard(op[1])
        elif op[0] == "j":
            bl.discard(op[1])
        ls = [n for k, n, _ in evs if k == "L"]
        js = [n for k, n, _ in evs if k == "J"]
        if "s" in ls:
            return "self-reported-left"
        if "s" in js:
            return "self-reported-joined"
        if len(set(ls)) != len(ls):
            return "two-NodeLeft-in-one-step"
        if len(set(js)) != len(js):
            return "two-NodeJoined-in-one-step"
        if any(n in bl and n not in js for n in ls):
            return "second-NodeLeft-without-opposite-event"
        if any(n in bj and n not in ls for n in js):
            return "second-NodeJoined-without-opposite-event"
        for k, n, ts in evs:
            if k != "L" or op == "o" + n:
                continue
            src = ops[ts - 1] if 1 <= ts <= len(ops) else ""
            ok = False
            if len(src) == 3 and src[0] == "l" and src[1] == n:
                c = int(src[2])
                ok = any(o[0] == "C" and int(o[1]) >= c for o in ops[:i + 1])
            if not ok:
                return f"gate node={ord(n) - 96 if n != 's' else 0} step={i} ts={ts}"
        bl = (bl | set(ls)) - set(js)
        bj = (bj | set(js)) - set(ls)
    return None


def oracle(case, impl, judge):
    if impl.startswith("CRASH") or impl.startswith("panic") or impl.startswith("err"):
        return "harness failed: " + impl
    if impl == "bad-case" or case.startswith("enum "):
        return None     # an enumeration line carries a checksum; the property on it follows from equality with the model
    if judge is not None:
        return None if judge.startswith("ok") else judge[4:] if judge.startswith("bad ") else judge
    return py_verdict(case, impl)


def classify(case, impl, why):
    if not why:
        return None
    if why.startswith("diff: "):
        return "DIFF"      # a model/implementation difference is not a property failure (keeps the shrinker on real failures)
    ops = case.split()
    if why.startswith("gate "):
        kv = dict(x.split("=") for x in why.split()[1:])
        ts, step = int(kv["ts"]), int(kv["step"])
        if not (1 <= ts <= len(ops)):
            return None
        src = ops[ts - 1]
        if not (len(src) == 3 and src[0] == "l"):
            return None
        c = int(src[2])
        stale_before = any(o.startswith("SL") and int(o[2]) < c for o in ops[:ts - 1])
        late_after = any(o.startswith("SL") and int(o[2]) < c for o in ops[ts:step + 1])
        if stale_before:
            return "C34-F1"
        if late_after:
            return "C34-F3"
    return None


def shrink(case):
    ops = case.split()
    for i in range(len(ops)):
        yield " ".join(ops[:i] + ops[i + 1:])

"""C15 — an Ask returns its own reply or an error, and an in-time reply is never lost (E3 on PID.Ask / Response / pools / mailbox recycling)."""
ID = "C15"
import os
# MODE: "fixed" = PID.Ask as it is since fix d1a16fa (no atomic site after the select);
#       "asis"  = the code before that fix (late responseClosed.Store(true) after the select), kept in the model for
#                 the refutation theorems and the seeded revert (VERIF_C15_MODE=asis ties it to a tree with the fix reverted)
MODE = os.environ.get("VERIF_C15_MODE", "fixed")
LEAN_MODULES = ["GoaktVerif.Props.C15"]
THEOREMS = [
    "GoaktVerif.C15.finv_init",
    "GoaktVerif.C15.finv_step",
    "GoaktVerif.C15.finv_timeout",
    "GoaktVerif.C15.C15_fixed_ownReply",
    "GoaktVerif.C15.ninv_init",
    "GoaktVerif.C15.ninv_step",
    "GoaktVerif.C15.C15_fixed_noLoss",
    "GoaktVerif.C15.C15_holds",
    "GoaktVerif.C15.C15_loss_witness",
    "GoaktVerif.C15.C15_cross_witness",
    "GoaktVerif.C15.C15_asIs_refuted",
    "GoaktVerif.C15.C15_asIs_refuted_ownReply",
    "GoaktVerif.C15.Grain.C15_grain_loss_witness",
]
MANIFEST = {
    "level_text": "Kernel-checked, no bounds: C15_holds - on the small-step model of PID.Ask / ReceiveContext.build / Response / the contextCh and responseCh pools / UnboundedMailbox's recycling of the previous sentinel as the code is since fix d1a16fa (Mode.fixed; both pools in use; any number of callers with distinct request ids, a single consumer, deadlines as explicit steps, the CAS and the channel send of Response as separate steps) EVERY schedule satisfies both clauses: every reply an Ask receives is its own (C15_fixed_ownReply; invariant FInv: a receive context is in exactly one of {pool, unbuilt caller, mailbox, sentinel}, a pooled channel is empty and referenced by no pending request, a buffered value carries the id the channel was handed out for) and no Ask takes its timeout branch after Response for it has returned (C15_fixed_noLoss; invariant NInv: ids occur once, a pending context carries a built unanswered id and its caller waits on that context, a caller at its select has its reply in its channel as soon as Response returned). The code before the fix (Mode.asIs) is refuted for both clauses (C15_loss_witness 24 steps, C15_cross_witness 10 steps). Tie, re-run on every check: the REAL PID.Ask, build, Response, pools and mailbox run on a bare PID under controlled schedules and must produce the model's trace (atomic-site labels from yieldinject), results and final pool digest; deadlines are explicit context cancellations, never wall clock; the outcome oracle (own reply, no in-time reply lost) is evaluated on the implementation's own output.",
    "level_note": "Partial in these respects: the dispatcher is not in the model (the harness plays the single worker: Dequeue + Response; that an actor has one worker at a time is property C01); actor.Ask (api.go) and actorSystem.handleRemoteAsk are driven by the harness too (ops b<k>, c<k>; api.go has no atomic site and cannot be instrumented, so a late store re-introduced there would show as a digest difference without a schedule point); SendSync/BatchAsk/ReceiveContext.Ask call PID.Ask; the grain Ask path (actorSystem.localSend + grainMailbox + GrainContext) has its own small-step model (Model.C15Grain, tied by `gask` cases; its late store on the timeout branches - former finding C15-F3, replayed on the real code, witness theorem C15.Grain.C15_grain_loss_witness - was removed by fix 6a916c2) but no all-schedules theorem of its own: the repaired grain protocol is the repaired actor protocol with the enqueue split into four atomic steps, covered by the tie and the oracle only; remote Ask is not modelled; the CAS-to-send window of Response is covered by the theorem but not by the tie (no schedule point between them). Trusted: a select with a ready reply takes the reply (the harness never makes both branches ready); sync/atomic is sequentially consistent.",
    "technique": "Lean 4 inductive invariants over a small-step model (all schedules), model replayed against the real code under controlled schedules (yield injection), refutation of the pre-fix code by kernel evaluation of concrete schedules",
}
TRUSTED = [
    "timer-pool integrity is observed, not modelled: the harness (GOMAXPROCS(1)) drains internal/timer's pool around every case and reports a timer that was Put twice (digest field timers=ok|dup)",
    "sync/atomic operations are sequentially consistent; code between two instrumented sites executes with the preceding site",
    "the harness plays the target's single worker (UnboundedMailbox.Dequeue then ReceiveContext.Response) on a bare PID: no dispatcher, no actor system, so nothing else touches the package-level pools",
    "a caller's deadline is modelled as a step; the harness realises it by cancelling the Ask's context exactly when the caller is stepped into its select with an empty response channel",
]
RULE = ("1-3 caller threads with 1-4 Asks each (distinct request ids), one worker thread with as many handle ops, schedules of 0-60 entries "
        "(thread steps and deadline steps) then round-robin completion; non-trivial = harness produced a trace; distinct by (case, output)")

INPKG = ["actor/zz_verif_c15.go", "actor/zz_verif_c15g.go", "internal/timer/zz_verif_c15.go"]
INSTRUMENT = ["actor/pid.go", "actor/receive_context.go", "internal/timer/timer.go", "actor/actor_system.go",
              "actor/grain_context.go", "actor/grain_engine.go", "actor/grain_mailbox.go"]
INSTRUMENT_ARGS = {
    # PID.Tell is listed only so that the file always has at least one site (check.py cannot digest a file without
    # sites); the repaired PID.Ask has none, a late store re-introduced into it shows up as extra trace labels
    "actor/pid.go": ["-funcs", "PID.Ask,PID.Tell"],
    "actor/receive_context.go": ["-funcs", "ReceiveContext.Response,ReceiveContext.build"],
    "internal/timer/timer.go": ["-entry", "Pool.Get"],
    # decreaseActorsCounter only keeps the site list non-empty (see pid.go); api.go has no atomic site at all and
    # cannot be instrumented: actor.Ask is driven through build's and timers.Get's points only
    "actor/actor_system.go": ["-funcs", "actorSystem.handleRemoteAsk,actorSystem.decreaseActorsCounter"],
    # grain path (cases `gask …`)
    "actor/grain_context.go": ["-funcs", "GrainContext.build,GrainContext.Response"],
    # GrainIdentity is listed only so that the file keeps a site once localSend has none (after the proposed fix)
    "actor/grain_engine.go": ["-funcs", "actorSystem.localSend,actorSystem.GrainIdentity"],
    "actor/grain_mailbox.go": ["-funcs", "grainMailbox.tryEnqueue"],
}
SITES = {
    "actor/receive_context.go:ReceiveContext.Response": ["CAS:responseClosed"],
    "actor/receive_context.go:ReceiveContext.build": ["Store:responseClosed"],
    "internal/timer/timer.go:Pool.Get": ["Call:Get"],
    "actor/grain_context.go:GrainContext.build": ["Store:responseClosed"],
    "actor/grain_context.go:GrainContext.Response": ["CAS:responseClosed"],
    "actor/grain_mailbox.go:grainMailbox.tryEnqueue": ["Load:len", "CAS:len", "Store:next", "Swap:tail", "Store:next", "Add:len"],
}
# GMODE: variant of the grain path (actorSystem.localSend): "fixed" = the code as it is since fix 6a916c2 (the timeout
# branches do not touch the grain context); "asis" = the code before it (late responseClosed.Store(true), former finding
# C15-F3), kept in the model for the witness theorem and the seeded revert
GMODE = os.environ.get("VERIF_C15_GMODE", "fixed")
if GMODE == "asis":
    SITES["actor/grain_engine.go:actorSystem.localSend"] = ["Store:responseClosed", "Store:responseClosed"]
if MODE == "asis":
    SITES["actor/pid.go:PID.Ask"] = ["Store:responseClosed", "Store:responseClosed", "Store:responseClosed"]

TIMEOUT = 900


def _case(rng, ncallers, maxasks, schedlen, timer_p):
    k = 1
    progs = []
    total = 0
    for _ in range(ncallers):
        ops = []
        for _ in range(rng.randint(1, maxasks)):
            ops.append(f"{rng.choice('aaabc')}{k}")
            k += 1
            total += 1
        progs.append(ops)
    progs.append(["h"] * (total + rng.choice([0, 0, 1])))
    n = len(progs)
    sched = []
    while len(sched) < schedlen:
        if rng.random() < timer_p:
            sched.append(n + rng.randrange(ncallers))
        else:
            t = rng.choice(list(range(n)) + [n - 1])     # the worker a bit more often
            sched += [t] * rng.choice([1, 1, 2, 3])
    return f"ask {MODE} | " + " ; ".join(" ".join(p) for p in progs) + " | " + " ".join(map(str, sched[:schedlen]))


def _gcase(rng, ncallers, maxasks, schedlen, timer_p):
    """grain path: an Ask is 6-7 caller steps, so schedules run threads in longer bursts"""
    k = 1
    progs = []
    total = 0
    for _ in range(ncallers):
        ops = []
        for _ in range(rng.randint(1, maxasks)):
            ops.append(f"a{k}")
            k += 1
            total += 1
        progs.append(ops)
    progs.append(["h"] * (total + rng.choice([0, 0, 1])))
    n = len(progs)
    sched = []
    while len(sched) < schedlen:
        if rng.random() < timer_p:
            sched.append(n + rng.randrange(ncallers))
        else:
            t = rng.choice(list(range(n)) + [n - 1])
            sched += [t] * rng.choice([1, 2, 3, 5, 6])
    return f"gask {GMODE} | " + " ; ".join(" ".join(p) for p in progs) + " | " + " ".join(map(str, sched[:schedlen]))


def _g_late_store_case(rng):
    """grain path: caller 0 times out and is starved before its late store; caller 1 keeps asking"""
    m = rng.randint(3, 4)
    progs = [["a1"], [f"a{i}" for i in range(2, 2 + m)], ["h"] * (m + 1)]
    sched = [0] * 5 + [3, 0, 2, 2]
    for _ in range(m - 1):
        sched += [1] * 5 + [2, 2, 1]
    sched += [1] * rng.randint(0, 5)
    pos = rng.randint(9, len(sched))
    sched = sched[:pos] + [0] + sched[pos:] + [2, 2] + [rng.randrange(3) for _ in range(rng.randint(0, 4))]
    return f"gask {GMODE} | " + " ; ".join(" ".join(p) for p in progs) + " | " + " ".join(map(str, sched))


def gen_cases(rng, tier):
    n = 400 if tier == "quick" else 8000
    cases = []
    for _ in range(n // 4):
        r = rng.random()
        if r < 0.4:
            cases.append(_gcase(rng, 1, 3, rng.randint(0, 50), 0.04))
        elif r < 0.9:
            cases.append(_gcase(rng, 2, 3, rng.randint(0, 80), 0.03))
        else:
            cases.append(_g_late_store_case(rng))
    for _ in range(n):
        r = rng.random()
        if r < 0.3:
            cases.append(_case(rng, 1, 4, rng.randint(0, 30), 0.05))
        elif r < 0.8:
            cases.append(_case(rng, 2, 3, rng.randint(0, 45), 0.04))
        else:
            cases.append(_case(rng, 3, 3, rng.randint(0, 60), 0.04))
    return cases


def _late_store_case(rng):
    """one caller receives its reply and is then starved before its final store; another caller keeps asking"""
    m = rng.randint(3, 5)
    progs = [["a1"], [f"a{i}" for i in range(2, 2 + m)], ["h"] * (m + 1)]
    sched = [0, 1, 2, 2, 0]
    for _ in range(m - 1):
        sched += [2, 2, 1, 1, 1]
    pos = rng.randint(8, len(sched))
    sched = sched[:pos] + [0] + sched[pos:] + [rng.randrange(3) for _ in range(rng.randint(0, 6))]
    return f"ask {MODE} | " + " ; ".join(" ".join(p) for p in progs) + " | " + " ".join(map(str, sched))


def search_cases(rng, tier):
    cases = [_late_store_case(rng) for _ in range(1500)] + [_g_late_store_case(rng) for _ in range(800)]
    cases += [_gcase(rng, 2, 3, rng.randint(10, 90), 0.04) for _ in range(1500)]
    for _ in range(6000):
        cases.append(_case(rng, rng.randint(2, 3), 3, rng.randint(10, 60), rng.choice([0.0, 0.03, 0.08])))
    return cases


# --- python mirror of Spec.C15.judge -----------------------------------------------------------

def _judge(case, out):
    if out.startswith("HANG-skipped"):
        return "ok skipped"
    if out.startswith("HANG"):
        return "bad hang an Ask never returned: a logical thread blocked outside every schedule point"
    if out.startswith("CRASH") or out.startswith("panic"):
        return "bad crash " + out
    cp, op = case.split("|"), out.split("|")
    if len(cp) != 3 or len(op) != 3:
        return "bad unparsable " + out
    progs = [p.split() for p in cp[1].split(";")]
    res = [r.strip().split(",") for r in op[1].strip()[1:].split(";")]
    tr = op[0].split()[1:]
    if "cap" in tr:
        return "ok unfinished"
    nasks = sum(1 for p in progs for o in p if o[0] in "abc")
    fixed = sum(1 for e in tr if e.endswith(":Store:responseClosed")) == nasks
    st = [[0, 0] for _ in progs]
    select_at, resp_at = {}, {}
    for pos, e in enumerate(tr):
        tid_s, _, lab = e.partition(":")
        if not tid_s.isdigit():
            continue
        tid = int(tid_s)
        if tid >= len(progs) or lab.endswith("!blocked") or lab.startswith("!"):
            continue
        oi, ph = st[tid]
        if oi >= len(progs[tid]):
            continue
        o = progs[tid][oi]
        if o[0] in "abc":
            k = int(o[1:])
            if ph == 0:
                st[tid][1] = 1
            elif ph == 1:
                select_at.setdefault(k, pos)
                if fixed:
                    st[tid] = [oi + 1, 0]
                else:
                    st[tid][1] = 2
            else:
                st[tid] = [oi + 1, 0]
        else:
            r = res[tid][oi] if tid < len(res) and oi < len(res[tid]) else ""
            if ph == 0:
                if r == "empty":
                    st[tid] = [oi + 1, 0]
                else:
                    st[tid][1] = 1
            else:
                if r.startswith("h") and r[1:].isdigit():
                    resp_at.setdefault(int(r[1:]), pos)
                st[tid] = [oi + 1, 0]
    asks = [(int(o[1:]), x) for p, r in zip(progs, res) for o, x in zip(p, r) if o[0] in "abc"]
    for k, x in asks:
        if x.startswith("r") and x[1:] != str(k):
            return f"bad cross Ask {k} returned {x}: the reply of another request"
    for k, x in asks:
        if x == "timeout" and k in resp_at and k in select_at and resp_at[k] < select_at[k]:
            return f"bad lost Ask {k} timed out although Response for it had returned before its deadline"
    return "ok"


def _judge_grain(case, out):
    if out.startswith("HANG-skipped"):
        return "ok skipped"
    if out.startswith("HANG"):
        return "bad hang an Ask never returned: a logical thread blocked outside every schedule point"
    if out.startswith("CRASH") or out.startswith("panic"):
        return "bad crash " + out
    cp, op = case.split("|"), out.split("|")
    if len(cp) != 3 or len(op) != 3:
        return "bad unparsable " + out
    progs = [p.split() for p in cp[1].split(";")]
    res = [r.strip().split(",") for r in op[1].strip()[1:].split(";")]
    tr = op[0].split()[1:]
    if "cap" in tr:
        return "ok unfinished"
    select_at, resp_at = {}, {}
    for tid, (p, r) in enumerate(zip(progs, res)):
        sel = [pos for pos, e in enumerate(tr) if e == f"{tid}:Add:len"]
        for k, pos in zip([int(o[1:]) for o in p if o[0] in "abc"], sel):
            select_at[k] = pos
        cas = [pos for pos, e in enumerate(tr) if e == f"{tid}:CAS:responseClosed"]
        for k, pos in zip([int(x[1:]) for x in r if x.startswith("h") and x[1:].isdigit()], cas):
            resp_at[k] = pos
    asks = [(int(o[1:]), x) for p, r in zip(progs, res) for o, x in zip(p, r) if o[0] in "abc"]
    for k, x in asks:
        if x.startswith("r") and x[1:] != str(k):
            return f"bad cross Ask {k} returned {x}: the reply of another request"
    for k, x in asks:
        if x == "timeout" and k in resp_at and k in select_at and resp_at[k] < select_at[k]:
            return f"bad lost Ask {k} timed out although Response for it had returned before its deadline"
    return "ok"


def oracle(case, impl, judge):
    if impl is None or impl == "bad-case":
        return None
    if impl.startswith("CRASH"):
        return "harness crashed: " + impl
    if "timers=dup" in impl:
        return "bad timer the same *time.Timer was put into the Ask timer pool twice: two later Asks share one deadline"
    if judge is None or impl.startswith("HANG"):
        judge = _judge_grain(case, impl) if case.startswith("gask") else _judge(case, impl)
    return None if judge.startswith("ok") else judge


def classify(case, impl, why):
    """No open finding (C15-F1/F2 fixed by d1a16fa, C15-F3 by 6a916c2): every oracle failure is a violation. The class
    returned here only keeps the shrinker on the same kind of PROPERTY failure (it is never a known-finding id)."""
    if why and why.startswith("bad ") and len(why.split()) > 1:
        return "unlisted:" + why.split()[1]
    return None


def is_trivial(case, impl):
    return impl is None or not impl.startswith("T ")


def tag(case, impl):
    if impl and impl.startswith("HANG"):
        return "hang"
    if case.startswith("gask"):
        return "grain:" + ("timeout" if impl and "|" in impl and "timeout" in impl.split("|")[1] else "replied")
    progs = [p.split() for p in case.split("|")[1].split(";")]
    ncallers = sum(1 for p in progs if any(o[0] in "abc" for o in p))
    t = "timeout" if impl and "timeout" in impl.split("|")[1] else "replied"
    return f"callers={ncallers}:{t}"


def shrink(case):
    cfg, progs, sched = [x.strip() for x in case.split("|")]
    s = sched.split()
    # a few large cuts first, then single deletions (each candidate may cost a step timeout on a hanging implementation)
    for cut in (len(s) // 2, len(s) // 4):
        if cut > 0:
            yield f"{cfg} | {progs} | " + " ".join(s[:len(s) - cut])
    for i in range(min(len(s), 8)):
        yield f"{cfg} | {progs} | " + " ".join(s[:i] + s[i + 1:])

"""C15 — an Ask returns its own reply or an error, and an in-time reply is never lost (E3 on PID.Ask / Response / pools / mailbox recycling)."""
ID = "C15"
import os
# MODE: "asis" = PID.Ask as it is (late responseClosed.Store(true) after the select: findings C15-F1/F2);
#       "fixed" = after fixes/C15-ask-no-late-store.diff (no atomic site after the select)
MODE = os.environ.get("VERIF_C15_MODE", "asis")
LEAN_MODULES = ["GoaktVerif.Props.C15"]
THEOREMS = [
    "GoaktVerif.C15.C15_loss_witness",
    "GoaktVerif.C15.C15_cross_witness",
    "GoaktVerif.C15.C15_refuted",
    "GoaktVerif.C15.C15_refuted_ownReply",
    "GoaktVerif.C15.finv_init",
    "GoaktVerif.C15.finv_step",
    "GoaktVerif.C15.finv_timeout",
    "GoaktVerif.C15.C15_fixed_ownReply",
]
MANIFEST = {
    "level_text": "Kernel-checked refutation of both clauses on a small-step model of PID.Ask / ReceiveContext.build / Response / the contextCh and responseCh pools / UnboundedMailbox's recycling of the previous sentinel (any number of callers, deadlines as explicit steps): C15_loss_witness — a caller's late responseClosed.Store(true) hits a context already recycled and rebuilt for another Ask whose in-time reply is then dropped (24-step schedule); C15_cross_witness — a responder past its CAS sends into a response channel the timed-out caller already pooled and the next Ask took (10 steps). The model is tied to the current code step-for-step (same atomic-site labels, results, final pool digest) by running the REAL PID.Ask, build, Response, pools and mailbox on a bare PID under controlled schedules; deadlines are explicit context cancellations, never wall clock. The loss witness is replayed on the real code on every run (finding C15-F1).",
    "level_note": "Partial: the property is false of the current code (C15-F1 replayed on the real code; C15-F2 proved on the model only because the window lies between a CAS and a channel send, where yieldinject has no schedule point). Positive theorem: C15_fixed_ownReply - for the repaired protocol (Mode.fixed = fixes/C15-ask-no-late-store.diff, tied to the patched tree in the self-test, both pools still in use) every reply an Ask receives is its own, for EVERY schedule, any number of callers, single consumer (inductive invariant FInv: linear ownership of receive contexts, a pooled channel is empty and referenced by no pending request; finv_init / finv_step / finv_timeout). The no-loss clause for the repaired protocol is not yet a theorem (it holds on the two refutation schedules and on 7500 search schedules on the patched code). Not modelled: the dispatcher (the harness plays the single worker: Dequeue + Response), remote Ask, SendSync/BatchAsk wrappers (they call PID.Ask), the grain Ask path (same pattern in grain_context.go/grain_engine.go, not tied). Trusted: a select with a ready reply takes the reply (the harness never makes both branches ready).",
    "technique": "Lean 4 small-step model replayed against the real code under controlled schedules (yield injection), refutation by kernel evaluation of concrete schedules",
}
TRUSTED = [
    "sync/atomic operations are sequentially consistent; code between two instrumented sites executes with the preceding site",
    "the harness plays the target's single worker (UnboundedMailbox.Dequeue then ReceiveContext.Response) on a bare PID: no dispatcher, no actor system, so nothing else touches the package-level pools",
    "a caller's deadline is modelled as a step; the harness realises it by cancelling the Ask's context exactly when the caller is stepped into its select with an empty response channel",
]
RULE = ("1-3 caller threads with 1-4 Asks each (distinct request ids), one worker thread with as many handle ops, schedules of 0-60 entries "
        "(thread steps and deadline steps) then round-robin completion; non-trivial = harness produced a trace; distinct by (case, output)")

INPKG = ["actor/zz_verif_c15.go"]
INSTRUMENT = ["actor/pid.go", "actor/receive_context.go", "internal/timer/timer.go"]
INSTRUMENT_ARGS = {
    "actor/pid.go": ["-funcs", "PID.Ask"],
    "actor/receive_context.go": ["-funcs", "ReceiveContext.Response,ReceiveContext.build"],
    "internal/timer/timer.go": ["-entry", "Pool.Get"],
}
SITES = {
    "actor/receive_context.go:ReceiveContext.Response": ["CAS:responseClosed"],
    "actor/receive_context.go:ReceiveContext.build": ["Store:responseClosed"],
    "internal/timer/timer.go:Pool.Get": ["Call:Get"],
}
if MODE == "asis":
    SITES["actor/pid.go:PID.Ask"] = ["Store:responseClosed", "Store:responseClosed", "Store:responseClosed"]
else:
    # the repaired PID.Ask has no atomic site of its own (check.py cannot digest a file without sites)
    INSTRUMENT = [f for f in INSTRUMENT if f != "actor/pid.go"]
TIMEOUT = 900


def _case(rng, ncallers, maxasks, schedlen, timer_p):
    k = 1
    progs = []
    total = 0
    for _ in range(ncallers):
        ops = []
        for _ in range(rng.randint(1, maxasks)):
            ops.append(f"a{k}")
            k += 1
            total += 1
        progs.append(ops)
    progs.append(["h"] * (total + rng.choice([0, 0, 1])))
    n = len(progs)
    sched = []
    while len(sched) < schedlen:
        if rng.random() < timer_p:
            sched.append(n + rng.randrange(ncallers))
        else:
            t = rng.choice(list(range(n)) + [n - 1])     # the worker a bit more often
            sched += [t] * rng.choice([1, 1, 2, 3])
    return f"ask {MODE} | " + " ; ".join(" ".join(p) for p in progs) + " | " + " ".join(map(str, sched[:schedlen]))


def gen_cases(rng, tier):
    n = 400 if tier == "quick" else 8000
    cases = []
    for _ in range(n):
        r = rng.random()
        if r < 0.3:
            cases.append(_case(rng, 1, 4, rng.randint(0, 30), 0.05))
        elif r < 0.8:
            cases.append(_case(rng, 2, 3, rng.randint(0, 45), 0.04))
        else:
            cases.append(_case(rng, 3, 3, rng.randint(0, 60), 0.04))
    return cases


def _late_store_case(rng):
    """one caller receives its reply and is then starved before its final store; another caller keeps asking"""
    m = rng.randint(3, 5)
    progs = [["a1"], [f"a{i}" for i in range(2, 2 + m)], ["h"] * (m + 1)]
    sched = [0, 1, 2, 2, 0]
    for _ in range(m - 1):
        sched += [2, 2, 1, 1, 1]
    pos = rng.randint(8, len(sched))
    sched = sched[:pos] + [0] + sched[pos:] + [rng.randrange(3) for _ in range(rng.randint(0, 6))]
    return f"ask {MODE} | " + " ; ".join(" ".join(p) for p in progs) + " | " + " ".join(map(str, sched))


def search_cases(rng, tier):
    cases = [_late_store_case(rng) for _ in range(1500)]
    for _ in range(6000):
        cases.append(_case(rng, rng.randint(2, 3), 3, rng.randint(10, 60), rng.choice([0.0, 0.03, 0.08])))
    return cases


# --- python mirror of Spec.C15.judge -----------------------------------------------------------

def _judge(case, out):
    if out.startswith("CRASH") or out.startswith("panic"):
        return "bad crash " + out
    cp, op = case.split("|"), out.split("|")
    if len(cp) != 3 or len(op) != 3:
        return "bad unparsable " + out
    progs = [p.split() for p in cp[1].split(";")]
    res = [r.strip().split(",") for r in op[1].strip()[1:].split(";")]
    tr = op[0].split()[1:]
    if "cap" in tr:
        return "ok unfinished"
    fixed = "fixed" in cp[0].split()
    st = [[0, 0] for _ in progs]
    select_at, resp_at = {}, {}
    for pos, e in enumerate(tr):
        tid_s, _, lab = e.partition(":")
        if not tid_s.isdigit():
            continue
        tid = int(tid_s)
        if tid >= len(progs) or lab.endswith("!blocked") or lab.startswith("!"):
            continue
        oi, ph = st[tid]
        if oi >= len(progs[tid]):
            continue
        o = progs[tid][oi]
        if o.startswith("a"):
            k = int(o[1:])
            if ph == 0:
                st[tid][1] = 1
            elif ph == 1:
                select_at.setdefault(k, pos)
                if fixed:
                    st[tid] = [oi + 1, 0]
                else:
                    st[tid][1] = 2
            else:
                st[tid] = [oi + 1, 0]
        else:
            r = res[tid][oi] if tid < len(res) and oi < len(res[tid]) else ""
            if ph == 0:
                if r == "empty":
                    st[tid] = [oi + 1, 0]
                else:
                    st[tid][1] = 1
            else:
                if r.startswith("h") and r[1:].isdigit():
                    resp_at.setdefault(int(r[1:]), pos)
                st[tid] = [oi + 1, 0]
    asks = [(int(o[1:]), x) for p, r in zip(progs, res) for o, x in zip(p, r) if o.startswith("a")]
    for k, x in asks:
        if x.startswith("r") and x[1:] != str(k):
            return f"bad cross Ask {k} returned {x}: the reply of another request"
    for k, x in asks:
        if x == "timeout" and k in resp_at and k in select_at and resp_at[k] < select_at[k]:
            return f"bad lost Ask {k} timed out although Response for it had returned before its deadline"
    return "ok"


def oracle(case, impl, judge):
    if impl is None or impl == "bad-case":
        return None
    if impl.startswith("CRASH"):
        return "harness crashed: " + impl
    if judge is None:
        judge = _judge(case, impl)
    return None if judge.startswith("ok") else judge


def classify(case, impl, why):
    """C15-F1: an Ask times out although Response for it returned in time (`bad lost`), in a case where some caller
    thread issues at least two Asks after another Ask was answered (only then can a recycled context be rebuilt while
    its previous caller still has its late responseClosed.Store(true) to do)."""
    if not why or not why.startswith("bad lost"):
        return None
    progs = [p.split() for p in case.split("|")[1].split(";")]
    nasks = sum(1 for p in progs for o in p if o.startswith("a"))
    ncallers = sum(1 for p in progs if any(o.startswith("a") for o in p))
    if nasks >= 3 and ncallers >= 2:
        return "C15-F1"
    return None


def is_trivial(case, impl):
    return impl is None or not impl.startswith("T ")


def tag(case, impl):
    progs = [p.split() for p in case.split("|")[1].split(";")]
    ncallers = sum(1 for p in progs if any(o.startswith("a") for o in p))
    t = "timeout" if impl and "timeout" in impl.split("|")[1] else "replied"
    return f"callers={ncallers}:{t}"


def shrink(case):
    cfg, progs, sched = [x.strip() for x in case.split("|")]
    s = sched.split()
    for i in range(len(s)):
        yield f"{cfg} | {progs} | " + " ".join(s[:i] + s[i + 1:])

"""C01 — handler never runs concurrently with itself (E3). WORK IN PROGRESS."""
ID = "C01"
WIP = True
LEAN_MODULES = []
THEOREMS = []
DRIVER = False
INPKG = ["actor/zz_verif_mbox.go", "actor/zz_verif_c01.go"]
INSTRUMENT = ["actor/dispatch_state.go", "actor/unbounded_mailbox.go", "actor/dispatcher.go", "actor/worker.go", "actor/pid.go"]
INSTRUMENT_ARGS = {
    "actor/dispatcher.go": ["-funcs", "none", "-entry", "dispatcher.schedule"],
    "actor/worker.go": ["-funcs", "none", "-entry", "worker.reschedule"],
    "actor/pid.go": ["-funcs", "restartSubtree"],
}
JUDGE = False

def gen_cases(rng, tier):
    return [
        "2 2 | t1 t2 ; w0 w0 | 0 0 0 0 0 0 1 1 1 1 1 1 1 1 1 1",
        "2 2 | t1 ; r ; w0 ; w1 | 1 0 0 0 0 0 0 2 2 2 2 2 2 2 2 2 1 1 1 1 1 1 1 1 3 3 3 3 3 3 3 3 3 3",
    ]

"""C01 — an actor's message handler never runs concurrently with itself (E3 controlled schedules
on the real doReceive / runTurn / finishOrReclaim / restartSubtree + dispatch state + mailbox)."""
ID = "C01"
WIP = True
LEAN_MODULES = ["GoaktVerif.Model.C01"]
THEOREMS = []
INPKG = ["actor/zz_verif_mbox.go", "actor/zz_verif_c01.go"]
HARNESS = "c01"
INSTRUMENT = ["actor/dispatch_state.go", "actor/unbounded_mailbox.go", "actor/dispatcher.go", "actor/worker.go", "actor/pid.go"]
INSTRUMENT_ARGS = {
    "actor/dispatcher.go": ["-funcs", "none", "-entry", "dispatcher.schedule"],
    "actor/worker.go": ["-funcs", "none", "-entry", "worker.reschedule"],
    "actor/pid.go": ["-funcs", "restartSubtree"],
}
SITES = {
    "actor/dispatch_state.go:dispatchState.Load": ["Load:v"],
    "actor/dispatch_state.go:dispatchState.TrySchedule": ["Load:v", "CAS:v"],
    "actor/dispatch_state.go:dispatchState.TakeForProcessing": ["CAS:v"],
    "actor/dispatch_state.go:dispatchState.YieldToScheduled": ["Store:v"],
    "actor/dispatch_state.go:dispatchState.reset": ["Store:v"],
    "actor/unbounded_mailbox.go:UnboundedMailbox.Enqueue": ["Store:next", "Swap:tail", "Store:next"],
    "actor/unbounded_mailbox.go:UnboundedMailbox.Dequeue": ["Load:head", "Load:next", "Store:head", "Store:next"],
    "actor/unbounded_mailbox.go:UnboundedMailbox.IsEmpty": ["Load:head", "Load:next"],
    "actor/dispatcher.go:dispatcher.schedule": ["Call:schedule"],
    "actor/worker.go:worker.reschedule": ["Call:reschedule"],
    "actor/pid.go:restartSubtree": ["Add:restartCount"],
}
TIMEOUT = 900


def one_case(rng, restart_p=0.3, maxsched=90):
    nw = rng.randint(1, 3)
    budget = rng.randint(1, 3)
    progs = []
    mid = 1
    if rng.random() < restart_p:
        ops = ["r"]
        for _ in range(rng.randint(0, 2)):
            ops.append(f"t{mid}")
            mid += 1
        progs.append(ops)
    for _ in range(rng.randint(1, 3)):
        ops = []
        for _ in range(rng.randint(1, 3)):
            ops.append(f"t{mid}")
            mid += 1
        progs.append(ops)
    for w in range(nw):
        progs.append([f"w{w}"] * rng.randint(1, 4))
    rng.shuffle(progs)
    nt = len(progs)
    style = rng.random()
    if style < 0.5:
        sched = [rng.randrange(nt) for _ in range(rng.randint(0, maxsched))]
    else:
        # bursty: long runs of one thread, few preemptions (PCT-like)
        sched = []
        for _ in range(rng.randint(1, 8)):
            sched += [rng.randrange(nt)] * rng.randint(1, 16)
    return f"{nw} {budget} | " + " ; ".join(" ".join(p) for p in progs) + " | " + " ".join(map(str, sched))


def gen_cases(rng, tier):
    n = 120 if tier == "quick" else 2500
    return [one_case(rng) for _ in range(n)]


def search_cases(rng, tier):
    return [one_case(rng, restart_p=0.6, maxsched=140) for _ in range(1500)]


def is_trivial(case, impl):
    return not impl.startswith("T ")


def tag(case, impl):
    return ("restart" if " r" in case.split("|")[1] or case.split("|")[1].strip().startswith("r") else "plain")


def oracle(case, impl, judge):
    if impl.startswith("CRASH"):
        return "harness crashed: " + impl
    if "!stuck" in impl or impl.endswith("unfinished"):
        return "a logical thread blocked outside the instrumented points: " + impl[-200:]
    if judge is not None:
        return None if judge.startswith("ok") else judge
    import re
    m = re.search(r" O=(\d+) ", impl)
    if m and int(m.group(1)) > 1:
        return f"bad C01: {m.group(1)} handler invocations in progress at once"
    if " P=true" in impl:
        return "bad C02: lost wake-up"
    return None


def classify(case, impl, why):
    return None

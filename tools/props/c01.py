"""C01 — an actor's message handler never runs concurrently with itself (E3 controlled schedules
on the real doReceive / runTurn / finishOrReclaim / restartSubtree + dispatch state + mailbox)."""
ID = "C01"
LEAN_MODULES = ["GoaktVerif.Props.C01"]
THEOREMS = [
    "GoaktVerif.C01.exec_frame",
    "GoaktVerif.C01.step_inv",
    "GoaktVerif.C01.init_inv",
    "GoaktVerif.C01.run_inv",
    "GoaktVerif.C01.C01_holds",
    "GoaktVerif.C01.old_restart_reset_breaks",
]
TRUSTED = [
    "scope of the model: local actors with the default (unbounded MPSC) mailbox, user messages only (the system mailbox stays empty), senders / dispatcher workers / restart threads; grains, reentrancy callbacks, passivation and reinstatement threads are not in the model",
    "the mailbox is modelled by its sequential spec, the reservation queue (C04 is the property that ties mailboxes to it); mailbox-internal atomic operations appear as stutter steps with the code's labels",
    "the ready queue is abstracted to a number of entries (C05 covers the queue itself); the harness plays the workers through a non-blocking take (own ring, global ring, steal)",
    "tools/yieldinject + harness/vsched: the cooperative scheduler changes timing only; sequentially consistent atomics (Go memory model); plain accesses are not modelled as racy",
]
RULE = ("cases = (workers, budget, thread programs of Tell / take-and-run-turn / Restart ops, schedule of thread ids); random uniform schedules and bursty few-preemption schedules, "
        "completed deterministically; every case is executed on the real actor (doReceive, runTurn, finishOrReclaim, restartSubtree, dispatch state, mailbox) under the cooperative scheduler and replayed on the Lean model; "
        "non-trivial = the run produced a trace; distinct by (case, output)")
MANIFEST = {
    "level_text": "Kernel-checked inductive invariant over ALL schedules of any length, any number of senders, workers and restart threads with arbitrary programs and any turn budget: exactly one scheduling token exists iff the state is Scheduled, exactly one worker owns the turn iff it is Processing, hence at most one handler invocation is ever in progress (C01_holds). The model is tied to the real code step by step: tools/yieldinject instruments the current dispatch_state.go / unbounded_mailbox.go / restartSubtree, the harness drives a real actor through the generated schedules with the harness playing the dispatcher workers, and the Lean model must reproduce every label, result and the final digest; the per-function site sequences are checked as facts.",
    "level_note": "Model scope: local actors, default mailbox (as its reservation-queue spec), user messages, restart thread; grains / reentrancy / passivation threads not modelled. Trusted: Lean kernel (+propext, Quot.sound), yieldinject + cooperative scheduler (sequentially consistent atomics), ready queue abstracted to an entry count. The old defect (restart storing Idle) is kept as a model-level witness theorem and a corpus schedule.",
    "technique": "Lean 4 inductive invariant over a small-step model of the CAS machine, replayed in lockstep against the instrumented real code under controlled schedules",
}
INPKG = ["actor/zz_verif_mbox.go", "actor/zz_verif_c01.go"]
HARNESS = "c01"
INSTRUMENT = ["actor/dispatch_state.go", "actor/unbounded_mailbox.go", "actor/dispatcher.go", "actor/worker.go", "actor/pid.go"]
INSTRUMENT_ARGS = {
    "actor/dispatcher.go": ["-funcs", "none", "-entry", "dispatcher.schedule"],
    "actor/worker.go": ["-funcs", "none", "-entry", "worker.reschedule"],
    "actor/pid.go": ["-funcs", "restartSubtree"],
}
SITES = {
    "actor/dispatch_state.go:dispatchState.Load": ["Load:v"],
    "actor/dispatch_state.go:dispatchState.TrySchedule": ["Load:v", "CAS:v"],
    "actor/dispatch_state.go:dispatchState.TakeForProcessing": ["CAS:v"],
    "actor/dispatch_state.go:dispatchState.YieldToScheduled": ["Store:v"],
    "actor/dispatch_state.go:dispatchState.reset": ["Store:v"],
    "actor/unbounded_mailbox.go:UnboundedMailbox.Enqueue": ["Store:next", "Swap:tail", "Store:next"],
    "actor/unbounded_mailbox.go:UnboundedMailbox.Dequeue": ["Load:head", "Load:next", "Store:head", "Store:next"],
    "actor/unbounded_mailbox.go:UnboundedMailbox.IsEmpty": ["Load:head", "Load:next"],
    "actor/dispatcher.go:dispatcher.schedule": ["Call:schedule"],
    "actor/worker.go:worker.reschedule": ["Call:reschedule"],
    "actor/pid.go:restartSubtree": ["Load:restartCount", "Store:restartCount"],
}
TIMEOUT = 900

# ordered calls the model assumes (actor and grain variants of the same CAS protocol); re-extracted on every run
FACTS = [
    {"file": "actor/pid.go",
     "suffixes": "schedState.*,mailbox.Enqueue,systemMailbox.Enqueue,mailbox.IsEmpty,systemMailbox.IsEmpty,mailbox.Dequeue,systemMailbox.Dequeue,dispatcher.schedule,w.reschedule",
     "expect": {
         "PID.doReceive": ["systemMailbox.Enqueue", "mailbox.Enqueue", "schedState.TrySchedule", "dispatcher.schedule"],
         "PID.runTurn": ["schedState.TakeForProcessing", "systemMailbox.Dequeue", "mailbox.Dequeue", "schedState.YieldToScheduled", "w.reschedule"],
         "PID.finishOrReclaim": ["schedState.reset", "mailbox.IsEmpty", "systemMailbox.IsEmpty", "schedState.TrySchedule", "schedState.TakeForProcessing"],
         "restartSubtree": ["schedState.Load"],
     }},
    {"file": "actor/grain_pid.go",
     "suffixes": "schedState.*,mailbox.Enqueue,queue.Enqueue,mailbox.IsEmpty,mailbox.Dequeue,responses.IsEmpty,responses.Dequeue,dispatcher.schedule,w.reschedule,pid.hasPendingWork,pid.dequeueResponse",
     "expect": {
         "grainPID.receive": ["mailbox.Enqueue", "schedState.TrySchedule", "dispatcher.schedule"],
         "grainPID.enqueueEnvelope": ["queue.Enqueue", "schedState.TrySchedule", "dispatcher.schedule"],
         "grainPID.deliverTimerTick": ["mailbox.Enqueue", "schedState.TrySchedule", "dispatcher.schedule"],
         "grainPID.enqueuePassivationPill": ["mailbox.Enqueue", "schedState.TrySchedule", "dispatcher.schedule"],
         "grainPID.runTurn": ["schedState.TakeForProcessing", "pid.dequeueResponse", "mailbox.Dequeue", "schedState.YieldToScheduled", "w.reschedule"],
         "grainPID.finishOrReclaim": ["schedState.reset", "pid.hasPendingWork", "schedState.TrySchedule", "schedState.TakeForProcessing"],
         "grainPID.hasPendingWork": ["responses.IsEmpty", "mailbox.IsEmpty"],
     }},
]


def one_case(rng, restart_p=0.3, maxsched=90):
    nw = rng.randint(1, 3)
    budget = rng.randint(1, 3)
    progs = []
    mid = 1
    if rng.random() < restart_p:
        ops = ["r"]
        for _ in range(rng.randint(0, 2)):
            ops.append(f"t{mid}")
            mid += 1
        progs.append(ops)
    for _ in range(rng.randint(1, 3)):
        ops = []
        for _ in range(rng.randint(1, 3)):
            ops.append(f"t{mid}")
            mid += 1
        progs.append(ops)
    for w in range(nw):
        progs.append([f"w{w}"] * rng.randint(1, 4))
    rng.shuffle(progs)
    nt = len(progs)
    style = rng.random()
    if style < 0.5:
        sched = [rng.randrange(nt) for _ in range(rng.randint(0, maxsched))]
    else:
        # bursty: long runs of one thread, few preemptions (PCT-like)
        sched = []
        for _ in range(rng.randint(1, 8)):
            sched += [rng.randrange(nt)] * rng.randint(1, 16)
    return f"{nw} {budget} | " + " ; ".join(" ".join(p) for p in progs) + " | " + " ".join(map(str, sched))


def gen_cases(rng, tier):
    n = 70 if tier == "quick" else 2500
    return [one_case(rng) for _ in range(n)]


def search_cases(rng, tier):
    """wider random schedules, plus PCT schedules (`pct seed depth k`: the Go harness schedules online by random priorities with depth-1
    priority change points over macro steps that end before dispatch-state / ready-queue / mailbox linearisation
    points) on small configurations built for reclaim and wake-up races. They are only understood by the Go harness: these cases are judged by the oracle, never replayed
    on the model."""
    cases = [one_case(rng, restart_p=0.6, maxsched=140) for _ in range(600)]
    for i in range(6000):
        nw = 2
        budget = rng.choice([1, 2, 3])
        ns = rng.randint(2, 3)
        progs = [[f"t{j+1}"] for j in range(ns)] + [["w0"] * 3, ["w1"] * 3]
        if rng.random() < 0.2:
            progs.insert(0, ["r"])
        rng.shuffle(progs)
        depth = rng.choice([2, 3, 3, 3, 4])
        k = rng.choice([12, 18, 25, 35])
        cases.append(f"{nw} {budget} | " + " ; ".join(" ".join(p) for p in progs) + f" | pct {rng.randrange(1 << 30)} {depth} {k}")
    return cases


def is_trivial(case, impl):
    return not impl.startswith("T ")


def tag(case, impl):
    return ("restart" if " r" in case.split("|")[1] or case.split("|")[1].strip().startswith("r") else "plain")


def oracle(case, impl, judge):
    if impl.startswith("CRASH"):
        return "harness crashed: " + impl
    if "!stuck" in impl:
        return "a logical thread blocked outside the instrumented points: " + impl[-200:]
    if impl.endswith("unfinished"):
        return None  # step cap reached (e.g. a restart waiting for an actor nobody drains): inconclusive, compared with the model only
    if judge is not None:
        return None if judge.startswith("ok") else judge
    import re
    m = re.search(r" O=(\d+) ", impl)
    if m and int(m.group(1)) > 1:
        return f"bad C01: {m.group(1)} handler invocations in progress at once"
    if " P=true" in impl:
        return "bad C02: lost wake-up"
    return None


def classify(case, impl, why):
    return None

"""C31 — grain activations are ordered and single-threaded.

Lean: small-step model of one grain process (grain_pid.go activate/deactivate/receive/turn/
handlePoisonPill/handlePassivationPill/passivationTry, grain_engine.go ensureGrainProcess) over an
abstract dispatch turn; refutation witnesses; clause 1 for all schedules; clauses 1,2,4 for all
schedules when deactivation only happens in the turn; sends after deactivation go to a fresh process.
Tie: gated-scenario differential on a real actor system (harness/verifdrv/c06/c31.go) + the spec
monitor (Spec.C06) per grain instance.
"""
import re

ID = "C31"
LEAN_MODULES = ["GoaktVerif.Props.C31"]
THEOREMS = [
    "GoaktVerif.C31.C31_mon_is_log",
    "GoaktVerif.C31.base_step",
    "GoaktVerif.C31.ginv_step",
    "GoaktVerif.C31.C31_holds",
    "GoaktVerif.C31.C31_activate_first",
    "GoaktVerif.C31.C31_send_after_deactivation",
    "GoaktVerif.C31.C31_passivation_during_receive_goes_through_mailbox",
    "GoaktVerif.C31.C31_direct_deactivation_owns_the_turn",
    "GoaktVerif.C31.C31_message_behind_pill_not_received",
]
INPKG = ["actor/zz_verif_c06.go"]
HARNESS = "c06"
TIMEOUT = 1500
MANIFEST = {
    "level_text": "Kernel-checked theorems over a small-step model of one grain process (actor/grain_pid.go activate, deactivate, receive, runTurn/dispatchOne, handlePoisonPill, handlePassivationPill, passivationTry; actor/grain_engine.go ensureGrainProcess) for ANY pool of senders, PoisonPill senders (user or system shutdown) and passivation attempts and ANY schedule: the full property is refuted with machine-checked witnesses (C31_refuted; C31_overlap_direct_passivation, C31_receive_after_direct_deactivate, C31_double_deactivate; the pill-queue defect C31-F2 was fixed by 6dc1e0c: regression theorem C31_message_behind_pill_not_received); OnActivate completes before every OnReceive on all schedules (C31_activate_first); when every deactivation runs inside the turn (reentrancy-capable grain or no passivation attempt) ALL FOUR clauses hold on all schedules (C31_inturn); all four clauses hold on every schedule in which the manager's direct deactivation only starts while no turn is in progress and no turn starts while it runs (C31_partial, inductive invariant ginv_step); once deactivate has removed the process from the grain map every later send leaves for a fresh process and the removal is permanent (C31_send_after_deactivation). Witnesses are replayed deterministically on the real system and the spec monitor judges every grain instance's hook history.",
    "level_note": "Partial: false of the current code (C31-F1 and C31-F2 fixed). `exactly once` is proved as `at most once` (that every active grain IS deactivated at system stop is C17's). The dispatch turn is abstract (C01/C02 assumed); the response queue / StashNonReentrant pause, timers, failing OnActivate/OnDeactivate and re-activation of the same process are not modelled. Sends in the scenario harness use the Tell half of localSend split at the hand-over point (in-package copy of the same calls) so that 'enqueued' is observable; the real TellGrain is exercised by the `T`/`PILL` actions and by C17. Tie at gate granularity; racy scripts are judged by the monitor only.",
    "technique": "Lean 4 inductive invariants over an interleaving model + deterministic gated-scenario differential against the real actor system + spec monitor on recorded hook histories",
}
TRUSTED = [
    "the abstract dispatch turn (C01, C02)",
    "deactivation-path attribution by the Go call stack at OnDeactivate entry (caller of (*grainPID).deactivate)",
    "grain instance identity = Go object identity of the Grain value (numbered at first OnActivate)",
    "VerifGrainTell: the same calls as localSend's Tell branch, split after receive()",
]
RULE = ("scripts over {activate/receive/deactivate gates, send, PoisonPill, passivation attempt, probe} × {plain, reentrancy-capable} × "
        "budget {32,1,2}: systematic deactivation path × {idle, mid-handler, message queued behind} plus random scripts of 2..8 "
        "actions; non-trivial = a hook history was produced; distinct by (case, canonical output)")


def systematic():
    cases = []
    for kind in ("grain", "grain reent"):
        for st in ("pill", "pass"):
            cases.append(f"{kind} | {st} probe t probe")
            cases.append(f"{kind} | g+r t {st} probe g-r probe")
            cases.append(f"{kind} | g+r t {st} t g-r probe t probe")
            cases.append(f"{kind} | g+d {st} t g-d probe t probe")
            cases.append(f"{kind} b=2 | g+r t t t {st} t g-r probe")
        cases.append(f"{kind} | g+d pass pill g-d probe")
        cases.append(f"{kind} | g+d pill pass g-d probe")
        cases.append(f"{kind} | pill pill t probe")
        cases.append(f"{kind} | pass pass t pass probe")
        cases.append(f"{kind} | g+a pill t g-a probe")
        cases.append(f"{kind} | pill T probe")
        cases.append(f"{kind} | PILL T T probe")
    return cases


def rand_script(rng):
    kind = rng.choice(["grain", "grain reent"])
    budget = rng.choice([32, 32, 1, 2])
    ops, closed = [], set()
    for _ in range(rng.randint(2, 8)):
        r = rng.random()
        if r < 0.25:
            g = rng.choice("ard")
            if g in closed:
                closed.discard(g)
                ops.append(f"g-{g}")
            else:
                closed.add(g)
                ops.append(f"g+{g}")
        elif r < 0.60:
            ops.append("t")
        elif r < 0.68:
            ops.append("probe")
        elif r < 0.84:
            ops.append("pill")
        else:
            ops.append("pass")
    return kind + ("" if budget == 32 else f" b={budget}") + " | " + " ".join(ops)


def gen_cases(rng, tier):
    n = 120 if tier == "quick" else 3000
    return systematic() + [rand_script(rng) for _ in range(n)]


def search_cases(rng, tier):
    return systematic() + [rand_script(rng) for _ in range(400 if tier == "quick" else 4000)]


_gid = re.compile(r"@\d+")


def canon_impl(case, out):
    if out is None or "| LOG" not in out:
        return out
    ids = {}

    def ren(m):
        g = m.group(0)
        if g not in ids:
            ids[g] = f"@{len(ids)}"
        return ids[g]
    return _gid.sub(ren, out)


def _split(o):
    p = [x.strip() for x in o.split("|")]
    if len(p) != 3:
        return None
    return p[0].split(), p[1], p[2]


def _per_instance(log):
    """impl LOG (global order, kind@g/via#inst) -> '#1: ... ; #2: ...' without goroutine ids"""
    per = {}
    for tok in log.split()[1:]:
        body, _, inst = tok.partition("#")
        body = _gid.sub("", body)
        per.setdefault(int(inst or 0), []).append(body)
    return "LOG " + " ; ".join(f"#{k}: " + " ".join(per[k]) for k in sorted(per))


def compare(case, impl, model):
    if model == "*" or model is None:
        return None
    if impl.startswith("CRASH") or impl == "bad-case" or model == "bad-case":
        return None if impl == model else f"impl={impl!r} model={model!r}"
    a, b = _split(impl), _split(model)
    if a is None or b is None:
        return f"unparsable impl={impl!r} model={model!r}"
    ra, rb = a[0], b[0]
    if len(ra) != len(rb):
        return f"result count differs impl={ra} model={rb}"
    for x, y in zip(ra, rb):
        if x == "wait" and y != "wait":
            return None  # one-sided window expired where the model expected progress: inconclusive
    if ra != rb:
        return f"results differ impl={' '.join(ra)} model={' '.join(rb)}"
    la = _per_instance(a[1])
    if la != b[1]:
        return f"hook history differs impl=[{la}] model=[{b[1]}]"
    if a[2] != b[2]:
        return f"final state differs impl=[{a[2]}] model=[{b[2]}]"
    return None


def is_trivial(case, impl):
    return impl is None or "| LOG" not in impl


def tag(case, impl):
    cfg, _, ops = case.partition("|")
    kinds = sorted({o.lower() for o in ops.split() if o.lower() in ("pill", "pass")})
    return ("reent" if "reent" in cfg else "plain") + ":" + ("+".join(kinds) or "none")


def _monitor(impl):
    """python mirror of Driver.C31.judge (used only without the Lean judge)"""
    sp = _split(impl)
    if sp is None:
        return "bad unparsable output"
    per = {}
    for tok in sp[1].split()[1:]:
        body, _, inst = tok.partition("#")
        per.setdefault(inst, []).append(body)
    out = []
    for inst, evs in per.items():
        act_done, posts, recv_by, active, nact = False, [], None, [], 0
        for tok in evs:
            kind, _, rest = tok.partition("@")
            g, _, via = rest.partition("/")
            if kind == "actB":
                act_done, posts = False, []
                nact += 1
            elif kind == "actE":
                act_done = True
            elif kind == "rcvB":
                if not act_done:
                    out.append("c1:spawn")
                if posts:
                    out.append("c3:" + "+".join(posts))
                if any(x != g for (x, _) in active):
                    out.append("c4:" + "+".join(v for (x, v) in active if x != g))
                recv_by = g
            elif kind == "rcvE":
                recv_by = None
            elif kind == "deaB":
                if posts:
                    out.append("c2:" + "+".join(posts + [via]))
                posts.append(via)
                if recv_by is not None and recv_by != g:
                    out.append("c4:" + via)
                active.append((g, via))
            elif kind == "deaE":
                active = [(x, v) for (x, v) in active if x != g]
        if nact > 1:
            out.append("reactivated")
    seen = []
    for o in out:
        if o not in seen:
            seen.append(o)
    return "ok" if not seen else "bad " + " ".join(seen)


def oracle(case, impl, judge):
    if impl.startswith("CRASH"):
        return "harness crashed: " + impl
    if impl == "bad-case":
        return None
    v = judge if judge is not None else _monitor(impl)
    return None if v.startswith("ok") else v


def classify(case, impl, why):
    """signature: `c<k>:<deactivation paths of the activation>`"""
    if not why or not why.startswith("bad c"):
        return None
    found = []
    for tok in why.split()[1:]:
        return None  # no open finding is left for C31: every verdict item is a violation
    return found[0] if found else None


def shrink(case):
    cfg, _, ops = case.partition("|")
    ops = ops.split()
    for i in range(len(ops)):
        yield cfg.strip() + " | " + " ".join(ops[:i] + ops[i + 1:])

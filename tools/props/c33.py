"""C33 — relocation accounts for every item and runs once per departure (E1/E2 on the real worker,
relocator handler and job registry against scripted doubles)."""

ID = "C33"
LEAN_MODULES = ["GoaktVerif.Props.C33"]
THEOREMS = [
    "GoaktVerif.C33.sendBatches_items",
    "GoaktVerif.C33.relocateShare_items",
    "GoaktVerif.C33.relocate_items",
    "GoaktVerif.C33.abortRecs_items",
    "GoaktVerif.C33.C33_accounting_holds",
    "GoaktVerif.C33.C33_abort_accounting_holds",
    "GoaktVerif.C33.C33_share_accounting",
    "GoaktVerif.C33.inv_init",
    "GoaktVerif.C33.inv_step",
    "GoaktVerif.C33.inv_run",
    "GoaktVerif.C33.step_nodeLeft_of_some",
    "GoaktVerif.C33.owner_unique_of_live",
    "GoaktVerif.C33.C33_once_holds",
    "GoaktVerif.C33.C33_finish_window_holds",
    "GoaktVerif.C33.finish_reversed_refuted",
    "GoaktVerif.C33.lifeInv_step",
    "GoaktVerif.C33.C33_life_holds",
    "GoaktVerif.C33.announce_step",
    "GoaktVerif.C33.C33_announce_partial_holds",
    "GoaktVerif.C33.C33_announce_empty_set_witness",
    "GoaktVerif.C33.C33_holds",
]
# the C32 plan facts are imported from Lemmas/C32*.lean (no generated file involved)
GO2LEAN = None
INPKG = ["actor/zz_verif_c32.go", "actor/zz_verif_c33.go"]
# ordered calls the model assumes (Model.C33.finishOrder: snapshot deleted BEFORE the job is released, in the
# worker's finish and in the relocator's abort; NodeLeft handler: snapshot fetched, job registered, then announced
# and dispatched); re-extracted from the current source on every run
FACTS = [
    {"file": "actor/relocation_worker.go",
     "suffixes": "store.DeletePeerState,system.endRelocation",
     "expect": {"relocationWorker.finish": ["store.DeletePeerState", "system.endRelocation"]}},
    {"file": "actor/relocator.go",
     "suffixes": "store.DeletePeerState,system.endRelocation",
     "expect": {"relocator.abortRelocation": ["store.DeletePeerState", "system.endRelocation"]}},
    {"file": "actor/actor_system.go",
     "suffixes": "clusterStore.GetPeerState,x.beginRelocation,x.publishRelocationStarted,systemGuardian.Tell",
     "expect": {"actorSystem.handleNodeLeftEvent": ["clusterStore.GetPeerState", "x.beginRelocation", "x.publishRelocationStarted", "systemGuardian.Tell"]}},
]
TIMEOUT = 900
ORACLE_NEEDS_JUDGE = True
MANIFEST = {
    "level_text": "Kernel-checked theorems. Item level (C33_accounting_holds, relocate_items, relocateShare_items): for EVERY map iteration order, survivor set, role sets, loads and EVERY environment (which item fails on which node, which batch is rejected by which peer, which lazy release fails) the worker's run produces exactly one record per actor of the snapshot and per relocatable grain - handled by exactly one node, or failed (= listed in the event) - and at most one RelocationFailed event, published exactly when something failed; abort accounting likewise (C33_abort_accounting_holds). Job level (C33_once_holds, inductive invariant inv_step over 13 conjuncts): a NodeLeft while a job is registered leaves the state unchanged; over EVERY history of NodeLeft (duplicates included), order deliveries, spawn failures, completions, worker deaths and Terminated deliveries each departure's relocation ends at most once and gets at most one RelocationFailed event, a queued order or waiting worker always owns the registered job of its address, never two per address, a stale Terminated never aborts a newer job; with the code's order of finish (snapshot deleted, then job released) no duplicate NodeLeft before, between or after the two calls starts a relocation (C33_finish_window_holds; the reverse order is refuted); over every sequence of NodeLefts on either path, completed and aborted runs, relocations started <= aborted + 1 (C33_life_holds: once per departure incl. abort and re-request). Since fix 51adf01 (former finding C33-F1) a NodeLeft while a relocation is in flight announces and dispatches nothing on either path, and every RelocationStarted is the announcement of a started relocation or a crash-path announcement of an empty derived set (C33_announce_partial_holds; the empty-set announcement is intentional and is the only reason the plain 'announced = started' statement fails, C33_announce_empty_set_witness). Tied to the code by differential runs of the REAL relocationWorker.relocate / relocateShare, relocator.Receive (Terminated, Rebalance with failing spawn) beginRelocation/endRelocation/relocationJob, handleNodeLeftEvent (duplicates injected from inside DeletePeerState) against scripted doubles, and of a started system with the real relocator actor, startWorker, worker actor and gateCrashRecovery (lv), plus call-order facts re-extracted from the source, with the spec oracle evaluated on the observed trace.",
    "level_note": "PARTIAL. Parameters, not verified: real cluster membership (cluster.Peers), the transport (a batch whose RPC fails is modelled as not applied by the target; the registry gate that protects against a half-applied batch is outside the model), the peer-side handler (scripted: it reports exactly the failed items), the per-item respawn on the leader (scripted outcome; the real recreateActorFromWire gate is tied in C32). in the job scripts startWorker's successful spawn is replayed by the harness; the lv op runs it for real (started system, real spawnRelocator / relocator actor / startWorker / worker actor, both NodeLeft paths incl. gateCrashRecovery) but only observes run counts and events; worker death is modelled as happening before any bookkeeping. Snapshot identity = pointer identity, fresh per departure (true for both shipped stores). The full relocate is map-ordered: exact comparison only on order-independent families (det: every actor pinned to one target; f1: at most one peer down and node-independent item failures), otherwise only the oracle judges the trace.",
    "technique": "Lean 4 proof (permutation accounting composed from the C32 plan theorems; inductive invariant of a transition system) plus model/implementation differential on the real worker with fake peers",
}
TRUSTED = [
    "lv op: waits on real actors are bounded (30 s) and a timeout is reported as inconclusive",
    "scripted doubles in harness/inpkg/actor/zz_verif_c33.go (cluster, store, remoting client, leader-side respawn outcome) play the model's Env faithfully",
    "goroutines of one relocation only interact through the mutex-protected failure list (the model runs shares sequentially; outcomes are compared as sets)",
    "peers have pairwise distinct host:port (survivingPeersExcept matches on it)",
]
RULE = ("rl det|f1|any: one full relocate on a snapshot with scripted item failures (L), peer-reported failures (R), rejected batches (X), "
        "Peers error (PE), store error (SD); rs: relocateShare with the same scripts; job raw: random primitive scripts over 2 addresses; "
        "job sys: protocol-respecting histories generated from the machine; nl: real handleNodeLeftEvent duplicates before and inside the worker's DeletePeerState; peers 2k/2k+1 share a host, equal parity shares the port; non-trivial = a trace was produced; distinct by (case, output)")


# ---------------------------------------------------------------------------
def roles_tok(rs):
    return ",".join(map(str, rs)) if rs else "-"


def peers_tok(ps):
    return ";".join(roles_tok(p) for p in ps) if ps else "."


def list_tok(toks):
    return ",".join(toks) if toks else "-"


def rand_roles(rng, nroles):
    return sorted(rng.sample(range(1, nroles + 1), rng.randint(0, nroles))) if nroles else []


def grain_tok(rng, i, allow_d=True):
    fl = ("d" if allow_d and rng.random() < 0.15 else "") + ("e" if rng.random() < 0.4 else "")
    return f"{i}.{fl}" if fl else str(i)


def rand_env(rng, items, npeers, p_l=0.5, p_r=0.5, p_x=0.5):
    ds = []
    if items and rng.random() < p_l:
        ds.append("L:" + ",".join(rng.sample(items, rng.randint(1, min(3, len(items))))))
    for p in range(npeers):
        if items and rng.random() < p_r / max(npeers, 1) * 1.5:
            ds.append(f"R{p}:" + ",".join(rng.sample(items, rng.randint(1, min(3, len(items))))))
        if items and rng.random() < p_x / max(npeers, 1) * 1.5:
            k = len(items) if rng.random() < 0.5 else rng.randint(1, min(3, len(items)))
            ds.append(f"X{p}:" + ",".join(rng.sample(items, k)))
    if rng.random() < 0.06:
        ds.append("PE")
    if rng.random() < 0.06:
        ds.append("SD")
    return ";".join(ds) if ds else "-"


def rand_rl_any(rng, max_actors, max_peers, max_grains):
    nroles = rng.choice([0, 1, 2, 2])
    npeers = rng.randint(0, max_peers)
    leader = rand_roles(rng, nroles)
    peers = [rand_roles(rng, nroles) for _ in range(npeers)]
    na = rng.randint(0, max_actors)
    ng = rng.randint(0, max_grains)
    aids = rng.sample(range(1, 3 * max_actors + 5), na)
    gids = rng.sample(range(1, 3 * max_grains + 5), ng)
    actors = []
    for i in aids:
        role = rng.choice([0, 0] + list(range(1, nroles + 2)))
        actors.append(f"{i}.{role}" + (".s" if rng.random() < 0.1 else ""))
    grains = [grain_tok(rng, i) for i in gids]
    items = [f"a{i}" for i in aids] + [f"g{i}" for i in gids]
    loads = "-" if rng.random() < 0.3 else ",".join(str(rng.choice([0, 0, 1, 3])) for _ in range(npeers + 1))
    env = rand_env(rng, items, npeers) if rng.random() < 0.8 else "-"
    return f"rl any {roles_tok(leader)} {peers_tok(peers)} {loads} {list_tok(actors)} {list_tok(grains)} {env}"


def rand_rl_det(rng):
    """every non-singleton actor is pinned: target i advertises only role i+1; fewer grains than targets"""
    npeers = rng.randint(0, 3)
    targets = [[i + 1] if rng.random() < 0.85 else [] for i in range(npeers + 1)]
    na = rng.randint(0, 8)
    aids = rng.sample(range(1, 40), na)
    actors = []
    for i in aids:
        if rng.random() < 0.15:
            actors.append(f"{i}.{rng.choice([0, 1])}.s")
        elif npeers == 0 and rng.random() < 0.5:
            actors.append(f"{i}.0")
        else:
            actors.append(f"{i}.{rng.randint(1, npeers + 2)}")
    ng = rng.randint(0, npeers) if npeers > 0 else rng.randint(0, 5)
    gids = rng.sample(range(1, 40), ng)
    grains = [grain_tok(rng, i) for i in gids]
    # relocatable grains must stay fewer than targets (or there is no peer)
    items = [f"a{i}" for i in aids] + [f"g{i}" for i in gids]
    env = rand_env(rng, items, npeers) if rng.random() < 0.85 else "-"
    loads = "-" if rng.random() < 0.5 else ",".join(str(rng.randint(0, 2)) for _ in range(npeers + 1))
    return f"rl det {roles_tok(targets[0])} {peers_tok(targets[1:])} {loads} {list_tok(actors)} {list_tok(grains)} {env}"


def rand_rl_f1(rng, max_actors=14, max_grains=10):
    """at most one peer down (rejects every batch), item failures independent of the node"""
    nroles = rng.choice([0, 1, 2])
    npeers = rng.randint(1, 4)
    leader = rand_roles(rng, nroles)
    peers = [rand_roles(rng, nroles) for _ in range(npeers)]
    na = rng.randint(0, max_actors)
    ng = rng.randint(0, max_grains)
    aids = rng.sample(range(1, 60), na)
    gids = rng.sample(range(1, 60), ng)
    actors = [f"{i}.{rng.choice([0, 0] + list(range(1, nroles + 2)))}" + (".s" if rng.random() < 0.1 else "") for i in aids]
    grains = [grain_tok(rng, i) for i in gids]
    items = [f"a{i}" for i in aids] + [f"g{i}" for i in gids]
    ds = []
    if items and rng.random() < 0.7:
        bad = ",".join(rng.sample(items, rng.randint(1, min(3, len(items)))))
        ds.append("L:" + bad)
        for p in range(npeers):
            ds.append(f"R{p}:" + bad)
    if items and rng.random() < 0.7:
        ds.append(f"X{rng.randrange(npeers)}:" + ",".join(items))
    loads = "-" if rng.random() < 0.3 else ",".join(str(rng.choice([0, 1, 2])) for _ in range(npeers + 1))
    return f"rl f1 {roles_tok(leader)} {peers_tok(peers)} {loads} {list_tok(actors)} {list_tok(grains)} {';'.join(ds) if ds else '-'}"


def rand_rs(rng, max_actors=10, max_grains=8):
    nroles = rng.choice([0, 1, 2, 2])
    npeers = rng.randint(1, 4)
    leader = rand_roles(rng, nroles)
    peers = [rand_roles(rng, nroles) for _ in range(npeers)]
    target = rng.randrange(npeers)
    aids = rng.sample(range(1, 60), rng.randint(0, max_actors))
    gids = rng.sample(range(1, 60), rng.randint(0, max_grains))
    reqs = []
    pool = list(aids)
    while pool:
        k = rng.randint(1, len(pool))
        chunk, pool = pool[:k], pool[k:]
        # the share was planned for `target`, so its actors are role-less or need a role the target advertises
        reqs.append("A" + ",".join(f"{i}.{rng.choice([0] + peers[target] + peers[target])}" for i in chunk) + "+G-")
    pool = list(gids)
    while pool:
        k = rng.randint(1, len(pool))
        chunk, pool = pool[:k], pool[k:]
        reqs.append("A-+G" + ",".join(grain_tok(rng, i, allow_d=False) for i in chunk))
    if rng.random() < 0.2:
        rng.shuffle(reqs)
    items = [f"a{i}" for i in aids] + [f"g{i}" for i in gids]
    ds = []
    if items and rng.random() < 0.85:
        ds.append(f"X{target}:" + ",".join(rng.sample(items, rng.randint(1, len(items)))))
    for p in range(npeers):
        if p != target and items and rng.random() < 0.3:
            ds.append(f"X{p}:" + ",".join(rng.sample(items, rng.randint(1, min(3, len(items))))))
        if items and rng.random() < 0.25:
            ds.append(f"R{p}:" + ",".join(rng.sample(items, rng.randint(1, min(2, len(items))))))
    if items and rng.random() < 0.4:
        ds.append("L:" + ",".join(rng.sample(items, rng.randint(1, min(2, len(items))))))
    return f"rs {roles_tok(leader)} {peers_tok(peers)} {target} {'/'.join(reqs) if reqs else '-'} {';'.join(ds) if ds else '-'}"


def rand_job_raw(rng, n):
    ops = []
    for _ in range(n):
        a = rng.randint(1, 2)
        s = 10 * a + rng.randint(1, 3)  # a snapshot object belongs to one departed address
        w = rng.randint(1, 3)
        ops.append(rng.choice([f"b{a}.{s}", f"b{a}.{s}", f"e{a}", f"j{a}", f"w{w}.{a}.{s}", f"t{w}", f"t{w}", f"r{a}.{s}", f"x{a}.{s}"]))
    return "job raw " + " ".join(ops)


def rand_job_sys(rng, n):
    """a history of the system-level machine, translated to the primitives the harness drives"""
    jobs, queued, workers, live, seq, snap = {}, {}, {}, set(), 0, 0
    ops = []
    for _ in range(n):
        ev = rng.choice(["left", "left", "left", "reb", "reb", "done", "peers", "die", "term", "term"])
        if ev == "left":
            a = rng.randint(1, 2)
            snap += 1
            ops.append(f"j{a}")
            ops.append(f"b{a}.{snap}")
            if a not in jobs:
                jobs[a] = snap
                queued[snap] = a
            ops.append(f"j{a}")
        elif ev == "reb" and queued:
            s = rng.choice(sorted(queued))
            a = queued.pop(s)
            seq += 1
            if rng.random() < 0.8:
                workers[seq] = (a, s)
                live.add(seq)
                ops.append(f"w{seq}.{a}.{s}")
            else:
                ops.append(f"r{a}.{s}")
                jobs.pop(a, None)
        elif ev in ("done", "peers") and live:
            n_ = rng.choice(sorted(live))
            live.discard(n_)
            a, s = workers[n_]
            ops.append(f"e{a}" if ev == "done" else f"x{a}.{s}")
            jobs.pop(a, None)
        elif ev == "die" and live:
            live.discard(rng.choice(sorted(live)))
        elif ev == "term":
            dead = [w for w in workers if w not in live]
            if dead:
                n_ = rng.choice(dead)
                a, s = workers.pop(n_)
                ops.append(f"t{n_}")
                if jobs.get(a) == s:
                    jobs.pop(a)
    for a in (1, 2):
        ops.append(f"j{a}")
    return "job sys " + " ".join(ops)


def fixed_cases():
    return [
        "rl any 1 1;-;2 - 1.0,2.1,3.2,4.3,5.0.s,9.0 1,2.d,3.e,4,5,6,7,8 -",
        "rl det - . - 1.0,2.1 1,2.e -",
        "rl any - -;- 0,0,0 1.0,2.0,3.0,4.0 1,2,3.e,4,5,6,7 L:a1,g1;R0:a2,g2;X1:a3",
        "rl det - -;- 0,0,0 1.0,2.0 1,2.e,3.d PE",
        "rl det - -;- 0,0,0 1.0,2.0 1,2.e,3.d PE;L:g1",
        "rl det - . - - - -",
        "rl det 1 2 - 1.1,2.2,3.3 - X0:a2",
        "rl det 1 2 - 1.1,2.2,3.3 4.e SD",
        "rs - -;-;- 0 A1.0,2.0+G-/A-+G5.e,6,7 X0:g5",
        "rs 1 -;2 0 A1.0,2.1,3.2,4.3+G-/A-+G5.e,6 X0:a1;X1:g6;L:a2",
        "rs - - 0 A1.0+G-/A-+G2,3.e X0:a1;L:g2",
        "rs - -;- 1 A1.0+G- -",
        "lv s 0 0", "lv s 3 0", "lv c 0 0", "lv s 0 1", "lv c 0 1", "lv s 2 1",
        "nl 0 0", "nl 0 1", "nl 2 0", "nl 1 1", "nl 3 2",
        "job raw b1.11 b1.12 j1 e1 j1 b1.12 j1",
        "job sys b1.1 w1.1.1 t1 j1",
        "job raw b1.1 w1.1.1 e1 b1.2 t1 j1",
        "job sys b1.1 r1.1 j1",
        "job sys j1 b1.1 j1 x1.1 j1 b1.2 j1 w2.1.2 j1 b1.3 j1 t2 t2",
    ]


def gen_cases(rng, tier):
    quick = tier == "quick"
    cases = fixed_cases()
    for _ in range(60 if quick else 600):
        cases.append(rand_rl_det(rng))
    for _ in range(60 if quick else 600):
        cases.append(rand_rl_f1(rng))
    for _ in range(60 if quick else 600):
        cases.append(rand_rl_any(rng, 10, 3, 8))
    for _ in range(6 if quick else 40):
        cases.append(rand_rl_any(rng, 120, 6, 60))
    for _ in range(100 if quick else 1000):
        cases.append(rand_rs(rng))
    for _ in range(6 if quick else 40):
        cases.append(f"nl {rng.randint(0, 4)} {rng.randint(0, 3)}")
    for _ in range(6 if quick else 40):
        cases.append(f"lv {rng.choice('sc')} {rng.randint(0, 3)} {rng.choice([0, 0, 1, 2])}")
    for _ in range(60 if quick else 600):
        cases.append(rand_job_raw(rng, rng.randint(3, 14)))
    for _ in range(60 if quick else 600):
        cases.append(rand_job_sys(rng, rng.randint(4, 30)))
    return cases


def search_cases(rng, tier):
    return gen_cases(rng, "thorough")


# ---------------------------------------------------------------------------
def _kv(part):
    d = {}
    for w in part.split():
        if "=" in w:
            k, v = w.split("=", 1)
            d[k] = v
    return d


def compare(case, impl, model):
    if model == "*":
        return None
    if impl.startswith("panic") or impl.startswith("CRASH") or impl.startswith("rig-error"):
        return f"implementation crashed: {impl!r} model={model!r}"
    if case.startswith("lv ") and impl.startswith("timeout"):
        return None  # a bounded wait on real actors ran out: inconclusive, never an alarm
    f = case.split(" ", 2)
    if f[0] == "rl":
        mode = f[1]
        if mode == "det":
            return None if impl == model else f"impl={impl!r} model={model!r}"
        keys = ("ev", "fa", "fg", "job", "del") if mode == "f1" else ("job", "del")
        di, dm = _kv(impl), _kv(model)
        for k in keys:
            if di.get(k) != dm.get(k):
                return f"{k} differs (order independent for mode {mode}): impl={impl!r} model={model!r}"
        return None
    return None if impl == model else f"impl={impl!r} model={model!r}"


def is_trivial(case, impl):
    return impl in ("", "bad-case") or impl.startswith("CRASH") or impl.startswith("panic") or impl.startswith("rig-error")


def tag(case, impl):
    f = case.split()
    t = f[0] + ":" + f[1] if f[0] in ("rl", "job") else f[0]
    if f[0] == "rl":
        d = _kv(impl)
        if d.get("ev") == "1":
            t += ":event"
        if "X" in f[-1]:
            t += ":peerfail"
    if f[0] == "rs" and "X" in f[-1]:
        t += ":redistributed"
    return t


def oracle(case, impl, judge):
    if impl.startswith("CRASH") or impl.startswith("panic") or impl.startswith("rig-error"):
        return "harness crashed: " + impl
    if judge is not None:
        return None if judge.startswith("ok") else judge
    return None


def classify(case, impl, why):
    return None  # no open finding (C33-F1 fixed by 51adf01)

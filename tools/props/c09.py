"""C09 — stopping an actor stops its whole subtree, children first; the actor tree stays consistent."""
import itertools

ID = "C09"
LEAN_MODULES = ["GoaktVerif.Props.C09", "GoaktVerif.Props.C09Attach"]
THEOREMS = [
    "GoaktVerif.Model.C09.wf_addRoot",
    "GoaktVerif.Model.C09.wf_addNode",
    "GoaktVerif.Model.C09.wf_attach",
    "GoaktVerif.Model.C09.wf_addOrAttach",
    "GoaktVerif.Model.C09.wf_addWatcher",
    "GoaktVerif.Model.C09.wf_removeWatcher",
    "GoaktVerif.Model.C09.wf_removeDescendant",
    "GoaktVerif.Model.C09.wf_removeNode",
    "GoaktVerif.Model.C09.wf_deleteNode",
    "GoaktVerif.Model.C09.nwf_insertNamed",
    "GoaktVerif.Model.C09.nwf_addRoot",
    "GoaktVerif.Model.C09.nwf_addNode",
    "GoaktVerif.Model.C09.dropName_spec",
    "GoaktVerif.Model.C09.nwf_removeNode",
    "GoaktVerif.Model.C09.nwf_step",
    "GoaktVerif.C09.name_resolves",
    "GoaktVerif.C09.tree_inv_step",
    "GoaktVerif.C09.tree_holds",
    "GoaktVerif.C09.counter_eq",
    "GoaktVerif.C09.watchers_registered",
    "GoaktVerif.Model.C09.fi_step",
    "GoaktVerif.Model.C09.fi_fold",
    "GoaktVerif.Model.C09.shutdown_post",
    "GoaktVerif.Model.C09.deleteNode_unregisters",
    "GoaktVerif.Model.C09.drain_unregisters",
    "GoaktVerif.C09.subtree_offline",
    "GoaktVerif.C09.stop_holds",
    "GoaktVerif.C09.hyp_of_hypB",
    "GoaktVerif.C09.C09_holds",
    "GoaktVerif.C09.addNode_unknown_parent",
    "GoaktVerif.C09.addNode_ok_registers",
    "GoaktVerif.C09.attach_order_registers",
]
INPKG = ["actor/zz_verif_c09.go", "actor/zz_verif_c09sys.go", "actor/zz_verif_c09attach.go"]
# build-time gates for the `attach` cases (zz_verif_c09attach.go): the goroutine that spawns an actor is held between
# "started" (newPID/configPID returned) and "attached to the tree" (completeSpawn) while the actor's PostStart
# handler spawns a child
REWRITE = [
    {"file": "actor/spawn.go", "before": "\t\treturn x.completeSpawn(ctx, x.getUserGuardian(), pid)\n",
     "insert": "\t\tverifAttachGate(pid)\n"},
    {"file": "actor/pid.go", "before": "\t\tif _, err := pid.ActorSystem().completeSpawn(ctx, pid, cid); err != nil {\n",
     "insert": "\t\tverifAttachGate(cid)\n"},
]
# engine E3 for the `resolve` cases: yield points in the tree's lookup / delete path
INSTRUMENT = ["actor/pid_tree.go"]
INSTRUMENT_ARGS = {"actor/pid_tree.go": ["-funcs", "tree.nodeByName,tree.node,tree.deleteNode,pidNode.value"]}
SITES = {
    "actor/pid_tree.go:tree.nodeByName": ["RLock:mu"],
    "actor/pid_tree.go:tree.node": ["RLock:mu"],
    "actor/pid_tree.go:pidNode.value": ["Load:pid"],
    "actor/pid_tree.go:tree.deleteNode": ["Lock:mu", "Load:pid", "Store:pid", "Add:counter"],
}
MANIFEST = {
    "level_text": ("Kernel-checked: the consistency invariant WF of the actor tree (pids is a map keyed by PID.ID(); "
                   "counter = |pids|; watchers and watchees are mutually inverse and mention registered nodes only) and the "
                   "invariant NWF of the name index (names + shadowed, pid_tree.go after fix 38faff1: every names entry and "
                   "shadowed pointer is a live registered node of that name, the entry never waits in shadowed, and every "
                   "registered node is the entry of its name or waits in shadowed - so a registered actor's name always "
                   "resolves to a registered actor of that name, name_resolves) hold in EVERY tree reachable from "
                   "newTree() by any sequence of addRootNode/addNode/attachNode/addOrAttachNode/addWatcher/removeWatcher/"
                   "removeDescendant/deleteNode/reset (tree_holds: induction over the op list, one preservation lemma per "
                   "writer of pid_tree.go). The model mirrors pid_tree.go including node-pointer identity (stale "
                   "descendants entries, cleared parent objects, names entry taken over by the last writer and handed back to the most recent survivor) and is tied to the code by a "
                   "differential run of the REAL tree (stub PIDs, in-package) after every op of random scripts and of all "
                   "rooted trees with <= 5 nodes. The stop path (Shutdown/doStop/freeChildren/freeWatchers + death watch) is "
                   "an executable model over the same tree; stop_holds (via shutdown_post: induction on the recursion "
                   "with a loop invariant for freeChildren) proves for EVERY acyclic tree, actor state and depth: every "
                   "actor reachable from p through running actors is offline when Shutdown(p) returns and its PostStop "
                   "ran; PostStop of every running child is recorded before its parent's (children first along every "
                   "chain); nobody is started; every actor is STILL registered at return (the code's real guarantee) and "
                   "unregistered once death watch has handled the Terminated it was sent (deleteNode_unregisters, "
                   "drain_unregisters). The stop model is tied to a REAL started actor system by scripted scenarios "
                   "(Shutdown, PoisonPill, parent.Stop, Kill, Restart, system Stop on trees of depth <= 3, width <= 3, with actors "
                   "suspended by a real failure): "
                   "same actors stopped, same Terminated counts, same registered set once death watch is quiescent; the "
                   "oracle checks children-first PostStop order, exactly-once, nothing running at return, nothing "
                   "registered or resolvable once death watch has handled its Terminated messages."),
    "level_note": ("Stop theorems are about runs of the model that return (fuel-explicit recursion; termination on acyclic "
                   "trees is not proved, the driver uses fuel > number of nodes) and assume the live descendants graph is "
                   "acyclic (rank witness; decidable check hypB; the real usage builds trees by spawn only). That death watch "
                   "is sent a Terminated for each stopped actor is checked by the scenario differential (registered set), "
                   "not proved. 'Not resolvable by name when the stop returns' "
                   "is NOT what the code guarantees: reset() clears the stopping flag, so ActorOf/ActorExists resolve the "
                   "stopped PID until death watch (asynchronously) deletes the node; the check asserts the eventual form "
                   "(after death watch is quiescent) and reports the window as diagnostics (res=/reg=); inside that window a "
                   "lookup could even crash (C09-F2, fixed by 34b3f24; all 15 interleavings of lookup and deleteNode stay in the check). Left out of the "
                   "model: addRootNode after the root slot was used, attach that would close a cycle (guarded), nil PIDs; "
                   "errgroup concurrency of sibling stops is modelled sequentially (sibling/cousin watch pairs are not "
                   "generated). Trusted: PID.Equals case folding not modelled; cleared node objects are unobservable "
                   "(argued in Model/C09.lean, sampled by the differential). Attach order (C09-F4, fixed): "
                   "addNode_unknown_parent / attach_order_registers prove for every tree that a child inserted before its parent "
                   "is refused and stays unregistered, and that it is registered under the parent when the parent was inserted "
                   "first; that goakt performs the two insertions in that order when a PostStart handler spawns a child is a fact "
                   "about goroutine scheduling between newPID and completeSpawn, checked (not proved) by the `attach` cases, which "
                   "hold the spawning goroutine in front of completeSpawn through a build-time gate."),
    "technique": "Lean 4 proof (inductive invariant over all op sequences of the actor tree) + differential run of the real tree against the model after every op + scenario differential on a real actor system",
}
TRUSTED = [
    "cleared pidNode objects (pid == nil) have no observable behaviour, so the model keeps live node objects only (argument in Model/C09.lean; sampled by the differential through the '!' flags of the dump)",
    "PID.Equals compares IDs case-insensitively; the harness only uses lower-case ids",
    "sys scenarios: quiescence of an actor = empty mailbox and idle dispatch state (in-package read); Restart racing death watch is detected and such runs are counted inconclusive",
    "attach cases: the gate call check.py inserts in front of completeSpawn in a build-time copy of actor/spawn.go and actor/pid.go (exact-text anchors, each required to occur exactly once) does not change what the code does besides holding the spawning goroutine",
]
RULE = ("tree: random op scripts (addRoot/addNode/attach/addOrAttach/addWatcher/removeWatcher/removeDescendant/"
        "deleteNode/reset) over up to 12 ids with colliding names, NoSender operands, re-attach after delete, "
        "plus every rooted tree with <= 5 nodes x every delete; the dump after EVERY op is compared with the model; "
        "attach: a PostStart handler spawns a child while the actor's own spawn (Spawn / SpawnChild) is held in front of its attachment, hold 20 and 150 ms; "
        "non-trivial = at least one node registered at some point; distinct by (case, output)")
TIMEOUT = 900


# ---------------------------------------------------------------------------
# generators
# ---------------------------------------------------------------------------

def _tok(tag, i):
    return f"{tag}.{i}"


class _Mirror:
    """rough mirror of which ids are registered (only used to bias the generator)"""

    def __init__(self):
        self.par = {}
        self.root_used = False

    def add(self, p, parent):
        self.par[p] = parent

    def subtree(self, p):
        out = {p}
        changed = True
        while changed:
            changed = False
            for c, a in self.par.items():
                if a in out and c not in out:
                    out.add(c)
                    changed = True
        return out

    def delete(self, p):
        for q in self.subtree(p):
            self.par.pop(q, None)


def _gen_tree_script(rng, nops, nm, nids):
    m = _Mirror()
    ops = []
    inc = {}  # id -> current incarnation number (tag = id*10+inc)

    def pid(i, fresh=False):
        if i == 0:
            return _tok(rng.choice([0, 5]), 0)
        if fresh:
            inc[i] = inc.get(i, 0) + 1
        return _tok(i * 10 + inc.get(i, 0), i)

    def anyid():
        return rng.randint(1, nids)

    def present():
        return rng.choice(sorted(m.par)) if m.par else anyid()

    def absent():
        c = [i for i in range(1, nids + 1) if i not in m.par]
        return rng.choice(c) if c else anyid()

    ops.append("R:" + pid(1))
    m.add(1, None)
    m.root_used = True
    for _ in range(nops):
        r = rng.random()
        if r < 0.34:
            a = present() if rng.random() < 0.9 else anyid()
            p = absent() if rng.random() < 0.9 else anyid()
            fresh = p not in m.par
            ops.append(f"A:{pid(a)}:{pid(p, fresh)}")
            if a in m.par and p not in m.par and a != p:
                m.add(p, a)
        elif r < 0.50:
            p, w = present(), present()
            if rng.random() < 0.1:
                w = anyid()
            ops.append(f"W:{pid(p)}:{pid(w)}")
        elif r < 0.58:
            ops.append(f"U:{pid(present())}:{pid(present())}")
        elif r < 0.64:
            c = present()
            a = m.par.get(c) or present()
            if rng.random() < 0.2:
                a = present()
            ops.append(f"X:{a}:{c}")
        elif r < 0.76:
            p = present() if rng.random() < 0.9 else anyid()
            ops.append("D:" + pid(p))
            if p in m.par:
                if p == 1 or m.par.get(p) is None:
                    pass
                m.delete(p)
        elif r < 0.83:
            a, p = present(), present()
            # mostly legal re-attachments (parent outside the subtree of p); illegal ones test the guard
            if a in m.subtree(p) and rng.random() < 0.8:
                a = m.par.get(p) or a
            ops.append(f"T:{pid(a)}:{pid(p, rng.random() < 0.2)}")
            if a in m.par and p in m.par and a not in m.subtree(p):
                m.par[p] = a
        elif r < 0.92:
            a = present()
            p = anyid()
            fresh = p not in m.par
            ops.append(f"O:{pid(a)}:{pid(p, fresh)}")
            if a in m.par and a not in m.subtree(p):
                m.par[p] = a
        elif r < 0.95:
            k = rng.random()
            if k < 0.25:
                ops.append(f"A:{pid(0)}:{pid(absent(), True)}")
            elif k < 0.5:
                ops.append(f"W:{pid(present())}:{pid(0)}")
            elif k < 0.65:
                ops.append(f"W:{pid(0)}:{pid(present())}")
            elif k < 0.8:
                ops.append("D:" + pid(0))
            elif k < 0.9:
                ops.append(f"O:{pid(0)}:{pid(anyid())}")
            else:
                ops.append(f"T:{pid(0)}:{pid(present())}")
        elif r < 0.97:
            # addRoot again: only with a registered pid (error) or NoSender; a fresh one is `unsupported`
            ops.append("R:" + (pid(present()) if m.par else pid(0)))
        else:
            ops.append("Z")
            m = _Mirror()
            r0 = anyid()
            ops.append("R:" + pid(r0, True))
            m.add(r0, None)
    return f"tree {nm} " + " ".join(ops)


def _all_small_trees():
    """every rooted tree with <= 5 nodes (parent arrays), death-watch style extra watcher, each delete"""
    cases = []
    for n in range(1, 6):
        for parents in itertools.product(*[range(1, i) for i in range(2, n + 1)]):
            build = ["R:10.1"] + [f"A:{parents[i-2]*10}.{parents[i-2]}:{i*10}.{i}" for i in range(2, n + 1)]
            # node 2 (if any) watches everybody, like the death watch does
            watch = [f"W:{i*10}.{i}:20.2" for i in range(1, n + 1)] if n >= 2 else []
            for d in range(1, n + 1):
                cases.append("tree 7 " + " ".join(build + watch + [f"D:{d*10}.{d}"]))
    return cases



# ---------------------------------------------------------------------------
# scenarios on a real started actor system (stop ordering)
# ---------------------------------------------------------------------------

class _Scn:
    """python mirror of the scenario bookkeeping: who is whose child, who runs (the SPEC side: what
    'stopping an actor stops its whole subtree' demands), used by the generator and by the oracle"""

    def __init__(self):
        self.parent = {}
        self.kids = {}
        self.running = set()
        self.suspended = set()  # failed and parked by supervision: alive (running bit set) but not IsRunning()
        self.order = []  # spawn order

    def spawn(self, x, parent=None):
        self.parent[x] = parent
        self.kids.setdefault(x, [])
        if parent is not None:
            self.kids.setdefault(parent, []).append(x)
        self.running.add(x)
        self.order.append(x)

    def sub(self, x):
        out = [x]
        for c in self.kids.get(x, []):
            out += self.sub(c)
        return out

    def ancestors(self, x):
        out = []
        while self.parent.get(x) is not None:
            x = self.parent[x]
            out.append(x)
        return out

    def top(self, x):
        a = self.ancestors(x)
        return a[-1] if a else x

    def depth(self, x):
        return len(self.ancestors(x))

    def stop(self, x):
        for y in self.sub(x):
            self.running.discard(y)
            self.suspended.discard(y)

    def usable(self, x):
        return x in self.running and x not in self.suspended

    def related(self, a, b):
        return a == b or a in self.ancestors(b) or b in self.ancestors(a)


def _gen_sys_case(rng, max_nodes, with_restart=True):
    sc = _Scn()
    ops = []
    n = 0

    def new():
        nonlocal n
        n += 1
        return f"a{n}"

    ntop = rng.randint(1, 3)
    for _ in range(ntop):
        x = new()
        sc.spawn(x)
        ops.append(f"S:{x}")
    while n < max_nodes:
        cands = [x for x in sc.order if sc.depth(x) < 3 and len(sc.kids[x]) < 3]
        if not cands:
            break
        p = rng.choice(cands)
        x = new()
        sc.spawn(x, p)
        ops.append(f"C:{p}:{x}")
    names = list(sc.order)

    def watch_ok(w, y):
        # pairs inside one subtree that are not ancestor-related race with the concurrent sibling stops
        return w != y and (sc.top(w) != sc.top(y) or sc.related(w, y))

    body = []
    for _ in range(rng.randint(0, 6)):
        w, y = rng.choice(names), rng.choice(names)
        if watch_ok(w, y):
            body.append(f"W:{w}:{y}")
            if rng.random() < 0.25:
                body.append(f"U:{w}:{y}")
                if rng.random() < 0.3:
                    body.append(f"W:{w}:{y}")
    ops += body
    # some actors fail and are suspended by supervision (alive, not IsRunning) before the stops
    if rng.random() < 0.4:
        for x in rng.sample(names, min(len(names), rng.randint(1, 2))):
            ops.append(f"F:{x}")
            sc.suspended.add(x)
            if rng.random() < 0.5:
                w = rng.choice(names)
                if watch_ok(w, x):
                    ops.append(f"W:{w}:{x}")
    nstops = rng.randint(1, 3)
    for i in range(nstops):
        live = [x for x in names if x in sc.running]
        if not live:
            break
        x = rng.choice(live)
        r = rng.random()
        has_susp = any(y in sc.suspended for y in sc.sub(x))
        if with_restart and r < 0.15 and not has_susp:
            ops.append(f"R:{x}")
            continue
        # a spawn that lands while the subtree is in the middle of its stop: issued from inside a PostStop,
        # targeting the stopping actor itself or one of its stopping ancestors; it must not leave a survivor
        if rng.random() < 0.35:
            v = rng.choice([y for y in sc.sub(x) if y in sc.running])
            path = [v] + [a for a in sc.ancestors(v) if a in sc.sub(x)]
            ops.append(f"H:{v}:{rng.choice(path)}:{new()}")
        if r < 0.45 or (x in sc.suspended and r < 0.65):
            ops.append(f"K:{x}")
        elif r < 0.65:
            ops.append(f"P:{x}")
        elif r < 0.8 and sc.parent[x] is not None and sc.usable(sc.parent[x]):
            ops.append(f"T:{sc.parent[x]}:{x}")
        else:
            ops.append(f"Q:{x}")
        sc.stop(x)
        if rng.random() < 0.15:
            ops.append(f"K:{x}")  # stopping a stopped actor is a no-op
        if rng.random() < 0.1:
            dead = [y for y in names if y not in sc.running]
            ops.append(f"C:{rng.choice(dead)}:{new()}")  # spawning under a stopped parent fails
    if rng.random() < 0.3:
        ops.append("Z")
    return "sys " + " ".join(ops)


def _resolve_cases():
    """every interleaving of a name lookup (2 steps: RLock, Load:pid) with deleteNode (4 steps)"""
    import itertools
    out = []
    for op in ("A", "E"):
        for pos in itertools.combinations(range(6), 2):
            sched = ["1"] * 6
            for i in pos:
                sched[i] = "0"
            out.append(f"resolve | {op} ; D | " + " ".join(sched))
    return out


SYS_FIXED = [
    # SpawnChild from inside a PostStop, on an actor that is in the middle of its stop: refused, nobody survives
    "sys S:a1 C:a1:a2 H:a2:a1:a3 K:a1",
    "sys S:a1 C:a1:a2 C:a2:a3 H:a3:a1:a4 P:a1",
    "sys S:a1 H:a1:a1:a2 Q:a1",
    "sys S:a1 C:a1:a2 C:a1:a3 H:a3:a3:a4 T:a1:a3",
    # suspended actors (failed, no supervisor directive) are stopped with their subtree like any other
    "sys S:a1 C:a1:a2 C:a2:a3 S:a4 F:a2 W:a4:a2 K:a1",
    "sys S:a1 C:a1:a2 F:a2 T:a1:a2 C:a2:a3",
    "sys S:a1 C:a1:a2 C:a1:a3 F:a1 F:a3 Q:a1",
    "sys S:a1 C:a1:a2 C:a1:a3 C:a2:a4 S:a5 W:a5:a2 W:a5:a4 K:a1",
    "sys S:a1 C:a1:a2 C:a2:a3 C:a3:a4 P:a2",
    "sys S:a1 C:a1:a2 C:a1:a3 C:a1:a4 C:a2:a5 C:a2:a6 C:a3:a7 Z",
    "sys S:a1 C:a1:a2 T:a1:a2 Q:a1 K:a1",
    "sys S:a1 C:a1:a2 C:a2:a3 R:a1 K:a2 Z",
]

FIXED = [
    # stale descendants entry after re-parenting, then delete of the old parent takes the moved child along
    "tree 4 R:10.1 A:10.1:20.2 A:10.1:30.3 A:20.2:40.4 T:30.3:40.4 D:20.2",
    # removeDescendant then delete of the parent leaves the child with a cleared parent object
    "tree 4 R:10.1 A:10.1:20.2 A:20.2:30.3 X:2:3 D:20.2 T:10.1:30.3 D:30.3",
    # same name under two parents: the last writer takes the names entry, the earlier holders wait in `shadowed`
    # and get the entry back when the taker is deleted (fix 38faff1)
    "tree 2 R:10.1 A:10.1:20.2 A:10.1:40.4 A:20.2:60.6 D:60.6 D:40.4",
    "tree 1 R:10.1 A:10.1:20.2 A:10.1:30.3 A:20.2:40.4 D:30.3 D:40.4 D:20.2",
    "tree 1 R:10.1 A:10.1:20.2 A:20.2:30.3 A:30.3:40.4 D:20.2 A:10.1:21.2",
    # re-add of an id whose old node object is still referenced from a former parent
    "tree 4 R:10.1 A:10.1:20.2 A:10.1:30.3 A:20.2:40.4 T:30.3:40.4 D:30.3 A:10.1:41.4 D:20.2",
    # self watch, then delete
    "tree 4 R:10.1 A:10.1:20.2 W:20.2:20.2 D:20.2",
    # cycle guard
    "tree 4 R:10.1 A:10.1:20.2 A:20.2:30.3 T:30.3:20.2 T:20.2:20.2 O:30.3:10.1",
    # delete of the root, reset, new root
    "tree 4 R:10.1 A:10.1:20.2 D:10.1 Z R:30.3 A:30.3:21.2",
]


# a PostStart handler spawns a child while the actor's own spawn is held in front of its attachment to the tree
# (held until the handler has spawned, at most <ms>); C09-F4, fixed: a regression is a VIOLATION
ATTACH_CASES = ["attach top 150", "attach child 150", "attach top 20", "attach child 20"]
ATTACH_EXPECT = {"top": "reg=1;par=1;chi=1|krun=0;kps=1;order=K,P", "child": "reg=1;par=1;chi=1|krun=0;kps=1;order=K,P,G"}
ATTACH_WHY = ("an actor spawned from its parent's PostStart handler is not attached to the actor tree (the handler ran before the "
              "parent itself was attached; the insertion under the unknown parent failed and was ignored): it is live but ")


def _attach_body(impl):
    """drop the diagnostic `;early=` field"""
    return impl.split(";early=")[0]


def _oracle_attach(case, impl):
    if impl.startswith(("CRASH", "panic")) or impl == "bad-case":
        return "harness crashed or panicked: " + impl[:200]
    want = ATTACH_EXPECT.get(case.split()[1])
    got = _attach_body(impl)
    if got == want:
        return None
    if got.startswith("nokid"):
        return "bad the PostStart handler could not spawn its child: " + impl
    d = {}
    for part in got.replace("|", ";").split(";"):
        if "=" in part:
            k, v = part.split("=", 1)
            d[k] = v
    probs = []
    if d.get("reg") != "1":
        probs.append("not resolvable by name")
    if d.get("par") != "1":
        probs.append("not registered under its parent")
    if d.get("chi") != "1":
        probs.append("missing from parent.Children()")
    if d.get("krun") != "0":
        probs.append("still running after the stop of its ancestor returned")
    if d.get("kps") != "1":
        probs.append("its PostStop did not run")
    if not probs:
        probs.append(f"PostStop order {d.get('order')!r} is not children first")
    return "bad " + ATTACH_WHY + ", ".join(probs) + f" ({impl})"


def gen_cases(rng, tier):
    n, nsys = (400, 120) if tier == "quick" else (12000, 3000)
    cases = list(FIXED) + _all_small_trees() + ATTACH_CASES * (1 if tier == "quick" else 5)
    for i in range(n):
        nm = rng.choice([1, 2, 3, 4, 5])
        nids = rng.choice([4, 6, 8, 12])
        cases.append(_gen_tree_script(rng, rng.randint(3, 30), nm, nids))
    cases += SYS_FIXED + _resolve_cases()
    for i in range(nsys):
        cases.append(_gen_sys_case(rng, rng.choice([2, 4, 6, 9, 13])))
    return cases


def search_cases(rng, tier):
    cases = list(FIXED) + _all_small_trees() + ATTACH_CASES
    for i in range(3000):
        cases.append(_gen_tree_script(rng, rng.randint(3, 40), rng.choice([1, 2, 3, 5]), rng.choice([4, 6, 8, 12])))
    cases += SYS_FIXED + _resolve_cases()
    for i in range(600):
        cases.append(_gen_sys_case(rng, rng.choice([2, 4, 6, 9, 13])))
    return cases


# ---------------------------------------------------------------------------
# comparison and oracle
# ---------------------------------------------------------------------------

def _segs(out):
    """'K:order=a,b;run=' -> [('K', {'order': 'a,b', 'run': ''})]"""
    res = []
    for seg in out.split("#"):
        op, _, rest = seg.partition(":")
        kv = {}
        for part in rest.split(";"):
            k, eq, v = part.partition("=")
            kv[k] = v if eq else None
        res.append((op, kv))
    return res


def _names(v):
    return [x for x in (v or "").split(",") if x]


def _termdict(v):
    d = {}
    for e in _names(v):
        k, _, n = e.partition("=")
        d[k] = int(n)
    return d


def _replay_sys(case):
    """yields (index, token, scenario mirror BEFORE the op)"""
    sc = _Scn()
    for i, tok in enumerate(case.split()[1:]):
        yield i, tok, sc
        f = tok.split(":")
        if f[0] == "S":
            sc.spawn(f[1])
        elif f[0] == "C":
            if sc.usable(f[1]):
                sc.spawn(f[2], f[1])
        elif f[0] == "F":
            if sc.usable(f[1]):
                sc.suspended.add(f[1])
        elif f[0] in ("K", "P", "Q"):
            sc.stop(f[1])
        elif f[0] == "T":
            sc.stop(f[2])
        elif f[0] == "Z":
            sc.running.clear()
            sc.suspended.clear()


def _inconclusive(impl):
    return ";lost=" in impl or "#R:err" in impl


def _compare_sys(case, impl, model):
    if _inconclusive(impl):
        return None
    a, b = _segs(impl), _segs(model)
    if len(a) != len(b):
        return f"impl has {len(a)} segments, model {len(b)}"
    toks = case.split()[1:] + ["end"]
    for i, ((op, kv), (mop, mkv)) in enumerate(zip(a, b)):
        if op != mop:
            return f"op {i} ({toks[i]}): impl={op} model={mop}"
        if "order" in kv or "stopped" in mkv:
            if sorted(_names(kv.get("order"))) != sorted(_names(mkv.get("stopped"))):
                return f"op {i} ({toks[i]}): actors stopped impl={kv.get('order')!r} model={mkv.get('stopped')!r}"
        elif op == "end":
            # watchers and watchees that stop in the same system-wide Stop race with each other: not compared
            zdead = set()
            for _, tok, sc in _replay_sys(case):
                if tok == "Z":
                    zdead = set(sc.running)
            filt = lambda d: {k: v for k, v in d.items() if k.partition(">")[2] not in zdead}
            if filt(_termdict(kv.get("term"))) != filt(_termdict(mkv.get("term"))):
                return f"Terminated counts impl={kv.get('term')!r} model={mkv.get('term')!r}"
            if sorted(_names(kv.get("tree"))) != sorted(_names(mkv.get("tree"))):
                return f"registered actors at the end impl={kv.get('tree')!r} model={mkv.get('tree')!r}"
        else:
            ik = "err" if "err" in kv else "ok"
            mk = "err" if "err" in mkv else "ok"
            if ik != mk:
                return f"op {i} ({toks[i]}): impl={a[i]} model={b[i]}"
    return None


def _children_first(sc, order):
    pos = {x: i for i, x in enumerate(order)}
    for c, p in sc.parent.items():
        if p is not None and p in pos:
            if c in pos and pos[c] > pos[p]:
                return f"PostStop of {p} ran before PostStop of its descendant {c}"
    return None


def _oracle_sys(case, impl):
    if _inconclusive(impl):
        return None
    segs = _segs(impl)
    for (i, tok, sc), (op, kv) in zip(_replay_sys(case), segs):
        f = tok.split(":")
        if op != f[0]:
            return f"output segment {i} is {op}, expected {f[0]}"
        if f[0] in ("K", "P", "Q", "T", "Z", "R"):
            if "err" in kv and f[0] != "Z":
                return f"op {tok} failed: {kv['err']}"
            x = f[2] if f[0] == "T" else (f[1] if f[0] != "Z" else None)
            expect = sorted(sc.running) if x is None else sorted(y for y in sc.sub(x) if y in sc.running)
            order = _names(kv.get("order"))
            if sorted(order) != expect:
                missing = sorted(set(expect) - set(order))
                if missing:
                    return f"{tok}: descendants {missing} were not stopped (PostStop never ran)"
                return f"{tok}: PostStop ran {order}, expected exactly once each of {expect}"
            why = _children_first(sc, order)
            if why:
                return f"{tok}: {why}"
            if f[0] != "R":
                if kv.get("run"):
                    return f"{tok}: still running when the stop returned: {kv['run']}"
                if kv.get("dw") == "timeout":
                    return f"{tok}: death watch did not become quiescent"
                if kv.get("left"):
                    return f"{tok}: stopped actors still registered after death watch handled its Terminated messages: {kv['left']}"
                if kv.get("late") == "1":
                    return f"{tok}: the stopped actor is still resolvable by name after death watch handled its Terminated messages"
    return None


def compare(case, impl, model):
    if impl == model:
        return None
    if case.startswith("guard"):
        return None if impl.startswith(model) else f"impl={impl!r} model={model!r}"
    if case.startswith("attach"):
        return None if _attach_body(impl) == model else f"impl={impl!r} model={model!r}"
    if case.startswith("resolve"):
        return None if model == "*" and impl.startswith("T ") else f"impl={impl[:120]!r} model={model!r}"
    if case.startswith("sys"):
        if model == "bad-case" or impl.startswith(("CRASH", "panic")) or impl == "bad-case":
            return f"impl={impl[:200]!r} model={model[:200]!r}"
        return _compare_sys(case, impl, model)
    a, b = impl.split("#"), model.split("#")
    for i, (x, y) in enumerate(zip(a, b)):
        if x != y:
            ops = case.split()[2:]
            return f"after op {i} ({ops[i] if i < len(ops) else '?'}): impl={x!r} model={y!r}"
    return f"impl has {len(a)} segments, model {len(b)}"


def _parse_seg(seg):
    res, counter, names, nodes, shadow = seg.split("|")
    d = {"res": res, "counter": int(counter), "names": [], "nodes": {}, "shadow": {}}
    if shadow != "-":
        for e in shadow.split(","):
            a, b = e.split(">")
            d["shadow"][int(a)] = [(int(q.rstrip("!")), not q.endswith("!")) for q in b.split(".")]
    if names != "-":
        for e in names.split(","):
            a, b = e.split(">")
            d["names"].append((int(a), int(b.rstrip("!?")), not b.endswith(("!", "?"))))
    if nodes != "-":
        for n in nodes.split(" "):
            f = n.split(":")
            kv = lambda s: [] if s == "-" else [tuple(int(x) for x in e.split(">")) for e in s.split(",")]
            d["nodes"][int(f[0])] = {"tag": int(f[1]), "name": int(f[2]), "par": f[3], "W": kv(f[4]), "E": kv(f[5]),
                                     "D": [] if f[6] == "-" else f[6].split(",")}
    return d


def _wf(d):
    if d["counter"] != len(d["nodes"]):
        return "counter differs from the number of registered nodes"
    for nm, i, live in d["names"]:
        if not live or i not in d["nodes"] or d["nodes"][i]["name"] != nm:
            return "names index points to a cleared or differently named node"
    entry = {nm: i for nm, i, _ in d["names"]}
    for nm, l in d["shadow"].items():
        for q, live in l:
            if not live or q not in d["nodes"] or d["nodes"][q]["name"] != nm or entry.get(nm) == q:
                return "shadowed holds a cleared, wrongly named or current-entry node"
    for i, n in d["nodes"].items():
        if entry.get(n["name"]) != i and all(q != i for q, _ in d["shadow"].get(n["name"], [])):
            return "a registered node is not reachable through its name (neither the names entry nor shadowed)"
    for i, n in d["nodes"].items():
        for w, _ in n["W"]:
            if w not in d["nodes"] or all(k != i for k, _ in d["nodes"][w]["E"]):
                return "watchers and watchees are not mutually inverse"
        for e, _ in n["E"]:
            if e not in d["nodes"] or all(k != i for k, _ in d["nodes"][e]["W"]):
                return "watchers and watchees are not mutually inverse"
        if any(x.endswith("?") for x in n["D"]):
            return "descendants holds a live node object that is not the registered one"
    return None


GUARD_WHY = ("guardian panics on a Terminated that overtakes its PostStart "
             "(the root guardian then stops the actor system)")


RESOLVE_WHY = ("name resolution panics: the node was cleared by death watch between the lookup and node.value(), "
               "and the nil PID is dereferenced")


def oracle(case, impl, judge):
    if case.startswith("guard"):
        return ("bad " + GUARD_WHY) if "panic" in impl else None
    if case.startswith("attach"):
        return _oracle_attach(case, impl)
    if case.startswith("resolve"):
        if "!stuck" in impl or "cap" in impl.split("|")[0].split():
            return "bad controlled schedule did not complete: " + impl[:200]
        return ("bad " + RESOLVE_WHY) if "panic" in impl else None
    if impl.startswith("CRASH") or impl.startswith("panic"):
        return "harness crashed or panicked: " + impl[:200]
    if impl == "bad-case":
        return None
    if judge is not None and not judge.startswith("ok"):
        return judge
    kind = case.split()[0]
    if kind == "tree":
        try:
            for i, seg in enumerate(impl.split("#")):
                why = _wf(_parse_seg(seg))
                if why:
                    return f"bad tree inconsistent after op {i}: {why}"
        except Exception as e:  # unparsable output is a harness/protocol problem, reported as such
            return f"unparsable dump: {e}"
    if kind == "sys":
        return _oracle_sys(case, impl)
    return None


def classify(case, impl, why):
    # C09-F1: exactly the `guard` witnesses (a guardian's Receive panicking on Terminated-before-PostStart)
    if case.startswith("guard ") and impl and "panic" in impl and why and "guardian panics" in why:
        return "C09-F1"
    # C09-F2 (nil PID after a lookup that raced deleteNode) was fixed by 34b3f24: a `resolve` schedule that panics
    # again is NOT mapped to any finding, so a regression is a VIOLATION
    return None


def is_trivial(case, impl):
    if case.startswith(("guard", "resolve")):
        return False
    if case.startswith("attach"):
        return impl.startswith(("CRASH", "panic")) or impl == "bad-case"
    if case.startswith("sys"):
        return impl in ("", "bad-case") or impl.startswith(("CRASH", "panic")) or _inconclusive(impl)
    return impl in ("", "bad-case") or impl.startswith(("CRASH", "panic")) or "|" not in impl


def tag(case, impl):
    f = case.split()
    if f[0] == "tree":
        n = len(f) - 2
        return "tree:" + ("<=5" if n <= 5 else "<=15" if n <= 15 else "<=30" if n <= 30 else ">30")
    if f[0] == "resolve":
        return "resolve:" + ("panic" if impl and "panic" in impl else "ok")
    if f[0] == "sys":
        kinds = sorted({t.split(":")[0] for t in f[1:]} & set("KPQTRZH"))
        return "sys:" + "".join(kinds) + (":inconclusive" if impl and _inconclusive(impl) else "")
    return f[0]


def shrink(case):
    f = case.split()
    if f[0] == "sys":
        ops = f[1:]
        for i in range(len(ops) - 1, -1, -1):
            if ops[i][0] in "WUKPQTRZFH" and len(ops) > 1:
                yield " ".join(["sys"] + ops[:i] + ops[i + 1:])
        return
    if f[0] != "tree":
        return
    head, ops = f[:2], f[2:]
    for i in range(len(ops) - 1, -1, -1):
        if len(ops) > 1:
            yield " ".join(head + ops[:i] + ops[i + 1:])

"""C16 — every reentrant request completes exactly once, on the requester's turn (differential on a real
requester/responder pair + kernel-checked invariants of the model for all event sequences)."""
ID = "C16"
LEAN_MODULES = ["GoaktVerif.Props.C16", "GoaktVerif.Props.C16G"]
THEOREMS = [
    "GoaktVerif.C16.step_inv",
    "GoaktVerif.C16.run_inv",
    "GoaktVerif.C16.C16_once",
    "GoaktVerif.C16.C16_exactly_once",
    "GoaktVerif.C16.C16_on_turn",
    "GoaktVerif.C16.C16_limit",
    "GoaktVerif.C16.C16_counters",
    "GoaktVerif.C16.C16_stash_gate",
    "GoaktVerif.C16.C16_release_order",
    "GoaktVerif.C16.C16_holds",
    "GoaktVerif.C16G.G_run_inv",
    "GoaktVerif.C16G.G_once",
    "GoaktVerif.C16G.G_exactly_once",
    "GoaktVerif.C16G.G_limit",
    "GoaktVerif.C16G.G_counters",
    "GoaktVerif.C16G.G_pause_gate",
    "GoaktVerif.C16G.G_step_seq",
    "GoaktVerif.C16G.G_on_turn",
    "GoaktVerif.C16G.C16G_holds",
]
INPKG = ["actor/zz_verif_c16.go"]
ORACLE_NEEDS_JUDGE = True
TIMEOUT = 900
MANIFEST = {
    "level_text": "Kernel-checked inductive invariant (run_inv/step_inv) over a model of request/registerRequestState/deregisterRequestState/completeRequest/enqueueAsyncError/cancelInFlightRequests/dispatchOne's stash gate/unstashAll, for EVERY configuration (reentrancy installed or not, default mode, MaxInFlight) and EVERY script of events (requests with per-call mode override, ordinary messages, replies incl. duplicates, timeouts, cancels, late Then, mailbox batching, shutdown): a continuation runs at most once (C16_once) and exactly once when its request was completed by an envelope the requester dequeued (C16_exactly_once); continuations fired by a completion run inside dispatchOne — the only off-turn runs are late Then registrations made from outside the actor (C16_on_turn); inFlight <= MaxInFlight when positive (C16_limit); inFlight = |requestStates|, blocking = |stash-mode requests|, both 0 with an empty table (C16_counters) — the same clauses for a GRAIN requester over its own model (G_* theorems, C16G_holds), where additionally every completed request with a continuation ran it exactly once and the user mailbox is handled in global arrival order (G_step_seq); while blocking > 0 dispatchOne stashes every ordinary message and handles nothing (C16_stash_gate); the release appends the held messages to the mailbox in arrival order and the mailbox is FIFO (C16_release_order, pump_fifo); conjunction C16_holds. Tied to the code by a differential run of a real requester/responder pair against the model (equal per-op counters and requester log), and a separately written oracle of the property text evaluated on the implementation's observations.",
    "level_note": "Reading: `completes` = the request state is completed once; shutdown (cancelInFlightRequests) completes pending requests WITHOUT running continuations, so exactly-once for the continuation is for requests completed while the requester keeps running. Request, RequestName (to=n) and RequestGrain issued by an ACTOR are all tied (the grain responder defers replies with DeferResponse). A GRAIN as the requester (grain_pid.go) has its own model Model/C16G.lean (pause instead of stash, separate response queue taken first, refused requests return a completed call, shutdown = queue-routed cancellation + PoisonPill, teardown runs continuations) with its own theorems (Props/C16G.lean: G_run_inv, G_once, G_exactly_once for EVERY completion, G_limit, G_counters, G_pause_gate, G_step_seq = global arrival order of the user mailbox, G_on_turn, C16G_holds) and its own harness mode (who=g; messages are enqueued by an accessor because TellGrain blocks for the handler's ack). Not modelled: remote requesters, re-activation of a deactivated virtual grain by a late envelope, real timers (the harness makes the call the timer goroutine makes), concurrent off-turn completion racing a dequeue (complete/setCallback are modelled as atomic, which the state mutex provides), restart. The oracle's arrival-order and exactly-once clauses are evaluated only on scripts without hold/release/shutdown; the held messages re-enter BEHIND messages that arrived after the reply (order among held messages is kept, not the global arrival order) — the text says `in arrival order`, read as among themselves.",
    "technique": "Lean 4 inductive invariants over a model of the reentrant-request machinery (all event sequences) + differential run of a real requester/responder pair against the model + spec oracle on the implementation's observations",
}
TRUSTED = [
    "the harness' quiescence detection (dispatch state idle / parked in a hold handler) and its way of firing timeouts (the call the timer goroutine makes) instead of waiting for real timers",
]
RULE = ("requester an actor (pid.go) or a grain (grain_pid.go, who=g); responder an actor (Request) or a grain (RequestGrain, replies deferred with DeferResponse); actor-level mode {AllowAll, StashNonReentrant, not enabled} x MaxInFlight {0,1,2,3}; scripts of <= 12 ops over requests (per-call mode overrides, Then now/late), "
        "ordinary messages, replies incl. duplicates, timeouts, cancels, hold/release batching, shutdown; non-trivial = at least one request was admitted; distinct by (case, output)")


def gen_case(rng, maxlen=12, simple=None):
    mode = rng.choice(["a", "a", "s", "s", "-"] if rng.random() < 0.9 else ["-"])
    mx = rng.choice([0, 0, 1, 2, 3])
    if simple is None:
        simple = rng.random() < 0.55
    ops = []
    labels = list(range(10))
    rng.shuffle(labels)
    issued = []
    nm = 0
    for _ in range(rng.randint(2, maxlen)):
        r = rng.random()
        if r < 0.28 and labels:
            k = labels.pop()
            m = rng.choice("dddass" if mode != "-" else "dasso") if rng.random() < 0.93 else "o"
            t = rng.choice("ttn")
            ops.append(f"q{k}{m}{t}")
            issued.append(k)
        elif r < 0.44:
            ops.append(f"m{nm % 10}")
            nm += 1
        elif r < 0.48:
            ops.append(f"a{nm % 10}")
            nm += 1
        elif r < 0.72 and issued:
            k = rng.choice(issued)
            ops.append(rng.choice(["r", "r", "r", "x", "c"]) + str(k))
        elif r < 0.80 and issued:
            ops.append(f"T{rng.choice(issued)}")
        elif r < 0.83:
            ops.append(f"{rng.choice('rxcT')}{rng.randrange(10)}")
        elif not simple and r < 0.91:
            ops.append("H")
        elif not simple and r < 0.97:
            ops.append("L")
        elif not simple:
            ops.append("S")
        else:
            ops.append(f"m{nm % 10}")
            nm += 1
    to = rng.choice(["", "", "", " to=g", " to=g", " to=n"])
    who = "who=g " if rng.random() < 0.4 else ""
    if who and to == " to=n":
        to = ""
    if who:
        ops = [("m" + o[1:]) if o[0] == "a" else o for o in ops]  # peer requests are tied for the actor requester only
    return f"{who}mode={mode} max={mx}{to} | " + " ".join(ops)


def gen_cases(rng, tier):
    n = 300 if tier == "quick" else 6000
    return [gen_case(rng) for _ in range(n)]


def search_cases(rng, tier):
    return [gen_case(rng, 14) for _ in range(4000)]


def compare(case, impl, model):
    return None if impl == model else f"impl={impl!r} model={model!r}"


def is_trivial(case, impl):
    if (not impl) or impl.startswith(("bad-case", "CRASH", "panic", "spawn-error")):
        return True
    if case.startswith("who=g"):
        return "cb" not in impl
    return "=ok" not in impl


def tag(case, impl):
    cfg = [c for c in case.split("|")[0].split() if c != "who=g"]
    who = "grainreq" if case.startswith("who=g") else "actorreq"
    kind = "simple" if not any(o in ("H", "L", "S") for o in case.split("|")[1].split()) else "batched"
    return f"{cfg[0]}/{'lim' if cfg[1] != 'max=0' else 'nolim'}/{kind}/{'grain' if 'to=g' in cfg else ('byname' if 'to=n' in cfg else 'actor')}/{who}"


def oracle(case, impl, judge):
    if impl.startswith(("CRASH", "panic", "spawn-error")):
        return "harness failed: " + impl[:200]
    if judge is None:
        return None
    return None if judge.startswith("ok") else judge


def classify(case, impl, why):
    return None


def shrink(case):
    cfg, ops = case.split("|")
    ops = ops.split()
    for k in range(len(ops)):
        if len(ops) > 1:
            yield cfg.strip() + " | " + " ".join(ops[:k] + ops[k + 1:])

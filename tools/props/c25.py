"""C25 — message serializers round-trip and are chosen by type (E1: byte-exact framing/envelopes,
scripted serializers under the real dispatch, real serializers with the view judged by the model)."""
import itertools
import struct

ID = "C25"
LEAN_MODULES = ["GoaktVerif.Props.C25"]
THEOREMS = ["GoaktVerif.C25." + t for t in [
    "unframe_frame", "frameTypeName_frame", "frameTypeName_eq_unframe",
    "proto_roundtrip", "proto_rejects_nonproto", "proto_malformed", "reg_roundtrip", "reg_rejects_unregistered",
    "resolve_accepts", "resolve_exact_wins", "resolve_none", "send_unsupported", "send_bytes",
    "dispSerialize_first", "dispSerialize_unsupported", "dispDeserialize_sound",
    "dispatch_roundtrip", "agree_needed", "resolve_eq_doc", "C25_holds",
    "poison_roundtrip", "poison_only_magic", "terminated_roundtrip", "env_roundtrip",
    "delivery_roundtrip", "delivery_invalid", "delivery_roundtrip_wire",
    "WireLemmas.unvarint_varint", "WireLemmas.parseFields_encFields", "WireLemmas.decEnv_encEnv",
    "framed_not_terminated", "framed_not_poison", "framed_not_delivery", "envelopes_disjoint", "C25_envelopes",
]]
INPKG = ["internal/remoteclient/zz_verif_c25.go", "actor/zz_verif_c25.go", "internal/commands/zz_verif_c25.go"]
ORACLE_NEEDS_JUDGE = True
TIMEOUT = 1800
MANIFEST = {
    "level_text": "Kernel-checked theorems over a model of the frame layout, the three built-in serializers' header checks, "
                  "resolveSerializer, serializerDispatch.Serialize/Deserialize (proto fast path included) and the Terminated / "
                  "PoisonPill / delivery envelopes: for every table, registry, message and frame the receive path returns the "
                  "message sent whenever the chosen serializer decodes its own output and no registered serializer mis-decodes it "
                  "(dispatch_roundtrip); the chosen entry is the one the documented rule names — exact concrete type first, then the first "
                  "matching interface (resolve_eq_doc, resolve_exact_wins); an unsupported "
                  "message yields an error, never bytes (send_unsupported, dispSerialize_unsupported, proto_rejects_nonproto, "
                  "delivery_invalid); frames and envelopes round-trip byte-exactly (unframe_frame, terminated_roundtrip, "
                  "poison_roundtrip, env_roundtrip, delivery_roundtrip; delivery_roundtrip_wire with a concrete protobuf wire codec whose "
                  "round trip is itself proved, WireLemmas.decEnv_encEnv) and cannot capture each other's bytes (framed_not_*, "
                  "envelopes_disjoint). C25_holds: the full dispatch statement, with the documented selection rule.",
    "level_note": "PARTIAL: protobuf, CBOR (fxamacker) and JSON (sonic) are parameters; their round-trip and mutual-rejection laws "
                  "are hypotheses (ProtoLaw, RegLaw, EnvLaw, Agree) sampled by the differential on generated values, not proved. "
                  "The sampling shows Agree is FALSE between CBORSerializer and JSONSerializer on one-digit integers (finding C25-F2). "
                  "address.Parse inside the Terminated decoder is a parameter (C26's subject). Tie: real dispatch code run under "
                  "scripted serializers for arbitrary tables/orders and compared with the model; real serializers run per table "
                  "order and judged by the model from the view the implementation reports; frames and envelopes compared byte for byte "
                  "(the delivery envelope against a Lean protobuf wire encoder).",
    "technique": "Lean 4 proofs (induction over the registration list) on a hand-written model + model/implementation differential "
                 "(byte-exact for framing and envelopes)",
}
TRUSTED = [
    "protobuf-go, fxamacker/cbor and bytedance/sonic are parameters of the model (laws ProtoLaw/RegLaw/EnvLaw/Agree are hypotheses, sampled)",
    "address.Parse (inside terminatedSerializer.Deserialize) is a parameter; see C26",
    "reflect's Implements / type identity in resolveSerializer is abstracted as the per-entry predicate `accepts` (exercised with real Go types by the harness)",
    "frames shorter than 4 GiB (the uint32 length header; remoting's MaxFrameSize is 16 MiB by default)",
]
RULE = ("families: byte-exact framing (proto/CBOR/JSON frames, header mutations, truncations), envelopes (Terminated, PoisonPill, "
        "delivery commands incl. invalid ones and hand-built envelopes), scripted serializers under the real dispatch (tables of 0-4 "
        "entries, all message kinds, honest/lying/greedy decoders, four wire formats), real serializers in all sampled registration "
        "orders of <=4; non-trivial = not an error-only output; distinct by (case, output)")

# ------------------------------------------------------------------ helpers


def hx(b):
    return b.hex() if b else "-"


def be32(n):
    return struct.pack(">I", n & 0xFFFFFFFF)


def frame(name, payload):
    return be32(8 + len(name) + len(payload)) + be32(len(name)) + name + payload


ALNUM = "abcdefghijklmnopqrstuvwxyzABCDEFGHIJKLMNOPQRSTUVWXYZ0123456789-_."


def rstr(rng, lo, hi, alphabet=ALNUM + " :/@{}\"'"):
    return "".join(rng.choice(alphabet) for _ in range(rng.randint(lo, hi))).encode()


def rname(rng, lo=1, hi=12):
    return "".join(rng.choice(ALNUM[:52]) for _ in range(rng.randint(lo, hi))).encode()


INTS = [0, 1, -1, 2, 127, 128, 300, 16383, 16384, 2**31 - 1, 2**31, 2**32, 2**53, 2**63 - 1, -2, -128, -2**31, -2**63]


def rint(rng, lo=None):
    v = rng.choice(INTS + [rng.randrange(-2**63, 2**63), rng.randrange(-1000, 1000), rng.randrange(0, 100)])
    if lo is not None and v < lo:
        v = lo + (abs(v) % 1000)
    return v


PNAMES = [b"testpb.Reply", b"testpb.TestLog", b"testpb.GetAccount"]


def str1(content):
    return b"" if not content else b"\x0a" + bytes([len(content)]) + content


def gen_frames(rng, n):
    """byte strings for pdes / ftn: valid frames and damaged ones"""
    out = []
    for _ in range(n):
        name = rng.choice(PNAMES + [b"verif.none", b"", b"testpb.Repl", b"Testpb.Reply"])
        c = rstr(rng, 0, rng.choice([0, 3, 20, 100]), ALNUM + " ")
        payload = rng.choice([str1(c), str1(c), b"\xff", str1(c)[:-1] if c else b"\x0a", b""])
        f = frame(name, payload)
        out.append(f)
        k = rng.random()
        if k < 0.25:
            out.append(f[:rng.randrange(0, len(f))])
        elif k < 0.45:
            out.append(f + rstr(rng, 1, 4))
        elif k < 0.65:
            t = rng.choice([0, 7, 8, len(f) - 1, len(f) + 1, 8 + len(name), 8 + len(name) - 1, 2**31, 2**32 - 1])
            out.append(be32(t) + f[4:])
        elif k < 0.85:
            nl = rng.choice([0, 1, len(name) - 1, len(name) + 1, len(f) - 8, len(f) - 7, 2**31, 2**32 - 1])
            out.append(f[:4] + be32(nl) + f[8:])
    out += [b"", b"\x00" * 7, b"\x00" * 8, be32(8) + be32(0), be32(9) + be32(1) + b"x", be32(9) + be32(0) + b"x"]
    return out


def valid_path(rng):
    host = rng.choice(["127.0.0.1", "localhost", "10.0.0.7", "node-1.example.org"])
    return ("goakt://%s@%s:%d/%s" % (rname(rng).decode(), host, rng.choice([1, 80, 3000, 65535]), rname(rng).decode())).encode()


TMAGIC = bytes([0xDE, 0xAD, 0xAC, 0x70, 0x52, 0xBE, 0xEF, 0xED])
PMAGIC = bytes([0xDE, 0xAD, 0xBE, 0xEF, 0xCA, 0xFE, 0xBA, 0xBE])
DMAGIC = bytes([0xFF, 0xFF, 0xFF, 0xFF]) + b"RDEL"


def term_frame(path, nanos):
    return TMAGIC + be32(len(path)) + path + struct.pack(">q", nanos)


def nonblank(rng, hi=12):
    s = rstr(rng, 1, hi, ALNUM)
    return s


def maybe_blank(rng):
    return rng.choice([b"", b" ", b"\t\n", b" \r "]) if rng.random() < 0.5 else nonblank(rng)


def gen_cmd(rng, valid_bias=0.7):
    ok = rng.random() < valid_bias
    s = (lambda: nonblank(rng, rng.choice([3, 12, 200]))) if ok else (lambda: maybe_blank(rng))
    k = rng.choice(["rc", "ra", "rq", "ak", "sq"])
    if k == "rc":
        return "rc:%s" % hx(s())
    if k == "ra":
        return "ra:%s:%d:%s" % (hx(s()), rint(rng, 1) if ok else rint(rng), hx(s()))
    if k == "rq":
        c = rint(rng, 0) if ok else rint(rng)
        u = c + rng.choice([0, 1, 5, 1000]) if ok else rint(rng)
        if u >= 2**63:
            u = c
        return "rq:%s:%s:%d:%d:%d" % (hx(s()), hx(s()), c, u, rng.randint(0, 1))
    if k == "ak":
        return "ak:%s:%s:%d" % (hx(s()), hx(s()), rint(rng, 0) if ok else rint(rng))
    payload = rstr(rng, 1, rng.choice([1, 4, 40, 300])) if (ok or rng.random() < 0.5) else b""
    chunked = rng.randint(0, 1)
    fl = "%d%d" % (rng.randint(0, 1), rng.randint(0, 1)) if chunked else "00"
    return "sq:%s:%s:%d:%s:%d%s" % (hx(s()), hx(s()), rint(rng, 1) if ok else rint(rng), hx(payload), chunked, fl)


def gen_env(rng):
    k = rng.random()
    if k < 0.05:
        return "none"
    if k < 0.6:
        spec = gen_cmd(rng, 0.5)
        if not spec.startswith("sq"):
            return spec
        p = spec.split(":")
        return ":".join(p[:5] + [rng.choice(["~", "00", "10", "01", "11"])])
    return "sq:%s:%s:%d:%s:%s" % (hx(maybe_blank(rng)), hx(nonblank(rng)), rint(rng), rng.choice(["~", "-", hx(rstr(rng, 1, 9))]),
                                  rng.choice(["~", "00", "10", "01", "11"]))


# ------------------------------------------------------------------ family A

REGS = ["x0", "x1", "x2", "x3", "xr", "iA", "iB", "iAny", "iP"]
FMTS = ["raw", "fU", "fR", "fB"]


def gen_script(rng, sid, honest=False):
    bits = "".join(rng.choice("01") for _ in range(4)) if rng.random() < 0.6 else "1111"
    if honest:
        return "S%d:%s:%s:h:r" % (sid, bits, rng.choice(FMTS[:2]))
    return "S%d:%s:%s:%s:%s" % (sid, bits, rng.choice(FMTS), rng.choice("hhhl"), rng.choice("rrrralg"))


def gen_dsp(rng, seed=None, n=None, honest=None):
    seed = rng.randint(0, 1) if seed is None else seed
    n = rng.randint(0, 4) if n is None else n
    honest = (rng.random() < 0.5) if honest is None else honest
    entries = []
    for i in range(n):
        reg = rng.choice(REGS)
        if reg in ("iP",) or (reg == "xr" and rng.random() < 0.5) or (rng.random() < 0.1 and not honest):
            entries.append(reg + "/P")
        else:
            entries.append(reg + "/" + gen_script(rng, rng.randint(0, 9) if rng.random() < 0.2 else i, honest))
    ops = ["send:v%d" % k for k in range(4)] + ["send:r:" + hx(b"z" + rstr(rng, 0, 9, ALNUM)), "send:r:-", "send:u"]
    ops += ["dser:v%d" % rng.randrange(4), "dser:u", "dser:r:7a"]
    for _ in range(3):
        sid, k = rng.randrange(10), rng.randrange(4)
        tag = bytes([0x40 + sid, 0x30 + k])
        ops.append("ddes:" + hx(rng.choice([b"\xc5" + tag, frame(b"verif.none", tag), frame(b"testpb.Reply", b"\x0a\x02" + tag),
                                            frame(b"testpb.Reply", b"\xff" + tag), frame(b"testpb.Reply", str1(b"zq")), b"", b"\x01\x02"])))
    rng.shuffle(ops)
    return "dsp %d %s %s" % (seed, ",".join(entries) or "-", " ".join(ops))


# ------------------------------------------------------------------ family B

REAL = ["P", "C", "J", "Ci", "Ji", "Cs", "Js", "Jc", "T", "K", "D"]


ACCEPTED = {"P": ["reply", "count"], "C": ["cmsg"], "J": ["jmsg"], "Ci": ["int"], "Ji": ["int"], "Cs": ["str"], "Js": ["str"],
            "Jc": ["cmsg"], "T": ["term"], "K": ["pp"], "D": ["ack"]}


def gen_real_msg(rng, labels=()):
    kinds = ["reply", "count", "cmsg", "jmsg", "int", "int", "str", "term", "pp", "ack", "u"]
    if labels and rng.random() < 0.85:
        kinds = [k for l in labels for k in ACCEPTED[l]]
    k = rng.choice(kinds)
    if k == "reply":
        return "reply:" + hx(rstr(rng, 0, 20))
    if k == "count":
        return "count:%d" % rng.choice([0, 1, -1, 2**31 - 1, -2**31, rng.randrange(-1000, 1000)])
    if k in ("cmsg", "jmsg"):
        return "%s:%d:%s" % (k, rint(rng), hx(rstr(rng, 0, 16)))
    if k == "int":
        return "int:%d" % rng.choice([rint(rng), rng.randrange(-30, 30), rng.randrange(0, 10), rng.randrange(-26, -16)])
    if k == "str":
        return "str:" + hx(rstr(rng, 0, 30, ALNUM + " {}[]\"0123456789tfn"))
    if k == "term":
        return "term:%s:%d" % (hx(valid_path(rng)) if rng.random() < 0.8 else "-", rint(rng))
    if k == "ack":
        return "ack:%s:%s:%d" % (hx(nonblank(rng)), hx(nonblank(rng)), rint(rng, 0))
    return k


def gen_cases(rng, tier):
    q = tier == "quick"
    cases = []
    # --- family C
    for _ in range(40 if q else 600):
        cases.append("pser %s %s" % (rng.choice(["reply", "log", "acct"]), hx(rstr(rng, 0, rng.choice([0, 1, 5, 60, 127]), ALNUM + " "))))
    cases.append("pser nonproto -")
    frames = gen_frames(rng, 60 if q else 1500)
    for f in frames:
        cases.append("pdes " + hx(f))
        cases.append("ftn " + hx(f))
    for _ in range(20 if q else 300):
        cases.append("cser c %d" % rng.randrange(-24, 24))
        cases.append("cser j %d" % rint(rng))
        for k in "cj":
            name = rng.choice([b"int64", b"int64", b"int64", b"INT64", b" int64 ", b"Int64", b"verif.none", b""])
            if k == "c":
                v = rng.randrange(-24, 24)
                good = bytes([v]) if v >= 0 else bytes([0x20 + (-1 - v)])
                payload = rng.choice([good, good, good, b"\xff", b""])
            else:
                good = str(rint(rng)).encode()
                payload = rng.choice([good, good, good, b"x", b""])
            f = frame(name, payload)
            if rng.random() < 0.2:
                f = f[:rng.randrange(0, len(f))]
            cases.append("cdes %s %s" % (k, hx(f)))
    for _ in range(30 if q else 500):
        p = valid_path(rng) if rng.random() < 0.8 else b""
        n = rint(rng)
        cases.append("tser %s %d" % (hx(p), n))
        good = rng.random() < 0.7
        path = p if good else rng.choice([b"xyz", b"http://a@b:1/c", b"goakt:/", b"\x01\x02"])
        flag = 1 if (good and p) else 0
        f = term_frame(path, n)
        k = rng.random()
        if k < 0.2:
            f = f[:rng.randrange(0, len(f))]
        elif k < 0.3:
            f = f + b"\x00"
        elif k < 0.4:
            f = bytes([f[0] ^ 1]) + f[1:]
        elif k < 0.5:
            f = f[:8] + be32(len(path) + rng.choice([1, -1, 2**31]) if len(path) else 1) + f[12:]
        cases.append("tdec %s %d" % (hx(f), flag))
    cases += ["ppser", "ppdec " + hx(PMAGIC), "ppdec " + hx(PMAGIC[:7]), "ppdec " + hx(PMAGIC + b"\x00"), "ppdec -",
              "ppdec " + hx(TMAGIC), "ppdec " + hx(bytes([PMAGIC[0] ^ 0x80]) + PMAGIC[1:]),
              "tdec %s 0" % hx(PMAGIC), "tdec %s 0" % hx(DMAGIC + b"\x00" * 12), "ddec " + hx(PMAGIC), "ddec " + hx(term_frame(b"", 5)),
              "ddec " + hx(DMAGIC), "ddec " + hx(DMAGIC + b"\xff"), "ddec 00", "ddec -", "ddec " + hx(DMAGIC[:7]),
              "ddec " + hx(frame(b"testpb.Reply", b"")), "tdec %s 0" % hx(frame(b"testpb.Reply", b"\x0a\x01a" * 4)),
              "ppdec " + hx(be32(8) + be32(0)), "dlv other"]
    # every chunk-flag combination of a sequenced message, and the boundary values of the validators
    for cfl in ["000", "100", "101", "110", "111"]:
        cases.append("dlv sq:73:6d:7:0102:" + cfl)
    for env_chunk in ["~", "00", "01", "10", "11"]:
        cases.append("denv sq:73:6d:7:0102:" + env_chunk)
    cases += ["dlv ra:73:1:6e", "dlv ra:73:0:6e", "dlv rq:73:6e:0:0:0", "dlv rq:73:6e:5:4:1", "dlv ak:73:6e:0", "dlv ak:73:6e:-1",
              "dlv sq:73:6d:1:00:000", "dlv sq:73:6d:0:00:000", "dlv sq:73:6d:1:-:000", "dlv rc:09", "dlv rc:00"]
    for _ in range(60 if q else 1500):
        cases.append("dlv " + gen_cmd(rng))
    for _ in range(40 if q else 800):
        cases.append("denv " + gen_env(rng))
    # --- family A
    cases.append("dsp 1 xr/S1:1111:raw:h:r send:r:7a send:v0")           # former C25-F1 witness (fixed 5e999f4): must choose S1
    cases.append("dsp 0 iAny/S1:1111:raw:h:r,x0/S2:1111:raw:h:r send:v0 send:v1")
    # a user serializer that uses the shared frame layout under a protobuf type name with a non-protobuf payload:
    # the proto fast path must fall through to the registered serializers (both table orders, seeded and raw tables)
    cases.append("dsp 0 x3/S0:1111:fB:h:r,iP/P send:v3 send:v0")
    cases.append("dsp 0 iP/P,x3/S0:1111:fB:h:r send:v3")
    cases.append("dsp 1 x0/S1:1111:fB:h:r,iAny/S2:1111:fB:h:r send:v0 send:v2")
    for _ in range(150 if q else 4000):
        cases.append(gen_dsp(rng))
    if not q:
        # all registration orders of small honest tables
        base = ["x0/S0:1111:raw:h:r", "iA/S1:1111:fU:h:r", "iAny/S2:1111:raw:h:r", "iP/P", "x1/S3:0100:fU:h:r"]
        for r in range(0, 5):
            for perm in itertools.permutations(base, r):
                cases.append("dsp 0 %s send:v0 send:v1 send:v2 send:v3 send:r:7a71 send:u dser:v1 dser:u" % (",".join(perm) or "-"))
    # --- family B
    cases.append("real C,Ji int:5")                                        # C25-F2 witness
    cases.append("real J,Ci int:-17")
    cases.append("real - pp")
    if q:
        for _ in range(150):
            n = rng.randint(1, 4)
            ls = rng.sample(REAL, n)
            cases.append("real %s %s" % (",".join(ls), gen_real_msg(rng, ls)))
    else:
        for r in range(1, 5):
            perms = list(itertools.permutations(REAL, r))
            if len(perms) > 2500:
                perms = rng.sample(perms, 2500)
            for perm in perms:
                cases.append("real %s %s" % (",".join(perm), gen_real_msg(rng, perm)))
    return cases


def search_cases(rng, tier):
    cases = gen_cases(rng, "thorough" if tier == "thorough" else "quick")
    for _ in range(600):
        cases.append(gen_dsp(rng, honest=True))
    for _ in range(300):
        n = rng.randint(1, 4)
        ls = rng.sample(REAL, n)
        cases.append("real %s %s" % (",".join(ls), gen_real_msg(rng, ls)))
    return cases


def compare(case, impl, model):
    if model is None or model == "*":
        return None
    return None if impl == model else f"impl={impl!r} model={model!r}"


def is_trivial(case, impl):
    if impl is None:
        return True
    return impl in ("", "bad-case", "none") or impl.startswith("CRASH") or impl.startswith("err:") or impl.startswith("panic")


def tag(case, impl):
    f = case.split()
    t = f[0]
    if t == "real":
        t += ":" + str(len(f[1].split(","))) if f[1] != "-" else ":0"
        t += ":rt=" + (impl.split("rt=")[1][:1] if impl and "rt=" in impl else "-")
    elif t == "dsp":
        t += ":%s:%d" % (f[1], 0 if f[2] == "-" else len(f[2].split(",")))
    elif impl:
        t += ":" + ("err" if impl.startswith("err") or " dec=err" in impl else "ok")
    return t


def oracle(case, impl, judge):
    if impl is None:
        return None
    if impl.startswith("CRASH") or impl.startswith("panic"):
        return "harness crashed: " + impl
    if "view-mismatch" in impl:
        return "generator/parse flag mismatch: " + impl
    if judge is not None:
        return None if judge.startswith("ok") else judge
    # python mirror (used only when the Lean driver is unavailable): the round trip on real serializers
    if case.startswith("real ") and " send=ok" in impl and " rt=s" not in impl:
        return "bad roundtrip: " + impl.split("rt=")[1]
    return None


def classify(case, impl, why):
    why = why or ""
    f = case.split()
    # "bad chosen-shadowed" was C25-F1 (fixed in /repo 5e999f4): no longer a known finding, so it is a VIOLATION again
    if f[0] == "real" and why.startswith("bad roundtrip") and f[2].startswith("int:"):
        v = int(f[2][4:])
        labels = f[1].split(",")
        chosen = None
        for l in labels:
            if l in ("Ci", "Ji"):
                chosen = l
                break
        if chosen is None:
            return None
        before = labels[:labels.index(chosen)]
        if chosen == "Ji" and 0 <= v <= 9 and any(l[0] == "C" for l in before):
            return "C25-F2"
        if chosen == "Ci" and -26 <= v <= -17 and any(l[0] == "J" for l in before):
            return "C25-F2"
    return None


def shrink(case):
    f = case.split()
    if f[0] == "dsp" and len(f) > 4:
        for i in range(3, len(f)):
            yield " ".join(f[:i] + f[i + 1:])
    if f[0] in ("dsp",) and f[2] != "-":
        es = f[2].split(",")
        for i in range(len(es)):
            yield " ".join(f[:2] + [",".join(es[:i] + es[i + 1:]) or "-"] + f[3:])
    if f[0] == "real" and f[1] != "-":
        es = f[1].split(",")
        for i in range(len(es)):
            yield " ".join(["real", ",".join(es[:i] + es[i + 1:]) or "-", f[2]])

"""C32 — relocation plan places every actor and grain of a departed node exactly once (E1 + order-witness)."""
import itertools

ID = "C32"
LEAN_MODULES = ["GoaktVerif.Props.C32"]
THEOREMS = [
    "GoaktVerif.C32.pickUpTo_spec",
    "GoaktVerif.C32.allocInv_run",
    "GoaktVerif.C32.alloc_partition",
    "GoaktVerif.C32.C32_actors_holds",
    "GoaktVerif.C32.C32_least_loaded_holds",
    "GoaktVerif.C32.chunkify_flatten",
    "GoaktVerif.C32.allocateGrains_spec",
    "GoaktVerif.C32.C32_grains_holds",
    "GoaktVerif.C32.reassignInv_run",
    "GoaktVerif.C32.rrLoop_perm",
    "GoaktVerif.C32.rrLoop_mem",
    "GoaktVerif.C32.C32_redistribute_holds",
    "GoaktVerif.C32.C32_survivors_holds",
    "GoaktVerif.C32.C32_redistribute_least_holds",
    "GoaktVerif.C32.C32_gate_holds",
    "GoaktVerif.C32.C32_both_ends_holds",
    "GoaktVerif.C32.C32_batches_holds",
    "GoaktVerif.C32.batches_of_code_constant",
    "GoaktVerif.C32.C32_holds",
]
GO2LEAN = {"targets": [
    {"kind": "const", "file": "actor/relocation_worker.go", "name": "defaultRelocationBatchSize", "lean": "defaultRelocationBatchSize"},
]}
INPKG = ["actor/zz_verif_c32.go"]
MANIFEST = {
    "level_text": "Kernel-checked theorems over a hand-written model of actor/relocation_worker.go's planning code, for EVERY map iteration order, departed state, survivor set, role sets and base loads: allocateActors' shares/singletons/unplaceable are a permutation of the departed entries with one share per target, every shared entry sits on a target advertising its role, unplaceable = exactly the non-singletons nobody can host, singletons go to the leader, with distinct entries each is in exactly one share (C32_actors_holds); at its turn every actor goes to a minimal-current-load eligible target, lowest index on ties, role-less = minimal among all (C32_least_loaded_holds); leader grains ++ peer shares = the grains that did not disable relocation, exactly once, at most one share per target, even split (C32_grains_holds); the survivors of an unreachable target are exactly the peers whose host:port differs (C32_survivors_holds); redistribution after an unreachable target keeps the same rules incl. leader fallback, failure iff nobody can host, grain round-robin (C32_redistribute_holds, C32_redistribute_least_holds); the target-side dispatch never recreates system or non-relocatable entries (C32_gate_holds) and the snapshot builders upstream keep exactly the relocatable non-system actors, so such entries are in no share and never reported (C32_both_ends_holds); batching keeps every item once (C32_batches_holds, batch-size constant regenerated from the source by go2lean). Tied to the code by a differential run of the real functions: exact on a deterministic per-actor replay and on all slice-ordered functions, order-independent projections, and an order-witness search on the one-call map-ordered output; the spec oracle (partition, eligibility, least-loaded for some order) is evaluated on the implementation output.",
    "level_note": "Trusted: Lean kernel + propext/Quot.sound/Classical.choice; the differential sees only generated cases (bounded-exhaustive small + random up to 200 actors/8 peers). Not modelled: reliable-delivery endpoints (kept in the derived set for registry withdrawal), singleton entries in the live preShutdown tie, negative/overflowing int loads; Chunkify with size 0 on a non-empty slice (never called so; batch size proved positive from the regenerated constant). The plan functions do not filter relocatable/system entries themselves; 'not assigned' is proved at both ends (C32_both_ends_holds): the snapshot builders keep exactly the relocatable non-system actors (tied: real deriveRelocationSetFromRegistry over scripted registry records; real preShutdown of a started system with spawned actors) and the target-side dispatch gate drops the rest (tied by running one entry through the real enqueueRelocation).",
    "technique": "Lean 4 proof (induction over the iteration order) on a hand-written model, tied by a model/implementation differential with an order-witness search for the map-ordered functions",
}
TRUSTED = [
    "roles are modelled as Nat (0 = empty role string); loads as Nat (per-host actor counts)",
    "map iteration order is an explicit argument of the model; the witness search (Spec.C32.searchOrder) is complete without backtracking because a feasible share head stays feasible while other shares advance",
    "tools/go2lean translation of the constant defaultRelocationBatchSize",
    "the in-package accessors harness/inpkg/actor/zz_verif_c32.go are pass-through wrappers; the gate probe uses a registry double that records whether the respawn path reached the registry",
]
RULE = ("ops aa/ag/ch/bb/rr/sp/rx/dv/ps/ll/el/gate (dv: real deriveRelocationSetFromRegistry over scripted registry records; ps: real preShutdown of a started system with spawned actors) (sp/rx: peers on a tiny host x port grid so survivors share the unreachable target's host or port); fixed corner cases; bounded-exhaustive aa over <=3 targets x role sets {-,a,b,ab} x loads <=2 x "
        "<=3 actors (quick, sampled) / <=5 actors (thorough); random aa up to 12 actors/4 peers and up to 200 actors/8 peers with singleton, "
        "non-relocatable, system flags, unknown roles, mis-sized base loads; grains up to 200 over <=9 targets; redistribution requests; "
        "chunk sizes around 500; non-trivial = implementation produced a plan; distinct by (case, output)")
TIMEOUT = 900
ORACLE_NEEDS_JUDGE = True


# ---------------------------------------------------------------------------
# case construction
# ---------------------------------------------------------------------------

def roles_tok(rs):
    return ",".join(map(str, rs)) if rs else "-"


def peers_tok(ps):
    return ";".join(roles_tok(p) for p in ps) if ps else "."


def actor_tok(i, role, flags=""):
    return f"{i}.{role}" + (f".{flags}" if flags else "")


def actors_tok(toks):
    return ",".join(toks) if toks else "-"


ROLESETS = [[], [1], [2], [1, 2]]


def rand_actor(rng, i, nroles, p_single=0.1, p_flag=0.1):
    role = rng.choice([0, 0] + list(range(1, nroles + 1)) + [nroles + 1])
    fl = ""
    if rng.random() < p_single:
        fl += "s"
    if rng.random() < p_flag:
        fl += "n"
    if rng.random() < p_flag / 2:
        fl += "y"
    return actor_tok(i, role, fl)


def rand_roles(rng, nroles):
    return sorted(rng.sample(range(1, nroles + 1), rng.randint(0, nroles))) if nroles else []


def rand_aa(rng, max_actors, max_peers):
    nroles = rng.choice([0, 1, 2, 2, 3])
    npeers = rng.randint(0, max_peers)
    leader = rand_roles(rng, nroles)
    peers = [rand_roles(rng, nroles) for _ in range(npeers)]
    n = rng.randint(0, max_actors)
    ids = rng.sample(range(1, 4 * max_actors + 10), n)
    actors = [rand_actor(rng, i, nroles) for i in ids]
    mode = rng.random()
    if mode < 0.3:
        base = "-"
    elif mode < 0.9:
        base = ",".join(str(rng.choice([0, 0, 1, 2, 3, 5, 20])) for _ in range(npeers + 1))
    else:
        base = ",".join(str(rng.randint(0, 3)) for _ in range(rng.choice([max(npeers, 1), npeers + 2])))  # mis-sized
    return f"aa {roles_tok(leader)} {peers_tok(peers)} {base} {actors_tok(actors)}"


def rand_grains(rng, n, lo=1):
    ids = rng.sample(range(lo, lo + 3 * n + 5), n)
    out = []
    for i in ids:
        fl = ("d" if rng.random() < 0.2 else "") + ("e" if rng.random() < 0.3 else "")
        out.append(f"{i}.{fl}" if fl else str(i))
    return out


def rand_ag(rng, max_grains, max_total):
    return f"ag {rng.randint(1, max_total)} {actors_tok(rand_grains(rng, rng.randint(0, max_grains)))}"


def rand_rr(rng, max_actors, max_surv):
    nroles = rng.choice([0, 1, 2, 2, 3])
    nsurv = rng.randint(0, max_surv)
    leader = rand_roles(rng, nroles)
    surv = [rand_roles(rng, nroles) for _ in range(nsurv)]
    nreq = rng.randint(0, 4)
    ida = iter(rng.sample(range(1, 4 * max_actors + 10), max_actors))
    reqs = []
    gid = 1
    budget = rng.randint(0, max_actors)
    for _ in range(nreq):
        k = rng.randint(0, max(budget, 0))
        budget -= k
        acts = [rand_actor(rng, next(ida), nroles, p_single=0.05) for _ in range(k)]
        ng = rng.randint(0, 4)
        gr = rand_grains(rng, ng, lo=gid)
        gid += 3 * ng + 6
        reqs.append("A" + actors_tok(acts) + "+G" + actors_tok(gr))
    return f"rr {roles_tok(leader)} {peers_tok(surv)} {'/'.join(reqs) if reqs else '-'}"


def rand_peers_e(rng, nroles, n):
    """peers with endpoints drawn from a tiny host x port grid, so they often share the host or the port"""
    hosts = [1, 2, 3] if rng.random() < 0.7 else [1, 2, 3, 4, 5, 6]
    ports = [9000] if rng.random() < 0.4 else [9000, 9001]
    grid = [(h, p) for h in hosts for p in ports]
    if rng.random() < 0.9 and n <= len(grid):
        eps = rng.sample(grid, n)
    else:
        eps = [rng.choice(grid) for _ in range(n)]
    return [(h, p, rand_roles(rng, nroles)) for h, p in eps]


def peers_e_tok(ps):
    return ";".join(f"{h}:{p}:{roles_tok(r)}" for h, p, r in ps) if ps else "."


def rand_sp(rng):
    ps = rand_peers_e(rng, 2, rng.randint(1, 6))
    return f"sp {peers_e_tok(ps)} {rng.randrange(len(ps))}"


def rand_rx(rng, max_actors):
    nroles = rng.choice([0, 1, 2, 2, 3])
    ps = rand_peers_e(rng, nroles, rng.randint(1, 6))
    leader = rand_roles(rng, nroles)
    t = rng.randrange(len(ps))
    na = rng.randint(0, max_actors)
    ids = rng.sample(range(1, 4 * max_actors + 10), na)
    reqs = []
    pool = list(ids)
    gid = 1
    while pool:
        k = rng.randint(1, len(pool))
        chunk, pool = pool[:k], pool[k:]
        acts = [actor_tok(i, rng.choice([0] + list(range(1, nroles + 2)))) for i in chunk]
        reqs.append("A" + actors_tok(acts) + "+G-")
    if rng.random() < 0.5:
        ng = rng.randint(1, 4)
        reqs.append("A-+G" + actors_tok(rand_grains(rng, ng, lo=gid)))
    return f"rx {roles_tok(leader)} {peers_e_tok(ps)} {t} {'/'.join(reqs) if reqs else '-'}"


def exhaustive_aa(rng, tier):
    """bounded-exhaustive: <= 3 survivors (leader + <= 2 peers... up to 3 targets besides), roles {0,a,b},
    loads <= 2; actors up to 5 (thorough) with sampled role vectors"""
    cases = []
    max_targets = 3
    max_actors = 5 if tier == "thorough" else 3
    for nt in range(1, max_targets + 1):
        for roleset in itertools.product(range(len(ROLESETS)), repeat=nt):
            for loads in itertools.product(range(3), repeat=nt):
                if tier != "thorough" and rng.random() > 0.04:
                    continue
                if tier == "thorough" and nt == 3 and rng.random() > 0.35:
                    continue
                for na in range(0, max_actors + 1):
                    reps = 1 if na <= 1 else (3 if tier == "thorough" else 1)
                    for _ in range(reps):
                        acts = []
                        for i in range(na):
                            role = rng.choice([0, 1, 2])
                            fl = "s" if rng.random() < 0.08 else ""
                            acts.append(actor_tok(i + 1, role, fl))
                        targets = [ROLESETS[k] for k in roleset]
                        cases.append(f"aa {roles_tok(targets[0])} {peers_tok(targets[1:])} {','.join(map(str, loads))} {actors_tok(acts)}")
    return cases


def fixed_cases():
    cs = [
        "aa 1 1;-;2 - 1.0,2.1,3.2,4.3,5.0.s,6.1.s,7.0.n,8.0.y,9.0",
        "aa - . - -",
        "aa - . - 1.0,2.1",
        "aa - 1 5,0 1.0,2.0,3.0,4.1",
        "aa - 1 5,0,3 1.0,2.0,3.0,4.1",
        "ag 3 1,2.d,3.e,4,5,6,7,8", "ag 3 1,2", "ag 1 1,2,3", "ag 4 -", "ag 2 1.d,2.d",
        "ch 10 3", "ch 0 0", "ch 5 5", "ch 0 4", "ch 1 500", "ch 1001 500",
        "bb 1201 3", "bb 0 0", "bb 500 500", "bb 501 0", "bb 0 1000",
        "rr 1 2;- A1.0,2.1,3.2,4.3+G5.e,6/A7.0+G8", "rr - . A1.0,2.1+G-", "rr - 1;1 -", "rr 1 . A1.1,2.0+G3,4.e",
        "sp 1:9000:-;2:9000:1;1:9001:-;3:9002:- 0", "sp 1:9000:- 0", "sp 1:9000:-;1:9000:1 1",
        "rx - 1:9000:-;2:9000:1;3:9000:- 0 A1.1,2.0+G-",
        "rx 2 1:9000:1;1:9001:1;2:9000:- 0 A1.1,2.0,3.2,4.3+G-/A-+G5.e,6",
        "dv 1.0,2.1.n,3.0.y,4.2.s,5.0.ny 1,2.y,3.d,4.e", "dv - -", "ps 1.0,2.1.n,3.0.y,4.2", "ps -",
        "ll 1;-;1 2,0,1 1", "ll 1;-;1 2,0,1 0", "ll 1;-;1 2,0,1 2", "ll . - 0", "ll -;- 1,1 0",
        "el 1,2 2", "el - 0", "el - 1", "el 0 0", "el 1,2 3",
    ]
    for fl in ["", "n", "y", "s", "sy", "sn", "ny", "sny"]:
        for role in (0, 2):
            cs.append("gate " + actor_tok(1, role, fl))
    return cs


def gen_cases(rng, tier):
    quick = tier == "quick"
    cases = fixed_cases()
    cases += exhaustive_aa(rng, tier)
    for _ in range(150 if quick else 3000):
        cases.append(rand_aa(rng, 12, 4))
    for _ in range(40 if quick else 400):
        cases.append(rand_aa(rng, 200, 8))
    for _ in range(80 if quick else 1500):
        cases.append(rand_ag(rng, rng.choice([3, 10, 40]), 9))
    for _ in range(10 if quick else 100):
        cases.append(rand_ag(rng, 200, 9))
    for _ in range(100 if quick else 2000):
        cases.append(rand_rr(rng, rng.choice([4, 12, 40]), rng.choice([0, 1, 3, 7])))
    for _ in range(10 if quick else 60):
        cases.append(rand_rr(rng, 200, 7))
    for _ in range(40 if quick else 400):
        n = rng.randint(0, 10)
        ids = rng.sample(range(1, 60), n)
        acts = [actor_tok(i, rng.choice([0, 1, 2]), "".join(f for f, pr in (("s", 0.1), ("n", 0.3), ("y", 0.2)) if rng.random() < pr)) for i in ids]
        grs = [str(i) + ("." + fl if fl else "") for i, fl in ((i, "".join(f for f, pr in (("y", 0.25), ("d", 0.2), ("e", 0.3)) if rng.random() < pr)) for i in rng.sample(range(1, 60), rng.randint(0, 6)))]
        cases.append(f"dv {actors_tok(acts)} {actors_tok(grs)}")
    for _ in range(6 if quick else 40):
        n = rng.randint(0, 8)
        ids = rng.sample(range(1, 60), n)
        acts = [actor_tok(i, rng.choice([0, 1, 2]), "".join(f for f, pr in (("n", 0.35), ("y", 0.25)) if rng.random() < pr)) for i in ids]
        cases.append(f"ps {actors_tok(acts)}")
    for _ in range(60 if quick else 600):
        cases.append(rand_sp(rng))
    for _ in range(100 if quick else 1500):
        cases.append(rand_rx(rng, rng.choice([3, 8, 20])))
    for _ in range(40 if quick else 600):
        n = rng.choice([0, 1, 2, 5, 17, 100, 499, 500, 501, 1500])
        cases.append(f"ch {n} {rng.choice([1, 2, 3, 7, 500, 2000])}")
    for _ in range(10 if quick else 60):
        cases.append(f"bb {rng.choice([0, 1, 499, 500, 501, 1000, 1234])} {rng.choice([0, 1, 500, 501, 777])}")
    for _ in range(60 if quick else 1000):
        ns = rng.randint(0, 6)
        surv = [rand_roles(rng, 2) for _ in range(ns)]
        lens = ",".join(str(rng.choice([0, 0, 1, 2, 3])) for _ in range(ns)) if ns else "-"
        cases.append(f"ll {peers_tok(surv)} {lens} {rng.choice([0, 1, 2, 3])}")
    for _ in range(30 if quick else 300):
        cases.append(f"el {roles_tok(rand_roles(rng, 3))} {rng.randint(0, 4)}")
    return cases


def search_cases(rng, tier):
    return gen_cases(rng, "thorough")


# ---------------------------------------------------------------------------
# comparison / oracle
# ---------------------------------------------------------------------------

def _kv(part):
    d = {}
    for w in part.split():
        if "=" in w:
            k, v = w.split("=", 1)
            d[k] = v
    return d


def _ids(s):
    return [] if s == "-" else s.split(",")


def _shares(s):
    return [] if s == "none" else [_ids(x) for x in s.split("/")]


def _sorted(ids):
    try:
        return sorted(ids, key=int)
    except ValueError:
        return sorted(ids)


def compare(case, impl, model):
    if model == "*":
        return None
    op = case.split(" ", 1)[0]
    if impl.startswith("panic") or impl.startswith("CRASH"):
        return f"implementation crashed: {impl!r} model={model!r}"
    if op == "aa" and " | " in impl and " | " in model:
        imap, iseq = impl.split(" | ", 1)
        minv, mseq = model.split(" | ", 1)
        if iseq != mseq:
            return f"per-actor (deterministic) replay differs: impl={iseq!r} model={mseq!r}"
        d, m = _kv(imap), _kv(minv)
        try:
            sh = _shares(d["sh"])
            lead = _ids(d["lead"])
            share0 = sh[0] if sh else []
            singles = lead[:len(lead) - len(share0)]
            placed = [x for s in sh for x in s]
            got = (_sorted(singles), _sorted(_ids(d["un"])), _sorted(placed))
            want = (_sorted(_ids(m["singles"])), _sorted(_ids(m["un"])), _sorted(_ids(m["placed"])))
        except (KeyError, IndexError):
            return f"unparsable: impl={impl!r} model={model!r}"
        if got != want:
            return f"order-independent projection differs (singletons, unplaceable, placed): impl={got!r} model={want!r}"
        return None
    if op == "ag" and " | " in impl and " | " in model:
        imap, iseq = impl.split(" | ", 1)
        mrel, mseq = model.split(" | ", 1)
        if iseq != mseq:
            return f"allocateGrains on the case-order slice differs: impl={iseq!r} model={mseq!r}"
        if _sorted(_ids(_kv(imap).get("rel", "?"))) != _ids(_kv(mrel).get("rel", "??")):
            return f"relocatableGrains differs as a set: impl={imap!r} model={mrel!r}"
        return None
    return None if impl == model else f"impl={impl!r} model={model!r}"


def is_trivial(case, impl):
    return impl in ("", "bad-case", "-") or impl.startswith("CRASH") or impl.startswith("panic")


def tag(case, impl):
    f = case.split()
    t = f[0]
    if t == "aa" and len(f) == 5:
        n = 0 if f[4] == "-" else f[4].count(",") + 1
        t += ":n<=5" if n <= 5 else (":n<=30" if n <= 30 else ":n>30")
        if "un=-" not in impl.split(" | ")[0]:
            t += ":unplaceable"
    return t


def oracle(case, impl, judge):
    if impl.startswith("CRASH") or impl.startswith("panic"):
        return "harness crashed: " + impl
    if judge is not None:
        return None if judge.startswith("ok") else judge
    return py_oracle(case, impl)


# small python mirror of Spec.C32 for search mode without the Lean driver
def _elig(troles, role):
    return role == 0 or role in troles


def _parse_roles(s):
    return [] if s == "-" else [int(x) for x in s.split(",")]


def _parse_peers(s):
    return [] if s == "." else [_parse_roles(x) for x in s.split(";")]


def _parse_actors(s):
    out = {}
    if s == "-":
        return out
    for t in s.split(","):
        p = t.split(".")
        out[p[0]] = (int(p[1]), p[2] if len(p) > 2 else "")
    return out


def py_oracle(case, impl):
    f = case.split()
    try:
        if f[0] == "aa":
            targets = [_parse_roles(f[1])] + _parse_peers(f[2])
            acts = _parse_actors(f[4])
            d = _kv(impl.split(" | ")[0])
            sh = _shares(d["sh"])
            lead = _ids(d["lead"])
            un = _ids(d["un"])
            if len(sh) != len(targets):
                return "number of shares differs from the number of targets"
            singles = lead[:len(lead) - len(sh[0])]
            allids = singles + [x for s in sh for x in s] + un
            if sorted(allids) != sorted(acts):
                return "not a partition"
            for x in singles:
                if "s" not in acts[x][1]:
                    return "non-singleton in singleton share"
            for i, s in enumerate(sh):
                for x in s:
                    if "s" in acts[x][1] or not _elig(targets[i], acts[x][0]):
                        return "actor on a target that does not advertise its role"
            for x in un:
                if any(_elig(t, acts[x][0]) for t in targets):
                    return "unplaceable although a target advertises its role"
            base = [] if f[3] == "-" else [int(x) for x in f[3].split(",")]
            loads = list(base) if len(base) == len(targets) else [0] * len(targets)
            pos = [0] * len(sh)
            left = sum(len(s) for s in sh)
            while left:
                for i, s in enumerate(sh):
                    if pos[i] < len(s) and (acts[s[pos[i]]][0] != 0 or loads[i] == min(loads)):
                        pos[i] += 1
                        loads[i] += 1
                        left -= 1
                        break
                else:
                    return "no iteration order puts every role-less actor on a least-loaded target"
            return None
        if f[0] == "gate":
            p = f[1].split(".")
            fl = p[2] if len(p) > 2 else ""
            must_skip = "y" in fl or ("s" not in fl and "n" in fl)
            if must_skip and impl != "skip":
                return "a system or non-relocatable entry is recreated"
            if not must_skip and impl != "proceed":
                return "a relocatable entry is dropped by the target"
    except (KeyError, IndexError, ValueError):
        return "unparsable output " + impl
    return None


def classify(case, impl, why):
    return None


def shrink(case):
    f = case.split()
    if f[0] == "aa" and len(f) == 5 and f[4] != "-":
        toks = f[4].split(",")
        for i in range(len(toks)):
            rest = toks[:i] + toks[i + 1:]
            yield " ".join(f[:4] + [actors_tok(rest)])

"""C23 — wire frames round-trip; malformed frames are rejected safely (E1 + E5 constants).

The Lean model prints FRAMING-level results (type registry and protobuf are parameters of the
model).  `compare` resolves the parameters against the implementation's answer in the order of
`Model.C23.finish`: registry lookup, then metadata, then payload.  Time-dependent values (the
remaining-deadline field) are compared against the wall-clock window the harness measured.
"""
import struct

ID = "C23"
LEAN_MODULES = ["GoaktVerif.Props.C23"]
THEOREMS = ["GoaktVerif.C23." + t for t in [
    "metadata_roundtrip", "mdMarshal_eq_spec", "legacyFrame_eq_spec", "metaFrame_eq_spec",
    "remainingOf_range", "remainingOf_eq_zero", "deadline_transfer", "deadline_none", "gen_remaining",
    "roundtrip_server", "roundtrip_plain", "detect_legacy", "roundtrip_client", "client_long_name_ok",
    "concat_read", "concat_server", "concat_client", "clientMarshal_eq", "echo_pipeline",
    "decoders_total", "metadata_error", "alloc_limit",
    "unmarshal_eq_finish", "unmarshalWithMeta_eq_finish", "serverDecode_eq_finish", "clientDecode_eq",
    "gen_facts", "default_limit_ok", "pool_sizing",
    "C23_holds",
    # every bound of the decoders, regenerated from the source, = the condition the model branches on
    "gen_umShort", "gen_umTotal", "gen_umName", "gen_uwmShort", "gen_uwmTotal", "gen_uwmBound", "gen_uwmHasMeta",
    "gen_rdMin", "gen_rdMax", "gen_srvMin", "gen_srvMax", "gen_srvTriesMeta", "gen_cliShort", "gen_cliDetect",
    "gen_mdShort", "gen_mdKey", "gen_mdVal", "gen_mdTail", "gen_mdHasDeadline",
]]
def _cond(file, func, match, lean, types=None, binds=None):
    t = {"kind": "if_cond", "file": "internal/net/" + file, "func": func, "match": match, "lean": lean}
    if types:
        t["types"] = types
    if binds:
        t["binds"] = binds
    return t


_LEN_DATA = [["len(data)", "dataLen", "int"]]
_LEN_FRAME = [["len(frame)", "frameLen", "int"]]
# every length / bound condition of the decoders, regenerated from the source on every run; Props/C23
# proves each equal to the condition the model uses (gen_*), so editing a bound breaks a proof obligation
_COND_TARGETS = [
    _cond("proto_serializer.go", "ProtoSerializer.UnmarshalBinary", "len(data) < 8", "umShort", binds=_LEN_DATA),
    _cond("proto_serializer.go", "ProtoSerializer.UnmarshalBinary", "len(data) < messageLength", "umTotal",
          types={"messageLength": "int"}, binds=_LEN_DATA),
    _cond("proto_serializer.go", "ProtoSerializer.UnmarshalBinary", "8+nameLen > messageLength", "umName",
          types={"messageLength": "int", "nameLen": "int"}),
    _cond("proto_serializer.go", "ProtoSerializer.UnmarshalBinaryWithMetadata", "len(data) < 12", "uwmShort", binds=_LEN_DATA),
    _cond("proto_serializer.go", "ProtoSerializer.UnmarshalBinaryWithMetadata", "len(data) < messageLength", "uwmTotal",
          types={"messageLength": "int"}, binds=_LEN_DATA),
    _cond("proto_serializer.go", "ProtoSerializer.UnmarshalBinaryWithMetadata", "nameLen+metaLen", "uwmBound",
          types={"messageLength": "int", "nameLen": "int", "metaLen": "int"}),
    _cond("proto_serializer.go", "ProtoSerializer.UnmarshalBinaryWithMetadata", "metaLen > 0", "uwmHasMeta", types={"metaLen": "int"}),
    _cond("client.go", "readProtoFrame", "totalLen < 8", "rdMin", types={"totalLen": "uint32"}),
    _cond("client.go", "readProtoFrame", "totalLen > maxFrameSize", "rdMax", types={"totalLen": "uint32", "maxFrameSize": "uint32"}),
    _cond("proto_server.go", "ProtoServer.handleConn", "totalLen < 8", "srvMin", types={"totalLen": "uint32"}),
    _cond("proto_server.go", "ProtoServer.handleConn", "totalLen > ps.maxFrameSize", "srvMax", types={"totalLen": "uint32"},
          binds=[["ps.maxFrameSize", "maxFrameSize", "uint32"]]),
    _cond("proto_server.go", "ProtoServer.handleConn", "len(frame) >= 12", "srvTriesMeta", binds=_LEN_FRAME),
    _cond("client.go", "Client.unmarshalProtoResponse", "len(frame) < 12", "cliShort", binds=_LEN_FRAME),
    _cond("client.go", "Client.unmarshalProtoResponse", "potentialMetaLen) <= totalLen", "cliDetect",
          types={"totalLen": "int", "nameLen": "int", "potentialMetaLen": "int"}),
    _cond("metadata.go", "Metadata.UnmarshalBinary", "len(data) < 10", "mdShort", binds=_LEN_DATA),
    _cond("metadata.go", "Metadata.UnmarshalBinary", "pos+keyLen > len(data)", "mdKey", types={"pos": "int", "keyLen": "int"}, binds=_LEN_DATA),
    _cond("metadata.go", "Metadata.UnmarshalBinary", "pos+valLen > len(data)", "mdVal", types={"pos": "int", "valLen": "int"}, binds=_LEN_DATA),
    _cond("metadata.go", "Metadata.UnmarshalBinary", "pos+8 > len(data)", "mdTail", types={"pos": "int"}, binds=_LEN_DATA),
    _cond("metadata.go", "Metadata.UnmarshalBinary", "remaining != 0", "mdHasDeadline", types={"remaining": "int64"}),
]

GO2LEAN = {"targets": [
    {"kind": "const", "file": "internal/net/client.go", "name": "defaultMaxFrameSize", "lean": "defaultMaxFrameSize"},
    {"kind": "const", "file": "internal/net/frame_pool.go", "name": "minBucketShift", "lean": "minBucketShift"},
    {"kind": "const", "file": "internal/net/frame_pool.go", "name": "maxBucketShift", "lean": "maxBucketShift"},
    {"kind": "const", "file": "internal/net/frame_pool.go", "name": "numBuckets", "lean": "numBuckets"},
    # the remaining-deadline computation of Metadata.MarshalBinary (incl. the 0 -> -1 rule), which no
    # differential run can exercise (it needs deadline == time.Now() to the nanosecond): every
    # statement that does not touch `remaining` is skipped, the clock read and the field are bound
    {"kind": "func", "file": "internal/net/metadata.go", "func": "Metadata.MarshalBinary", "lean": "marshalRemaining", "ret": "int64",
     "skip": ["for k, v := range m.headers {\n\tsize += 4 + len(k) + len(v)\n}",
              "buf := make([]byte, size)",
              "binary.BigEndian.PutUint16(buf[pos:], uint16(len(m.headers)))",
              "for k, v := range m.headers {\n\tbinary.BigEndian.PutUint16(buf[pos:], uint16(len(k)))\n\tpos += 2\n\tpos += copy(buf[pos:], k)\n\n\tbinary.BigEndian.PutUint16(buf[pos:], uint16(len(v)))\n\tpos += 2\n\tpos += copy(buf[pos:], v)\n}",
              "binary.BigEndian.PutUint64(buf[pos:], uint64(remaining))"],
     "binds": [["m.deadlineNano", "deadlineNano", "int64"], ["time.Now().UnixNano()", "now", "int64"], ["buf", "remaining", "int64"]]},
] + _COND_TARGETS}
INPKG = ["internal/net/zz_verif_c23.go"]
ORACLE_NEEDS_JUDGE = True
TIMEOUT = 900

# ---------------------------------------------------------------------------
# message schemas known to the generator (canonical proto3 encodings, ASCII strings only)
# ---------------------------------------------------------------------------

def _varint(n):
    n &= (1 << 64) - 1
    out = bytearray()
    while True:
        b = n & 0x7F
        n >>= 7
        if n:
            out.append(b | 0x80)
        else:
            out.append(b)
            return bytes(out)


def _len(field, b, always=False):
    if not b and not always:
        return b""
    return _varint(field << 3 | 2) + _varint(len(b)) + b


def _vint(field, v):
    return b"" if v == 0 else _varint(field << 3) + _varint(v)


_ALPHA = b"abcdefghijklmnopqrstuvwxyzABCDEFGHIJKLMNOPQRSTUVWXYZ0123456789-_.:/@"


def _str(rng, maxlen=24):
    n = rng.choice([0, 1, 3, 8, rng.randint(0, maxlen)])
    return bytes(rng.choice(_ALPHA) for _ in range(n))


def _blob(rng, maxlen=40):
    n = rng.choice([0, 1, 2, 5, rng.randint(0, maxlen)])
    return bytes(rng.randrange(256) for _ in range(n))


def _i32(rng):
    return rng.choice([0, 1, -1, 80, 65535, 2**31 - 1, -2**31, rng.randint(-2**31, 2**31 - 1)])


def _host_port_name(rng, extra=False):
    b = _len(1, _str(rng)) + _vint(2, _i32(rng)) + _len(3, _str(rng))
    if extra:
        b += _len(4, _str(rng))
    return b


TYPES = {
    "internalpb.RemoteLookupRequest": lambda r: _host_port_name(r),
    "internalpb.RemoteWatchRequest": lambda r: _host_port_name(r, True),
    "internalpb.RemoteTellResponse": lambda r: b"",
    "internalpb.RemoteAskResponse": lambda r: b"".join(_len(1, _blob(r), True) for _ in range(r.randint(0, 4))),
    "internalpb.RemoteStashSizeResponse": lambda r: _vint(1, r.choice([0, 1, 127, 128, 2**32, 2**64 - 1, r.randrange(2**64)])),
    "internalpb.RemoteStateResponse": lambda r: _vint(1, r.choice([0, 1])),
    "internalpb.RemoteChildrenResponse": lambda r: b"".join(_len(1, _str(r), True) for _ in range(r.randint(0, 5))),
    "internalpb.TopicMessage": lambda r: _len(1, _str(r)) + _len(2, _str(r)) + _len(3, _blob(r, 200)),
    "internalpb.RemoteAskGrainResponse": lambda r: _len(1, _blob(r, 300)),
    "google.protobuf.StringValue": lambda r: _len(1, _str(r, 60)),
    "google.protobuf.BytesValue": lambda r: _len(1, _blob(r, 60)),
    # registered by the harness (dynamicpb), one `bytes v = 1` field each
    "A": lambda r: _len(1, _blob(r, 12)),
    "v.A": lambda r: _len(1, _blob(r, 12)),
    "verif." + "x" * 300 + ".Long": lambda r: _len(1, _blob(r, 12)),
}
NAMES = list(TYPES)
SHORT_NAMES = [n for n in NAMES if len(n) < 256]
KNOWN_HEX = {n.encode().hex() for n in NAMES}


def hx(b):
    return b.hex() if b else "-"


def unhx(s):
    return b"" if s in ("-", "") else bytes.fromhex(s)


# python mirror of the documented layouts (used only to BUILD inputs for the decoders)
def legacy(name, payload):
    return struct.pack(">II", 8 + len(name) + len(payload), len(name)) + name + payload


def metaframe(name, mb, payload):
    return struct.pack(">III", 12 + len(name) + len(mb) + len(payload), len(name), len(mb)) + name + mb + payload


def mdbytes(headers, rem):
    out = struct.pack(">H", len(headers) & 0xFFFF)
    for k, v in headers:
        out += struct.pack(">H", len(k) & 0xFFFF) + k + struct.pack(">H", len(v) & 0xFFFF) + v
    return out + struct.pack(">Q", rem & (2**64 - 1))


def rnd_headers(rng, n=None):
    if n is None:
        n = rng.choice([0, 1, 1, 2, 3, rng.randint(0, 8)])
    hs, seen = [], set()
    while len(hs) < n:
        k = _blob(rng, 10) if rng.random() < 0.3 else _str(rng, 10)
        if k in seen:
            continue
        seen.add(k)
        hs.append((k, _blob(rng, 12) if rng.random() < 0.3 else _str(rng, 16)))
    return hs


def md_token(rng, hs=None, dl=None):
    if hs is None:
        hs = rnd_headers(rng)
    if dl is None:
        dl = rng.choice(["0", "0", "r5000000000", "r1", "r-1", "r-7000000000", "r%d" % rng.randint(-10**12, 10**15),
                         "a1", "a-1", "a%d" % (2**63 - 1), "a%d" % (-2**63), "a%d" % rng.randint(-2**63, 2**63 - 1)])
    return dl + "/" + ",".join(hx(k) + ":" + hx(v) for k, v in hs)


REMS = [0, 1, -1, 2**63 - 1, -2**63, 5 * 10**9, -5 * 10**9, 255, 256, -256]


def rnd_msg(rng, names=None):
    n = rng.choice(names or NAMES)
    return n.encode(), TYPES[n](rng)


def valid_frame(rng, kind=None, names=None):
    """-> (kind 'L'|'M', frame bytes, offsets of the length fields)"""
    name, payload = rnd_msg(rng, names)
    kind = kind or rng.choice("LM")
    if kind == "L":
        return "L", legacy(name, payload)
    mb = b"" if rng.random() < 0.2 else mdbytes(rnd_headers(rng), rng.choice(REMS + [rng.randint(-2**63, 2**63 - 1)]))
    return "M", metaframe(name, mb, payload)


SPECIAL_LENS = [0, 7, 8, 11, 12, 2**31, 2**32 - 1]


def mutations(rng, frame, tier):
    """malformed variants of a valid frame: truncation at every offset, bit flips and special
    values in the three length fields"""
    out = []
    step = 1 if len(frame) <= 80 or tier == "thorough" else max(1, len(frame) // 60)
    for cut in list(range(0, min(len(frame), 16))) + list(range(16, len(frame), step)):
        out.append(frame[:cut])
    for off in (0, 4, 8):
        if off + 4 > len(frame):
            continue
        cur = struct.unpack(">I", frame[off:off + 4])[0]
        for bit in range(32):
            out.append(frame[:off] + struct.pack(">I", cur ^ (1 << bit)) + frame[off + 4:])
        for v in SPECIAL_LENS + [len(frame) - 1, len(frame), len(frame) + 1, cur + 1, max(cur - 1, 0), cur + 4, max(cur - 4, 0)]:
            out.append(frame[:off] + struct.pack(">I", v & 0xFFFFFFFF) + frame[off + 4:])
    out.append(frame + b"\x00")
    out.append(frame + frame[:5])
    return out


def _over_limit_prefix(stream, mx):
    """mirror of the frame reader: the first length prefix above the limit (None if the reader never
    meets one).  The real code rejects it before allocating; a tree that lost the check would
    allocate that many bytes."""
    pos = 0
    while len(stream) - pos >= 4:
        n = struct.unpack(">I", stream[pos:pos + 4])[0]
        if n < 8:
            return None
        if n > mx:
            return n
        if len(stream) - pos < n:
            return None
        pos += n
    return None


def gen_cases(rng, tier):
    """all cases; stream cases whose rejected length prefix is huge (> 64 MiB) are capped per run so
    that a tree which lost the frame-limit check still finishes quickly (each costs a GB allocation there)"""
    out, huge = [], 0
    for c in _gen_cases(rng, tier):
        f = c.split()
        if f[0] in ("rd", "srv"):
            n = _over_limit_prefix(b"".join(unhx(x) for x in f[-1].split(",")), int(f[1]))
            if n is not None and n > (1 << 26):
                huge += 1
                if huge > (6 if tier == "quick" else 12):
                    continue
        out.append(c)
    return out


def _gen_cases(rng, tier):
    q = tier == "quick"
    cases = []
    N = 1 if q else 8

    # ---- encoders
    cases.append("enc - -")
    cases.append("encm - - nil")
    for n in NAMES:
        for _ in range(2 * N):
            cases.append(f"enc {hx(n.encode())} {hx(TYPES[n](rng))}")
    for _ in range(40 * N):
        name, payload = rnd_msg(rng)
        cases.append(f"encm {hx(name)} {hx(payload)} {rng.choice(['nil', md_token(rng), md_token(rng, rnd_headers(rng, rng.choice([0, 1])))])}")
    name, payload = rnd_msg(rng, SHORT_NAMES)
    big = [md_token(rng, [(b"", b"")]), md_token(rng, [(b"k" * 65535, b"v" * 65535)], "r900000000000"),
           md_token(rng, [(b"a", b""), (b"", b"b")]), "0/G65535x5x0", "r60000000000/G300x3x2", "a-5/G1500x4x1" if q else "a-5/G9000x4x1"]
    for t in big:
        cases.append(f"encm {hx(name)} {hx(payload)} {t}")
        cases.append(f"mde {t}")
        for mode in "msc":
            cases.append(f"rt {mode} {hx(name)} {hx(payload)} {t}")
    for _ in range(25 * N):
        cases.append(f"mde {md_token(rng)}")

    # ---- metadata decoder
    mds = [mdbytes([], 0), mdbytes([(b"k", b"v")], -1), mdbytes([(b"k", b"v"), (b"k", b"w"), (b"", b"")], 7),
           mdbytes(rnd_headers(rng, 4), 2**63 - 1)]
    for _ in range(10 * N):
        mds.append(mdbytes(rnd_headers(rng), rng.choice(REMS + [rng.randint(-2**63, 2**63 - 1)])))
    for mb in mds:
        cases.append(f"md {hx(mb)}")
    for mb in mds[:4 if q else len(mds)]:
        for cut in range(len(mb)):
            cases.append(f"md {hx(mb[:cut])}")
        for v in [0, 1, 2, 255, 256, 65535]:
            cases.append(f"md {hx(struct.pack('>H', v) + mb[2:])}")
            if len(mb) >= 14:
                cases.append(f"md {hx(mb[:2] + struct.pack('>H', v) + mb[4:])}")
        cases.append(f"md {hx(mb + b'xyz')}")
    for _ in range(20 * N):
        cases.append(f"md {hx(bytes(rng.randrange(256) for _ in range(rng.randint(0, 40))))}")

    # ---- one-frame decoders: valid frames and their malformed neighbours
    frames = [valid_frame(rng, k, [n]) for n in NAMES for k in "LM"]
    for _ in range(20 * N):
        frames.append(valid_frame(rng))
    for kind, f in frames:
        for op in ("dec", "decm", "cli"):
            cases.append(f"{op} {kind} {hx(f)}")
    mut_src = [frames[i] for i in rng.sample(range(len(frames)), 6 if q else 30)]
    mut_src += [valid_frame(rng, k, [n]) for n in ("A", "v.A") for k in "LM"]
    for kind, f in mut_src:
        for m in mutations(rng, f, tier):
            op = rng.choice(["dec", "decm", "cli"]) if q else None
            for o in ([op] if op else ["dec", "decm", "cli"]):
                cases.append(f"{o} 0 {hx(m)}")
            if rng.random() < (0.15 if q else 0.5):
                cases.append(f"srv 16777216 {rng.choice('01')} 0 {hx(m)}")
                cases.append(f"rd 16777216 {rng.choice('01')} {hx(m)}")
    for _ in range(30 * N):
        cases.append(f"{rng.choice(['dec', 'decm', 'cli'])} 0 {hx(bytes(rng.randrange(256) for _ in range(rng.randint(0, 48))))}")

    # ---- streams
    cases.append("rd 1024 0 -")
    cases.append("srv 1024 0 1 -")
    for _ in range(25 * N):
        fs = [valid_frame(rng)[1] for _ in range(rng.randint(1, 6))]
        mx = rng.choice([16777216, max(len(f) for f in fs), max(len(f) for f in fs) - 1, 4096, 2**32 - 1])
        cases.append(f"rd {mx} {rng.choice('01')} {','.join(hx(f) for f in fs)}")
        cases.append(f"srv {mx} {rng.choice('01')} 1 {','.join(hx(f) for f in fs)}")
    for _ in range(4 * N):
        fs = [valid_frame(rng)[1] for _ in range(2)]
        s = b"".join(fs)
        for cut in range(0, len(s), 1 if not q else max(1, len(s) // 40)):
            cases.append(f"rd 16777216 {rng.choice('01')} {hx(s[:cut])}")
            if cut % 3 == 0:
                cases.append(f"srv 16777216 0 0 {hx(s[:cut])}")
    for v in SPECIAL_LENS + [9, 13, 256, 257, 4096, 4097]:
        body = bytes(rng.randrange(256) for _ in range(20))
        for mx in ((16777216,) if v >= 2**31 else (16, 4096, 16777216)):
            cases.append(f"rd {mx} {rng.choice('01')} {hx(struct.pack('>I', v) + body)}")
    big = legacy(b"google.protobuf.BytesValue", _len(1, bytes(70000)))
    cases.append(f"rd 16777216 1 {hx(big)},{hx(big)}")
    cases.append(f"rd 70000 0 {hx(big)}")

    # ---- round trips and the full pipeline
    for _ in range(60 * N):
        name, payload = rnd_msg(rng)
        md = rng.choice(["none", "none", "nil", md_token(rng), md_token(rng)])
        mode = rng.choice("uu" if md == "none" else "m") if rng.random() < 0.3 else rng.choice("sc")
        cases.append(f"rt {mode} {hx(name)} {hx(payload)} {md}")
    for _ in range(6 * N):
        name, payload = rnd_msg(rng)
        cases.append(f"rt u {hx(name)} {hx(payload)} {md_token(rng)}")
        cases.append(f"rt m {hx(name)} {hx(payload)} none")
    for _ in range(25 * N):
        msgs = [rnd_msg(rng) for _ in range(rng.randint(0, 6))]
        md = rng.choice(["none", "nil", md_token(rng), md_token(rng)])
        items = ",".join(hx(n) + ":" + hx(p) for n, p in msgs) or "-"
        cases.append(f"batch {rng.choice([16777216, 65536])} {md} {items}")

    # ---- frame pool sizing
    for s in range(0, 26):
        for d in (-1, 0, 1):
            n = (1 << s) + d
            cases += [f"bi {n}", f"bie {max(n, 0)}", f"get {max(n, 0)}" if n <= (1 << 24) + 1 else f"bi {n + 7}"]
    cases += ["bi -1", "bi -256", f"bi {2**40}", f"bie {2**40}", "bie 768", "bie 3"]
    for _ in range(20 * N):
        n = rng.choice([rng.randrange(1 << 10), rng.randrange(1 << 16), rng.randrange(1 << 23)])
        cases += [f"bi {n}", f"get {n}", f"bie {n}"]
    return cases


def search_cases(rng, tier):
    # a fresh quick-sized sample (different random draws) plus the corpus-like boundary cases;
    # kept moderate because a tree that lost a limit check makes every huge length prefix expensive
    return gen_cases(rng, "quick") + gen_cases(rng, "quick")


# ---------------------------------------------------------------------------
# comparison: resolve the model's framing-level result against the implementation
# ---------------------------------------------------------------------------

def _s64(x):
    x &= 2**64 - 1
    return x - 2**64 if x >= 2**63 else x


def _split_at(o):
    if " @ " in o:
        a, b = o.split(" @ ", 1)
        return a, b
    return o, ""


def _times(t):
    dls, t0, t1, dlin = [], None, None, 0
    for tok in t.split():
        if tok.startswith("dl="):
            dls.append(int(tok[3:]))
        elif tok.startswith("t0="):
            t0 = int(tok[3:])
        elif tok.startswith("t1="):
            t1 = int(tok[3:])
        elif tok.startswith("dlin="):
            dlin = int(tok[5:])
    return dls, t0, t1, dlin


def _deadline_ok(rem, t0, t1, dl):
    if rem == 0:
        return dl == 0
    return t0 <= _s64(dl - rem) <= t1


def _strip_rems(s):
    toks, rems = [], []
    for t in s.split(" "):
        if t.startswith("rem="):
            rems.append(t[4:])
        else:
            toks.append(t)
    return " ".join(toks), rems


def _pre(s):
    """'F n=.. p=.. m=..[ rem=..]' | 'E x' -> dict"""
    s = s.strip()
    if s.startswith("E "):
        return {"err": s[2:]}
    d = {"err": None, "rem": None}
    for t in s.split():
        if t[:2] in ("n=", "p=", "m="):
            d[t[0]] = t[2:]
        elif t.startswith("rem="):
            d["rem"] = t[4:]
    return d


def _fmt(d, p=None):
    return f"F n={d['n']} p={d['p'] if p is None else p} m={d['m']}"


def _accept(pre, impl, strict):
    """is the implementation's result `impl` (main part) consistent with the framing result?
    -> (ok, rem or None).  Order of failure causes as in Model.C23.finish."""
    if pre["err"] is not None:
        return impl == "E " + pre["err"], None
    known = pre["n"] in KNOWN_HEX
    if impl == "E unknownType":
        return not known, None
    if pre["m"].startswith("err"):
        return impl == "E invalidMetadata", None
    if impl == "E unmarshalFailed":
        return not strict, None
    if not impl.startswith("F "):
        return False, None
    got = _pre(impl)
    if got["n"] != pre["n"] or got["m"] != pre["m"]:
        return False, None
    if strict and got["p"] != pre["p"]:
        return False, None
    return True, pre["rem"]


def _can_fail(pre, strict):
    return pre["err"] is not None or pre["n"] not in KNOWN_HEX or pre["m"].startswith("err") or not strict


def _check_rems(rems, times):
    dls, t0, t1, _ = _times(times)
    rems = [r for r in rems if r is not None]
    if len(rems) != len(dls):
        return f"{len(dls)} deadlines reported, model has {len(rems)} metadata blocks"
    for r, dl in zip(rems, dls):
        if r == "?":
            continue
        if not _deadline_ok(int(r), t0, t1, dl):
            return f"stored deadline {dl} does not match remaining {r} in window [{t0},{t1}]"
    return None


def compare(case, impl, model):
    if model == "*" or impl is None:
        return None
    if impl.startswith("CRASH") or impl.startswith("panic"):
        return None if impl.split(":")[0] == model else f"impl={impl[:200]!r} model={model[:200]!r}"
    op = case.split(" ", 1)[0]
    main, times = _split_at(impl)
    f = case.split()
    if op in ("enc", "rd", "bi", "bie", "get"):
        return None if impl == model else f"impl={impl[:300]!r} model={model[:300]!r}"
    if op in ("encm", "mde"):
        if len(main) != len(model) or any(a != b and b != "R" for a, b in zip(main, model)):
            return f"impl={main[:300]!r} model={model[:300]!r}"
        return None
    if op == "md":
        m2, rems = _strip_rems(model)
        if m2 != main:
            return f"impl={main[:300]!r} model={model[:300]!r}"
        return _check_rems(rems, times) if main.startswith("ok") else None
    if op in ("dec", "decm"):
        strict = f[1] == ("L" if op == "dec" else "M")
        ok, rem = _accept(_pre(model), main, strict)
        if not ok:
            return f"impl={main[:300]!r} not consistent with framing result {model[:300]!r}"
        return _check_rems([rem], times) if main.startswith("F ") else None
    if op == "cli":
        h = model[2] == "1"
        mpart, upart = model[6:].split(" U: ", 1)
        M, U = _pre(mpart), _pre(upart)
        sM, sU = f[1] == "M", f[1] == "L"
        if h:
            ok, rem = _accept(M, main, sM)
            if ok and main.startswith("F "):
                return _check_rems([rem], times)
            if not _can_fail(M, sM):
                return f"impl={main[:300]!r}: metadata format must succeed: {mpart[:300]!r}"
        ok, rem = _accept(U, main, sU)
        if not ok:
            return f"impl={main[:300]!r} not consistent with {model[:400]!r}"
        return _check_rems([rem], times) if main.startswith("F ") else None
    if op == "srv":
        strict = f[3] == "1"
        mt, it = model.rsplit(" W=", 1), main.rsplit(" W=", 1)
        mitems = [x for x in mt[0][2:].split(" | ") if x.strip()]
        iitems = [x for x in it[0][2:].split(" | ") if x.strip()]
        if len(iitems) > len(mitems):
            return f"server handled {len(iitems)} requests, model at most {len(mitems)}"
        rems = []
        for i, x in enumerate(mitems):
            P = _pre(x)
            if i >= len(iitems):
                # the implementation stopped here: must be a possible failure
                if not _can_fail(P, strict):
                    return f"server stopped before request {i} that must decode: {x[:200]!r}"
                break
            ok, rem = _accept(P, iitems[i], strict)
            if not ok or not iitems[i].startswith("F "):
                return f"request {i}: impl={iitems[i][:200]!r} model={x[:200]!r}"
            rems.append(rem)
        if strict and f[2] == "1" and mt[1] != it[1]:
            return "response bytes differ"
        if rems and any(r is not None for r in rems):
            return _check_rems(rems, times)
        return None
    if op == "rt":
        if model.startswith("E "):
            return None if main == model else f"impl={main[:300]!r} model={model[:300]!r}"
        cross = (f[1] == "u" and f[4] != "none") or (f[1] == "m" and f[4] == "none")
        mb, ib = (model[2:], main[2:]) if f[1] == "s" else (model, main)
        P = _pre(mb)
        if f[1] == "s" and ib.strip() == "":
            return None if _can_fail(P, not cross) else f"server did not decode a frame that must decode: {mb[:300]!r}"
        ok, _ = _accept(P, ib.strip(), not cross)
        return None if ok else f"impl={main[:300]!r} not consistent with framing result {model[:300]!r}"
    if op == "batch":
        m2, _ = _strip_rems(model)
        return None if m2 == main else f"impl={main[:400]!r} model={m2[:400]!r}"
    return None if impl == model else f"impl={impl[:300]!r} model={model[:300]!r}"


def is_trivial(case, impl):
    return impl is None or impl.startswith(("E ", "panic", "bad-case", "CRASH")) or impl in ("D  W=-", "D ")


def tag(case, impl):
    op = case.split(" ", 1)[0]
    if impl is None:
        return op
    if impl.startswith("E "):
        return op + ":" + impl.split()[1]
    if op == "rd":
        return op + ":" + impl.rsplit("e=", 1)[-1]
    if op in ("dec", "decm", "cli", "srv"):
        return op + ":" + case.split()[3 if op == "srv" else 1] + (":ok" if impl.startswith(("F", "D F")) else ":none")
    return op


def oracle(case, impl, judge):
    if impl.startswith("CRASH"):
        return "harness crashed: " + impl
    if impl.startswith("bad-case"):
        return "generator produced a case the harness rejects: " + impl
    if judge is not None:
        return None if judge.startswith("ok") else judge
    # judge unavailable: minimal python mirror (no panic; round trips return the message)
    if impl.startswith("panic") and not case.startswith("get -"):
        return "the codec panicked: " + impl
    f = case.split()
    if f[0] == "rt" and not (f[1] == "u" and f[4] != "none") and not (f[1] == "m" and f[4] == "none"):
        main = _split_at(impl)[0]
        body = main[2:] if f[1] == "s" else main
        if not body.startswith("F "):
            return "round trip failed: " + main[:80]
        d = _pre(body)
        if d["n"] != f[2] or d["p"] != f[3]:
            return "round trip changed the message or type name"
    return None


def classify(case, impl, why):
    # C23-F1 (client heuristic `nameLen < 256`) was repaired by fb98906; no open findings
    return None


def shrink(case):
    f = case.split()
    if f[0] in ("rd", "srv") and "," in f[-1]:
        cs = f[-1].split(",")
        for i in range(len(cs)):
            yield " ".join(f[:-1] + [",".join(cs[:i] + cs[i + 1:])])
    if f[0] == "batch" and "," in f[-1]:
        cs = f[-1].split(",")
        for i in range(len(cs)):
            yield " ".join(f[:-1] + [",".join(cs[:i] + cs[i + 1:])])


MANIFEST = {
    "level_text": "Kernel-checked theorems over an executable byte-level model in which every Go slice expression and fixed-width read is a checked operation: (1) decode(encode) returns the same type name, payload bytes, header map and remaining-deadline field for ALL names/payloads/header maps within the wire limits, with and without metadata, at the server (handleConn's decode block: roundtrip_server) and at the client (unmarshalProtoResponse: roundtrip_client, any name length); a legacy frame is rejected by the metadata parser with ErrInvalidMessageLength for every registry (detect_legacy; exact guard: frame limit < 65*2^24, the regenerated defaultMaxFrameSize satisfies it: gen_facts); (2) concatenated frames are read back one by one in order by the reader, the server loop and the client batch loop (concat_read/_server/_client, induction over the stream), and the whole SendBatchProto pipeline against an echoing server returns every message in order at both ends (echo_pipeline); (3) every decoder is total on every byte string, its bounds checks never fire, the metadata decoder has a single error, the requested buffer is within [8, maxFrameSize] (decoders_total, alloc_limit); (4) every length/bound condition of UnmarshalBinary, UnmarshalBinaryWithMetadata, readProtoFrame, handleConn, unmarshalProtoResponse (detection condition) and Metadata.UnmarshalBinary is regenerated from the Go source on every run and proved equal to the condition the model branches on (19 theorems gen_*), so an edited bound breaks a proof obligation; (5) frame-pool sizing (pool_sizing) and the deadline arithmetic incl. the 0 -> -1 rule (deadline_transfer; gen_remaining ties the rule to the regenerated source for all int64 inputs). The full statement holds (C23_holds); finding C23-F1 (client heuristic nameLen < 256) was repaired in /repo by fb98906 and is kept as a regression theorem (client_long_name_ok), a corpus case and a seeded reversal.",
    "level_note": "protobuf (Marshal/Unmarshal) and the type registry are parameters of the model (a message = type name + payload bytes); the differential resolves them against the implementation's answer in the order registry -> metadata -> payload (proved: *_eq_finish). Clock readings are arguments of the model; on the implementation the remaining-deadline field is checked against the wall-clock window measured around the call. Map iteration order is an argument (judge checks 'exists an order'). A 64-bit `int` is assumed. Sockets, timeouts, sync.Pool reuse and the handler dispatch after decoding are outside the model. The decode of 65535-entry maps is checked on the implementation by the spec oracle only (the list-based model is quadratic there).",
    "technique": "Lean 4 proofs over an executable byte-level model with explicit Go bounds checks, tied to the code by a differential run of the real serializer, metadata codec, frame reader, client heuristic and server read loop; wire constants and the remaining-deadline computation regenerated from the source by go2lean",
}
TRUSTED = [
    "google.golang.org/protobuf: deterministic Marshal(Unmarshal(b)) = b for canonically encoded b, MessageName, the global registry (parameters `Codec.reg/pdec` of the model)",
    "tools/go2lean translation of four constants, of Metadata.MarshalBinary restricted to the statements that compute `remaining` (five statements skipped by exact text), and of 19 `if` conditions selected by a substring of their text; the two `pos+2 > len(data)` tests of Metadata.UnmarshalBinary (same text twice) and `err == ErrInvalidMessageLength` are tied by the differential only",
    "the python canonical proto3 encoder used to build payloads for 14 message types (checked on every run: the real code must accept and re-emit the same bytes)",
    "the wall clock does not step during a measured call (the harness retries when wall and monotonic time disagree)",
]
RULE = ("encoders on 14 real message types (11 generated internalpb/wrappers types + 3 dynamic types with 1-, 3- and 311-byte names), "
        "header maps empty/1/many/65535 entries, 0- and 65535-byte strings, deadlines none/relative/absolute incl. int64 extremes; "
        "decoders (UnmarshalBinary, UnmarshalBinaryWithMetadata, client heuristic, server loop, Metadata.UnmarshalBinary, readProtoFrame) on valid frames and on "
        "truncations at every offset, all 96 single-bit flips and special values {0,7,8,11,12,2^31,2^32-1,len-1,len,len+1} of the three length fields, random bytes; "
        "streams of 1..6 frames with limits at/below the largest frame; client->server->client batches; pool sizes around every power of two; "
        "non-trivial = the implementation produced a frame/decoded message/buffer (not an error); distinct by (case, output)")

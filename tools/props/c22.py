"""C22 — client load balancers always pick a configured node (E5 + E1)."""
ID = "C22"
LEAN_MODULES = ["GoaktVerif.Props.C22"]
THEOREMS = [
    "GoaktVerif.C22.rrNext_refines",
    "GoaktVerif.C22.rr_run_eq",
    "GoaktVerif.C22.rr_holds",
    "GoaktVerif.C22.random_in_range",
    "GoaktVerif.C22.leastLoad_mem",
    "GoaktVerif.C22.leastLoad_pool_perm",
    "GoaktVerif.C22.leastLoad_min",
    "GoaktVerif.C22.C22_holds",
]
GO2LEAN = {"targets": [
    {"kind": "func", "file": "client/round_robin.go", "func": "RoundRobin.Next", "lean": "rrNext",
     "skip": ["x.locker.Lock()", "defer x.locker.Unlock()"],
     "binds": [["len(x.nodes)", "len", "int"]],
     "fieldvars": [["x.next", "next", "uint32"]],
     "return_index": True},
]}
INPKG = ["client/zz_verif_c22.go"]
MANIFEST = {
    "level_text": "Kernel-checked theorems: for every cursor value (hence any number of prior calls and any wrap) and every non-empty pool, round-robin returns in-range indices in cyclic order (rr_holds, unbounded induction); random and least-load return a configured node and least-load never loses or invents a node (perm). The round-robin theorem is tied to the code for ALL inputs by regenerating Gen.C22.rrNext from client/round_robin.go on every run (rrNext_refines); all three balancers are also tied by a differential run of the real code against the model.",
    "level_note": "Trusted: Lean kernel + propext/Quot.sound; go2lean's translation of RoundRobin.Next; rand.IntN's range contract; stable-sort contract of slices.SortStableFunc (sampled by the differential); integer-valued weights only (no NaN).",
    "technique": "Lean 4 proof (induction over call count) on a model regenerated from the Go source by a translator, plus model/implementation differential",
}
TRUSTED = [
    "tools/go2lean translation of RoundRobin.Next (lock/unlock statements skipped; x.next and len(x.nodes) bound as variables)",
    "math/rand/v2 IntN(n) returns a value in [0,n) (hypothesis of random_in_range)",
    "slices.SortStableFunc is a stable sort (the model uses insertion sort; outputs compared by E1)",
    "node weights are modelled as integers (float64 weights that are integral; NaN weights not modelled)",
]
RULE = ("rr: pool sizes 1..9 and larger, cursor presets around 0, 2^31, 2^32-1 and random, 1..40 calls; "
        "rnd: pools 1..9; ll: 1..7 integer weights with ties, op scripts of picks and SetWeight; "
        "non-trivial = at least one pick returned; distinct by (case, output)")


def gen_cases(rng, tier):
    n_rr, n_ll = (150, 150) if tier == "quick" else (3000, 3000)
    cases = []
    specials = [0, 1, 2, 2**31 - 1, 2**31, 2**31 + 1, 2**32 - 3, 2**32 - 2, 2**32 - 1]
    for n in range(0, 10):
        for s in specials:
            cases.append(f"rr {n} {s} {min(2*n+3, 24)}")
    for _ in range(n_rr):
        n = rng.choice([1, 2, 3, 4, 5, 6, 7, 11, 16, 17, 64, 100])
        s = rng.choice(specials + [rng.randrange(2**32) for _ in range(4)])
        cases.append(f"rr {n} {s} {rng.randint(1, 40)}")
    for n in range(1, 10):
        cases.append(f"rnd {n} {rng.randint(1, 30)}")
    cases.append("ll - p")
    for _ in range(n_ll):
        n = rng.randint(1, 7)
        ws = [rng.choice([0, 1, 1, 2, 3, -1, 5]) for _ in range(n)]
        ops = []
        for _ in range(rng.randint(1, 10)):
            if rng.random() < 0.6:
                ops.append("p")
            else:
                ops.append(f"s{rng.randrange(n)}={rng.choice([0, 1, 2, 3, -2, 7])}")
        ops.append("p")
        cases.append("ll " + ",".join(map(str, ws)) + " " + " ".join(ops))
    return cases


def search_cases(rng, tier):
    # boundary enumeration around the counter wrap for many pool sizes
    cases = []
    for n in list(range(1, 40)) + [64, 100, 255, 256, 257]:
        for s in [0, 1, 2**31 - 1, 2**31, 2**32 - 2, 2**32 - 1] + [rng.randrange(2**32) for _ in range(3)]:
            cases.append(f"rr {n} {s} {2*n+5 if n < 40 else 12}")
    return cases + gen_cases(rng, "thorough")


def compare(case, impl, model):
    if model == "*":
        return None
    return None if impl == model else f"impl={impl!r} model={model!r}"


def is_trivial(case, impl):
    return impl in ("", "panic", "bad-case") or impl.startswith("CRASH")


def tag(case, impl):
    return case.split()[0] + (":panic" if impl and impl.startswith("panic") else "")


def oracle(case, impl, judge):
    if impl.startswith("CRASH"):
        return "harness crashed: " + impl
    if judge is not None:
        return None if judge.startswith("ok") else judge
    # judge unavailable (search mode without the Lean driver): python mirror of Spec.C22
    f = case.split()
    if impl.startswith("panic") and not (f[0] in ("rr",) and f[1] == "0") and not (f[0] == "ll" and f[1] == "-"):
        return "panic on a non-empty pool: " + impl
    try:
        outs = [int(x) for x in impl.split()]
    except ValueError:
        return None if impl == "panic" else "unparsable " + impl
    if f[0] == "rr":
        n = int(f[1])
        if n and (any(o >= n or o < 0 for o in outs) or any(b != (a + 1) % n for a, b in zip(outs, outs[1:]))):
            return "round-robin output leaves the pool or is not cyclic"
    return None


def classify(case, impl, why):
    return None

"""C36 — a cluster singleton runs at most once cluster-wide (phase-gated scripts on in-process nodes over a fake registry)."""
import os, re

ID = "C36"
LEAN_MODULES = ["GoaktVerif.Props.C36"]
THEOREMS = [
    "GoaktVerif.C36.witness_two",
    "GoaktVerif.C36.C36_refuted",
    "GoaktVerif.C36.route_const",
    "GoaktVerif.C36.step_inv",
    "GoaktVerif.C36.run_inv",
    "GoaktVerif.C36.C36_partial",
]
MANIFEST = {
    "level_text": "Kernel-checked theorems over a phase-level machine of SpawnSingleton on any number of nodes with per-node (possibly stale) coordinator views, leader-view changes and kills (every interleaving of calls and leader changes is an operation sequence): the full property is REFUTED (C36_refuted: a coordinator change while a spawn is between its registry precondition read and its plain-put publication lets a second node start the singleton too); C36_partial proves that with one agreed, unchanging coordinator every interleaving of calls from any nodes and of kills keeps at most one instance running (inductive invariant step_inv/run_inv, route_const). The model is tied to the code by running the same scripts on real in-process actor systems whose cluster engine is goakt's real cluster.go over a fake olric store, with the leader view scripted through the fake membership and the race window held open by a gate in the singleton's PreStart; per-operation results, registry operation log, live instances and registry owner must coincide.",
    "level_note": "Partial: olric's per-key atomicity and the leader election are parameters (the fake store is a mutex-protected map; coordinator views are scripted); the interleaving granularity is the phase (view chase + registry read + PreStart entry | PreStart return + attach + put), RemoteSpawn is delivered in process by calling the target node's SpawnSingleton (the request codec and the remote handler's option plumbing are not exercised), a cycle of stale views ends by a hop budget instead of a deadline, role-pinned singletons (spawnSingletonWithRole), relocation of singletons after a node leaves, retries (>1 attempt) and the per-node single flight's followers are outside the model.",
    "technique": "Lean 4 inductive invariant over an operation-sequence (phase interleaving) model + script differential on real in-process actor systems sharing a fake cluster registry with scripted leader views",
}
TRUSTED = [
    "olric DMap operations are atomic per key; leader election outcome is an input (scripted membership views)",
    "RemoteSpawn is delivered in process (target.SpawnSingleton with the request's singleton spec); the wire codec and remote_server option plumbing are not exercised",
    "phase granularity: code between two gates is executed atomically in the model; the gate sits in the singleton's PreStart",
]
RULE = ("scripts over 2-4 nodes: SpawnSingleton full/held from any node, followers of a held call (waiting, cancelled, joined), the held call itself cancelled (its followers retry), leader-view changes (all nodes or one), kills; "
        "non-trivial = the harness produced a digest; distinct by (case, output)")
EXPLANATION = "Each script runs on fresh real actor systems (one per node) sharing the fake registry and on the Lean model; results and digest (registry owner, live instances per node, max simultaneous, started, held calls, registry operation log) must be equal."

SRC_FACTS = {
    "fact singleton-plain-put": ("actor/actor_system.go", r"func \(x \*actorSystem\) publishSpawnedActor\(ctx context\.Context, pid \*PID\) error \{\s*if pid\.reliableDelivery == nil \|\| !x\.clusterEnabled\.Load\(\) \{\s*return x\.putActorOnCluster\(ctx, pid\)"),
    "fact singleton-local-flight": ("actor/spawn.go", r"func \(x \*actorSystem\) spawnSingletonOnLocal\((?s:.*?)return x\.runSpawnActivation\(ctx, x\.actorReference\(name\)\.String\(\), func\(\) \(\*PID, error\) \{\s*// check some preconditions\s*if err := x\.checkSpawnPreconditions\(ctx, name\); err != nil"),
    "fact remote-handler": ("actor/remote_server.go", r"pid, err := x\.SpawnSingleton\(ctx, request\.GetActorName\(\), actor, singletonOpts\.\.\.\)"),
}
INPKG = ["actor/zz_verif_c36.go", "actor/zz_verif_c11.go", "actor/zz_verif_c30.go", "internal/cluster/zz_verif_c30.go"]
TIMEOUT = 1200
REPO = os.environ.get("VERIF_REPO", "/repo")


def _case(rng, views=True, kills=True, followers=True):
    nn = rng.choice([2, 2, 3, 3, 4])
    n = rng.randint(2, 12)
    toks, held, fol, twice = [], [], [], set()
    if views and rng.random() < 0.5:
        # a (possibly partial) leader change up front
        k = rng.randrange(nn)
        for i in range(nn):
            if rng.random() < 0.8:
                toks.append(f"L.{i}.{k}")
    for _ in range(n):
        r = rng.random()
        if r < 0.30:
            toks.append(f"X.{rng.randrange(nn)}")
        elif r < 0.50:
            c = rng.randrange(nn)
            toks.append(f"bX.{c}")
            held.append(c)
        elif r < 0.62 and held:
            h = held.pop(rng.randrange(len(held)))
            toks.append(f"eX.{h}")
            if h in twice:
                toks.append(f"eX.{h}")     # the followers' retry is held too: second release
        elif r < 0.72 and held and followers:
            # followers of the held flight: a second caller, possibly cancelled, then a third one
            c = rng.randrange(nn)
            toks.append(f"fX.{c}")
            fol.append(c)
            if rng.random() < 0.5:
                toks.append(f"cX.{c}")
                fol.remove(c)
                toks.append(f"fX.{rng.randrange(nn)}")
            elif rng.random() < 0.6:
                # more followers, then the WINNER of the flight gives up: its followers must retry as one
                for c2 in range(nn):
                    if c2 not in held and c2 not in fol and rng.random() < 0.8:
                        toks.append(f"fX.{c2}")
                        fol.append(c2)
                if not any(t.startswith("L.") for t in toks):
                    # (only under one agreed coordinator: with diverging views the name can be published during the hold
                    # and the number of registry reads of the followers' retries then depends on timing)
                    h = rng.choice(held)
                    toks.append(f"xX.{h}")
                    twice.add(h)
        elif r < 0.76 and fol:
            c = fol.pop(rng.randrange(len(fol)))
            toks.append(rng.choice([f"cX.{c}", f"jX.{c}"]))
        elif views and r < 0.90 and not twice:
            if rng.random() < 0.5:
                k = rng.randrange(nn)
                for i in range(nn):
                    toks.append(f"L.{i}.{k}")
            else:
                toks.append(f"L.{rng.randrange(nn)}.{rng.randrange(nn)}")
        elif kills:
            toks.append(f"K.{rng.randrange(nn)}")
        else:
            toks.append(f"X.{rng.randrange(nn)}")
    if rng.random() < 0.8:
        for c in held:
            toks.append(f"eX.{c}")
            if c in twice:
                toks.append(f"eX.{c}")
        for c in set(fol):
            toks.append(f"jX.{c}")
    return f"{nn} | " + " ".join(toks)


# every follower operation costs the harness its grace period (0.3 s): they are generated in a fraction of the scripts
def gen_cases(rng, tier):
    n, pf = (120, 0.35) if tier == "quick" else (2500, 0.08)
    return list(SRC_FACTS) + [_case(rng, followers=rng.random() < pf) for _ in range(n)]


def search_cases(rng, tier):
    n = 400 if tier == "quick" else 3000
    return [_case(rng, views=False, followers=rng.random() < 0.1) for _ in range(n)] + [_case(rng, followers=rng.random() < 0.1) for _ in range(n)]


def compare(case, impl, model):
    if case in SRC_FACTS:
        rel, pat = SRC_FACTS[case]
        try:
            src = open(os.path.join(REPO, rel)).read()
        except OSError as e:
            return f"cannot read {rel}: {e}"
        return None if re.search(pat, src) else f"source fact `{case}` no longer holds in {rel}"
    if "xX." in case:
        # After the winner of a flight gave up, a follower that is scheduled late (loaded box) re-enters the gate only
        # after the followers' retry has published: it then runs on its own, finds the record and returns the same
        # actor, at the price of two extra registry reads whose presence depends on timing. For these scripts
        # everything is compared except the registry operation log.
        strip = lambda o: re.sub(r" log=\S*", "", o)
        return None if strip(impl) == strip(model) else f"impl={impl!r} model={model!r}"
    return None if impl == model else f"impl={impl!r} model={model!r}"


def oracle(case, impl, judge):
    if case in SRC_FACTS:
        return None
    if impl.startswith("CRASH") or impl.startswith("panic"):
        return "harness crashed: " + impl[:200]
    if " | " not in impl:
        return None
    if "timeout" in impl.split(" | ")[0].split():
        return "an operation did not complete: " + impl[:200]
    if judge is not None:
        return None if judge.startswith("ok") else judge
    d = dict(w.split("=", 1) for w in impl.split(" | ", 1)[1].split() if "=" in w)
    live = [int(x) for x in d.get("live", "").split(",") if x]
    if int(d.get("max", "0")) > 1 or sum(live) > 1:
        return f"bad {max(int(d.get('max', '0')), sum(live))} instances of the singleton ran at once (live={d.get('live')})"
    return None


def _overlap(impl):
    """a precondition miss (G) of node a, then before a's put (p) a precondition miss of another node b"""
    if " | " not in impl:
        return False
    d = dict(w.split("=", 1) for w in impl.split(" | ", 1)[1].split() if "=" in w)
    pending = set()
    for e in d.get("log", "").split(","):
        m = re.fullmatch(r"(\d+)([a-zA-Z]!?)", e)
        if not m:
            continue
        n, k = m.group(1), m.group(2)
        if k == "G":
            if pending - {n}:
                return True
            pending.add(n)
        elif k == "p":
            pending.discard(n)
    return False


def classify(case, impl, why):
    if not why or not why.startswith("bad ") or not impl:
        return None
    return "C36-F1" if _overlap(impl) else None


def is_trivial(case, impl):
    return " | " not in (impl or "")


def tag(case, impl):
    if case in SRC_FACTS:
        return "fact"
    t = []
    if "L." in case:
        t.append("views")
    if "bX." in case:
        t.append("held")
    if "K." in case:
        t.append("kill")
    if "fX." in case:
        t.append("follower")
    if "xX." in case:
        t.append("winner-cancelled")
    return "nodes=" + case.split("|")[0].strip() + " " + ("+".join(t) or "plain")

"""C48 — the TTL map behaves like a map with per-key expiry (refinement proof + E2 differential)."""
ID = "C48"
LEAN_MODULES = ["GoaktVerif.Props.C48"]
THEOREMS = [
    "GoaktVerif.C48.evictGo_spec",
    "GoaktVerif.C48.region_full",
    "GoaktVerif.C48.C48_evict_sound",
    "GoaktVerif.C48.C48_compact_sound",
    "GoaktVerif.C48.set_spec",
    "GoaktVerif.C48.get_spec",
    "GoaktVerif.C48.activeLen_spec",
    "GoaktVerif.C48.step_refines",
    "GoaktVerif.C48.run_refines",
    "GoaktVerif.C48.spec_get_after_set",
    "GoaktVerif.C48.spec_get_after_del",
    "GoaktVerif.C48.spec_get_never_set",
    "GoaktVerif.C48.C48_holds",
]
INPKG = ["internal/xsync/zz_verif_c48.go"]
MANIFEST = {
    "level_text": "Kernel-checked forward simulation for ALL histories (any length, keys, values, ttl of any sign, clock steps incl. exactly-at-expiry): the model of internal/xsync/ttlmap.go (items index map, append-only order slice, head, evict loop, maybeCompact with its O(1) fast-path test and its filtering slow path, in-place refresh, lazy Get/ActiveLen deletion, Delete, Reset, Len) refines a plain map key -> (value, deadline) on which nothing is ever evicted: every Get returns the last Set value iff now < setTime+ttl and no Delete/Reset intervened (C48_holds clauses 2-4 state this on histories), ActiveLen is the number of live keys, Len is at least that; evict and maybeCompact change the abstract map only by dropping expired entries (invariant: head <= idx < len(order), order[idx].key = k, injective). The model is tied to the code by a differential run of the real TTLMap (clock hook injected in-package through the build overlay) that compares every answer AND a dump of items/len(order)/head after every few operations, and the spec oracle is evaluated on the implementation's answers and dumps.",
    "level_note": "Trusted: the differential (sees only generated histories); int64 `now+ttl` does not overflow (times are modelled as unbounded Int); Go map semantics modelled as an association list with one pair per key; the mutex (all operations hold s.mu for their whole body, so concurrent use is a sequential history; not model-checked). No go2lean target: the compaction trigger `head == 0 || head < len(order)/2` is an expression, not a named constant (the 128 in NewTTLMap is only an initial capacity), so it is tracked by the state dump in the differential instead.",
    "technique": "Lean 4 refinement proof (abstraction function + representation invariant, induction over histories) + model/implementation differential on answers and internal state",
}
TRUSTED = [
    "now + ttl does not overflow int64 (model uses unbounded Int)",
    "every public operation holds s.mu for its whole body (read from the source), so concurrent callers produce a sequential history; concurrency itself is not exercised",
    "Go map = association list with at most one pair per key; ActiveLen's delete-during-range is order independent (modelled as a filter)",
    "keys are non-negative ints and values int64 in the differential (the code is generic)",
]
RULE = ("histories over 1-4 keys (some over up to 40 keys to get long order slices and holes), ttl from -1..30, "
        "clock steps biased to 0, 1, ttl-1, ttl, ttl+1; a state dump every 1-6 operations and at the end; "
        "non-trivial = at least one answer; distinct by (case, output)")


def _history(rng, nkeys, n, ttl):
    ops = []
    ticks = [0, 1, 1, 2, max(ttl - 1, 0), max(ttl, 0), max(ttl, 0) + 1, max(ttl // 2, 0), 3 * max(ttl, 1)]
    since = 0
    style = rng.random()
    for _ in range(n):
        r = rng.random()
        k = rng.randrange(nkeys)
        if style < 0.25:      # write-once flavour: mostly fresh sets and gets
            if r < 0.45:
                ops.append(f"s{k}={rng.randint(-3, 99)}")
            elif r < 0.65:
                ops.append(f"g{k}")
            elif r < 0.90:
                ops.append(f"t{rng.choice(ticks)}")
            elif r < 0.95:
                ops.append(f"d{k}")
            else:
                ops.append("a")
        else:
            if r < 0.30:
                ops.append(f"s{k}={rng.randint(-3, 99)}")
            elif r < 0.50:
                ops.append(f"g{k}")
            elif r < 0.62:
                ops.append(f"d{k}")
            elif r < 0.64:
                ops.append("r")
            elif r < 0.70:
                ops.append("l")
            elif r < 0.76:
                ops.append("a")
            else:
                ops.append(f"t{rng.choice(ticks) if rng.random() < 0.85 else rng.randint(0, 40)}")
        since += 1
        if since >= rng.randint(1, 6):
            ops.append("D")
            since = 0
    ops += ["a", "l", "D"]
    return ops


def gen_cases(rng, tier):
    n_small, n_big = (260, 40) if tier == "quick" else (6000, 600)
    cases = [
        "10 0 s1=7 t9 g1 t1 g1 D",                       # exactly at expiry
        "10 5 s1=1 s2=2 t10 s3=3 D g1 g2 g3 a l",         # evict + compact
        "10 0 s1=1 s2=2 s3=3 t5 s1=9 t5 g1 g2 s4=4 D t5 g1 D s5=5 D",  # refreshed head holds back eviction
        "10 0 s1=1 s2=2 s3=3 s4=4 d2 t10 s5=5 D d3 s3=8 D",           # holes: slow path
        "0 0 s1=1 g1 D s2=2 D",                           # ttl 0: expires immediately
        "-5 100 s1=1 g1 s2=2 a l D",
        "5 0 r D s1=1 r D g1 s1=2 g1 D",
    ]
    for _ in range(n_small):
        ttl = rng.choice([1, 2, 3, 5, 5, 8, 10, 10, 20, 30, 0, -1])
        nk = rng.randint(1, 4)
        cases.append(f"{ttl} {rng.choice([0, 0, 1000, -50])} " + " ".join(_history(rng, nk, rng.randint(5, 60), ttl)))
    for _ in range(n_big):
        ttl = rng.choice([3, 5, 10, 20, 30])
        nk = rng.choice([6, 10, 20, 40])
        cases.append(f"{ttl} 0 " + " ".join(_history(rng, nk, rng.randint(80, 300 if tier == "quick" else 500), ttl)))
    return cases


def search_cases(rng, tier):
    cases = gen_cases(rng, "quick")
    for _ in range(1500):
        ttl = rng.choice([1, 2, 3, 5, 10])
        nk = rng.randint(1, 5)
        cases.append(f"{ttl} 0 " + " ".join(_history(rng, nk, rng.randint(4, 40), ttl)))
    return cases


def compare(case, impl, model):
    return None if impl == model else f"impl={impl[:300]!r} model={model[:300]!r}"


def is_trivial(case, impl):
    return impl in ("", "bad-case") or impl.startswith("panic") or impl.startswith("CRASH")


def tag(case, impl):
    f = case.split()
    n = len(f) - 2
    keys = {op[1:].split("=")[0] for op in f[2:] if op[0] in "sgd"}
    return f"keys{'<=4' if len(keys) <= 4 else '>4'}:ops{'<=70' if n <= 70 else '>70'}"


# ---- python mirror of Spec.C48 (used only when the Lean judge is unavailable) ----

def _py_judge(case, impl):
    f = case.split()
    try:
        ttl, now = int(f[0]), int(f[1])
    except (ValueError, IndexError):
        return None
    outs = impl.split()
    m = {}
    keys = []
    for op in f[2:]:
        if op[0] == "s":
            k = int(op[1:].split("=")[0])
            if k not in keys:
                keys.append(k)
    oi = 0

    def nxt():
        nonlocal oi
        if oi >= len(outs):
            return None
        oi += 1
        return outs[oi - 1]

    def live(k):
        return k in m and now < m[k][1]
    for n, op in enumerate(f[2:]):
        if op[0] == "s":
            k, v = op[1:].split("=")
            m[int(k)] = (int(v), now + ttl)
        elif op[0] == "g":
            k = int(op[1:])
            exp = str(m[k][0]) if live(k) else "-"
            a = nxt()
            if a != exp:
                return f"op#{n}: Get returned {a}, a map with per-key expiry returns {exp}"
        elif op[0] == "d":
            m.pop(int(op[1:]), None)
        elif op == "r":
            m = {}
        elif op[0] == "t":
            now += int(op[1:])
        elif op == "a":
            a = nxt()
            exp = sum(1 for k in keys if live(k))
            if a != str(exp):
                return f"op#{n}: ActiveLen returned {a}, live keys = {exp}"
        elif op == "l":
            a = nxt()
            if a is None or not a.isdigit() or int(a) < sum(1 for k in keys if live(k)):
                return f"op#{n}: Len {a} is smaller than the number of live keys"
        elif op == "D":
            a = nxt()
            try:
                its = a.split("|")[0]
                items = {} if its == "." else {int(x.split(":")[0]): (int(x.split(":")[2]), int(x.split(":")[3])) for x in its.split(",")}
            except (ValueError, IndexError, AttributeError):
                return f"op#{n}: unparsable dump {a}"
            for k, ve in items.items():
                if m.get(k) != ve:
                    return f"op#{n}: internal state holds an entry the spec map does not: {a}"
            for k in keys:
                if live(k) and k not in items:
                    return f"op#{n}: internal state loses a live entry: {a}"
    if oi != len(outs):
        return "more answers than answering ops"
    return None


def oracle(case, impl, judge):
    if impl.startswith("CRASH") or impl.startswith("panic"):
        return "implementation failed: " + impl
    if impl == "bad-case":
        return None
    if judge is not None:
        return None if judge.startswith("ok") else judge
    return _py_judge(case, impl)


def classify(case, impl, why):
    return None


def shrink(case):
    f = case.split()
    head, ops = f[:2], f[2:]
    # drop chunks, then single ops
    n = len(ops)
    for size in (n // 2, n // 4, 8, 4, 2, 1):
        if size < 1:
            continue
        for i in range(0, n, size):
            cand = ops[:i] + ops[i + size:]
            if cand and len(cand) < n:
                yield " ".join(head + cand)

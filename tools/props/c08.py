"""C08 — restart backoff and fault counting arithmetic (E5 go2lean for backoffDelay + E1 differential)."""
import os, re

ID = "C08"
LEAN_MODULES = ["GoaktVerif.Props.C08"]
THEOREMS = [
    "GoaktVerif.C08.backoff_refines",
    "GoaktVerif.C08.backoff_eq_spec",
    "GoaktVerif.C08.specDelayExec_eq",
    "GoaktVerif.C08.backoff_law",
    "GoaktVerif.C08.delay_bounds",
    "GoaktVerif.C08.delay_mono",
    "GoaktVerif.C08.delay_disabled",
    "GoaktVerif.C08.configure_configured",
    "GoaktVerif.C08.recordFault_spec",
    "GoaktVerif.C08.recordFault_no_window",
    "GoaktVerif.C08.recordFaults_within",
    "GoaktVerif.C08.C08_holds",
    "GoaktVerif.C08.C08_consequences",
]
GO2LEAN = {"targets": [
    {"kind": "func", "file": "actor/pid.go", "func": "backoffDelay", "lean": "backoffDelay"},
]}
INPKG = ["actor/zz_verif_c08.go"]
MANIFEST = {
    "level_text": "Kernel-checked theorems over ALL int64 triples (faults, initial, max): the Int64 definition of backoffDelay regenerated from actor/pid.go on every run equals the Int model (backoff_refines), which equals min(initial*2^(n-1), max) on every triple (backoff_law, C08_holds); 0 <= delay <= max, monotone in the fault count and zero when disabled hold with no exception (delay_bounds, delay_mono, delay_disabled); WithExponentialBackoff only ever stores (0,0) or 0 < initial <= max (configure_configured); recordFault follows the window rule for every clock reading and every history (recordFault_spec, recordFaults_within).",
    "level_note": "backoffDelay is tied for all inputs by go2lean regeneration plus a differential through an in-package accessor. recordFault and WithExponentialBackoff are hand models tied by the differential only; recordFault reads the wall clock, so the harness presets lastFaultAtNano relative to the clock with wide margins: the exact boundary now-last == window is NOT exercised on the real code (a normalised-source comparison of recordFault's body flags any edit of it instead). Counter/int64 wrap of consecutiveFaults (2^63 faults) and a negative wall clock are outside the model. handleRestartDirective's choice of window and the restart budget are not part of this check.",
    "technique": "Lean 4 proof over a model regenerated from the Go source by a translator (all int64 inputs), plus model/implementation differential and spec oracle",
}
TRUSTED = [
    "tools/go2lean translation of backoffDelay (Go shift semantics via GoSem.shlInt64/shrInt64); spot-checked by the differential on boundary-biased triples",
    "recordFault: hand model; `now` is an input of the model; the differential drives the real function with lastFaultAtNano preset at least 60 s past / 1 h short of the window, so the boundary now-last == window is covered only by the source-text comparison",
    "WithExponentialBackoff: hand model (configure), tied by the differential on NewSupervisor(...).InitialDelay/MaxDelay/BackoffResetAfter",
    "atomic.Int64 Load/Store/Inc behave as a sequential cell (single caller: the parent's handler)",
]
RULE = ("bo/seq/cfgbo: fault counts around 0, 1, 61..66 and random int64, initial/max from powers of two +-1, typical durations, "
        "values near 2^62/2^63 and non-positive values; cfg: option arguments incl. max<initial and resetAfter<=0; rf: windows "
        "<=0/1ns/seconds/hours, ages far on either side of the window; non-trivial = a delay/count was returned; distinct by (case, output)")

REPO = os.environ.get("VERIF_REPO", "/repo")
I64MAX = 2**63 - 1
I64MIN = -2**63
SEC = 10**9


# ---------------------------------------------------------------------------
# python mirror of Spec.C08 (used when the Lean judge is unavailable, i.e. in search mode, and by classify)
# ---------------------------------------------------------------------------

def spec_delay(n, i, m):
    if i <= 0 or n < 1:
        return 0
    return min(i * 2 ** (n - 1), m) if n - 1 < 200 else m


def corner(n, i, m):
    return n == 63 and i == 1 and m > 2**62


def _cfg(i, m, r):
    if i <= 0:
        return (0, 0, 0)
    m2 = i if m < i else m
    return (i, m2, m2 if r <= 0 else r)


def _delay_failures(i, m, ns, outs):
    """list of (n, out, why) where the implementation leaves the property, for configurable (i, m)"""
    bad = []
    if i > 0 and m < i:
        return bad  # not a configurable pair: nothing is claimed
    prev = None
    for n, o in zip(ns, outs):
        want = spec_delay(n, i, m)
        if i <= 0:
            if o != 0:
                bad.append((n, o, "delay not zero although backoff is disabled"))
            continue
        if o < 0 or o > m:
            bad.append((n, o, "delay outside [0, max]"))
        elif prev is not None and o < prev:
            bad.append((n, o, "delay decreases as faults accumulate"))
        elif o != want:
            bad.append((n, o, f"delay {o} is not min(initial*2^(n-1), max) = {want}"))
        prev = o
    return bad


def _parse(case, impl):
    """-> (kind, i, m, ns, outs) for delay cases, or None"""
    f = case.split()
    try:
        if f[0] == "bo":
            n, i, m = map(int, f[1:4])
            return ("bo", i, m, [n], [int(impl)])
        if f[0] == "seq":
            i, m, n0, k = map(int, f[1:5])
            outs = [int(x) for x in impl.split()]
            if len(outs) != k:
                return None
            return ("seq", i, m, list(range(n0, n0 + k)), outs)
        if f[0] == "cfgbo":
            i, m, r, n = map(int, f[1:5])
            ci, cm, _ = _cfg(i, m, r)
            return ("cfgbo", ci, cm, [n], [int(impl)])
    except (ValueError, IndexError):
        return None
    return None


T0 = 10**18


def _rf_ok(case, impl):
    f = case.split()
    w, c = int(f[1]), int(f[2])
    toks = impl.split()
    if not toks or toks[-1] != "fresh":
        return "lastFaultAtNano not refreshed"
    try:
        outs = [int(x) for x in toks[:-1]]
    except ValueError:
        return "unparsable " + impl
    if len(outs) != len(f) - 3:
        return "wrong number of results"
    prev = c
    for a, o in zip(f[3:], outs):
        last = 0 if a == "z" else (-5 if a == "neg" else T0 - int(a))
        want = 1 if (w > 0 and last > 0 and T0 - last > w) else prev + 1
        if o != want:
            return "fault counter does not follow the window rule"
        prev = o
    return None


def oracle(case, impl, judge):
    if impl is None:
        return None
    if impl.startswith("CRASH") or impl.startswith("panic"):
        return "harness crashed: " + impl
    if judge is not None and not judge.startswith("CRASH"):
        return None if judge.startswith("ok") else judge
    op = case.split()[0]
    if op in ("bo", "seq", "cfgbo"):
        p = _parse(case, impl)
        if p is None:
            return "unparsable " + impl
        bad = _delay_failures(p[1], p[2], p[3], p[4])
        return None if not bad else f"bad {bad[0][2]} (n={bad[0][0]})"
    if op == "cfg":
        try:
            i2, m2, r2 = map(int, impl.split())
        except ValueError:
            return "unparsable " + impl
        if (i2 == 0 and m2 == 0) or (0 < i2 <= m2 and r2 > 0):
            return None
        return "supervisor holds a pair outside {(0,0)} U {0 < initial <= max}"
    if op == "rf":
        return _rf_ok(case, impl)
    return None


def classify(case, impl, why):
    """C08-F1: every deviation in the case is the early-cap corner: n = 63, initial = 1ns, max > 2^62 ns,
    and the implementation returned max there (within bounds, monotone, just not 2^62)."""
    p = _parse(case, impl or "")
    if p is None:
        return None
    _, i, m, ns, outs = p
    bad = _delay_failures(i, m, ns, outs)
    if bad and all(corner(n, i, m) and o == m and "is not min" in w for n, o, w in bad):
        return "C08-F1"
    return None


def compare(case, impl, model):
    return None if impl == model else f"impl={impl!r} model={model!r}"


def is_trivial(case, impl):
    return impl in ("", "bad-case", "src") or impl.startswith("CRASH") or impl.startswith("panic")


def tag(case, impl):
    f = case.split()
    op = f[0]
    try:
        if op == "bo":
            n, i, m = map(int, f[1:4])
            if i <= 0:
                return "bo:disabled"
            if n < 1:
                return "bo:nofault"
            if n >= 63:
                return "bo:cap62"
            if m < i:
                return "bo:max<initial"
            return "bo:saturated" if i * 2 ** (n - 1) > m else "bo:exact"
        if op == "rf":
            return "rf:w<=0" if int(f[1]) <= 0 else "rf:w>0"
    except (ValueError, IndexError):
        pass
    return op


def shrink(case):
    f = case.split()
    try:
        if f[0] == "seq":
            i, m, n0, k = map(int, f[1:5])
            for n in range(n0, n0 + k):
                yield f"bo {n} {i} {m}"
        elif f[0] == "cfgbo":
            i, m, r, n = map(int, f[1:5])
            ci, cm, _ = _cfg(i, m, r)
            yield f"bo {n} {ci} {cm}"
    except (ValueError, IndexError):
        return


# ---------------------------------------------------------------------------
# generators
# ---------------------------------------------------------------------------

DUR = [1, 2, 3, 1000, 10**6, 10 * 10**6, 100 * 10**6, SEC, 5 * SEC, 30 * SEC, 60 * SEC, 3600 * SEC, 86400 * SEC]


def _pow2ish(rng):
    k = rng.randrange(0, 64)
    v = 2**k + rng.choice([-1, 0, 0, 1])
    return max(I64MIN, min(I64MAX, v))


def _dur(rng):
    r = rng.random()
    if r < 0.35:
        return rng.choice(DUR)
    if r < 0.75:
        return _pow2ish(rng)
    if r < 0.85:
        return rng.choice([I64MAX, I64MAX - 1, 2**62, 2**62 + 1, 2**62 - 1, 2**61])
    if r < 0.93:
        return rng.choice([0, -1, -SEC, I64MIN, I64MIN + 1])
    return rng.randrange(1, I64MAX)


def _faults(rng):
    r = rng.random()
    if r < 0.5:
        return rng.randrange(1, 67)
    if r < 0.7:
        return rng.choice([61, 62, 63, 64, 65, 66, 127, 128])
    if r < 0.8:
        return rng.choice([0, -1, I64MIN, -62, -63])
    if r < 0.9:
        return rng.choice([I64MAX, I64MAX - 1, 2**32, 2**31, 2**62])
    return rng.randrange(1, 200)


def _pair(rng):
    """mostly configurable pairs 0 < i <= m"""
    i, m = _dur(rng), _dur(rng)
    if rng.random() < 0.8 and i > 0 and m > 0 and m < i:
        i, m = m, i
    return i, m


def recordfault_src():
    try:
        txt = open(os.path.join(REPO, "actor", "pid.go")).read()
    except OSError:
        return "<unreadable>"
    m = re.search(r"func \(pid \*PID\) recordFault\(window time\.Duration\) int64 \{\n(.*?)\n\}\n", txt, flags=re.S)
    if not m:
        return "<not-found>"
    body = re.sub(r"//[^\n]*", "", m.group(1))
    return " ".join(body.split())


FIXED_CASES = [
    # the witness of the wrap defect fixed by d8b10a3 and its neighbours
    "bo 30 1099511627777 2199023255552", "bo 31 1099511627777 2199023255552", "bo 29 1099511627777 2199023255552",
    "seq 1099511627777 2199023255552 1 66",
    "seq 100000000 30000000000 -2 70", "seq 1 9223372036854775807 58 10", "seq 1 4611686018427387904 58 10",
    "seq 2 9223372036854775807 58 10", "seq 3 9223372036854775807 1 70", "seq 0 0 -1 5", "seq -5 100 1 5",
    "bo 62 1 4611686018427387903", "bo 62 1 2305843009213693952", "bo 62 2 9223372036854775807", "bo 63 2 9223372036854775807",
    "bo 63 1 4611686018427387904", "bo 64 1 9223372036854775807", "bo 9223372036854775807 1 5", "bo -9223372036854775808 1 5",
    "bo 1 9223372036854775807 9223372036854775807", "bo 2 4611686018427387904 9223372036854775807", "bo 2 4611686018427387903 9223372036854775807",
    "cfg 0 5 5", "cfg -1 5 5", "cfg 10 5 0", "cfg 10 50 0", "cfg 10 50 -3", "cfg 10 50 7", "cfg 1 9223372036854775807 0",
    "cfgbo 100000000 30000000000 0 4", "cfgbo 10 5 0 3", "cfgbo 0 5 0 3",
]


def _rf_case(rng):
    w = rng.choice([0, -1, -SEC, 1, 1000, SEC, 10 * SEC, 30 * SEC, 3600 * SEC, 86400 * SEC])
    c = rng.choice([0, 0, 1, 2, 5, 41, 1000])
    ages = []
    for _ in range(rng.randint(1, 6)):
        r = rng.random()
        if r < 0.1:
            ages.append("z")
        elif r < 0.15:
            ages.append("neg")
        elif r < 0.55:
            ages.append(str(max(w, 0) + rng.choice([60, 61, 3600, 86400, 10**6]) * SEC))   # older than the window
        else:
            ages.append(str(max(w, 0) - rng.choice([3600, 3601, 7200, 86400]) * SEC))     # well inside (possibly a future stamp)
    return f"rf {w} {c} " + " ".join(ages)


def gen_cases(rng, tier):
    nbo, nseq, ncfg, nrf = (400, 120, 80, 60) if tier == "quick" else (20000, 4000, 2000, 1500)
    cases = list(FIXED_CASES)
    cases.append("rfsrc " + recordfault_src())
    for _ in range(nbo):
        i, m = _pair(rng)
        cases.append(f"bo {_faults(rng)} {i} {m}")
    for _ in range(nseq):
        i, m = _pair(rng)
        n0 = rng.choice([-1, 0, 1, 1, 1, 20, 40, 55, 60])
        cases.append(f"seq {i} {m} {n0} {rng.choice([8, 12, 70])}")
    for _ in range(ncfg):
        i, m, r = _dur(rng), _dur(rng), rng.choice([0, -1, 1, SEC, 60 * SEC, _dur(rng)])
        cases.append(f"cfg {i} {m} {r}")
        cases.append(f"cfgbo {i} {m} {r} {_faults(rng)}")
    for _ in range(nrf):
        cases.append(_rf_case(rng))
    return cases


def search_cases(rng, tier):
    """boundary enumeration: every (2^a + da, 2^b + db) pair with all fault counts 1..66, then the thorough generator"""
    cases = []
    for a in range(0, 63):
        for b in range(a, 64):
            for da in (-1, 0, 1):
                for db in (-1, 0, 1):
                    i, m = 2**a + da, min(2**b + db, I64MAX)
                    if 0 < i <= m:
                        cases.append(f"seq {i} {m} 1 66")
    for d in DUR:
        for e in DUR + [I64MAX, 2**62]:
            if d <= e:
                cases.append(f"seq {d} {e} 1 66")
    return cases + gen_cases(rng, "thorough")

"""C41 — deleted CRDT keys stay deleted until their tombstone expires (actor/replicator.go).

Tie: real replicatorActor instances (2..3 in one actor system) are driven one message at a time by
scripts; the unexported state is dumped after every message and compared with the Lean model
(Model/C41.lean instantiated with a G-counter) run on the same script.  The oracle is
Spec.C41.stepOK evaluated on the implementation's dumps (Lean judge; python mirror below)."""
import re

ID = "C41"
LEAN_MODULES = ["GoaktVerif.Props.C41"]
THEOREMS = [
    "GoaktVerif.C41.step_inv",
    "GoaktVerif.C41.step_keeps",
    "GoaktVerif.C41.prune_expires",
    "GoaktVerif.C41.read_none",
    "GoaktVerif.C41.rejects",
    "GoaktVerif.C41.step_ok",
    "GoaktVerif.C41.step_records",
    "GoaktVerif.C41.handleGet_tombed",
    "GoaktVerif.C41.reach_inv",
    "GoaktVerif.C41.C41_holds",
]
INPKG = ["actor/zz_verif_c41.go"]
TIMEOUT = 900
MANIFEST = {
    "level_text": "Kernel-checked theorems over an executable model of the replicator's message handlers (abstract CRDT values, any Modify closure, clock and peers' answers as inputs): for EVERY sequence of update/delete/delta/tombstone/full-state/digest/batch/read-request/prune/local and coordinated Get messages, a tombstoned key is absent from the store (reach_inv, step_inv), reads of it answer nothing — coordinated reads included, whatever the peers answer (read_none, handleGet_tombed) —, updates/deltas/full-state entries for it are rejected (rejects), the tombstone disappears only by a prune tick with now-deletedAt > ttl (step_keeps, prune_expires), and every delivered tombstone (local delete, peer tombstone, batch) is recorded whether or not the replica ever saw the key (step_records); C41_holds is the full statement. The model is tied to the code by driving real replicator actors message by message and comparing full state dumps.",
    "level_note": "Full statement proved for the current code (after fix eb69dd7; seeded/C41-revert-fix shows the check catching the original defect). Trusted: harness (in-memory network: collector actor as topic actor, fake cluster view and remoting that Ask the peer replicators), the tombstone-ageing accessor standing for the wall clock (time.Now() cannot be injected; ageing every deletedAt by d is equivalent to advancing the clock by d for handlePrune's comparison), G-counter as the only CRDT type in the scripts. Not modelled: watchers/notifications, metrics, snapshot restore (tombstones are not persisted: a restarted replicator forgets them), write coordination's extra direct sends, undecodable keys.",
    "technique": "Lean 4 inductive invariant over all message sequences of an executable state-machine model + per-message differential against real replicator actors (E4/E2)",
}
TRUSTED = [
    "harness/verifdrv/c41: in-memory network around real replicator actors (collector actor as topic actor; fake cluster.Cluster/remoteclient.Client routing coordinated reads to the peer replicators)",
    "VerifReplAge (in-package accessor) stands for the wall clock: ageing all tombstones by d == advancing time.Now() by d in handlePrune's `now.Sub(deletedAt) > ttl`; one unit = 1 h, ttl = T h + 30 min so milliseconds of real time cannot flip the comparison",
    "scripts use G-counter values only; the theorems are over arbitrary value types and operations",
]
RULE = ("scripts over 2-3 real replicators, 3 keys, 4-40 ops drawn from update/get/coordinated get/delete/deliver logged "
        "delta|tombstone|full state (any order, duplicates)/forged tombstone/anti-entropy digest/clock advance/prune/read request/"
        "cross-DC batch, plus fixed tombstone scenarios; non-trivial = at least one op produced a dump; distinct by (case, output)")

KEYS = ["k0", "k1", "k2"]


def scenarios():
    out = []
    for probe in ["u:0:k0:1", "s:0:0", "s:0:1", "b:0:0", "b:0:0,3", "g:0:k0", "q:0:k0", "p:0", "s:0:3", "t:0:k0:0:1", "a:1:0", "s:0:2", "G:0:k0"]:
        # r1 writes k0 (log 0 = delta), r1's full state is logged (log 1), r0 writes k0 (log 2) and deletes it
        # (log 3 = tombstone); then the probe; then reads, a fresh anti-entropy round (log 4) and reads again
        out.append(f"n=2 ttl=3 u:1:k0:2 a:0:1 u:0:k0:1 d:0:k0 {probe} g:0:k0 q:0:k0 a:0:1 s:0:4 g:0:k0 a:1:0")
    # tombstone received from the peer, then stale messages
    out.append("n=3 ttl=2 u:1:k1:2 s:0:0 s:2:0 u:2:k1:5 d:1:k1 s:0:2 s:0:0 s:0:1 g:0:k1 u:0:k1:7 g:0:k1 s:2:1 s:2:2 g:2:k1")
    # the tombstone reaches a replica BEFORE any update / delta for the key (it overtakes the create delta, or the
    # replica missed it): it must be recorded all the same, and shadow the late delta / full state / local update
    out.append("n=2 ttl=3 u:0:k0:7 d:0:k0 s:1:1 g:1:k0 s:1:0 g:1:k0 u:1:k0:1 g:1:k0 a:1:0 g:1:k0")
    out.append("n=3 ttl=3 u:0:k1:7 s:1:0 d:0:k1 s:2:1 s:2:0 g:2:k1 a:2:1 s:2:2 g:2:k1 u:2:k1:1 g:2:k1 b:2:0 g:2:k1")
    out.append("n=3 ttl=2 u:0:k0:3 u:0:k2:4 d:0:k0 d:0:k2 b:1:2,3,0,1 g:1:k0 g:1:k2 s:1:0 s:1:1 g:1:k0 g:1:k2 t:2:k1:0:9 u:2:k1:5 g:2:k1")
    # expiry: not yet, then yes, then the key can come back
    out.append("n=2 ttl=2 u:0:k0:1 d:0:k0 w:2 p:0 u:0:k0:1 g:0:k0 w:1 p:0 g:0:k0 u:0:k0:4 g:0:k0")
    out.append("n=2 ttl=0 u:0:k0:1 d:0:k0 p:0 g:0:k0 w:1 p:0 u:0:k0:2 g:0:k0")
    # future-dated and re-delivered older tombstones
    out.append("n=2 ttl=1 u:0:k2:1 t:0:k2:-3:9 w:2 p:0 g:0:k2 u:0:k2:1 w:3 p:0 u:0:k2:1 g:0:k2")
    out.append("n=2 ttl=5 u:0:k0:1 d:0:k0 w:3 t:0:k0:9:1 p:0 u:0:k0:3 g:0:k0 t:0:k0:1:0 g:0:k0")
    return out


def rand_case(rng, nops, pG):
    n = rng.choice([2, 2, 3])
    ttl = rng.choice([0, 1, 2, 3, 24])
    ops = []
    logn = 0
    for _ in range(nops):
        r = rng.randrange(n)
        k = rng.choice(KEYS[:rng.choice([1, 2, 3])])
        x = rng.random()
        if x < 0.22:
            ops.append(f"u:{r}:{k}:{rng.randint(0, 4)}"); logn += 1
        elif x < 0.34:
            ops.append(f"g:{r}:{k}")
        elif x < 0.34 + pG:
            ops.append(f"G:{r}:{k}")
        elif x < 0.50:
            ops.append(f"d:{r}:{k}"); logn += 1
        elif x < 0.72:
            ops.append(f"s:{r}:{rng.randrange(0, logn + 2)}")
        elif x < 0.76:
            ops.append(f"t:{r}:{k}:{rng.randint(-2, 4)}:{rng.choice([0, 1, 2, 9])}")
        elif x < 0.83:
            q = rng.randrange(n)
            ops.append(f"a:{r}:{q}"); logn += 1
        elif x < 0.89:
            ops.append(f"w:{rng.randint(1, 3)}")
        elif x < 0.94:
            ops.append(f"p:{r}")
        elif x < 0.97:
            ops.append(f"q:{r}:{k}")
        else:
            ops.append(f"b:{r}:" + ",".join(str(rng.randrange(0, logn + 2)) for _ in range(rng.randint(1, 3))))
    return f"n={n} ttl={ttl} " + " ".join(ops)


def gen_cases(rng, tier):
    cases = scenarios()
    nrand = 220 if tier == "quick" else 6000
    for i in range(nrand):
        pG = 0.06 if i % 3 == 0 else 0.0
        cases.append(rand_case(rng, rng.randint(4, 40), pG))
    return cases


def search_cases(rng, tier):
    cases = scenarios()
    for i in range(1500 if tier == "quick" else 8000):
        cases.append(rand_case(rng, rng.randint(4, 30), 0.08 if i % 2 else 0.0))
    return cases


def compare(case, impl, model):
    return None if impl == model else f"impl={impl[:300]!r} model={model[:300]!r}"


def is_trivial(case, impl):
    return impl in ("", "bad-case") or impl.startswith("CRASH") or "@" not in impl


def tag(case, impl):
    f = case.split()
    kinds = sorted({t.split(":")[0] for t in f[2:]})
    return f[0] + " del=" + ("y" if "d" in kinds or "t" in kinds else "n") + " prune=" + ("y" if "p" in kinds else "n") + " coordget=" + ("y" if "G" in kinds else "n")


# ---- python mirror of Spec.C41.stepOK / Driver.C41.judgeOps (used when the Lean judge is unavailable) ----

def _view(d):
    m = re.search(r"S\[(.*?)\]T\[(.*?)\]V\[", d)
    if not m:
        return None
    stored = [e.split("=")[0] for e in m.group(1).split(";") if e]
    tombs = []
    for e in m.group(2).split(";"):
        if e:
            k, rest = e.split("=")
            tombs.append((k, int(rest.split("/")[0])))
    return stored, tombs


def _markers(res):
    out = []
    for m in res.split("+")[1:]:
        if m.startswith("T("):
            body = m[2:]
            try:
                out.append((body.split("/")[0], int(body.split(",")[-1].split(")")[0])))
            except ValueError:
                out.append(None)
        else:
            out.append(None)
    return out


def _delivered(p, r, log):
    def from_log(i):
        try:
            e = log[int(i)] if int(i) >= 0 else None
        except (ValueError, IndexError):
            return []
        return [e[0]] if e and e[1] != r else []
    if p[0] == "d" and len(p) == 3:
        return [p[2]]
    if p[0] == "t" and len(p) == 5:
        return [] if p[4] == str(r) else [p[2]]
    if p[0] == "s" and len(p) == 3:
        return from_log(p[2])
    if p[0] == "b" and len(p) == 3:
        return [k for i in p[2].split(",") for k in from_log(i)]
    return []


def py_judge(case, impl):
    f = case.split()
    if len(f) < 2 or not f[0].startswith("n=") or not f[1].startswith("ttl="):
        return "ok"
    n, ttl = int(f[0][2:]), int(f[1][4:])
    toks, outs = f[2:], impl.split()
    if len(toks) != len(outs):
        return f"bad op={min(len(toks), len(outs))} tok=- clause=parse wrong number of results"
    views = [([], []) for _ in range(n)]
    now = 100
    log = []
    for idx, (tok, out) in enumerate(zip(toks, outs)):
        p = tok.split(":")
        if p[0] == "w":
            try:
                now += int(p[1])
            except (ValueError, IndexError):
                pass
            continue
        if out == "bad-op":
            continue
        try:
            who = int(p[2] if p[0] == "a" else p[1])
            res, d = out.split("@")
            after = _view(d)
            before = views[who]
        except (ValueError, IndexError):
            return f"bad op={idx} tok={tok} clause=parse"
        if after is None:
            return f"bad op={idx} tok={tok} clause=parse"
        if any(k in after[0] for k, _ in after[1]):
            return f"bad op={idx} tok={tok} clause=absent"
        if p[0] in ("g", "G", "q") and any(k == p[2] for k, _ in before[1]) and res != "nil":
            return f"bad op={idx} tok={tok} clause=read"
        for k, at in before[1]:
            if not any(k2 == k for k2, _ in after[1]) and not (p[0] == "p" and now - at > ttl):
                return f"bad op={idx} tok={tok} clause=keep"
        for k in _delivered(p, who, log):
            if not any(k2 == k for k2, _ in after[1]):
                return f"bad op={idx} tok={tok} clause=record"
        views[who] = after
        log += _markers(res)
    return "ok"


def oracle(case, impl, judge):
    if impl.startswith("CRASH") or impl.startswith("panic"):
        return "harness failed: " + impl[:200]
    j = judge if judge is not None else py_judge(case, impl)
    return None if j.startswith("ok") else j


def classify(case, impl, why):
    return None  # no open finding (C41-F1 fixed by eb69dd7)


def shrink(case):
    f = case.split()
    head, ops = f[:2], f[2:]
    for i in range(len(ops)):
        yield " ".join(head + ops[:i] + ops[i + 1:])

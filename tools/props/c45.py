"""C45 — linear stream pipelines compute exactly their list semantics (E1 end-to-end + per-stage message replay)."""
import re

ID = "C45"
LEAN_MODULES = ["GoaktVerif.Props.C45"]
THEOREMS = [
    "GoaktVerif.C45.xfRun_eq_stageSem",
    "GoaktVerif.C45.FlowInv.step",
    "GoaktVerif.C45.FlowInv.prefix",
    "GoaktVerif.C45.noStall_step",
    "GoaktVerif.C45.SinkInv.step_down",
    "GoaktVerif.C45.sink_hooks_le_one",
    "GoaktVerif.C45.FlowInv.specM",
    "GoaktVerif.C45.FusedInv.step_down",
    "GoaktVerif.C45.FusedInv.specM",
    "GoaktVerif.C45.SrcInv.step_req",
    "GoaktVerif.C45.chunks_full",
    "GoaktVerif.C45.chunks_short",
    "GoaktVerif.C45.batchFlush_spec",
    "GoaktVerif.C45.BatchInv.step_req",
    "GoaktVerif.C45.BatchInv.step_down",
    "GoaktVerif.C45.BatchInv.specM",
    "GoaktVerif.C45.SpecM.extend",
    "GoaktVerif.C45.Approx.step",
    "GoaktVerif.C45.deliver_effect",
    "GoaktVerif.C45.GInv.of_frame",
    "GoaktVerif.C45.GInv.step_up",
    "GoaktVerif.C45.GInv.step_down",
    "GoaktVerif.C45.GInv.run",
    "GoaktVerif.C45.GInv.sink_ok",
    "GoaktVerif.C45.GInv.raw",
    "GoaktVerif.C45.wireAll_inv",
    "GoaktVerif.C45.idealAt_eq_semF",
    "GoaktVerif.C45.semF_eq_sem",
    "GoaktVerif.C45.run_inv",
    "GoaktVerif.C45.witness_regression",
    "GoaktVerif.C45.C45_partial",
    "GoaktVerif.C45.fusedRun_cons",
    "GoaktVerif.C45.fusedSem",
    "GoaktVerif.C45.fuseRuns_eq",
    "GoaktVerif.C45.semF_groups",
    "GoaktVerif.C45.C45_partial_fused",
    "GoaktVerif.C45.C45_partial_all",
    "GoaktVerif.C45.flushOrd_spec",
    "GoaktVerif.C45.parRun_err",
    "GoaktVerif.C45.PInv.step_down",
    "GoaktVerif.C45.PInv.step_result",
    "GoaktVerif.C45.PInv.specM",
    "GoaktVerif.C45.GInv.step_result",
    "GoaktVerif.C45.parRun_eq_stageSem",
    "GoaktVerif.C45.stageSem_homog",
    "GoaktVerif.C45.C45_gen",
    "GoaktVerif.C45.C45_holds",
    "GoaktVerif.C45.PInvU.step_down",
    "GoaktVerif.C45.PInvU.step_result",
    "GoaktVerif.C45.PInvU.specU",
    "GoaktVerif.C45.Approx.stepU",
    "GoaktVerif.C45.GInv.sink_okU",
    "GoaktVerif.C45.C45_unordered_holds",
    "GoaktVerif.C45.C45_full_refuted_untyped",
]
INPKG = ["stream/zz_verif_c45.go"]
TIMEOUT = 900
MANIFEST = {
    "level_text": "C45_unordered_holds: for EVERY pipeline `pre ++ [ParallelMap]` (pre any ordered stages, OrderedParallelMap included), both fusion modes, every one-typed input, workers replying in ANY order and EVERY schedule: at every moment the sink holds a sub-multiset of the results of the non-failing elements, normal completion means a PERMUTATION of the list semantics `sem` with no failing stage, a failure carries an error `sem` lists, the hook runs exactly once (per-actor invariant PInvU: emitted results + results in flight are a permutation of the inputs taken; content spec SpecU; Approx.stepU; GInv.sink_okU). C45_holds: for EVERY pipeline without the unordered ParallelMap (OrderedParallelMap included: resequencing invariant `every seqNo is exactly one of emitted / in the heap / with a worker`, workers replying in any order), both fusion modes, every input whose elements have one type (what the typed Go API can feed) and EVERY schedule, the sink statement below holds. Kernel-checked composition theorem on an actor-level model of a materialized pipeline (pull source, flowActor, fusedFlowActor, batchFlowActor, parallelMapActor, sinkActor as state machines; FIFO links; every scheduler choice - which actor handles which pending message next - explicit): C45_partial_all (= C45_partial for FuseNone + C45_partial_fused for the default fusion): for EVERY pipeline over Map, TryMap, Filter, FlatMap, Flatten, Scan, Deduplicate, Buffer and Batch (the actor as fixed by 688097a: exact batches of max(n,1), nothing dropped whatever the demand), every input and EVERY schedule of any length, at every moment the sink's record is a prefix of the list semantics `sem`, the completion hook runs at most once (exactly once when the sink has stopped, duplicate streamComplete included), normal completion means exactly `sem` with no failing stage, and a failure carries an error some stage raises on this input. With fusion on, runs of fusable stages are one fusedFlowActor composing them element by element; fusedRun_cons/fusedSem/semF_groups prove that this delivers the same elements as the stage-by-stage list semantics and fails iff, and with an error that, some stage of the run raises. Built from per-actor invariants preserved by every message (FlowInv.step, FusedInv.step_down, BatchInv.step_req/step_down via batchFlush_spec and the chunk lemmas, SrcInv.step_req, SinkInv.step_down), a network invariant preserved by every scheduler step (GInv.step_up/step_down/run, any demand pattern) and the closure-vs-list-function lemma xfRun_eq_stageSem; plus noStall_step (no-stall invariant) and sink_hooks_le_one.",
    "level_note": "Partial: the statement over the untyped model's ill-typed inputs is refuted (C45_full_refuted_untyped: an OrderedParallelMap with a failing int in flight receives a list element and stops with the type error) - not reachable through the typed API, hence C45_holds assumes homogeneous input; C45_partial_all needs no assumption for pipelines without parallel stages; the unordered ParallelMap theorem covers it as the LAST stage (as a middle stage the downstream stages see a schedule-dependent order; there the multiset comparison is by the differential only); liveness (the stream eventually completes) is not proved, only the local no-stall invariant; Batch maxWait timer flushes are compared as concatenation; unordered ParallelMap is compared as a multiset; the model assumes every stage handles its stageWire first (guaranteed end-to-end since fix cf400b2: demand starts at the sink, which is wired last). Trusted: Lean kernel; the differential (per-actor message replay of the real actors between probe actors, end-to-end runs of the real stream, slow-consumer variant included, against the list semantics).",
    "technique": "Lean 4 proof (inductive invariants over every message order) on a hand-written actor model, tied to the Go code by deterministic per-actor message replay and an end-to-end differential against the list semantics",
}
TRUSTED = [
    "rctx.Shutdown() is synchronous: a stage actor handles no message after the one in which it shut down (checked by the per-actor replay: later messages are answered `dead`)",
    "actor mailboxes are FIFO per sender (the model lets the scheduler interleave the two senders of a stage arbitrarily)",
    "a Tell to a stopped actor enqueues nothing (actor.Tell returns ErrDead)",
    "every stage handles its stageWire before any other message (end to end this holds since fix cf400b2: stages pull only after the first demand, which originates at the sink, wired last)",
]
RULE = ("pl: typed pipelines of depth 0..4 (quick) / 0..6 (thorough) over the 12-entry stage table, inputs of 0..200 ints with repeats, "
        "at most one failing stage per pipeline, fusion on/off; st: one real stage actor driven message by message with random demand patterns and small "
        "InitialDemand/RefillThreshold; non-trivial = the sink/stage emitted at least one element or a terminal; distinct by (case, output)")

# ------------------------------------------------------------------------------------------------
# python mirror of Spec.C45.sem (used by the generator to keep cases inside the deterministic
# region, and by the oracle when the Lean judge is unavailable)
# ------------------------------------------------------------------------------------------------

def emod(x, m):
    return x % m  # python % is already Euclidean for m > 0


def stage_sem(spec, idx, vals):
    """vals: list of int | tuple (lists as tuples). returns (outs, err|None)"""
    f = spec.split(":")
    k = f[0]
    out = []
    if k in ("flat", "sum", "lbuf"):
        for v in vals:
            if not isinstance(v, tuple):
                return out, "type"
            if k == "flat":
                out.extend(v)
            elif k == "sum":
                out.append(sum(v))
            else:
                out.append(v)
        return out, None
    if k == "buf":
        return list(vals), None
    acc, last, has = 0, None, False
    win = []
    for v in vals:
        if isinstance(v, tuple):
            return out, "type"
        if k == "map":
            out.append(v + int(f[1]))
        elif k == "try":
            if v == int(f[2]):
                return out, f"E{idx}"
            out.append(v + int(f[1]))
        elif k == "fil":
            if emod(v, int(f[1])) != int(f[2]):
                out.append(v)
        elif k == "fm":
            out.extend([v] * emod(v, int(f[1])))
        elif k == "scan":
            acc += v
            out.append(acc)
        elif k == "dd":
            if not (has and last == v):
                out.append(v)
            last, has = v, True
        elif k == "bat":
            win.append(v)
            if len(win) >= int(f[1]):
                out.append(tuple(win))
                win = []
        elif k in ("opm", "pm"):
            if len(f) > 3 and v == int(f[3]):
                return out, f"P{idx}"
            out.append(v + int(f[2]))
        else:
            raise ValueError(spec)
    if k == "bat" and win:
        out.append(tuple(win))
    return out, None


def sem(stages, vals):
    errs = []
    cur = list(vals)
    sizes = []
    for i, s in enumerate(stages):
        cur, e = stage_sem(s, i, cur)
        sizes.append(len(cur))
        if e:
            errs.append(e)
    return cur, errs, sizes


def fmt(v):
    return "[" + ",".join(map(str, v)) + "]" if isinstance(v, tuple) else str(v)


def parse_elems(s):
    out = []
    for t in s.split():
        if t.startswith("["):
            body = t[1:-1]
            out.append(tuple(int(x) for x in body.split(",")) if body else tuple())
        else:
            out.append(int(t))
    return out


def split_case(case):
    f = case.split()
    stages = [] if f[3] == "-" else f[3].split(";")
    vals = [] if f[4] == "-" else [int(x) for x in f[4].split(",")]
    return f[1], f[2], stages, vals


FUSABLE = ("map", "try", "fil")


def gen_values(rng, n):
    mode = rng.random()
    if mode < 0.3:
        return [rng.randint(-5, 12) for _ in range(n)]
    if mode < 0.6:
        # runs of repeats (Deduplicate) and slowly changing values
        out, v = [], rng.randint(-3, 9)
        for _ in range(n):
            if rng.random() < 0.5:
                v = rng.randint(-3, 9)
            out.append(v)
        return out
    return [rng.randint(-50, 200) for _ in range(n)]


def gen_pipeline(rng, depth, fusion, vals):
    """typed random pipeline; returns stage list (strings) or None if a constraint fails"""
    stages = []
    is_list = False
    unordered = False
    failing = False
    cur = list(vals)
    for i in range(depth):
        if is_list:
            choices = ["flat", "sum", "lbufX", "flat"]
        elif unordered:
            choices = ["map", "fil", "fm", "buf", "pm", "opm"]
        else:
            choices = ["map", "try", "fil", "fm", "scan", "dd", "bat", "buf", "opm", "pm", "map", "fil"]
        k = rng.choice(choices)
        ints = [v for v in cur if not isinstance(v, tuple)]
        pick = (lambda: rng.choice(ints)) if ints and rng.random() < 0.8 else (lambda: rng.randint(-5, 30))
        if k == "map":
            s = f"map:{rng.randint(-3, 5)}"
        elif k == "try":
            if failing or rng.random() < 0.5:
                s = f"try:{rng.randint(-2, 3)}:{10**6 + i}"      # never fails
            else:
                s = f"try:{rng.randint(-2, 3)}:{pick()}"
                failing = True
        elif k == "fil":
            m = rng.randint(1, 5)
            s = f"fil:{m}:{rng.randint(0, m)}"
        elif k == "fm":
            s = f"fm:{rng.randint(1, 4)}"
        elif k == "scan":
            s = "scan"
        elif k == "dd":
            s = "dd"
        elif k == "bat":
            s = f"bat:{rng.choice([1, 2, 3, 5, 8, 50])}"
        elif k == "buf":
            s = f"buf:{rng.choice([1, 2, 3, 8, 64, 300])}"
        elif k == "lbufX":
            s = None  # decided below (needs the batch count)
        elif k in ("opm", "pm"):
            w = rng.choice([1, 2, 3, 4, 8])
            if not failing and rng.random() < 0.15:
                s = f"{k}:{w}:{rng.randint(-2, 3)}:{pick()}"
                failing = True
            else:
                s = f"{k}:{w}:{rng.randint(-2, 3)}"
            if k == "pm" and w > 1:
                unordered = True
        elif k == "flat":
            s = "flat"
        elif k == "sum":
            s = "sum"
        if k == "lbufX":
            s = f"buf:{rng.choice([1, 2, 3, 8, 300])}"
        nxt, e = stage_sem("lbuf:0" if (k == "lbufX") else s, i, cur)
        if len(nxt) > 1500:
            continue
        stages.append(s)
        cur = nxt
        if k == "bat":
            is_list = True
        elif k in ("flat", "sum"):
            is_list = False
    return stages


def gen_pl(rng, tier):
    maxd = 4 if tier == "quick" else 6
    n = rng.choice([0, 1, 2, 3, 5, 8, 13, 40, 100, 200, rng.randint(0, 200)])
    vals = gen_values(rng, n)
    fusion = rng.choice(["0", "1", "1"])
    stages = gen_pipeline(rng, rng.randint(0, maxd), fusion, vals)
    fusion += rng.choice(["", "", "u"])
    return f"pl {fusion} c {';'.join(stages) or '-'} {','.join(map(str, vals)) or '-'}"


ST_STAGES = ["map:1", "try:2:7", "fil:3:1", "fm:3", "scan", "dd", "buf:3", "buf:8", "bat:1", "bat:2", "bat:3", "flat", "sum",
             "fused:map:1+fil:2:0", "fused:try:1:7+map:2+fil:3:0", "src", "sink", "opm:2:10", "opm:3:1", "pm:2:10", "pm:3:1:7", "opm:2:1:7"]


def gen_st(rng, tier):
    spec = rng.choice(ST_STAGES)
    kind = spec.split(":")[0]
    if rng.random() < 0.8:
        init = rng.randint(1, 6)
        refill = rng.randint(0, init - 1)
    else:
        init, refill = 0, 0
    nev = rng.randint(1, 14 if tier == "quick" else 30)
    evs = []
    if kind == "src":
        vals = [rng.randint(-5, 9) for _ in range(rng.randint(0, 9))]
        spec = "src:" + ",".join(map(str, vals))
        for _ in range(nev):
            evs.append("k" if rng.random() < 0.07 else f"r{rng.randint(1, 4)}")
        return f"st {spec} {init} {refill} | {' '.join(evs)}"
    listy = kind in ("flat", "sum")
    par = kind in ("opm", "pm")
    nworkers = int(spec.split(":")[1]) if par else 0
    next_val = 1
    used = set()
    queues = [[] for _ in range(max(nworkers, 1))]   # per-worker FIFO of blocked values
    nsent = 0
    done = False
    for _ in range(nev):
        r = rng.random()
        if par:
            heads = [q[0] for q in queues if q]
            if r < 0.45 and not done:
                # every value is sent at most once (the harness gates workers by value); the failing value 7 is
                # sometimes sent early
                while next_val in used:
                    next_val += 1
                v = 7 if 7 not in used and next_val < 7 and rng.random() < 0.1 else next_val
                used.add(v)
                queues[nsent % nworkers].append(v)
                nsent += 1
                evs.append(f"e{v}")
            elif r < 0.85 and heads:
                v = rng.choice(heads)
                for q in queues:
                    if q and q[0] == v:
                        q.pop(0)
                evs.append(f"g{v}")
            elif r < 0.92 and not done:
                evs.append("c")
                done = True
            elif r < 0.95:
                evs.append("xU1")
            elif r < 0.97:
                evs.append("k")
            else:
                evs.append(f"r{rng.randint(1, 3)}")
            continue
        if kind == "sink":
            if r < 0.8:
                evs.append(f"e{rng.randint(-3, 9)}")
            elif r < 0.9:
                evs.append("c")
            else:
                evs.append("xU1")
            continue
        if r < 0.35:
            evs.append(f"r{rng.randint(1, 5)}")
        elif r < 0.85 and not done:
            if listy:
                evs.append("e[" + ",".join(str(rng.randint(-3, 9)) for _ in range(rng.randint(0, 3))) + "]")
            else:
                evs.append(f"e{rng.choice([7, 7, rng.randint(-3, 9)]) if rng.random() < 0.15 else rng.randint(-3, 9)}")
        elif r < 0.92:
            evs.append("c")
            done = True
        elif r < 0.95:
            evs.append("xU1")
        elif r < 0.97:
            evs.append("k")
        elif kind == "bat":
            evs.append("f")
        else:
            evs.append(f"r{rng.randint(1, 9)}")
    if rng.random() < 0.6 and not par and kind != "sink":
        evs += ["c"] if not done else []
        evs += [f"r{rng.randint(1, 20)}", "r50"]
    return f"st {spec} {init} {refill} | {' '.join(evs)}"


def gen_cases(rng, tier):
    n_pl, n_st = (140, 500) if tier == "quick" else (2500, 8000)
    cases = ["pl 1 c - -", "pl 0 c - 1,2,3", "pl 1 c map:1 1,2,3"]
    cases += [gen_pl(rng, tier) for _ in range(n_pl)]
    for _ in range(40 if tier == "quick" else 600):
        # the same graph value run twice (stage state must not survive a materialisation): inputs whose first
        # element equals the last one make leaked Deduplicate / Scan state visible
        f = gen_pl(rng, tier).split()
        f[0] = "pl2"
        if f[4] != "-" and rng.random() < 0.6:
            vs = f[4].split(",")
            vs.append(vs[0])
            f[4] = ",".join(vs[-200:]) if len(vs) > 200 else ",".join(vs)
            if rng.random() < 0.5 and "dd" not in f[3] and f[3].count(";") < 5:
                f[3] = "dd" if f[3] == "-" else "dd;" + f[3]
        cases.append(" ".join(f))
    for _ in range(3 if tier == "quick" else 40):
        # slow consumer: the sink blocks until upstream is quiescent (bounded wait of 1.5 s per case)
        f = gen_pl(rng, tier).split()
        f[2] = "b"
        cases.append(" ".join(f))
    cases += [gen_st(rng, tier) for _ in range(n_st)]
    return cases


def search_cases(rng, tier):
    # wider: slow-consumer (blocked sink) variants of batch-free pipelines, longer inputs, plus the thorough mix
    cases = []
    for _ in range(200):
        c = gen_pl(rng, "thorough")
        f = c.split()
        f[2] = "b"
        cases.append(" ".join(f))
    # the thorough mix, cut to a size that keeps the search within a few minutes
    more = gen_cases(rng, "thorough")
    rng.shuffle(more)
    return cases + more[:2500]


def canon_impl(case, out):
    return out.rstrip("\n")


def _sorted_elems(line):
    if " | " not in line + " ":
        return line
    hd, _, tl = (line + " ").partition(" | ")
    return hd + " | " + " ".join(sorted(tl.split()))


def self_starting(fusion, stages):
    """does some stage pull from upstream on its own stageWire (parallel stages, fused runs)?"""
    kinds = [s.split(":")[0] for s in stages]
    if any(k in ("pm", "opm") for k in kinds):
        return True
    return fusion[0] == "1" and any(a in FUSABLE and b in FUSABLE for a, b in zip(kinds, kinds[1:]))


def f2_signature(case, impl):
    """finding C45-F2 (an element reaches a stage before its stageWire; the handler panics, the stage is stopped):
    the stream stalls, or a stopped sink reports completion with elements missing"""
    fusion, _, stages, vals = split_case(case)
    if not self_starting(fusion, stages):
        return False
    if impl.startswith("timeout") or impl.startswith("run-error stream: wire stage"):
        return True
    out, errs, _ = sem(stages, vals)
    if errs or not impl.startswith("done n=1"):
        return False
    got = sorted(impl.partition(" | ")[2].split())
    want = sorted(map(fmt, out))
    if len(got) >= len(want):
        return False
    # sub-multiset
    i = 0
    for g in got:
        while i < len(want) and want[i] != g:
            i += 1
        if i == len(want):
            return False
        i += 1
    return True


def compare(case, impl, model):
    if case.startswith("pl2 "):
        pi, pm = impl.split(" ## "), model.split(" ## ")
        if len(pi) != 2 or len(pm) != 2:
            return f"impl={impl!r} model={model!r}"
        c1 = "pl " + case[4:]
        for a, b in zip(pi, pm):
            d = compare(c1, a, b)
            if d:
                return d
        return None
    if case.startswith("pl"):
        _, _, stages, vals = split_case(case)
        _, errs, _ = sem(stages, vals)
        par = any(s.split(":")[0] in ("pm", "opm") for s in stages)
        unordered = any(s.split(":")[0] == "pm" and int(s.split(":")[1]) > 1 for s in stages)
        if errs:
            # which prefix reaches the sink before the failure is schedule dependent: compare status and hook count
            hi, hm = impl.split(" | ")[0], model.split(" | ")[0]
            if par or len(errs) > 1:
                hi, hm = re.sub(r"err=\S+", "err", hi), re.sub(r"err=\S+", "err", hm)
            return None if hi == hm else f"impl={impl!r} model={model!r}"
        if unordered:
            return None if _sorted_elems(impl) == _sorted_elems(model) else f"impl={impl!r} model={model!r} (as multisets)"
    return None if impl == model else f"impl={impl!r} model={model!r}"


def is_trivial(case, impl):
    if impl is None or impl.startswith(("CRASH", "bad-case", "run-error", "rig-error", "step-error")):
        return True
    if case.startswith("pl"):
        return impl.rstrip().endswith("|") and impl.startswith("done")
    return not re.search(r"d:|u:", impl)


def tag(case, impl):
    f = case.split()
    if f[0] in ("pl", "pl2"):
        st = (impl or "").split(" ")[0].split("=")[0]
        return f"pl:depth{0 if f[3] == '-' else len(f[3].split(';'))}:{st}"
    return "st:" + f[1].split(":")[0]


def oracle(case, impl, judge):
    if impl.startswith("run-error stream: wire stage"):
        return "bad the materializer found a stage already stopped when wiring it: " + impl[:120]
    if impl.startswith(("CRASH", "run-error", "rig-error", "step-error", "panic")):
        return "harness failure: " + impl[:200]
    if judge is not None:
        return None if judge.startswith("ok") else judge
    if not case.startswith("pl"):
        return None
    if case.startswith("pl2 "):
        for part in impl.split(" ## "):
            r = oracle("pl " + case[4:], part, None)
            if r:
                return r
        return None
    # python mirror of Spec.C45.judgeRun
    _, _, stages, vals = split_case(case)
    out, errs, _ = sem(stages, vals)
    hd, _, tl = (impl + " ").partition(" | ")
    got = parse_elems(tl)
    st, n = hd.split()[0], hd.split()[1]
    if st == "timeout":
        return "bad the stream did not complete"
    if n != "n=1":
        return f"bad completion hook ran {n[2:]} times"
    unordered = any(s.split(":")[0] == "pm" and int(s.split(":")[1]) > 1 for s in stages)
    par = any(s.split(":")[0] in ("pm", "opm") for s in stages)
    if st == "done":
        if errs:
            return "bad completed normally although a stage fails on this input"
        if unordered:
            return None if sorted(map(fmt, got)) == sorted(map(fmt, out)) else "bad sink elements are not a permutation of the list semantics"
        if got == out:
            return None
        return "bad sink completed with elements missing" if got == out[:len(got)] else "bad sink elements differ from the list semantics"
    e = st[4:]
    if e not in errs:
        return f"bad stream failed with {e}, which no stage raises on this input"
    if par or got == out[:len(got)]:
        return None
    return "bad elements delivered before the failure are not a prefix of the list semantics"


def classify(case, impl, why):
    return None   # no open finding (C45-F1 fixed by 688097a, C45-F2 by cf400b2)


def shrink(case):
    f = case.split()
    if f[0] not in ("pl", "pl2"):
        hd, _, evs = case.partition("|")
        ev = evs.split()
        for i in range(len(ev)):
            yield hd + "| " + " ".join(ev[:i] + ev[i + 1:])
        return
    stages = [] if f[3] == "-" else f[3].split(";")
    vals = [] if f[4] == "-" else f[4].split(",")
    mk = lambda st, vs: f"{f[0]} {f[1]} {f[2]} {';'.join(st) or '-'} {','.join(vs) or '-'}"
    if len(vals) > 1:
        yield mk(stages, vals[:len(vals) // 2])
        yield mk(stages, vals[len(vals) // 2:])
    for i in range(len(vals)):
        if len(vals) <= 40:
            yield mk(stages, vals[:i] + vals[i + 1:])
    # dropping a stage keeps typing only for int->int stages; error ids depend on the index, so only drop from the end
    if stages and stages[-1].split(":")[0] not in ("bat",):
        if len(stages) < 2 or stages[-2].split(":")[0] != "bat":
            yield mk(stages[:-1], vals)

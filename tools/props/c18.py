"""C18 — undeliverable messages surface as dead letters exactly once (event scripts on a real actor system)."""
ID = "C18"
LEAN_MODULES = ["GoaktVerif.Props.C18"]
THEOREMS = ["GoaktVerif.C18." + t for t in [
    "lookupN_bump", "foldl_drainMsg", "inv_step", "inv_run", "inv_quiesce",
    "guarded_of_traffic", "C18_quiescent", "C18_holds", "C18_once", "C18_invariant", "overflow_regression", "full_queue_inline",
    "count_reply_total", "count_reply_receiver",
    "publishAll_republishes", "restart_resets_count", "drop_when_down", "control_not_deadlettered",
]]
INPKG = ["actor/zz_verif_c18.go"]
ORACLE_NEEDS_JUDGE = True
TIMEOUT = 3000
MANIFEST = {
    "level_text": "Kernel-checked inductive invariant of a model of the dead-letter path (handleReceivedErrorWithMessage, "
                  "the failure branches of deliverRemoteTellMessage, enqueueCoalescedFailure / drainCoalescedFailures / "
                  "publishCoalescedFailure, the dead-letter actor's two mailboxes and Receive). C18_holds: for EVERY history of drop "
                  "events (all four causes, fan-out queue of any capacity, hand-offs that find it full included), drain-goroutine steps, "
                  "dead-letter-actor turns and count requests — hence every interleaving of concurrent droppers — after quiescence the "
                  "published dead letters are a permutation of exactly the dead letters owed (one per dropped user message, with its "
                  "message, sender, receiver and reason), the total counter equals the number published and every per-receiver counter "
                  "equals the number published for that receiver (C18_quiescent, C18_once); every count served at any point equals the "
                  "number published then (count_reply_total/_receiver, C18_invariant). Before /repo fix f8d2f6b the statement was refuted "
                  "(C18-F1: a batch handed to a full queue got no dead letters); overflow_regression / full_queue_inline pin the repaired behaviour.",
    "level_note": "PARTIAL: the Go runtime pieces are modelled, not verified: mailboxes as FIFO lists, the events stream as a log, "
                  "goroutine interleavings as event orders; the system is assumed running (while stopping, dead letters are best-effort by "
                  "design: drop_when_down). Payload decoding and address parsing on the remote paths are inputs (C25, C26). "
                  "Tie: event scripts run on a real actor system with loop-back remoting (gated NonBlockingBoundedMailbox actor, an actor "
                  "calling Unhandled, the server-side remote-tell handler (missing target; target in the middle of passivation), real RemoteTell to a missing actor, the real coalesced-failure "
                  "hand-off and drain loop, concurrent blocks), dead letters read from the events stream after a count-request quiescence "
                  "marker, counts read through ActorSystem.Metric and the per-receiver count request; compared with the model's prediction.",
    "technique": "Lean 4 proof (inductive invariant over event histories, multiset accounting) on a hand-written model + "
                 "model/implementation differential on a real actor system",
}
TRUSTED = [
    "mailboxes are FIFO and runTurn serves the system mailbox first (C02/C04's subject); the events stream delivers what is published (C20's subject)",
    "payload decoding (C25) and address.Parse (C26) on the remote paths are inputs of the model",
    "the harness's quiescence markers: Ask round-trips through the same mailboxes and a count request served after the dead letters enqueued before it",
]
RULE = ("event scripts of 1-8 events over full / unh / unhps / rmiss / rpass / rbadr / rbadp / rtell / batch / mq+mbatch+mdrain / count / par; "
        "mailbox capacities 1-9; non-trivial = at least one dead letter published; distinct by (case, canonical output)")

SENDERS = ["A", "B", "none"]


class Gen:
    def __init__(self, rng):
        self.rng = rng
        self.next_id = 1
        self.k = 0

    def ids(self, lo=1, hi=4):
        n = self.rng.randint(lo, hi)
        out = list(range(self.next_id, self.next_id + n))
        self.next_id += n
        return ",".join(map(str, out))

    def specs(self, lo=1, hi=4):
        out = []
        for _ in range(self.rng.randint(lo, hi)):
            out.append(self.rng.choice("ggnrp") + str(self.next_id))
            self.next_id += 1
        return ",".join(out)

    def sentinel(self):
        self.k += 1
        return self.k

    def event(self, manual, allow_par=True, heavy=True):
        r = self.rng
        kinds = ["full", "unh", "rmiss", "rmiss", "unhps", "rbadr", "rbadp", "count", "rpass"]
        if heavy:
            kinds += ["rtell", "batch"] if not manual else ["mbatch", "mbatch", "mdrain"]
        if allow_par and not manual and r.random() < 0.25:
            branches = []
            for _ in range(r.randint(2, 4)):
                e = self.event(False, allow_par=False)
                while e.startswith("count") or e.startswith("full") and any(b.startswith("full") for b in branches):
                    e = self.event(False, allow_par=False)
                branches.append(e)
            return "par " + " | ".join(branches)
        k = r.choice(kinds)
        if k == "full":
            return "full %s %s" % (r.choice(SENDERS), self.ids(1, 5))
        if k == "unh":
            return "unh %s %s" % (r.choice(SENDERS), self.ids(1, 4))
        if k == "rmiss":
            return "rmiss %s %s" % (r.choice(SENDERS + ["bad"]), self.ids(1, 3))
        if k == "unhps":
            return "unhps %d" % self.sentinel()
        if k == "rpass":
            return "rpass %d %s %s %s" % (self.sentinel(), r.choice("ib"), r.choice(SENDERS + ["bad"]), self.ids(1, 3))
        if k in ("rbadr", "rbadp"):
            return "%s %s" % (k, self.ids(1, 1))
        if k == "rtell":
            return "rtell %d %s" % (self.sentinel(), self.ids(1, 4))
        if k == "batch":
            return "batch %d %s" % (self.sentinel(), self.specs())
        if k == "mbatch":
            return "mbatch " + self.specs(1, 3)
        return k


def gen_case(rng, manual=None, overflow=False):
    g = Gen(rng)
    manual = (rng.random() < 0.2) if manual is None else manual
    cap = rng.choice([1, 2, 3, 4, 5, 8, 9])
    evs = []
    if manual:
        qcap = rng.choice([1, 2, 3]) if overflow else rng.choice([4, 8])
        evs.append("mq %d" % qcap)
        pending = 0
        if overflow:
            # hand-offs beyond the queue capacity before anything is drained: the surplus must be dead-lettered inline
            for _ in range(qcap + rng.randint(1, 2)):
                evs.append("mbatch " + g.specs(1, 3))
                pending += 1
        for _ in range(rng.randint(2, 7)):
            e = g.event(True)
            if e.startswith("mbatch"):
                if pending >= qcap and not overflow:
                    evs.append("mdrain")
                    pending = 0
                pending += 1
            elif e == "mdrain":
                pending = 0
            evs.append(e)
        evs.append("mdrain")
    else:
        for _ in range(rng.randint(1, 7)):
            evs.append(g.event(False))
    if rng.random() < 0.5:
        evs.append("count")
    return "sys %d ; %s" % (cap, " ; ".join(evs))


def gen_cases(rng, tier):
    n = 40 if tier == "quick" else 600
    cases = [
        "sys 4 ; full A 1,2,3 ; unh B 4,5 ; count ; rmiss A 6 ; rmiss none 7 ; rmiss bad 8 ; rbadr 9 ; rbadp 10 ; unhps 1 ; count",
        "sys 2 ; rtell 1 11,12 ; batch 2 g13,n14,r15,p16 ; count",
        "sys 5 ; par full A 1,2 | unh none 3,4 | rmiss B 5 | batch 1 g6 | rtell 2 7 ; count",
        "sys 1 ; count",
        # a remote tell that arrives while its target is being passivated (idle target / target held in a long Receive)
        "sys 2 ; rpass 1 b A 1,2 ; rpass 2 i none 3 ; count",
        "sys 3 ; par rpass 1 b B 1 | unh A 2,3 | rmiss none 4 ; count",
    ]
    for _ in range(n):
        cases.append(gen_case(rng))
    for _ in range(3 if tier == "quick" else 40):
        cases.append(gen_case(rng, manual=True, overflow=True))
    return cases


def search_cases(rng, tier):
    return gen_cases(rng, tier) + [gen_case(rng) for _ in range(60)]


import re

# A real RemoteTell travels through the coalescer, whose flush RPC carries a 5 s deadline (coalescerFlushTimeout).
# On an overloaded machine the client can give up on a batch the server has already handled; the client side then
# dead-letters the batch as well (cause = the RPC error).  That is the documented at-least-once behaviour of the
# sender side, it depends on wall-clock time only, and it must never raise an alarm: such a run is inconclusive.
_RPC_TIMEOUT = re.compile(r"other\([^)]*(timeout|deadline|EOF|reset|refused|closed)[^)]*\)")


def _canon(out):
    if out is None:
        return None
    if _RPC_TIMEOUT.search(out):
        return "INCONCLUSIVE rpc-failure-on-loopback"
    parts = out.split(" ")
    res = []
    for p in parts:
        if p.startswith("dl=") or p.startswith("per="):
            k, v = p.split("=", 1)
            res.append(k + "=" + ",".join(sorted(x for x in v.split(",") if x)))
        else:
            res.append(p)
    return " ".join(res)


def canon_impl(case, out):
    return _canon(out)


def compare(case, impl, model):
    if model is None or model == "*" or (impl or "").startswith("INCONCLUSIVE"):
        return None
    m = _canon(model)
    return None if impl == m else f"impl={impl!r} model={m!r}"


def is_trivial(case, impl):
    return impl is None or impl.startswith("INCONCLUSIVE") or impl.startswith("dl= ") or impl in ("bad-case", "setup-failed") or impl.startswith("CRASH")


def tag(case, impl):
    kinds = sorted({t.split()[0] for e in case.split(";")[1:] for t in e.split("|") if t.split()} - {"par"})
    return "+".join(kinds) + (":par" if " par " in case else "")


def oracle(case, impl, judge):
    if impl is None:
        return None
    if impl.startswith("INCONCLUSIVE"):
        return None
    if impl.startswith("CRASH") or impl.startswith("panic") or impl == "setup-failed":
        return "harness crashed: " + impl
    if judge is not None:
        return None if judge.startswith("ok") else judge
    if "problems=" in impl:
        return "bad harness problem: " + impl.split("problems=")[1]
    return None


def classify(case, impl, why):
    # C18-F1 (hand-off to a full fan-out queue dropped without dead letters) was fixed in /repo f8d2f6b:
    # no open finding is left, every oracle failure is a VIOLATION
    return None


def shrink(case):
    # drop one event at a time, but keep the manual-queue bracket (mq … mdrain) intact: an mbatch without it
    # would hand the batch to the real drain goroutine without any quiescence marker
    parts = [p.strip() for p in case.split(";")]
    for i in range(1, len(parts)):
        if parts[i].startswith("mq") or parts[i] == "mdrain":
            continue
        yield " ; ".join(parts[:i] + parts[i + 1:])

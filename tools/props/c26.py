"""C26 — actor addresses survive their text form (E1 differential on internal/address + Lean theorems)."""
import string

ID = "C26"
LEAN_MODULES = ["GoaktVerif.Props.C26"]
THEOREMS = [
    "GoaktVerif.C26.parse_build",
    "GoaktVerif.C26.hostPortOf_build",
    "GoaktVerif.C26.C26_holds",
    "GoaktVerif.C26.C26_hostLike",
    "GoaktVerif.C26.C26_sentinel_corner",
    "GoaktVerif.C26.C26_total",
    "GoaktVerif.C26.C26_canonical",
    "GoaktVerif.C26.C26_nosender",
    "GoaktVerif.C26.firstColon_rejects_ipv6",
]
MANIFEST = {
    "level_text": "Kernel-checked theorems over a List-Char model of internal/address (String/buildString, Parse test by test incl. strconv.ParseInt and the int32 range test, HostPortOf, FormatHostPort, HostPort, and Validate incl. the name pattern, TrimSpace, the 255-byte limit, net.JoinHostPort/SplitHostPort and the host delimiter assertion): C26_holds - for EVERY actor address accepted by Validate (names up to 255 bytes; host names, IPv4 and IPv6 literals with any number of colons and zones; any port 0..65535; optional parent chain) Parse(String()) returns the same name/system/host/port and parent name and HostPortOf(String()) = host:port = FormatHostPort; C26_canonical - Parse(String()).String() = String(); C26_total - Parse reaches no slice-bounds panic on ANY string. The all-empty NoSender sentinel (not an actor address) is excluded and C26_sentinel_corner shows why. The model is tied to the code by a differential run of the real New/NewWithParent/String/Parse/HostPortOf/FormatHostPort/HostPort/Validate against the model's executable definitions.",
    "level_note": "Trusted: Lean kernel; the differential (what the generators never produce is never compared); Go strings are byte strings while the model uses code points (all delimiters are ASCII; generated inputs are valid UTF-8); the incarnation id (UUID) is not part of the text form and is not modelled; strings.EqualFold is modelled on ASCII only (both sides match the ASCII name pattern whenever the result matters).",
    "technique": "Lean 4 proof (structural induction on character lists) over a hand-written model + model/implementation differential",
}
TRUSTED = [
    "Go strings are byte strings, the model uses lists of code points: equivalent for valid UTF-8 input because every delimiter is ASCII (the generators only emit valid UTF-8)",
    "stdlib contracts modelled by hand and sampled by the differential: strings.Cut/Contains/LastIndex/HasPrefix/TrimSpace, strconv.ParseInt/AppendInt, net.JoinHostPort/SplitHostPort, regexp on the fixed name pattern",
    "incarnation ids (UUIDs) are outside the text form and not modelled; New/NewWithParent always mint a valid one",
]
RULE = ("rt: addresses built with New/NewWithParent from names/systems of the pattern grammar (lengths 1, 2, 255, random; "
        "space-padded; plus invalid ones), hosts from dns labels / IPv4 / IPv6 full, compressed, zone / bracketed / hostile "
        "('/', '@', spaces, empty), ports {0,1,80,65535} plus out-of-range, optional parent and grandparent (matching, "
        "case-folded system, mismatching, zero); ps: arbitrary strings with the delimiters over-represented and mutated valid "
        "addresses; non-trivial = a validated address (rt) or a successful parse (ps); distinct by (case, output)")

ALNUM = string.ascii_letters + string.digits
NAMECH = ALNUM + "-_."
SAFE = set(ALNUM + "._:/@[]-")


def enc(s):
    if s == "":
        return "%"
    return "".join(chr(b) if chr(b) in SAFE else "%%%02X" % b for b in s.encode("utf-8"))


def dec(s):
    if s == "%":
        return ""
    out = bytearray()
    i = 0
    while i < len(s):
        if s[i] == "%":
            out.append(int(s[i + 1:i + 3], 16))
            i += 3
        else:
            out.append(ord(s[i]))
            i += 1
    return out.decode("utf-8", errors="replace")


def g_name(rng):
    r = rng.random()
    if r < 0.10:
        n = 1
    elif r < 0.18:
        n = 255
    elif r < 0.22:
        n = 254
    elif r < 0.80:
        n = rng.randint(2, 12)
    else:
        n = rng.randint(13, 253)
    return rng.choice(ALNUM) + "".join(rng.choice(NAMECH) for _ in range(n - 1))


def g_badname(rng):
    base = g_name(rng)[:rng.randint(1, 8)]
    return rng.choice([
        "", "-" + base, "_" + base, "." + base, base + "/" + base, base + "@x", base + ":1", "/" + base, base + "/",
        "x" * 256, g_name(rng)[:1] + "y" * 255, base + " " + base, " ", "\t", base + "\u00e9", "\u212a" + base, base + "%",
        base + "\n", base + "//" + base, base + "://" + base, base + "+", base + "\\",
    ])


def g_padded(rng):
    ws = [" ", "\t", "\u00a0", "\u2003", "\r", "  "]
    return rng.choice(["", rng.choice(ws)]) + g_name(rng)[:rng.randint(1, 20)] + rng.choice(["", rng.choice(ws)])


def g_label(rng):
    n = rng.randint(1, 10)
    return rng.choice(ALNUM) + "".join(rng.choice(ALNUM + "-") for _ in range(n - 1))


def g_ipv6(rng):
    kind = rng.random()
    grp = lambda: "%x" % rng.randrange(0x10000)
    if kind < 0.25:
        return ":".join("%04x" % rng.randrange(0x10000) for _ in range(8))
    if kind < 0.5:
        k = rng.randint(0, 6)
        left = [grp() for _ in range(rng.randint(0, k))]
        right = [grp() for _ in range(k - len(left))]
        return ":".join(left) + "::" + ":".join(right)
    if kind < 0.65:
        return rng.choice(["::", "::1", "fe80::1", "2001:db8::8a2e:370:7334", "::ffff:192.0.2.128", "64:ff9b::10.0.0.1"])
    if kind < 0.85:
        return "fe80::" + grp() + "%" + rng.choice(["eth0", "en0", "1", "lo", "wlan-0", "Ethernet_2"])
    return ":".join(grp() for _ in range(8)).upper()


def g_host(rng):
    r = rng.random()
    if r < 0.25:
        return ".".join(g_label(rng) for _ in range(rng.randint(1, 4)))
    if r < 0.45:
        return ".".join(str(rng.randrange(256)) for _ in range(4))
    if r < 0.80:
        return g_ipv6(rng)
    if r < 0.84:
        return "[" + g_ipv6(rng) + "]"
    return rng.choice(["", " ", "a/b", "a@b", "h/", "/h", "@", "a b", " h", "h ", "\th", "[h]", "[h", "h]", "[]", "[a]b", "[[a]", "[a]]",
                       "a[b", "h%25", "%", "h\u00e9", "a:b/c", "x@y:z", "::1/64", "[::1", "::1]", "[ ::1]", " ::1", "\u00a0h", "a//b",
                       "h://", ":", "host:", "1:2:3", "a%b]", "[a%b", "\u3000"])


PORTS_OK = [0, 1, 80, 65535]
PORTS_ANY = PORTS_OK * 3 + [3000, 9000, 443, 65534, -1, 65536, 70000, 2147483647, 2147483648, -2147483648, -2147483649, 9223372036854775807]


def g_sys(rng):
    return g_name(rng)[:rng.randint(1, 12)]


def swapcase_some(rng, s):
    return "".join(c.swapcase() if rng.random() < 0.5 else c for c in s)


def g_rt(rng, mostly_valid=True):
    name = g_name(rng) if rng.random() < 0.85 else (g_padded(rng) if rng.random() < 0.5 else g_badname(rng))
    sysn = g_sys(rng) if rng.random() < 0.92 else g_badname(rng)
    host = g_host(rng)
    port = rng.choice(PORTS_OK) if rng.random() < 0.85 else rng.choice(PORTS_ANY)
    groups = [(name, sysn, host, port)]
    r = rng.random()
    if r < 0.45:
        pass
    else:
        pname = g_name(rng) if rng.random() < 0.9 else rng.choice([name, g_padded(rng), g_badname(rng)])
        psys = sysn if rng.random() < 0.6 else (swapcase_some(rng, sysn) if rng.random() < 0.7 else g_sys(rng))
        phost = host if rng.random() < 0.9 else g_host(rng)
        pport = port if rng.random() < 0.9 else rng.choice(PORTS_ANY)
        if rng.random() < 0.05:
            pname, psys, phost, pport = "", "", "", 0
        groups.append((pname, psys, phost, pport))
        if rng.random() < 0.25:
            gname = g_name(rng) if rng.random() < 0.85 else rng.choice([pname, g_badname(rng)])
            groups.append((gname, psys if rng.random() < 0.8 else g_sys(rng), phost if rng.random() < 0.9 else g_host(rng),
                           pport if rng.random() < 0.9 else rng.choice(PORTS_ANY)))
    return "rt " + " ".join(f"{enc(n)} {enc(s)} {enc(h)} {p}" for n, s, h, p in groups)


DELIMS = list(":/@") * 4 + ["://", "goakt", "goakt://", "-", "+", "0", "1", "65535", "a", "b", "sys", "::", "/", "%", " ", "[", "]", "2147483648", "99999999999999999999", "\u00e9", "_"]


def g_ps(rng):
    r = rng.random()
    if r < 0.35:
        return "".join(rng.choice(DELIMS) for _ in range(rng.randint(0, 9)))
    # mutate a valid address string
    pn = g_name(rng)[:6] + "/" if rng.random() < 0.4 else ""
    s = f"goakt://{g_sys(rng)}@{g_host(rng)}:{rng.choice(PORTS_ANY)}/{pn}{g_name(rng)[:8]}"
    if r < 0.5:
        return s
    for _ in range(rng.randint(1, 3)):
        k = rng.random()
        i = rng.randrange(len(s) + 1)
        if k < 0.3:
            s = s[:i] + rng.choice(DELIMS) + s[i:]
        elif k < 0.6 and s:
            j = min(len(s), i + rng.randint(1, 3))
            s = s[:i] + s[j:]
        elif k < 0.8:
            d = [p for p, c in enumerate(s) if c in ":/@"]
            if d:
                p = rng.choice(d)
                s = s[:p] + rng.choice(["", s[p] * 2, rng.choice(":/@")]) + s[p + 1:]
        else:
            s = s[:i] + rng.choice(["+", "-", "0", " ", "x", "9" * rng.randint(1, 22)]) + s[i:]
    return s


FIXED = [
    "rt a sys ::1 3000", "rt a sys :: 0", "rt a sys 127.0.0.1 9000", "rt a sys fe80::1%25eth0 65535",
    "rt a sys 2001:0db8:0000:0000:0000:8a2e:0370:7334 1", "rt child sys ::1 80 parent SYS ::1 80",
    "rt child sys h 80 parent sys h 80 grand sys h 80", "rt child sys h 80 child sys h 80", "rt a sys h 80 % % % 0",
    "rt % % % 0", "rt a sys h 65536", "rt a sys h -1", "rt a sys [::1] 80", "rt a sys [h] 80", "rt a sys %20h 80",
    "rt %20a%20 sys h 80", "rt " + "x" * 255 + " s h 80", "rt " + "x" * 256 + " s h 80", "rt a sys h 2147483648",
    "ps %", "ps goakt://s@h:+5/x", "ps goakt://s@h:-0/x", "ps goakt://s@h:99999999999999999999x/x", "ps goakt://s@h:9223372036854775808/x",
    "ps goakt://s@h:-9223372036854775808/x", "ps goakt://s@h:2147483648/x", "ps goakt://s@h:-2147483649/x", "ps goakt://s@h:/x",
    "ps goakt://s@h/x", "ps goakt://s@:/x", "ps goakt://s@h:1//x", "ps goakt://s@h:1/a/b/c", "ps goakt://s@h:1/a/", "ps goakt://s@h:1/",
    "ps goakt://s@@h:1/x", "ps goakt://goakt://s@h:1/x", "ps http://s@h:1/x", "ps goakt:/s@h:1/x", "ps ://s@h:1/x", "ps goakt://@:0/",
    "ps goakt://s@h:0x10/x", "ps goakt://s@h:1_0/x", "ps goakt://s@h:-/x", "ps goakt://s@h:+/x", "ps goakt://s@::1:0080/x",
]


def gen_cases(rng, tier):
    n_rt, n_ps = (900, 700) if tier == "quick" else (30000, 25000)
    cases = list(FIXED)
    # the pattern grammar at its boundary lengths on every host family and every in-range port
    for host in ["h", "10.0.0.12", "::1", "fe80::1%eth0", "2001:db8:0:0:0:0:0:1", "a.b-c.example"]:
        for port in PORTS_OK:
            for n in (1, 255):
                nm = rng.choice(ALNUM) + "".join(rng.choice(NAMECH) for _ in range(n - 1))
                cases.append(f"rt {enc(nm)} {enc(g_sys(rng))} {enc(host)} {port}")
                cases.append(f"rt {enc(nm)} s {enc(host)} {port} {enc(g_name(rng))} S {enc(host)} {port}")
    cases += [g_rt(rng) for _ in range(n_rt)]
    cases += ["ps " + enc(g_ps(rng)) for _ in range(n_ps)]
    return cases


def search_cases(rng, tier):
    cases = []
    for host in ["h", "a.b", "1.2.3.4", "::", "::1", "1::", "fe80::1%eth0", "2001:db8::1", "0:0:0:0:0:0:0:1", "::ffff:1.2.3.4"]:
        for port in PORTS_OK + [3000]:
            cases.append(f"rt a sys {enc(host)} {port}")
            cases.append(f"rt a sys {enc(host)} {port} p sys {enc(host)} {port}")
            cases.append(f"rt {'n' * 255} sys {enc(host)} {port} {'p' * 255} SYS {enc(host)} {port}")
    return cases + gen_cases(rng, "thorough" if tier == "thorough" else "quick")


def compare(case, impl, model):
    return None if impl == model else f"impl={impl!r} model={model!r}"


def _fields(out):
    d = {}
    for w in out.split():
        if "=" in w:
            k, v = w.split("=", 1)
            d[k] = v
    return d


def _groups(case):
    f = case.split()[1:]
    return [(dec(f[i]), dec(f[i + 1]), dec(f[i + 2]), int(f[i + 3])) for i in range(0, len(f) - 3, 4)]


def is_trivial(case, impl):
    if impl in ("", "bad-case") or impl.startswith("CRASH") or impl.startswith("panic"):
        return True
    d = _fields(impl)
    if case.startswith("rt"):
        return d.get("valid") != "1"
    return not d.get("parse", "").startswith("ok")


def _hostclass(h):
    if h == "":
        return "empty"
    if "/" in h or "@" in h:
        return "hostile"
    if "%" in h and ":" in h:
        return "ipv6zone"
    if ":" in h:
        return "ipv6"
    if all(c in string.digits + "." for c in h):
        return "ipv4"
    if all(c in ALNUM + "-." for c in h):
        return "dns"
    return "odd"


def tag(case, impl):
    d = _fields(impl or "")
    if case.startswith("rt"):
        try:
            g = _groups(case)
            return f"rt:{_hostclass(g[0][2])}:{'parent' if len(g) > 1 else 'noparent'}:valid={d.get('valid')}:{d.get('parse', '?').split(',')[0]}"
        except Exception:
            return "rt:?"
    return "ps:" + d.get("parse", "?").split(",")[0]


def oracle(case, impl, judge):
    if impl.startswith("CRASH"):
        return "harness crashed: " + impl
    if "panic" in impl:
        return "panic in the address functions: " + impl[:200]
    if judge is not None and judge != "bad-case":
        return None if judge.startswith("ok") else judge
    # python mirror of Spec.C26.roundtripOK (used when the Lean driver is unavailable)
    if not case.startswith("rt"):
        return None
    d = _fields(impl)
    if d.get("valid") != "1":
        return None
    g = _groups(case)
    n, s, h, p = g[0]
    if (n, s, h, p) == ("", "", "", 0):
        return None  # the NoSender sentinel is not an actor address (Props.C26_sentinel_corner)
    pn = ""
    if len(g) > 1 and g[1] != ("", "", "", 0):
        pn = g[1][0]
    want = f"ok,{enc(n)},{enc(s)},{enc(h)},{p},{enc(pn)}"
    got = d.get("parse", "")
    if not (got == want or got.startswith(want + ",")) or d.get("hpof") != enc(f"{h}:{p}") + ",1":
        return "bad roundtrip: an address accepted by Validate does not survive its text form"
    return None


def classify(case, impl, why):
    return None

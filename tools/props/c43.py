"""C43 — the producer never outruns the consumer's demand.  Shares C42's model, harness (`c42`) and monitor;
the generators here are biased toward a fast producer, a slow consumer, small windows and stale / reordered
demand grants."""
import importlib.util, os, re

_spec = importlib.util.spec_from_file_location("prop_c42_shared", os.path.join(os.path.dirname(os.path.abspath(__file__)), "c42.py"))
_c42 = importlib.util.module_from_spec(_spec)
_spec.loader.exec_module(_c42)

ID = "C43"
LEAN_MODULES = ["GoaktVerif.Props.C43"]
THEOREMS = [
    "GoaktVerif.C43.C43_holds",
    "GoaktVerif.C43.C43_window",
    "GoaktVerif.C43.C43c_holds",
    "GoaktVerif.C43c.step_ok",
    "GoaktVerif.C43c.handle_ok",
    "GoaktVerif.C42.Inv.step",
    "GoaktVerif.C42.Inv.init",
    "GoaktVerif.C42.PPost.handle",
    "GoaktVerif.C42.CPost.handle",
]
INPKG = ["actor/zz_verif_c42.go"]
HARNESS = "c42"
TIMEOUT = 900
MANIFEST = {
    "level_text": "Kernel-checked for the volatile, unchunked flow (C43_holds, C43_window): in every reachable state of the model of both controllers under any drop / duplicate / reorder / tick / speed schedule of any length, every SequencedMessage the producer controller sends has seq <= the highest requestUpToSeq the consumer controller has sent so far; producer demandUpTo and currentSeq never exceed it; len(buffer) <= window and requestUpToSeq <= confirmedSeq + window after every consumer handler. Same inductive invariant, model, monitor and step-by-step replay of the real handlers as C42. The demand clause is ALSO proved on the chunk-aware model Model/C42c (C43c_holds: every SequencedMessage, whole or chunk, for every chunk size, frame-length sequence, window and script), which is tied to the code by the same replay on chunk-mode cases.",
    "level_note": "The theorems are about the unchunked model (Model/C42). The chunked path is modelled too (Model/C42c: storeChunks, chunk buffering, assembly, structural-violation failures) and tied by the same step-by-step replay plus a chunk-aware monitor, the demand clause is proved there (C43c_holds), order and window are not; there the differential found a violation of the demand clause (after a re-registration chunks were sent beyond every grant); it was repaired in /repo 78360fc (fixes/C43-register-demand.diff), the models follow the repaired code, the witness stays in the corpus and reverting the fix is seeded/C43-revert-register-demand. Durable queue and controller restart remain outside the model. Observation recorded in design/C43.md: the bound is protected twice (credit gating in allowNextRequest and the seq > demandUpTo test in emitSequenced); removing only the latter breaks the correspondence but no input violates the property.",
    "technique": "Lean 4 inductive invariant over all fault schedules of an executable model of both controllers + per-step differential replay of the real handlers",
}
TRUSTED = list(_c42.TRUSTED)
RULE = ("scripts of 20..240 ops, windows 1..6 (and 20), fast-producer / slow-consumer profiles with duplicated, "
        "dropped and reordered demand grants and sequenced messages; non-trivial = the producer controller emitted "
        "at least one SequencedMessage; distinct by (case, output)")

compare = _c42.compare


def classify(case, impl, why):
    # C43-F1 (chunks sent beyond every grant after a re-registration) was fixed in /repo 78360fc: no failure is
    # accepted as known any more
    return None


def gen_cases(rng, tier):
    n = 260 if tier == "quick" else 4000
    cases = [_c42.CLEAN,
             # fill a window of 2 before anything is delivered, then deliver out of order
             "2 0 dcp0 dpc0 dcp0 up up up up up up dpc1 dpc0 uc1 uc1 dcp0 dcp0 up up up up dpc0 dpc0"]
    for _ in range(n // 4):
        cases.append(_c42.chunk_case(rng, lambda: _c42.gen_script(rng, rng.choice([40, 100, 200]), rng.choice([0.0, 0.1, 0.3]), rng.choice(["fastprod", "pcheavy"]))))
    for _ in range(n):
        w = rng.choice([1, 1, 2, 2, 2, 3, 3, 4, 6, 20])
        dc = rng.choice([0, 1])
        ln = rng.choice([20, 60, 120, 240])
        rate = rng.choice([0.0, 0.1, 0.2, 0.35])
        prof = rng.choice(["fastprod", "fastprod", "fair", "ticky"])
        cases.append(f"{w} {dc} " + " ".join(_c42.gen_script(rng, ln, rate, prof)))
    return cases


def search_cases(rng, tier):
    cases = []
    for _ in range(1500 if tier == "quick" else 6000):
        w = rng.choice([1, 1, 2, 2, 3, 4])
        cases.append(f"{w} {rng.choice([0, 1])} " + " ".join(
            _c42.gen_script(rng, rng.choice([60, 120, 240]), rng.choice([0.05, 0.2, 0.4]), rng.choice(["fastprod", "fair", "ticky"]))))
    return cases


SEQD = re.compile(r"SC?\((\d+),(\d+),(\d+),(\d+)[,\d]*\)")
REQ = re.compile(r"Q\((\d+),(\d+),(\d+),(\d+),(\d+)\)")


def oracle(case, impl, judge):
    if impl.startswith("CRASH") or impl.startswith("panic") or impl.startswith("setup-error"):
        return "harness failed: " + impl[:200]
    if any(o[:2] in ("fw", "ff") for o in case.split()[2:]):
        return None    # forged messages: differential only, the links are not faithful (see Driver/C42c.lean)
    if judge is not None:
        return _c42.judge_verdict(judge, ("demand:", "window:"))
    # mirror of the demand/window part of Spec.C42.Mon (used only when the Lean driver is unavailable)
    maxreq = 0
    for seg in impl.split(";"):
        for tok in seg.split():
            if tok.startswith("cp:"):
                for m in REQ.findall(tok):
                    maxreq = max(maxreq, int(m[3]))
            if tok.startswith("pc:"):
                for m in SEQD.findall(tok):
                    if int(m[2]) > maxreq:
                        return f"demand: SequencedMessage seq={m[2]} beyond the highest requested sequence {maxreq}"
        m = re.search(r"C\{w=(\d+) .* conf=(\d+) upto=(\d+) buf=\[([^\]]*)\]", seg)
        if m:
            w, conf, upto, buf = int(m.group(1)), int(m.group(2)), int(m.group(3)), m.group(4)
            if (len(buf.split(",")) if buf else 0) > w or upto > conf + w:
                return "window: buffer or granted demand exceeds the window"
    return None


def sent(impl):
    return [int(m[2]) for seg in impl.split(";") for tok in seg.split() if tok.startswith("pc:") for m in SEQD.findall(tok)]


def is_trivial(case, impl):
    return not sent(impl or "")


def tag(case, impl):
    s = sent(impl or "")
    bufmax = 0
    for m in re.finditer(r"buf=\[([^\]]*)\]", impl or ""):
        bufmax = max(bufmax, len(m.group(1).split(",")) if m.group(1) else 0)
    return f"w={case.split()[0]} sent={'0' if not s else '1-5' if len(s) < 6 else '6+'} maxbuf={bufmax if bufmax < 3 else '3+'}"

"""C21 — routers distribute according to their strategy (E1/E2 differential on the real ring and a real router actor)."""
ID = "C21"
LEAN_MODULES = ["GoaktVerif.Props.C21"]
THEOREMS = [
    "GoaktVerif.C21.ring_lookup_succ",
    "GoaktVerif.C21.ring_order_irrelevant",
    "GoaktVerif.C21.ring_minimal_disruption",
    "GoaktVerif.C21.vnodesOf_remove",
    "GoaktVerif.C21.ch_stable",
    "GoaktVerif.C21.fanout_exactly_once",
    "GoaktVerif.C21.fanout_only_routees",
    "GoaktVerif.C21.available_sorted",
    "GoaktVerif.C21.rr_holds",
    "GoaktVerif.C21.C21_holds",
]
INPKG = ["actor/zz_verif_c21.go"]
TIMEOUT = 900
MANIFEST = {
    "level_text": "Kernel-checked theorems over a model of actor/router.go (Go map iteration order is an input of every step). Round-robin: for every cursor value (hence any number of earlier messages; the cursor is kept modulo the pool size, nothing wraps) and every sequence of map iteration orders, message j goes to routee sigma[(cursor+j) mod n] of the sorted routee list: cyclic, nothing dropped (rr_holds, induction over any number of messages; available_sorted: the slice does not depend on the iteration order). Fan-out tells every running routee exactly once (fanout_exactly_once). Consistent hash: lookup returns the owner of the successor vnode (ring_lookup_succ), independent of the order the members come out of the map (ring_order_irrelevant); rebuilding the ring without a member only moves keys that member owned (ring_minimal_disruption), for every vnode set with pairwise distinct hashes and any hasher; equal keys go to the same routee while ring, map and owner are unchanged (ch_stable). C21_holds states the full property.",
    "level_note": "Tie: differential only (go2lean cannot translate routeByStrategy: switch statement and method calls). The model sorts the slice by routee index, the code by routee ID string: identical for the pools of at most 10 routees the harness uses. The real consistentHashRing is driven in-package with a table hasher (all hashes chosen by the generator, including collisions and wrap-around positions) and compared with the Lean ring; with the default xxh3 hasher the harness reports every vnode/key hash and the Lean ring re-computes each lookup (judge). A real router actor in a real actor system is driven in-package on the caller's goroutine while the router is idle (availableRoutees + dispatchToRoutees with a ReceiveContext whose self is the router, counter preset through an accessor): the slice order of every message is OBSERVED, the Lean model supplies index / map contents / stopped routees. Not covered: the mailbox path from Tell(router, Broadcast) to handleBroadcast, scatter-gather and tail-chopping routers, random routing, scale up/down, restart/resume directives; hash collisions (hypothesis of the ring theorems, checked on every case).",
    "technique": "Lean 4 proofs (induction, successor characterisation of sort+binary-search) over a hand model + model/implementation differential on the real ring and a real router actor + spec oracle",
}
TRUSTED = [
    "hand model of routeByStrategy/availableRoutees/consistentHashRing (Model/C21.lean), tied by the differential only",
    "sort.Search on a sorted slice = first index whose element satisfies the predicate; slices.Sort sorts (model: insertion sort)",
    "Go map assignment semantics (last writer wins) and that ranging over a map yields each entry once in some order (the order is observed)",
    "PID.Tell to a running local actor enqueues before returning; a request/response round trip is used as a barrier before reading deliveries",
    "xxh3 is a parameter: the theorems assume pairwise distinct vnode hashes, the judge checks that on every generated case",
]
RULE = ("ring: 0..6 members x vn 1..4 with generator-chosen hashes (small ranges to force neighbours, 0, 2^64-1, occasional collisions), 1..8 keys, "
        "optional removal; xring/ch: real xxh3, 1..7 members (and pools of 12..21 with >= 11 vnodes and 150..300 keys), vn 1..8 and 150, removal of each index, second build in reversed member order; rr: pools 1..7, counter presets "
        "0, 2^31, 2^32-3..2^32-1 and random, 1..12 messages, optional stops; fan: pools 1..6 with stops; "
        "non-trivial = at least one lookup/delivery; distinct by (case, output)")


# ---------------------------------------------------------------------------
# token helpers
# ---------------------------------------------------------------------------

def _fields(tok):
    d = {}
    for kv in tok.split(";"):
        if "=" in kv:
            k, v = kv.split("=", 1)
            d[k] = v
    return d


def _ints(s):
    return [int(x) for x in s.split(",") if x != ""]


def compare(case, impl, model):
    if model == "*":
        return None
    op = case.split()[0]
    if op == "ring":
        return None if impl == model else f"impl={impl!r} model={model!r}"
    if op in ("rr", "fan"):
        it, mt = impl.split(), model.split()
        if len(it) != len(mt):
            return f"token count differs: impl={impl!r} model={model!r}"
        for a, b in zip(it, mt):
            if a.startswith("o="):
                fa, fb = _fields(a), _fields(b)
                try:
                    order, ids, dead = _ints(fa.get("o", "")), _ints(fb.get("s", "")), set(_ints(fb.get("d", "")))
                except ValueError:
                    return f"unparsable token {a!r} / {b!r}"
                if order != ids:
                    return f"slice {order} is not the sorted list of running routees {ids} the model expects ({a} vs {b})"
                if fa.get("z") != fb.get("z"):
                    return f"map size after the call differs ({a} vs {b})"
                i = fb.get("i")
                if i == "fan":
                    want = ",".join(str(x) for x in sorted(x for x in order if x not in dead))
                elif i in ("panic", "noroutees"):
                    want = i
                else:
                    t = order[int(i)]
                    want = "dead" if t in dead else str(t)
                if fa.get("r") != want:
                    return f"receiver {fa.get('r')!r}, model expects {want!r} ({a} vs {b})"
            elif a != b:
                return f"impl token {a!r} model token {b!r}"
        return None
    return None if impl == model else f"impl={impl!r} model={model!r}"


# ---------------------------------------------------------------------------
# python mirror of the judge (search mode) and classification
# ---------------------------------------------------------------------------

def _rr_anomalies(case, impl):
    """list of (kind, message index, detail) on a rr case"""
    f = case.split()
    n, start, ops = int(f[1]), int(f[2]), f[3:]
    toks = [t for t in impl.split() if t.startswith("o=")]
    out = []
    recv = []
    orders = []
    for j, t in enumerate(toks):
        d = _fields(t)
        r = d.get("r", "")
        recv.append(r)
        orders.append(d.get("o", ""))
        if r == "panic":
            out.append(("panic", j, ""))
        elif r == "dead":
            out.append(("dead", j, ""))
        elif r in ("none", ""):
            out.append(("lost", j, r))
    if not out and not any(o.startswith("k") for o in ops):
        ok = all(r.isdigit() for r in recv if r != "noroutees") and "noroutees" not in recv
        if ok:
            ok = all(recv[j + n] == recv[j] for j in range(len(recv) - n)) and len(set(recv[:n])) == min(n, len(recv))
        if not ok:
            out.append(("order", 0, "fixed-slice" if len(set(orders)) <= 1 else "slice-order-varies"))
    return out, (n, start, ops)


def _py_oracle(case, impl):
    op = case.split()[0]
    if op == "rr":
        an, _ = _rr_anomalies(case, impl)
        if not an:
            return None
        k = an[0][0]
        return {"panic": "bad a routed message hit a panic in the router (message lost)",
                "dead": "bad a message was told to a stopped routee that availableRoutees had just deleted from the map (message lost)",
                "lost": "bad a routed message was delivered to nobody",
                "order": "bad receivers do not follow one fixed cyclic order of the routees"}[k]
    if op == "fan":
        f = case.split()
        n, ops = int(f[1]), f[3:]
        toks = impl.split()
        dead = set()
        for o, t in zip(ops, toks):
            if o == "m":
                try:
                    recv = _ints(_fields(t).get("r", ""))
                except ValueError:
                    return "bad unparsable receivers " + t
                if sorted(recv) != [i for i in range(n) if i not in dead]:
                    return "bad fan-out receivers are not every running routee exactly once"
            else:
                dead.add(int(o[1:]))
        return None
    if op == "ring":
        parts = impl.split(" | ")
        if len(parts) != 2:
            return None
        f = case.split()
        rm = f[f.index("!") + 1]
        hs = []
        for t in f[2:f.index("/")]:
            hs += [x for x in t.split(":", 1)[1].split(",") if x]
        if len(set(hs)) != len(hs):
            return None
        for a, b in zip(parts[0].split(), parts[1].split()):
            if a != b and a != rm:
                return "bad a key moved although the removed member did not own it"
        return None
    if op in ("xring", "ch"):
        # without the Lean ring only the cheap parts: stability, and moved keys were owned by the removed routee
        rm = case.split()[-1]
        rounds = impl.split(" | ")
        owners = []
        for rd in rounds:
            if " K" not in rd:
                return "bad unparsable: " + rd[:80]
            dump = rd.split(" K", 1)[0].split()
            if len(dump) == 2 and dump[1] != "-":
                hs = [p.split("=")[0] for p in dump[1].split(",")]
                if len(set(hs)) != len(hs):
                    return "bad a ring point belongs to more than one virtual node (vnode keys collide): removing a routee can move keys it did not own"
            ks = rd.split(" K", 1)[1].split()
            cur = {}
            for k in ks:
                j, _, r = k.split(":")
                if "~" in r:
                    return "bad equal keys went to different routees"
                if r in ("none", "panic"):
                    return "bad a routed message was delivered to nobody"
                cur[j] = r
            owners.append(cur)
        if len(owners) == 2:
            for j, r in owners[0].items():
                if owners[1].get(j) != r and r != rm:
                    return f"bad key {j} moved although the removed routee did not own it"
        return None
    return None


def oracle(case, impl, judge):
    if impl is None:
        return None
    if impl.startswith("CRASH") or impl.startswith("panic"):
        return "harness crashed: " + impl[:200]
    if judge is not None and not judge.startswith("CRASH"):
        return None if judge.startswith("ok") else judge
    try:
        return _py_oracle(case, impl)
    except (ValueError, IndexError) as e:
        return f"bad unparsable output ({e}): {impl[:120]}"


def classify(case, impl, why):
    """C21-F1: panic exactly at the message whose counter value wraps to 0 (pool >= 2);
    C21-F2: every message delivered, but the receivers are not cyclic AND the observed slice order differs between messages;
    C21-F3: a message went to a routee stopped by a `k` op that the slice still contained."""
    if not case.startswith("rr ") or not impl:
        return None
    an, (n, start, ops) = _rr_anomalies(case, impl)
    if not an:
        return None
    toks = [t for t in impl.split() if t.startswith("o=")]
    kinds = []
    killed = set()
    mi = -1
    kill_at = {}
    for o in ops:
        if o == "m":
            mi += 1
        else:
            kill_at[int(o[1:])] = mi + 1     # stopped before message index mi+1
    for kind, j, detail in an:
        if kind == "panic":
            size = len(_ints(_fields(toks[j]).get("o", "")))
            if (start + j + 1) % 2**32 == 0 and size >= 2:
                kinds.append("C21-F1")
            else:
                return None
        elif kind == "dead":
            order = _ints(_fields(toks[j]).get("o", ""))
            if any(k in order and kill_at[k] <= j for k in kill_at):
                kinds.append("C21-F3")
            else:
                return None
        elif kind == "order" and detail == "slice-order-varies":
            kinds.append("C21-F2")
        else:
            return None
    for k in ("C21-F1", "C21-F3", "C21-F2"):
        if k in kinds:
            return k
    return None


def is_trivial(case, impl):
    return impl in ("", "bad-case", "-") or impl.startswith("CRASH") or impl.startswith("panic") or impl.startswith("bad-case")


def tag(case, impl):
    f = case.split()
    t = f[0]
    if t == "rr" and impl:
        if "r=panic" in impl:
            t += ":panic"
        elif "r=dead" in impl:
            t += ":dead"
    if t in ("ring", "xring", "ch") and impl and " | " in impl:
        t += ":rm"
    return t


# ---------------------------------------------------------------------------
# generators
# ---------------------------------------------------------------------------

U64 = 2**64 - 1


def _hash(rng, mode):
    if mode == "small":
        return rng.randrange(0, 40)
    if mode == "edge":
        return rng.choice([0, 1, 2, U64, U64 - 1, 2**63, 2**63 - 1, 2**32, rng.randrange(U64)])
    return rng.randrange(U64 + 1)


def _ring_case(rng):
    nm = rng.choice([0, 1, 1, 2, 2, 3, 3, 4, 5, 6])
    vn = rng.randint(1, 4)
    mode = rng.choice(["small", "small", "edge", "wide"])
    distinct = rng.random() < 0.8
    used = set()

    def fresh():
        for _ in range(200):
            h = _hash(rng, mode)
            if not distinct or h not in used:
                used.add(h)
                return h
        h = rng.randrange(U64 + 1)
        used.add(h)
        return h
    ms = [f"m{i}:" + ",".join(str(fresh()) for _ in range(vn)) for i in range(nm)]
    rng.shuffle(ms)   # the order members come out of the routee map is arbitrary
    nk = rng.randint(1, 8)
    ks = []
    for j in range(nk):
        r = rng.random()
        if r < 0.3 and used:
            h = rng.choice(sorted(used)) + rng.choice([-1, 0, 1])
            h = max(0, min(U64, h))
        else:
            h = _hash(rng, mode)
        ks.append(f"k{j}:{h}")
    line = f"ring {vn} " + " ".join(ms) + " / " + " ".join(ks)
    if nm and rng.random() < 0.7:
        line += f" ! m{rng.randrange(nm)}"
    return " ".join(line.split())


COUNTERS = [0, 1, 2, 2**31 - 1, 2**31, 2**32 - 13, 2**32 - 4, 2**32 - 3, 2**32 - 2, 2**32 - 1]


def _rr_case(rng, op="rr"):
    n = rng.choice([1, 2, 2, 3, 3, 4, 5, 7])
    start = rng.choice(COUNTERS + [rng.randrange(2**32)]) if op == "rr" else 0
    ops = []
    alive = list(range(n))
    for _ in range(rng.randint(1, 12)):
        if rng.random() < 0.12 and len(alive) > 1:
            k = rng.choice(alive)
            alive.remove(k)
            ops.append(f"k{k}")
        else:
            ops.append("m")
    if "m" not in ops:
        ops.append("m")
    return f"{op} {n} {start} " + " ".join(ops)


def gen_cases(rng, tier):
    nring, nx, nch, nrr, nfan = (250, 30, 14, 40, 12) if tier == "quick" else (6000, 600, 150, 600, 150)
    cases = []
    for _ in range(nring):
        cases.append(_ring_case(rng))
    for i in range(nx):
        nm = rng.randint(1, 7)
        vn = rng.choice([1, 2, 3, 8, 8, 150]) if i % 10 else 150
        cases.append(f"xring {vn} {nm} {rng.randint(1, 12)} s{rng.randrange(10**6)} {rng.choice([-1] + list(range(nm)))}")
    # larger pools (routee names ...Routee1 / ...Routee1x share prefixes) with at least 11 vnodes each and many keys
    for i in range(3 if tier == "quick" else 40):
        nm = rng.choice([12, 13, 14, 21])
        cases.append(f"xring {rng.choice([11, 12, 20, 150])} {nm} {rng.choice([150, 300])} s{rng.randrange(10**6)} {rng.choice([1, 5, 11, nm - 1])}")
    cases.append(f"ch 12 {rng.choice([12, 20])} 6 {rng.choice([1, 5, 11])}")
    for _ in range(nch):
        nm = rng.randint(1, 6)
        cases.append(f"ch {nm} {rng.choice([1, 3, 8, 150])} {rng.randint(1, 8)} {rng.choice([-1] + list(range(nm)))}")
    for _ in range(nrr):
        cases.append(_rr_case(rng))
    for _ in range(nfan):
        cases.append(_rr_case(rng, "fan"))
    return cases


def search_cases(rng, tier):
    cases = []
    for n in range(1, 9):
        for s in COUNTERS:
            cases.append(f"rr {n} {s} " + " ".join(["m"] * (2 * n + 4)))
        cases.append(f"fan {n} 0 m m")
    return cases + gen_cases(rng, "thorough" if tier == "thorough" else "quick") + [_ring_case(rng) for _ in range(3000)]

"""C47 — the circuit breaker follows its state machine (simulation proof + atomic-level race witness + E2 differential)."""
ID = "C47"
LEAN_MODULES = ["GoaktVerif.Props.C47"]
THEOREMS = [
    "GoaktVerif.C47.C47_holds",
    "GoaktVerif.C47.semInv_reach",
    "GoaktVerif.C47.pcStep_legal",
    "GoaktVerif.C47.clauseClose_holds",
    "GoaktVerif.C47.C47_residual",
    "GoaktVerif.C47.atomic_acquire_eq",
    "GoaktVerif.C47.atomic_finish_eq",
    "GoaktVerif.C47.rw_rotate1",
    "GoaktVerif.C47.rw_advance",
    "GoaktVerif.C47.rw_bump",
    "GoaktVerif.C47.tryAcquire_sim",
    "GoaktVerif.C47.record_sim",
    "GoaktVerif.C47.finish_sim",
    "GoaktVerif.C47.cstep_refines",
    "GoaktVerif.C47.crun_refines",
    "GoaktVerif.C47.acquire_legal",
    "GoaktVerif.C47.observe_state",
    "GoaktVerif.C47.acquire_probes",
    "GoaktVerif.C47.C47_call_level",
]
import os as _os


def _hooks():
    """the H/C operations issue the NEXT CALL a preempted caller would make; which function that is
    depends on the code: guarded openToHalfOpen()/halfOpenToClosed() (after fix 42b281d) or the old
    toHalfOpen()/toClosed().  Probe the current source so that a regression still builds and is
    caught with a concrete input instead of a build failure."""
    repo = _os.environ.get("VERIF_REPO", "/repo")
    try:
        src = open(_os.path.join(repo, "breaker", "breaker.go")).read()
    except OSError:
        src = ""
    legacy = "openToHalfOpen()" not in src and "func (b *CircuitBreaker) toHalfOpen()" in src
    return "breaker/zz_verif_c47_legacy.go" if legacy else "breaker/zz_verif_c47_guarded.go"


INPKG = ["breaker/zz_verif_c47.go", _hooks()]
MANIFEST = {
    "level_text": "C47_holds (kernel-checked, atomic-level interleaving model of the code after fix 42b281d: one step per shared-memory access — the unlocked State() read, openToHalfOpen(), halfOpenToClosed(), toOpen(), buckets.add and the semaphore select each as one critical section; ANY options, ANY number of threads, EVERY schedule, any clock behaviour): every state change is an edge of the state machine (Open is left only for HalfOpen and only when openUntil <= now; openUntil does not move while Open; HalfOpen->Closed only by a record that found enough samples below the threshold), half-open tokens in use = threads holding one <= halfOpenMaxCalls, record's evaluation opens exactly when total >= minRequests and fail*q >= p*total on the post-advance window, a caller whose locked check finds Open and now < openUntil is rejected without effect. atomic_acquire_eq/atomic_finish_eq: one undisturbed thread's atomic steps are exactly the call-level tryAcquire / record+release. C47_call_level: at the call level (callers overlapping arbitrarily, any history length) the model of breaker.go + bucket.go (ring buffer, cursor, advance, hard reset, totals, semaphore, transitions, Metrics, Sanitize) refines answer by answer a textbook spec machine over a queue-shaped rolling window (crun_refines; ring = queue by rw_rotate1/rw_advance/rw_bump) whose edges, reject rule, open/close conditions (observe_state) and probe bound are proved. Tie: the real CircuitBreaker with WithClock, callers as goroutines parked inside their protected function (deterministic overlap), compared with the model after EVERY operation on state, openUntil, tokens, cursor, lastUpdate, lastFailure/lastSuccess, every bucket and the sanitized options; the spec machine is evaluated on the implementation's observations; the former race witnesses (fixed finding C47-F1) are replayed on every run.",
    "level_note": "Stated limit, proved as C47_residual: the admission decision is taken on an unlocked read, so a caller that read HalfOpen can still win a half-open token right after a concurrent probe re-opened the breaker (bounded by halfOpenMaxCalls; changes no state) — `rejects every call while open` holds for callers whose check happens while Open, not for that one. The differential exercises the real code at call granularity; steps inside tryAcquire/record are reached only through the H/C hooks, which issue the next call a preempted caller would make (no source instrumentation). Float threshold: rates dyadic k/2^m (m<=6), counts < 2^20, for which the float comparison equals the rational test (TRUSTED). Execute's fallback plumbing, error values and Validate() are outside the model.",
    "technique": "Lean 4 simulation proof against a spec state machine + small-step interleaving model with a refutation witness + model/implementation differential",
}
TRUSTED = [
    "failureRate is dyadic k/2^m (m <= 6) and window counts stay < 2^20 in the differential, for which `float64(fail)/float64(total) >= rate` equals the exact test fail*q >= p*total "
    "(a nonzero difference |fail/total - k/2^m| is >= 2^-26, far above half an ulp, and correctly-rounded division is monotone); the model uses the exact rational test",
    "sync/atomic and sync.Mutex are sequentially consistent; the atomic-level model interleaves at each atomic load/store, critical section and channel operation",
    "int64 nanosecond arithmetic does not overflow (model uses unbounded Int); uint64 counters do not wrap",
    "the H / C operations are issued by an in-package hook calling the next function a preempted caller would call (openToHalfOpen()/halfOpenToClosed(); "
    "toHalfOpen()/toClosed() on pre-42b281d code, selected by a probe of breaker.go); before the fix a goroutine stress run observed the stale transition 961 times in 1.1e6 rounds, after it 0 times in 6e5",
]
RULE = ("options: dyadic rates p/q (q | 64) incl. 0, 1 and invalid ones, minRequests 1..6 (and invalid), small openTimeout / window / buckets so that "
        "bucket boundaries, stale windows and open timeouts are all hit; histories of begin/finish with unique caller ids (sequential and overlapping), "
        "outcomes ok/error/panic/deadline/cancel, clock steps biased to bucket and timeout boundaries, Metrics() and pre-cancelled calls; "
        "non-trivial = at least one admitted call; distinct by (case, output)")
ORACLE_NEEDS_JUDGE = False


def _cfg(rng, invalid_ok=True):
    q = rng.choice([1, 2, 2, 4, 4, 8, 16, 64])
    p = rng.randint(0, q)
    if rng.random() < 0.15:
        p = rng.choice([0, q])
    mr = rng.choice([1, 1, 2, 3, 4, 6])
    ot = rng.choice([5, 10, 10, 50])
    win, nb = rng.choice([(10, 1), (10, 2), (20, 4), (60, 3), (100, 5), (12, 12), (7, 3), (3, 5)])
    hm = rng.choice([1, 1, 2, 3])
    if invalid_ok and rng.random() < 0.12:
        k = rng.randrange(6)
        if k == 0:
            p = rng.choice([-1, q + 1])
        elif k == 1:
            mr = rng.choice([0, -3])
        elif k == 2:
            ot = rng.choice([0, -5])
        elif k == 3:
            win = 0
        elif k == 4:
            nb = rng.choice([0, -1])
        else:
            hm = 0
    return p, q, mr, ot, win, nb, hm


def _history(rng, cfg, n, overlap):
    p, q, mr, ot, win, nb, hm = cfg
    ot_e = ot if ot > 0 else 30_000_000_000
    win_e = win if win > 0 else 60_000_000_000
    nb_e = nb if nb >= 1 else 12
    bn = max(win_e // nb_e, 1)
    ticks = [0, 1, 1, bn - 1, bn, bn + 1, 2 * bn, ot_e - 1, ot_e, ot_e + 1, bn * nb_e - 1, bn * nb_e, bn * nb_e + bn, 3]
    ticks = [t for t in ticks if 0 <= t < 10**12] or [1]
    ops, live, nxt = [], [], 0
    bias_fail = rng.random()
    for _ in range(n):
        r = rng.random()
        if r < 0.42:
            ops.append(f"b{nxt}")
            live.append(nxt)
            nxt += 1
            if not overlap or rng.random() < 0.5:
                i = live.pop()
                o = "f" if rng.random() < bias_fail else "s"
                if rng.random() < 0.12:
                    o = rng.choice("pdc")
                ops.append(f"e{i}{o}")
        elif r < 0.62 and live:
            i = live.pop(rng.randrange(len(live)))
            o = "f" if rng.random() < bias_fail else "s"
            if rng.random() < 0.12:
                o = rng.choice("pdc")
            ops.append(f"e{i}{o}")
        elif r < 0.90:
            ops.append(f"t{rng.choice(ticks)}")
        elif r < 0.94:
            ops.append("m")
        elif r < 0.96:
            ops.append("x")
        else:
            ops.append("H")  # a preempted caller's openToHalfOpen(): must act only on Open past its deadline
    for i in live:
        if rng.random() < 0.7:
            ops.append(f"e{i}{rng.choice('sf')}")
    return ops


def gen_cases(rng, tier):
    n = 400 if tier == "quick" else 8000
    cases = []
    for _ in range(n):
        cfg = _cfg(rng)
        ops = _history(rng, cfg, rng.randint(5, 70), overlap=rng.random() < 0.6)
        cases.append(" ".join(map(str, cfg)) + f" {rng.choice([0, 0, 1000, -7])} " + " ".join(ops))
    return cases


def search_cases(rng, tier):
    cases = []
    for _ in range(3000):
        cfg = _cfg(rng, invalid_ok=False)
        ops = _history(rng, cfg, rng.randint(3, 30), overlap=rng.random() < 0.5)
        cases.append(" ".join(map(str, cfg)) + " 0 " + " ".join(ops))
    return cases + gen_cases(rng, "quick")


def compare(case, impl, model):
    return None if impl == model else f"impl={impl[:400]!r} model={model[:400]!r}"


def is_trivial(case, impl):
    return "A0|" not in impl and "A1|" not in impl


def tag(case, impl):
    sts = {t.split("|")[1][0] for t in impl.split()[1:] if "|" in t}
    return "states:" + "".join(sorted(sts))


# ---- python mirror of Spec.C47 (used only when the Lean judge is unavailable) ----

def _py_judge(case, impl):
    f = case.split()
    try:
        p, q, mr, ot, win, nb, hm, now = (int(x) for x in f[:8])
    except ValueError:
        return None
    if not (0 <= p <= q):
        p, q = 1, 2
    mr = mr if mr >= 1 else 10
    ot = ot if ot > 0 else 30_000_000_000
    win = win if win > 0 else 60_000_000_000
    nb = nb if nb >= 1 else 12
    hm = hm if hm >= 1 else 1
    bn = max(win // nb, 1)
    toks = impl.split()
    exp_cfg = f"cfg:{p * 64 // q},{mr},{ot},{bn},{nb},{hm}"
    if not toks or toks[0] != exp_cfg:
        return f"options: breaker runs with {toks[0] if toks else ''}, documented sanitization gives {exp_cfg}"
    state, open_until, probes = "C", 0, 0
    wq, lu = [[0, 0] for _ in range(nb)], now
    infl = {}

    def advance():
        nonlocal wq, lu
        el = now - lu
        if el < bn:
            return
        steps = el // bn
        if steps >= nb:
            wq, lu = [[0, 0] for _ in range(nb)], now
        else:
            for _ in range(steps):
                wq = [[0, 0]] + wq[:-1]
            lu += steps * bn

    def fresh():
        nonlocal wq, lu
        wq, lu = [[0, 0] for _ in range(nb)], now
    if len(toks) - 1 != len(f) - 8:
        return "wrong number of answers"
    for n, (op, tok) in enumerate(zip(f[8:], toks[1:])):
        prev_state, prev_ou = state, open_until
        expect = "."
        if op[0] == "b":
            i = int(op[1:])
            if i in infl:
                expect = "?"
            elif state == "C":
                infl[i] = False
                expect = "A0"
            else:
                if state == "O" and now >= open_until:
                    state = "H"
                    fresh()
                if state == "H" and probes < hm:
                    probes += 1
                    infl[i] = True
                    expect = "A1"
                else:
                    expect = "R"
        elif op[0] == "e":
            i, o = int(op[1:-1]), op[-1]
            if i not in infl:
                expect = "?"
            else:
                tokn = infl.pop(i)
                if o != "c":
                    advance()
                    wq[0][0 if o == "s" else 1] += 1
                    s, fl = sum(b[0] for b in wq), sum(b[1] for b in wq)
                    if s + fl >= mr:
                        if p * (s + fl) <= fl * q:
                            if state != "O":
                                state, open_until = "O", now + ot
                        elif state == "H":
                            state = "C"
                            fresh()
                if tokn:
                    probes -= 1
        elif op == "m":
            advance()
            expect = f"{sum(b[0] for b in wq)}/{sum(b[1] for b in wq)}"
        elif op[0] == "t":
            now += int(op[1:])
        elif op == "H":
            if state == "O" and now >= open_until:
                state = "H"
                fresh()
        elif op == "C":
            if state == "H":
                state = "C"
                fresh()
        try:
            ans, d = tok.split("|")
            st, ou, sem, _cur, _lu, _lf, _ls, bs = d.split(",")
            bl = [tuple(int(x) for x in b.split("/")) for b in bs.split(";")]
        except ValueError:
            return f"op#{n}: unparsable observation {tok}"
        if st != state:
            kind = "wrong-state"
            if prev_state == "O" and st == "H" and now < prev_ou:
                kind = "stale-transition Open->HalfOpen before openUntil"
            elif prev_state == "O" and st == "C":
                kind = "stale-transition Open->Closed (no such edge)"
            elif prev_state == "C" and st == "H":
                kind = "stale-transition Closed->HalfOpen (no such edge)"
            return f"op#{n}: {kind}: breaker is {st}, the state machine is {state}"
        if state == "O" and int(ou) != open_until:
            return f"op#{n}: openUntil {ou}, expected {open_until}"
        if int(sem) != probes:
            return f"op#{n}: {sem} half-open tokens held, {probes} probes in flight"
        if int(_lu) != lu:
            return f"op#{n}: window aligned at {_lu}, the rolling window's newest bucket starts at {lu}"
        if (sum(b[0] for b in bl), sum(b[1] for b in bl)) != (sum(b[0] for b in wq), sum(b[1] for b in wq)):
            return f"op#{n}: window totals differ from the rolling window"
        if ans != expect:
            return f"op#{n}: answered {ans}, the state machine says {expect}"
    return None


def oracle(case, impl, judge):
    if impl.startswith("CRASH") or impl.startswith("panic"):
        return "implementation failed: " + impl
    if impl == "bad-case":
        return None
    if judge is not None:
        return None if judge.startswith("ok") else judge
    return _py_judge(case, impl)


def classify(case, impl, why):
    return None  # C47-F1 is fixed (42b281d); a stale transition is a violation again


def shrink(case):
    f = case.split()
    head, ops = f[:8], f[8:]
    n = len(ops)
    for size in (n // 2, n // 4, 4, 2, 1):
        if size < 1:
            continue
        for i in range(0, n, size):
            cand = ops[:i] + ops[i + size:]
            if cand and len(cand) < n:
                yield " ".join(head + cand)

#!/bin/sh
# run every claimed check (quick tier) sequentially; usage: tools/run_all.sh [seed] > log
cd "$(dirname "$0")/.."
SEED=${1:-1}
for p in $(python3 -c "import json;print(' '.join(c['property_id'] for c in json.load(open('MANIFEST.json'))['checks']))"); do
  s=$(date +%s)
  VERIF_SEED=$SEED VERIF_TIER=quick python3 tools/check.py $p --tier quick > build/runall_$p.log 2>&1
  rc=$?
  e=$(date +%s)
  echo "$p rc=$rc $((e-s))s $(grep -c '^KNOWN-FINDING' build/runall_$p.log) known $(grep '^VIOLATION' build/runall_$p.log | head -1)"
done
echo ALL-DONE

module go2lean

go 1.23

// go2lean: a deliberately tiny translator from a subset of Go (integer
// arithmetic, comparisons, if/return, := and = on locals) to Lean 4 definitions
// over fixed-width integers.  It is syntactic (go/ast only) with a local type
// inference; anything outside the subset is a hard error, never a default.
//
// usage: go2lean spec.json out.lean
//
// spec.json: {"namespace": "GoaktVerif.Gen.X", "targets": [ ... ]}
// target kinds:
//
//	{"kind":"func","file":"actor/pid.go","func":"backoffDelay","lean":"backoffDelay"}
//	    whole function; receiver-less or method ("T.m"); params typed from the signature
//	{"kind":"return_index","file":..,"func":"RoundRobin.Next","lean":"rrIndex",
//	 "binds":[["n","n","uint32"],["len(x.nodes)","len","int"]]}
//	    the index expression e of the (single) `return a[e]` in the function, as a
//	    function of the bound sub-expressions (printed Go form -> Lean name, Go type)
//	{"kind":"const","file":..,"name":"localQueueCap","lean":"localQueueCap"}
//	    an integer constant (literal or simple constant expression)
//	{"kind":"block","file":..,"func":"router.routeByStrategy","case":"RoundRobinRouting","lean":"rrStep",
//	 "binds":[..],"fieldvars":[..],"skip":[..],"results":["idx","next"]}
//	    the body of the switch case whose label list contains the expression `case` (printed Go form),
//	    as a function of binds/fieldvars/atomics; the result is the tuple of the final values of `results`
//	{"kind":"if_cond","file":..,"func":"PID.handleRestartDirective","match":"faults > int64(maxRetries)","lean":"budgetExceeded","binds":[..]}
//	    the condition (with its init statement) of the unique `if` in the function whose printed condition
//	    contains `match`, as a Bool function of the binds
//
// statement subset (func/block): := and = on locals and field variables, op-assign, ++/--, if/else (with an
// init statement), switch on a tag or tagless (no fallthrough), return of one value or of several (a tuple),
// var declarations, `for i := a; i < n; i++ {..}` with a straight-line/if body (needs "fuel": the loop
// becomes a structurally recursive local function over a Nat fuel parameter), and for the expressions
// listed under "atomics": X.Load(), X.Store(e), X.Inc(), X.Dec(), X.Add(e), `return X.Inc()`.
// "return_state": true makes every return yield (result, fieldvars.., atomics..).
package main

import (
	"bytes"
	"encoding/json"
	"fmt"
	"go/ast"
	"go/parser"
	"go/printer"
	"go/token"
	"os"
	"path/filepath"
	"strconv"
	"strings"
)

type target struct {
	Kind  string     `json:"kind"`
	File  string     `json:"file"`
	Func  string     `json:"func"`
	Name  string     `json:"name"`
	Lean  string     `json:"lean"`
	Binds [][]string `json:"binds"`
	// Types overrides/adds Go types for named params or locals (name -> go type)
	Types map[string]string `json:"types"`
	// Consts maps identifiers (package-level constants) that may be referenced to go types;
	// they are resolved from the same file/package directory.
	Ret string `json:"ret"`
	// Skip: statements (printed Go form) that are dropped (locks, defers).
	Skip []string `json:"skip"`
	// FieldVars: selector expressions treated as mutable state: [goExpr, leanName, goType].
	// They become parameters, and (with ReturnIndex) part of the result tuple.
	FieldVars [][]string `json:"fieldvars"`
	// ReturnIndex: `return a[e]` yields e (plus the final field values as a tuple).
	ReturnIndex bool `json:"return_index"`
	// Atomics: expressions of an atomic integer type treated as mutable state: [goExpr, leanName, goType];
	// goExpr.Load()/Store(e)/Inc()/Dec()/Add(e) read and write the variable.
	Atomics [][]string `json:"atomics"`
	// ReturnState: every return yields (result, fieldvars..., atomics...).
	ReturnState bool `json:"return_state"`
	// Case / Results: kind "block". Match: kind "if_cond".
	Case    string   `json:"case"`
	Results []string `json:"results"`
	Match   string   `json:"match"`
	// Fuel: name of a Nat parameter that bounds `for` loops (added to the signature).
	Fuel string `json:"fuel"`
}

type spec struct {
	Root      string   `json:"root"`
	Namespace string   `json:"namespace"`
	Targets   []target `json:"targets"`
}

func die(f string, a ...any) {
	fmt.Fprintf(os.Stderr, "go2lean: "+f+"\n", a...)
	os.Exit(2)
}

var fset = token.NewFileSet()

func src(n ast.Node) string {
	var b bytes.Buffer
	printer.Fprint(&b, fset, n)
	return b.String()
}

// ---- types ---------------------------------------------------------------

var leanTy = map[string]string{
	"int64": "Int64", "int": "Int64", "time.Duration": "Int64", "Duration": "Int64",
	"int32": "Int32", "uint32": "UInt32", "uint64": "UInt64", "uint": "UInt64",
	"uint8": "UInt8", "byte": "UInt8", "uint16": "UInt16", "int16": "Int16", "int8": "Int8",
	"bool": "Bool", "uintptr": "UInt64",
}

func lty(g string) string {
	t, ok := leanTy[g]
	if !ok {
		die("unsupported Go type %q", g)
	}
	return t
}

func bits(g string) int {
	switch lty(g) {
	case "Int64", "UInt64":
		return 64
	case "Int32", "UInt32":
		return 32
	case "Int16", "UInt16":
		return 16
	case "Int8", "UInt8":
		return 8
	}
	die("no width for %q", g)
	return 0
}

func signed(g string) bool { return strings.HasPrefix(lty(g), "Int") }

type env struct {
	vars   map[string]string // go name -> go type
	binds  map[string][2]string
	consts map[string]constInfo
	ret    string
	skip   map[string]bool
	fvars  [][]string
	retIdx bool
	// additions
	atomics  map[string][2]string // go expr -> lean name, go type
	state    []string             // lean names returned along with the result when retState
	retState bool
	retTypes []string // go types of a multi-value result
	fuel     string
	loops    int
}

// atomicCall recognises X.M(args) where X is listed under "atomics".
func (v *env) atomicCall(e ast.Expr) (name, typ, method string, args []ast.Expr, ok bool) {
	c, isCall := e.(*ast.CallExpr)
	if !isCall {
		return
	}
	sel, isSel := c.Fun.(*ast.SelectorExpr)
	if !isSel {
		return
	}
	a, found := v.atomics[src(sel.X)]
	if !found {
		return
	}
	return a[0], a[1], sel.Sel.Name, c.Args, true
}

// atomicUpdate translates X.Store(e) / X.Inc() / X.Dec() / X.Add(e) / X.Sub(e) into the new value of X.
func (v *env) atomicUpdate(name, typ, method string, args []ast.Expr, where string) string {
	switch {
	case method == "Store" && len(args) == 1:
		r, t := v.expr(args[0], typ)
		if t != "untyped" && lty(t) != lty(typ) {
			die("type mismatch in %s", where)
		}
		return r
	case method == "Inc" && len(args) == 0:
		return fmt.Sprintf("(%s + %s)", name, litOf("1", typ))
	case method == "Dec" && len(args) == 0:
		return fmt.Sprintf("(%s - %s)", name, litOf("1", typ))
	case (method == "Add" || method == "Sub") && len(args) == 1:
		r, t := v.expr(args[0], typ)
		if t != "untyped" && lty(t) != lty(typ) {
			die("type mismatch in %s", where)
		}
		op := "+"
		if method == "Sub" {
			op = "-"
		}
		return fmt.Sprintf("(%s %s %s)", name, op, r)
	}
	die("unsupported atomic operation %s", where)
	return ""
}

func (v *env) withState(r string) string {
	if !v.retState {
		return r
	}
	return "(" + strings.Join(append([]string{r}, v.state...), ", ") + ")"
}

// assigned collects the names assigned (not declared) inside stmts.
func assigned(stmts []ast.Stmt, v *env, out map[string]bool) {
	for _, s := range stmts {
		ast.Inspect(s, func(n ast.Node) bool {
			switch x := n.(type) {
			case *ast.AssignStmt:
				if x.Tok != token.DEFINE {
					for _, l := range x.Lhs {
						if id, ok := l.(*ast.Ident); ok {
							out[id.Name] = true
						} else if b, ok := v.binds[src(l)]; ok {
							out[b[0]] = true
						}
					}
				}
			case *ast.IncDecStmt:
				if id, ok := x.X.(*ast.Ident); ok {
					out[id.Name] = true
				}
			case *ast.ExprStmt:
				if name, _, _, _, ok := v.atomicCall(x.X); ok {
					out[name] = true
				}
			case *ast.ReturnStmt, *ast.BranchStmt:
				die("return/break/continue inside a for loop is not supported")
			}
			return true
		})
	}
}

type constInfo struct {
	val string
	typ string // "" = untyped
}

// conversion from go type a to go type b of lean expression e
func conv(e, from, to string) string {
	lf, lt := lty(from), lty(to)
	if lf == lt {
		return e
	}
	if lf == "Bool" || lt == "Bool" {
		die("bool conversion")
	}
	// Go integer conversion: sign- or zero-extend from the SOURCE signedness, then truncate.
	// Lean: IntN.toIntM sign-extends/truncates; UIntN.toUIntM zero-extends/truncates;
	// IntN.toUIntN / UIntN.toIntN reinterpret at the same width.
	sf, st := signed(from), signed(to)
	bf, bt := bits(from), bits(to)
	switch {
	case sf && st:
		return fmt.Sprintf("(%s).to%s", e, lt)
	case !sf && !st:
		return fmt.Sprintf("(%s).to%s", e, lt)
	case sf && !st:
		// extend signed to target width as signed, then reinterpret
		mid := fmt.Sprintf("Int%d", bt)
		if bf == bt {
			return fmt.Sprintf("(%s).to%s", e, lt)
		}
		return fmt.Sprintf("((%s).to%s).to%s", e, mid, lt)
	default: // !sf && st
		mid := fmt.Sprintf("UInt%d", bt)
		if bf == bt {
			return fmt.Sprintf("(%s).to%s", e, lt)
		}
		return fmt.Sprintf("((%s).to%s).to%s", e, mid, lt)
	}
}

// ---- expressions ---------------------------------------------------------

// expr translates e; want is the go type demanded by context ("" = infer).
// returns lean text and go type ("untyped" for untyped constants).
func (v *env) expr(e ast.Expr, want string) (string, string) {
	if b, ok := v.binds[src(e)]; ok {
		return b[0], b[1]
	}
	switch x := e.(type) {
	case *ast.ParenExpr:
		s, t := v.expr(x.X, want)
		return "(" + s + ")", t
	case *ast.BasicLit:
		if x.Kind != token.INT {
			die("unsupported literal %s", x.Value)
		}
		n, err := strconv.ParseInt(x.Value, 0, 64)
		if err != nil {
			u, err2 := strconv.ParseUint(x.Value, 0, 64)
			if err2 != nil {
				die("bad int literal %s", x.Value)
			}
			return litOf(fmt.Sprint(u), want), orUntyped(want)
		}
		return litOf(fmt.Sprint(n), want), orUntyped(want)
	case *ast.Ident:
		if x.Name == "true" || x.Name == "false" {
			return x.Name, "bool"
		}
		if t, ok := v.vars[x.Name]; ok {
			return x.Name, t
		}
		if c, ok := v.consts[x.Name]; ok {
			if c.typ != "" {
				return litOf(c.val, c.typ), c.typ
			}
			return litOf(c.val, want), orUntyped(want)
		}
		die("unknown identifier %s", x.Name)
	case *ast.SelectorExpr:
		// math.MaxInt64 etc.
		s := src(x)
		switch s {
		case "math.MaxInt64":
			return litOf("9223372036854775807", want), orUntyped(want)
		case "math.MaxUint32":
			return litOf("4294967295", want), orUntyped(want)
		case "math.MaxInt32":
			return litOf("2147483647", want), orUntyped(want)
		case "time.Nanosecond":
			return litOf("1", "int64"), "int64"
		case "time.Microsecond":
			return litOf("1000", "int64"), "int64"
		case "time.Millisecond":
			return litOf("1000000", "int64"), "int64"
		case "time.Second":
			return litOf("1000000000", "int64"), "int64"
		case "time.Minute":
			return litOf("60000000000", "int64"), "int64"
		case "time.Hour":
			return litOf("3600000000000", "int64"), "int64"
		}
		die("unsupported selector %s", s)
	case *ast.UnaryExpr:
		switch x.Op {
		case token.SUB:
			s, t := v.expr(x.X, want)
			if t == "untyped" {
				die("negated untyped constant without context: %s", src(e))
			}
			return "(0 - " + s + ")", t
		case token.NOT:
			s, _ := v.expr(x.X, "bool")
			return "(!" + s + ")", "bool"
		case token.XOR:
			s, t := v.expr(x.X, want)
			return "(~~~" + s + ")", t
		}
		die("unsupported unary %s", x.Op)
	case *ast.CallExpr:
		if name, typ, method, args, ok := v.atomicCall(x); ok {
			if method == "Load" && len(args) == 0 {
				return name, typ
			}
			die("atomic operation %s is only supported as a statement or as `return X.Inc()`", src(e))
		}
		if sel, ok := x.Fun.(*ast.SelectorExpr); ok && len(x.Args) == 0 && sel.Sel.Name == "Nanoseconds" {
			// time.Duration.Nanoseconds() is int64(d)
			r, t := v.expr(sel.X, "time.Duration")
			if t == "time.Duration" || t == "Duration" {
				return r, "int64"
			}
			die("Nanoseconds() on a non-Duration %s", src(e))
		}
		// conversion T(x)
		fn := src(x.Fun)
		if _, ok := leanTy[fn]; ok && len(x.Args) == 1 {
			s, t := v.expr(x.Args[0], "")
			if t == "untyped" {
				s2, _ := v.expr(x.Args[0], fn)
				return s2, fn
			}
			return conv(s, t, fn), fn
		}
		switch fn {
		case "min", "max":
			if len(x.Args) != 2 {
				die("min/max arity")
			}
			a, ta := v.expr(x.Args[0], want)
			b, tb := v.expr(x.Args[1], want)
			t := unify(ta, tb, src(e))
			if ta == "untyped" {
				a, _ = v.expr(x.Args[0], t)
			}
			if tb == "untyped" {
				b, _ = v.expr(x.Args[1], t)
			}
			if fn == "min" {
				return fmt.Sprintf("(if %s ≤ %s then %s else %s)", a, b, a, b), t
			}
			return fmt.Sprintf("(if %s ≥ %s then %s else %s)", a, b, a, b), t
		}
		die("unsupported call %s", src(e))
	case *ast.BinaryExpr:
		return v.binary(x, want)
	}
	die("unsupported expression %s (%T)", src(e), e)
	return "", ""
}

func orUntyped(w string) string {
	if w == "" {
		return "untyped"
	}
	return w
}

func litOf(val, gt string) string {
	if gt == "" || gt == "untyped" {
		return val // caller must re-translate with a type
	}
	neg := strings.HasPrefix(val, "-")
	if neg {
		return fmt.Sprintf("((0 : %s) - (%s : %s))", lty(gt), val[1:], lty(gt))
	}
	return fmt.Sprintf("(%s : %s)", val, lty(gt))
}

func unify(a, b, where string) string {
	if a == "untyped" && b == "untyped" {
		die("cannot type constant expression %s", where)
	}
	if a == "untyped" {
		return b
	}
	if b == "untyped" {
		return a
	}
	if lty(a) != lty(b) {
		die("type mismatch %s vs %s in %s", a, b, where)
	}
	return a
}

func (v *env) binary(x *ast.BinaryExpr, want string) (string, string) {
	switch x.Op {
	case token.LAND, token.LOR:
		a, _ := v.expr(x.X, "bool")
		b, _ := v.expr(x.Y, "bool")
		op := "&&"
		if x.Op == token.LOR {
			op = "||"
		}
		return fmt.Sprintf("(%s %s %s)", a, op, b), "bool"
	case token.EQL, token.NEQ, token.LSS, token.LEQ, token.GTR, token.GEQ:
		a, ta := v.expr(x.X, "")
		b, tb := v.expr(x.Y, "")
		t := unify(ta, tb, src(x))
		if ta == "untyped" {
			a, _ = v.expr(x.X, t)
		}
		if tb == "untyped" {
			b, _ = v.expr(x.Y, t)
		}
		op := map[token.Token]string{token.EQL: "==", token.NEQ: "!=", token.LSS: "<", token.LEQ: "≤", token.GTR: ">", token.GEQ: "≥"}[x.Op]
		if op == "==" || op == "!=" {
			return fmt.Sprintf("(%s %s %s)", a, op, b), "bool"
		}
		return fmt.Sprintf("(decide (%s %s %s))", a, op, b), "bool"
	case token.SHL, token.SHR:
		a, ta := v.expr(x.X, want)
		if ta == "untyped" {
			die("untyped shift operand without context: %s", src(x))
		}
		s, ts := v.expr(x.Y, "")
		if ts == "untyped" {
			s, ts = v.expr(x.Y, "uint")
		}
		if signed(ts) {
			die("signed shift count in %s (Go panics on negative counts; not in subset)", src(x))
		}
		cnt := conv(s, ts, "uint64")
		fn := "GoSem.shl"
		if x.Op == token.SHR {
			fn = "GoSem.shr"
		}
		return fmt.Sprintf("(%s%s %s %s)", fn, lty(ta), a, cnt), ta
	case token.ADD, token.SUB, token.MUL, token.QUO, token.REM, token.AND, token.OR, token.XOR, token.AND_NOT:
		a, ta := v.expr(x.X, want)
		b, tb := v.expr(x.Y, want)
		t := unify(ta, tb, src(x))
		if ta == "untyped" {
			a, _ = v.expr(x.X, t)
		}
		if tb == "untyped" {
			b, _ = v.expr(x.Y, t)
		}
		op := map[token.Token]string{token.ADD: "+", token.SUB: "-", token.MUL: "*", token.QUO: "/", token.REM: "%", token.AND: "&&&", token.OR: "|||", token.XOR: "^^^"}[x.Op]
		if x.Op == token.AND_NOT {
			return fmt.Sprintf("(%s &&& ~~~%s)", a, b), t
		}
		return fmt.Sprintf("(%s %s %s)", a, op, b), t
	}
	die("unsupported binary op %s", x.Op)
	return "", ""
}

// ---- statements ----------------------------------------------------------

// block translates stmts followed by continuation k (lean text, "" = must return).
func (v *env) block(stmts []ast.Stmt, k string, ind string) string {
	if len(stmts) == 0 {
		if k == "" {
			die("control reaches end of function without return")
		}
		return k
	}
	s := stmts[0]
	rest := stmts[1:]
	if v.skip[src(s)] {
		return v.block(rest, k, ind)
	}
	switch x := s.(type) {
	case *ast.ReturnStmt:
		if len(x.Results) > 1 {
			if len(v.retTypes) != len(x.Results) {
				die("return arity mismatch in %s", src(x))
			}
			var parts []string
			for i, re := range x.Results {
				r, t := v.expr(re, v.retTypes[i])
				if t != "untyped" && lty(t) != lty(v.retTypes[i]) {
					die("return type mismatch in %s", src(x))
				}
				parts = append(parts, r)
			}
			return v.withState("(" + strings.Join(parts, ", ") + ")")
		}
		if len(x.Results) != 1 {
			die("only single-value return supported")
		}
		if name, typ, method, args, ok := v.atomicCall(x.Results[0]); ok && method != "Load" {
			nv := v.atomicUpdate(name, typ, method, args, src(x))
			if v.ret != "" && lty(typ) != lty(v.ret) {
				die("return type mismatch %s vs %s", typ, v.ret)
			}
			return fmt.Sprintf("let %s : %s := %s\n%s%s", name, lty(typ), nv, ind, v.withState(name))
		}
		if v.retIdx {
			ie, ok := x.Results[0].(*ast.IndexExpr)
			if !ok {
				die("return_index: `return a[e]` expected, got %s", src(x))
			}
			r, t := v.expr(ie.Index, "int")
			if t == "untyped" {
				t = "int"
			}
			parts := []string{conv(r, t, "int")}
			for _, fv := range v.fvars {
				parts = append(parts, fv[1])
			}
			return "(" + strings.Join(parts, ", ") + ")"
		}
		r, t := v.expr(x.Results[0], v.ret)
		if t == "untyped" {
			r, t = v.expr(x.Results[0], v.ret)
		}
		if v.ret != "" && lty(t) != lty(v.ret) {
			die("return type mismatch %s vs %s", t, v.ret)
		}
		return v.withState(r)
	case *ast.ExprStmt:
		if name, typ, method, args, ok := v.atomicCall(x.X); ok && method != "Load" {
			nv := v.atomicUpdate(name, typ, method, args, src(x))
			return fmt.Sprintf("let %s : %s := %s\n%s%s", name, lty(typ), nv, ind, v.block(rest, k, ind))
		}
		die("unsupported expression statement: %s", src(x))
	case *ast.SwitchStmt:
		if x.Init != nil {
			y := *x
			y.Init = nil
			return v.block(append([]ast.Stmt{x.Init, &y}, rest...), k, ind)
		}
		// switch -> if chain; the default clause goes last wherever it was written
		var chain ast.Stmt
		var clauses []*ast.CaseClause
		var def *ast.CaseClause
		for _, c := range x.Body.List {
			cc := c.(*ast.CaseClause)
			if cc.List == nil {
				def = cc
			} else {
				clauses = append(clauses, cc)
			}
		}
		if def != nil {
			chain = &ast.BlockStmt{List: def.Body}
		}
		for i := len(clauses) - 1; i >= 0; i-- {
			cc := clauses[i]
			var cond ast.Expr
			for _, ce := range cc.List {
				var one ast.Expr = ce
				if x.Tag != nil {
					one = &ast.BinaryExpr{X: x.Tag, Op: token.EQL, Y: ce}
				}
				if cond == nil {
					cond = one
				} else {
					cond = &ast.BinaryExpr{X: cond, Op: token.LOR, Y: one}
				}
			}
			chain = &ast.IfStmt{Cond: cond, Body: &ast.BlockStmt{List: cc.Body}, Else: chain}
		}
		if chain == nil {
			return v.block(rest, k, ind)
		}
		return v.block(append([]ast.Stmt{chain}, rest...), k, ind)
	case *ast.ForStmt:
		return v.forLoop(x, rest, k, ind)
	case *ast.AssignStmt:
		if len(x.Lhs) != 1 || len(x.Rhs) != 1 {
			die("only single assignment supported: %s", src(x))
		}
		id, ok := x.Lhs[0].(*ast.Ident)
		if !ok {
			if b, isf := v.binds[src(x.Lhs[0])]; isf && v.isFieldVar(b[0]) {
				id, ok = ast.NewIdent(b[0]), true
			}
		}
		if !ok {
			die("assignment to non-local %s", src(x))
		}
		var rhs, t string
		switch x.Tok {
		case token.DEFINE:
			rhs, t = v.expr(x.Rhs[0], v.hint(id.Name))
			if t == "untyped" {
				rhs, t = v.expr(x.Rhs[0], "int")
			}
			v.vars[id.Name] = t
		case token.ASSIGN:
			vt, ok := v.vars[id.Name]
			if !ok {
				die("assignment to unknown %s", id.Name)
			}
			rhs, t = v.expr(x.Rhs[0], vt)
			if lty(t) != lty(vt) {
				die("assignment type mismatch in %s", src(x))
			}
		default:
			// op-assign: x op= e
			vt, ok := v.vars[id.Name]
			if !ok {
				die("assignment to unknown %s", id.Name)
			}
			opTok := map[token.Token]token.Token{token.ADD_ASSIGN: token.ADD, token.SUB_ASSIGN: token.SUB, token.MUL_ASSIGN: token.MUL,
				token.SHL_ASSIGN: token.SHL, token.SHR_ASSIGN: token.SHR, token.OR_ASSIGN: token.OR, token.AND_ASSIGN: token.AND,
				token.QUO_ASSIGN: token.QUO, token.REM_ASSIGN: token.REM, token.XOR_ASSIGN: token.XOR}[x.Tok]
			if opTok == 0 {
				die("unsupported assignment op in %s", src(x))
			}
			rhs, t = v.binary(&ast.BinaryExpr{X: id, Op: opTok, Y: x.Rhs[0]}, vt)
		}
		return fmt.Sprintf("let %s : %s := %s\n%s%s", id.Name, lty(t), rhs, ind, v.block(rest, k, ind))
	case *ast.IncDecStmt:
		id, ok := x.X.(*ast.Ident)
		if !ok {
			die("inc/dec of non-local")
		}
		vt := v.vars[id.Name]
		op := "+"
		if x.Tok == token.DEC {
			op = "-"
		}
		return fmt.Sprintf("let %s : %s := %s %s 1\n%s%s", id.Name, lty(vt), id.Name, op, ind, v.block(rest, k, ind))
	case *ast.IfStmt:
		if x.Init != nil {
			y := *x
			y.Init = nil
			return v.block(append([]ast.Stmt{x.Init, &y}, rest...), k, ind)
		}
		c, _ := v.expr(x.Cond, "bool")
		kk := ""
		if len(rest) > 0 || k != "" {
			kk = v.block(rest, k, ind+"  ")
		}
		saved := copyVars(v.vars)
		thenB := v.block(x.Body.List, kk, ind+"  ")
		v.vars = copyVars(saved)
		var elseB string
		switch el := x.Else.(type) {
		case nil:
			if kk == "" {
				die("control reaches end of function without return")
			}
			elseB = kk
		case *ast.BlockStmt:
			elseB = v.block(el.List, kk, ind+"  ")
		case *ast.IfStmt:
			elseB = v.block([]ast.Stmt{el}, kk, ind+"  ")
		}
		v.vars = saved
		// NOTE: assignments inside a branch that falls through are handled by
		// duplicating the continuation (kk) into both branches, which is exact.
		return fmt.Sprintf("if %s then\n%s  %s\n%selse\n%s  %s", c, ind, thenB, ind, ind, elseB)
	case *ast.DeclStmt:
		gd := x.Decl.(*ast.GenDecl)
		if gd.Tok != token.VAR || len(gd.Specs) != 1 {
			die("unsupported decl %s", src(x))
		}
		vs := gd.Specs[0].(*ast.ValueSpec)
		if len(vs.Names) != 1 {
			die("unsupported decl %s", src(x))
		}
		t := src(vs.Type)
		init := litOf("0", t)
		if len(vs.Values) == 1 {
			init, _ = v.expr(vs.Values[0], t)
		}
		v.vars[vs.Names[0].Name] = t
		return fmt.Sprintf("let %s : %s := %s\n%s%s", vs.Names[0].Name, lty(t), init, ind, v.block(rest, k, ind))
	case *ast.BlockStmt:
		return v.block(append(append([]ast.Stmt{}, x.List...), rest...), k, ind)
	}
	die("unsupported statement: %s (%T)", src(s), s)
	return ""
}

// forLoop: `for i := a; i < n; i++ { body }` (also <=, i += c) with a body free of return/break/continue.
// The loop becomes `let rec loopN (fuel : Nat) (i) (state..) := match fuel with | 0 => state | fuel+1 =>
// if cond then body; loopN fuel (post i) state' else state`, called with the target's fuel parameter.
func (v *env) forLoop(x *ast.ForStmt, rest []ast.Stmt, k string, ind string) string {
	if v.fuel == "" {
		die("for loop needs a \"fuel\" parameter in the spec")
	}
	init, ok := x.Init.(*ast.AssignStmt)
	if !ok || init.Tok != token.DEFINE || len(init.Lhs) != 1 || x.Cond == nil || x.Post == nil {
		die("unsupported for loop shape: %s", src(x))
	}
	iv := init.Lhs[0].(*ast.Ident).Name
	initE, it := v.expr(init.Rhs[0], "int")
	if it == "untyped" {
		initE, it = v.expr(init.Rhs[0], "int")
		it = "int"
	}
	set := map[string]bool{}
	assigned(x.Body.List, v, set)
	delete(set, iv)
	var st []string
	for name := range set {
		if _, ok := v.vars[name]; !ok {
			die("loop assigns unknown variable %s", name)
		}
		st = append(st, name)
	}
	sortStrings(st)
	saved := copyVars(v.vars)
	v.vars[iv] = it
	v.loops++
	fn := fmt.Sprintf("loop%d", v.loops)
	tuple := func(names []string) string {
		if len(names) == 0 {
			return "()"
		}
		if len(names) == 1 {
			return names[0]
		}
		return "(" + strings.Join(names, ", ") + ")"
	}
	var params, tys []string
	params = append(params, fmt.Sprintf("(%s : %s)", iv, lty(it)))
	for _, n := range st {
		params = append(params, fmt.Sprintf("(%s : %s)", n, lty(v.vars[n])))
		tys = append(tys, lty(v.vars[n]))
	}
	rty := "Unit"
	if len(tys) > 0 {
		rty = strings.Join(tys, " × ")
	}
	cond, _ := v.expr(x.Cond, "bool")
	in2 := ind + "      "
	// post statement is appended to the body; the continuation is the recursive call
	call := fn + " fuel " + iv
	for _, n := range st {
		call += " " + n
	}
	body := v.block(append(append([]ast.Stmt{}, x.Body.List...), x.Post), call, in2)
	v.vars = saved
	cont := v.block(rest, k, ind)
	bind := tuple(st)
	callInit := fn + " " + v.fuel + " " + initE
	for _, n := range st {
		callInit += " " + n
	}
	res := fmt.Sprintf("let rec %s (fuel : Nat) %s : %s :=\n%s  match fuel with\n%s  | 0 => %s\n%s  | fuel + 1 =>\n%s    if %s then\n%s      %s\n%s    else\n%s      %s\n%s",
		fn, strings.Join(params, " "), rty, ind, ind, tuple(st), ind, ind, cond, ind, body, ind, ind, tuple(st), ind)
	if len(st) == 0 {
		return res + cont
	}
	return res + fmt.Sprintf("let %s := %s\n%s%s", bind, callInit, ind, cont)
}

// addExtras registers atomics, the state list and the fuel parameter; returns the extra parameters.
func (v *env) addExtras(t target) []string {
	var params []string
	v.atomics = map[string][2]string{}
	for _, fv := range t.FieldVars {
		v.state = append(v.state, fv[1])
	}
	for _, a := range t.Atomics {
		v.atomics[a[0]] = [2]string{a[1], a[2]}
		v.vars[a[1]] = a[2]
		v.state = append(v.state, a[1])
		params = append(params, fmt.Sprintf("(%s : %s)", a[1], lty(a[2])))
	}
	if t.Fuel != "" {
		v.fuel = t.Fuel
		params = append(params, fmt.Sprintf("(%s : Nat)", t.Fuel))
	}
	return params
}

// newEnv builds the environment of the kinds that have no Go signature (block, if_cond).
func newEnv(t target, consts map[string]constInfo) (*env, []string) {
	v := &env{vars: map[string]string{}, binds: map[string][2]string{}, consts: consts, skip: map[string]bool{}}
	var params []string
	for _, b := range t.Binds {
		v.binds[b[0]] = [2]string{b[1], b[2]}
		params = append(params, fmt.Sprintf("(%s : %s)", b[1], lty(b[2])))
	}
	for _, sk := range t.Skip {
		v.skip[sk] = true
	}
	for _, fv := range t.FieldVars {
		v.binds[fv[0]] = [2]string{fv[1], fv[2]}
		v.vars[fv[1]] = fv[2]
		params = append(params, fmt.Sprintf("(%s : %s)", fv[1], lty(fv[2])))
	}
	v.fvars = t.FieldVars
	params = append(params, v.addExtras(t)...)
	return v, params
}

// blockThen translates stmts and then the Bool expression e in the scope they leave.
func (v *env) blockThen(stmts []ast.Stmt, e ast.Expr, ind string) string {
	if len(stmts) == 0 {
		c, _ := v.expr(e, "bool")
		return c
	}
	as, ok := stmts[0].(*ast.AssignStmt)
	if !ok || as.Tok != token.DEFINE || len(as.Lhs) != 1 || len(as.Rhs) != 1 {
		die("unsupported init statement %s", src(stmts[0]))
	}
	id := as.Lhs[0].(*ast.Ident)
	rhs, t := v.expr(as.Rhs[0], "")
	if t == "untyped" {
		rhs, t = v.expr(as.Rhs[0], "int")
	}
	v.vars[id.Name] = t
	return fmt.Sprintf("let %s : %s := %s\n%s%s", id.Name, lty(t), rhs, ind, v.blockThen(stmts[1:], e, ind))
}

func sortStrings(a []string) {
	for i := 1; i < len(a); i++ {
		for j := i; j > 0 && a[j] < a[j-1]; j-- {
			a[j], a[j-1] = a[j-1], a[j]
		}
	}
}

func (v *env) hint(string) string { return "" }

func (v *env) isFieldVar(lean string) bool {
	for _, fv := range v.fvars {
		if fv[1] == lean {
			return true
		}
	}
	return false
}

func copyVars(m map[string]string) map[string]string {
	r := map[string]string{}
	for k, x := range m {
		r[k] = x
	}
	return r
}

// ---- driver --------------------------------------------------------------

func findFunc(f *ast.File, name string) *ast.FuncDecl {
	recv, fn := "", name
	if i := strings.Index(name, "."); i >= 0 {
		recv, fn = name[:i], name[i+1:]
	}
	for _, d := range f.Decls {
		fd, ok := d.(*ast.FuncDecl)
		if !ok || fd.Name.Name != fn {
			continue
		}
		if recv == "" && fd.Recv == nil {
			return fd
		}
		if recv != "" && fd.Recv != nil && len(fd.Recv.List) == 1 {
			t := src(fd.Recv.List[0].Type)
			t = strings.TrimPrefix(t, "*")
			if i := strings.Index(t, "["); i >= 0 {
				t = t[:i]
			}
			if t == recv {
				return fd
			}
		}
	}
	return nil
}

func pkgConsts(dir string) map[string]constInfo {
	out := map[string]constInfo{}
	pkgs, err := parser.ParseDir(fset, dir, func(fi os.FileInfo) bool { return !strings.HasSuffix(fi.Name(), "_test.go") }, 0)
	if err != nil {
		die("parse dir %s: %v", dir, err)
	}
	// named integer types (type routerKind int): constants of such a type take the underlying type
	named := map[string]string{}
	for _, p := range pkgs {
		for _, f := range p.Files {
			for _, d := range f.Decls {
				gd, ok := d.(*ast.GenDecl)
				if !ok || gd.Tok != token.TYPE {
					continue
				}
				for _, s := range gd.Specs {
					ts := s.(*ast.TypeSpec)
					if u := src(ts.Type); leanTy[u] != "" && u != "bool" {
						named[ts.Name.Name] = u
					}
				}
			}
		}
	}
	for _, p := range pkgs {
		for _, f := range p.Files {
			for _, d := range f.Decls {
				gd, ok := d.(*ast.GenDecl)
				if !ok || gd.Tok != token.CONST {
					continue
				}
				// Go repeats the previous expression list (and type) for specs without values; iota = spec index
				var lastVals []ast.Expr
				var lastType ast.Expr
				for si, s := range gd.Specs {
					vs := s.(*ast.ValueSpec)
					vals, vtype := vs.Values, vs.Type
					if len(vals) == 0 {
						vals, vtype = lastVals, lastType
					} else {
						lastVals, lastType = vals, vtype
					}
					for i, n := range vs.Names {
						if i >= len(vals) {
							continue
						}
						typ := ""
						if vtype != nil {
							typ = src(vtype)
							if u, ok := named[typ]; ok {
								typ = u
							}
						}
						prev, had := out["iota"]
						out["iota"] = constInfo{val: fmt.Sprint(si)}
						val, ok := constEval(vals[i], out)
						if had {
							out["iota"] = prev
						} else {
							delete(out, "iota")
						}
						if ok {
							if _, known := leanTy[typ]; typ != "" && !known {
								continue
							}
							out[n.Name] = constInfo{val: val, typ: typ}
						}
					}
				}
			}
		}
	}
	return out
}

func constEval(e ast.Expr, known map[string]constInfo) (string, bool) {
	switch x := e.(type) {
	case *ast.BasicLit:
		if x.Kind == token.INT {
			n, err := strconv.ParseInt(x.Value, 0, 64)
			if err == nil {
				return fmt.Sprint(n), true
			}
		}
	case *ast.ParenExpr:
		return constEval(x.X, known)
	case *ast.Ident:
		if c, ok := known[x.Name]; ok {
			return c.val, true
		}
	case *ast.SelectorExpr:
		m := map[string]string{"time.Nanosecond": "1", "time.Microsecond": "1000", "time.Millisecond": "1000000", "time.Second": "1000000000", "time.Minute": "60000000000", "time.Hour": "3600000000000"}
		if v, ok := m[src(x)]; ok {
			return v, true
		}
	case *ast.CallExpr:
		// integer type conversion of a constant: int64(100 * time.Millisecond)
		if _, isTy := leanTy[src(x.Fun)]; isTy && len(x.Args) == 1 && src(x.Fun) != "bool" {
			return constEval(x.Args[0], known)
		}
	case *ast.BinaryExpr:
		a, ok1 := constEval(x.X, known)
		b, ok2 := constEval(x.Y, known)
		if ok1 && ok2 {
			ai, _ := strconv.ParseInt(a, 10, 64)
			bi, _ := strconv.ParseInt(b, 10, 64)
			switch x.Op {
			case token.ADD:
				return fmt.Sprint(ai + bi), true
			case token.SUB:
				return fmt.Sprint(ai - bi), true
			case token.MUL:
				return fmt.Sprint(ai * bi), true
			case token.SHL:
				return fmt.Sprint(ai << uint(bi)), true
			case token.QUO:
				if bi != 0 {
					return fmt.Sprint(ai / bi), true
				}
			}
		}
	}
	return "", false
}

func main() {
	if len(os.Args) != 3 {
		die("usage: go2lean spec.json out.lean")
	}
	raw, err := os.ReadFile(os.Args[1])
	if err != nil {
		die("%v", err)
	}
	var sp spec
	if err := json.Unmarshal(raw, &sp); err != nil {
		die("spec: %v", err)
	}
	if sp.Root == "" {
		sp.Root = "/repo"
	}
	var out bytes.Buffer
	fmt.Fprintf(&out, "-- GENERATED by tools/go2lean from %s — do not edit; regenerated on every check run.\n", sp.Root)
	fmt.Fprintf(&out, "import GoaktVerif.GoSem\nset_option linter.unusedVariables false\nnamespace %s\nopen GoaktVerif\n\n", sp.Namespace)
	for _, t := range sp.Targets {
		path := filepath.Join(sp.Root, t.File)
		f, err := parser.ParseFile(fset, path, nil, 0)
		if err != nil {
			die("parse %s: %v", path, err)
		}
		consts := pkgConsts(filepath.Dir(path))
		switch t.Kind {
		case "const":
			c, ok := consts[t.Name]
			if !ok {
				die("constant %s not found / not an integer constant in %s", t.Name, filepath.Dir(path))
			}
			fmt.Fprintf(&out, "/-- Go: const %s (%s) -/\ndef %s : Int := %s\n\n", t.Name, t.File, t.Lean, c.val)
		case "func":
			fd := findFunc(f, t.Func)
			if fd == nil {
				die("function %s not found in %s", t.Func, t.File)
			}
			v := &env{vars: map[string]string{}, binds: map[string][2]string{}, consts: consts}
			var params []string
			for _, fld := range fd.Type.Params.List {
				gt := src(fld.Type)
				for _, n := range fld.Names {
					v.vars[n.Name] = gt
					params = append(params, fmt.Sprintf("(%s : %s)", n.Name, lty(gt)))
				}
			}
			for _, b := range t.Binds {
				v.binds[b[0]] = [2]string{b[1], b[2]}
				params = append(params, fmt.Sprintf("(%s : %s)", b[1], lty(b[2])))
			}
			v.skip = map[string]bool{}
			for _, sk := range t.Skip {
				v.skip[sk] = true
			}
			for _, fv := range t.FieldVars {
				v.binds[fv[0]] = [2]string{fv[1], fv[2]}
				v.vars[fv[1]] = fv[2]
				params = append(params, fmt.Sprintf("(%s : %s)", fv[1], lty(fv[2])))
			}
			v.fvars = t.FieldVars
			v.retIdx = t.ReturnIndex
			params = append(params, v.addExtras(t)...)
			if fd.Type.Results == nil || len(fd.Type.Results.List) < 1 {
				die("%s: at least one result required", t.Func)
			}
			var resTypes []string
			for _, fld := range fd.Type.Results.List {
				cnt := len(fld.Names)
				if cnt == 0 {
					cnt = 1
				}
				for i := 0; i < cnt; i++ {
					resTypes = append(resTypes, src(fld.Type))
				}
			}
			retTy := ""
			if t.ReturnIndex {
				if len(resTypes) != 1 {
					die("%s: exactly one result required", t.Func)
				}
				parts := []string{"Int64"}
				for _, fv := range t.FieldVars {
					parts = append(parts, lty(fv[2]))
				}
				retTy = strings.Join(parts, " × ")
			} else if len(resTypes) == 1 {
				v.ret = resTypes[0]
				if t.Ret != "" {
					v.ret = t.Ret
				}
				retTy = lty(v.ret)
			} else {
				v.retTypes = resTypes
				var parts []string
				for _, rt := range resTypes {
					parts = append(parts, lty(rt))
				}
				retTy = strings.Join(parts, " × ")
			}
			if t.ReturnState {
				if t.ReturnIndex {
					die("return_state and return_index are exclusive")
				}
				v.retState = true
				parts := []string{retTy}
				if len(resTypes) > 1 {
					parts = []string{"(" + retTy + ")"}
				}
				for _, n := range v.state {
					parts = append(parts, lty(v.vars[n]))
				}
				retTy = strings.Join(parts, " × ")
			}
			body := v.block(fd.Body.List, "", "  ")
			fmt.Fprintf(&out, "/-- Go: func %s (%s) -/\ndef %s %s : %s :=\n  %s\n\n", t.Func, t.File, t.Lean, strings.Join(params, " "), retTy, body)
		case "return_index":
			fd := findFunc(f, t.Func)
			if fd == nil {
				die("function %s not found in %s", t.Func, t.File)
			}
			var idx ast.Expr
			n := 0
			ast.Inspect(fd.Body, func(nd ast.Node) bool {
				if r, ok := nd.(*ast.ReturnStmt); ok && len(r.Results) >= 1 {
					if ie, ok := r.Results[0].(*ast.IndexExpr); ok {
						idx = ie.Index
						n++
					}
				}
				return true
			})
			if n != 1 {
				die("%s: expected exactly one `return a[e]`, found %d", t.Func, n)
			}
			v := &env{vars: map[string]string{}, binds: map[string][2]string{}, consts: consts}
			var params []string
			for _, b := range t.Binds {
				v.binds[b[0]] = [2]string{b[1], b[2]}
				params = append(params, fmt.Sprintf("(%s : %s)", b[1], lty(b[2])))
			}
			e, ty := v.expr(idx, "int")
			fmt.Fprintf(&out, "/-- Go: index expression `%s` of the return in %s (%s) -/\ndef %s %s : %s :=\n  %s\n\n", src(idx), t.Func, t.File, t.Lean, strings.Join(params, " "), lty(ty), e)
		case "block":
			fd := findFunc(f, t.Func)
			if fd == nil {
				die("function %s not found in %s", t.Func, t.File)
			}
			var body []ast.Stmt
			n := 0
			ast.Inspect(fd.Body, func(nd ast.Node) bool {
				if cc, ok := nd.(*ast.CaseClause); ok {
					for _, e := range cc.List {
						if src(e) == t.Case {
							body = cc.Body
							n++
						}
					}
				}
				return true
			})
			if n != 1 {
				die("%s: expected exactly one `case %s`, found %d", t.Func, t.Case, n)
			}
			if len(t.Results) == 0 {
				die("block target needs \"results\"")
			}
			v, params := newEnv(t, consts)
			k := t.Results[0]
			if len(t.Results) > 1 {
				k = "(" + strings.Join(t.Results, ", ") + ")"
			}
			text := v.block(body, k, "  ")
			var tys []string
			for _, r := range t.Results {
				gt, ok := v.vars[r]
				if !ok {
					die("block result %s is not a variable at the end of `case %s`", r, t.Case)
				}
				tys = append(tys, lty(gt))
			}
			fmt.Fprintf(&out, "/-- Go: body of `case %s` in %s (%s) -/\ndef %s %s : %s :=\n  %s\n\n", t.Case, t.Func, t.File, t.Lean, strings.Join(params, " "), strings.Join(tys, " × "), text)
		case "if_cond":
			fd := findFunc(f, t.Func)
			if fd == nil {
				die("function %s not found in %s", t.Func, t.File)
			}
			var hit *ast.IfStmt
			n := 0
			ast.Inspect(fd.Body, func(nd ast.Node) bool {
				if is, ok := nd.(*ast.IfStmt); ok && strings.Contains(src(is.Cond), t.Match) {
					hit = is
					n++
				}
				return true
			})
			if n != 1 {
				die("%s: expected exactly one `if` whose condition contains %q, found %d", t.Func, t.Match, n)
			}
			v, params := newEnv(t, consts)
			var tnames []string
			for name := range t.Types {
				tnames = append(tnames, name)
			}
			sortStrings(tnames)
			for _, name := range tnames {
				v.vars[name] = t.Types[name]
				params = append(params, fmt.Sprintf("(%s : %s)", name, lty(t.Types[name])))
			}
			text := ""
			if hit.Init == nil {
				text, _ = v.expr(hit.Cond, "bool")
			} else {
				// the condition is the continuation of the init statement
				v2, _ := newEnv(t, consts)
				for name, gt := range t.Types {
					v2.vars[name] = gt
				}
				text = v2.blockThen([]ast.Stmt{hit.Init}, hit.Cond, "  ")
			}
			fmt.Fprintf(&out, "/-- Go: condition `%s` of an if in %s (%s) -/\ndef %s %s : Bool :=\n  %s\n\n", src(hit.Cond), t.Func, t.File, t.Lean, strings.Join(params, " "), text)
		default:
			die("unknown target kind %q", t.Kind)
		}
	}
	fmt.Fprintf(&out, "end %s\n", sp.Namespace)
	if err := os.WriteFile(os.Args[2], out.Bytes(), 0o644); err != nil {
		die("%v", err)
	}
}

#!/usr/bin/env python3
"""check.py <Cnn> [--tier quick|thorough] [--replay FILE]

One entry point for every property.  See DESIGN.md section 2.3.

Steps: regenerate Gen/*.lean from /repo -> lake build the property's theorems and audit
their axioms -> build the Go harness from /repo's working tree (tag `verif`, -overlay) ->
run harness and Lean driver on the same case lines and diff (correspondence) -> evaluate the
spec oracle on the implementation's outputs -> verdict + evidence/<id>.json.

Exit 0: property held on everything explored (KNOWN-FINDING lines allowed).
Exit 1: prints `VIOLATION property=<id> replay=<path>[ no-failing-input-found]`.
"""
import argparse, fcntl, hashlib, importlib.util, json, os, random, re, subprocess, sys, time

VERIF = os.path.dirname(os.path.dirname(os.path.abspath(__file__)))
REPO = os.environ.get("VERIF_REPO", "/repo")
LEAN = os.path.join(VERIF, "lean")
BUILD = os.path.join(VERIF, "build")
sys.path.insert(0, os.path.join(VERIF, "tools"))

GOENV = dict(os.environ)
for k in ("GOSUMDB", "GOTOOLCHAIN"):
    GOENV.pop(k, None)
GOENV.update({"GOFLAGS": "-mod=mod", "GOPROXY": "off"})

ALLOWED_AXIOMS = {"propext", "Classical.choice", "Quot.sound"}
FORBIDDEN = re.compile(r"\bsorry\b|\badmit\b|^\s*axiom\s|native_decide|bv_decide|implemented_by|\bunsafe\s|maxHeartbeats\s+0")

TRUSTED_BASE_COMMON = [
    "Lean 4.33.0 kernel; axioms limited to propext, Classical.choice, Quot.sound (audited by #print axioms on every run)",
    "the statement of each theorem is a faithful reading of the English property (Props/<id>.lean quotes it)",
    "the correspondence check (Go harness built from /repo with -tags verif -overlay, Lean driver, canonicalisers, generators): a differential test, it sees only what it generates",
]


def log(*a):
    print("[check]", *a, file=sys.stderr, flush=True)


def load_prop(pid):
    path = os.path.join(VERIF, "tools", "props", pid.lower() + ".py")
    if not os.path.exists(path):
        sys.exit(f"no property module {path}")
    spec = importlib.util.spec_from_file_location("prop_" + pid, path)
    m = importlib.util.module_from_spec(spec)
    spec.loader.exec_module(m)
    return m


class Lock:
    def __init__(self, name):
        os.makedirs(BUILD, exist_ok=True)
        self.path = os.path.join(BUILD, "." + name + ".lock")

    def __enter__(self):
        self.f = open(self.path, "w")
        fcntl.flock(self.f, fcntl.LOCK_EX)
        return self

    def __exit__(self, *a):
        fcntl.flock(self.f, fcntl.LOCK_UN)
        self.f.close()


def run(cmd, cwd=None, env=None, timeout=1800, inp=None):
    t0 = time.time()
    try:
        p = subprocess.run(cmd, cwd=cwd, env=env, input=inp, stdout=subprocess.PIPE, stderr=subprocess.PIPE,
                           timeout=timeout, text=True, errors="replace")
        return p.returncode, p.stdout, p.stderr, time.time() - t0
    except subprocess.TimeoutExpired as e:
        out = e.stdout if isinstance(e.stdout, str) else (e.stdout or b"").decode(errors="replace")
        err = e.stderr if isinstance(e.stderr, str) else (e.stderr or b"").decode(errors="replace")
        return 124, out, err + "\nTIMEOUT", time.time() - t0


# ---------------------------------------------------------------------------
# step 1+2: regenerate and prove
# ---------------------------------------------------------------------------

def ensure_tool(name):
    """build tools/<name> (a stdlib-only Go program) into build/<name> if missing or stale"""
    srcdir = os.path.join(VERIF, "tools", name)
    out = os.path.join(BUILD, name)
    newest = max(os.path.getmtime(os.path.join(srcdir, f)) for f in os.listdir(srcdir))
    if os.path.exists(out) and os.path.getmtime(out) >= newest:
        return out
    rc, so, se, _ = run(["go", "build", "-o", out, "."], cwd=srcdir, env=GOENV)
    if rc != 0:
        sys.exit(f"cannot build tool {name}: {se}")
    return out


def regenerate(P, result):
    """go2lean / factextract -> lean/GoaktVerif/Gen/<ID>.lean.  Failure = proof obligation broken."""
    specs = getattr(P, "GO2LEAN", None)
    if not specs:
        return True
    tool = ensure_tool("go2lean")
    genpath = os.path.join(LEAN, "GoaktVerif", "Gen", P.ID + ".lean")
    spec = dict(specs)
    spec["root"] = REPO
    spec.setdefault("namespace", "GoaktVerif.Gen." + P.ID)
    sp = os.path.join(BUILD, f"go2lean_{P.ID}.json")
    with open(sp, "w") as f:
        json.dump(spec, f)
    tmp = genpath + ".tmp"
    if os.path.exists(tmp):
        os.remove(tmp)
    rc, so, se, _ = run([tool, sp, tmp])
    if rc != 0:
        result["broken"].append({"kind": "translator", "what": f"go2lean rejected the current source of {P.ID}'s targets", "detail": se.strip()[-2000:]})
        # leave a Gen file that cannot satisfy the tie theorems, so nothing stale is used
        if os.path.exists(genpath):
            os.remove(genpath)
        return False
    new = open(tmp).read()
    old = open(genpath).read() if os.path.exists(genpath) else None
    if new != old:
        os.replace(tmp, genpath)
    else:
        os.remove(tmp)
    return True


def lean_sources_clean(mods):
    bad = []
    for root, _, files in os.walk(os.path.join(LEAN, "GoaktVerif")):
        for fn in files:
            if not fn.endswith(".lean"):
                continue
            p = os.path.join(root, fn)
            txt = open(p).read()
            # strip comments (block and line)
            txt = re.sub(r"/-.*?-/", "", txt, flags=re.S)
            for i, line in enumerate(txt.split("\n")):
                line = line.split("--")[0]
                if FORBIDDEN.search(line):
                    bad.append(f"{p}:{i+1}: {line.strip()[:80]}")
    return bad


def prove(P, result, tier):
    """lake build the property's modules, audit axioms. Returns (obligations, discharged)."""
    theorems = list(P.THEOREMS)
    obligations = len(theorems)
    with Lock("lake"):
        t0 = time.time()
        rc, so, se, dt = run(["lake", "build"] + list(P.LEAN_MODULES), cwd=LEAN, timeout=3000)
        result["timing"]["lake_build_s"] = round(dt, 1)
        if rc != 0:
            msg = (so + se)
            errs = [l for l in msg.split("\n") if "error" in l.lower()][:20]
            result["broken"].append({"kind": "proof", "what": "lake build of " + ",".join(P.LEAN_MODULES) + " failed", "detail": "\n".join(errs) or msg[-2000:]})
            # find which theorems still check: none can be trusted if the module does not build
            return obligations, 0
        audit = os.path.join(BUILD, f"audit_{P.ID}.lean")
        with open(audit, "w") as f:
            for m in P.LEAN_MODULES:
                f.write(f"import {m}\n")
            for th in theorems:
                f.write(f"#print axioms {th}\n")
        rc, so, se, dt = run(["lake", "env", "lean", audit], cwd=LEAN, timeout=1200)
        result["timing"]["audit_s"] = round(dt, 1)
        if tier == "thorough" and rc == 0:
            for m in P.LEAN_MODULES:
                rc2, so2, se2, dt2 = run(["lake", "env", "leanchecker", m], cwd=LEAN, timeout=3000)
                result["timing"]["leanchecker_s"] = round(dt2, 1)
                if rc2 != 0:
                    result["broken"].append({"kind": "proof", "what": f"leanchecker rejected {m}", "detail": (so2 + se2)[-1500:]})
    discharged = 0
    txt = so + se
    axioms_seen = {}
    for th in theorems:
        short = th
        m = re.search(r"'" + re.escape(short) + r"' depends on axioms: \[([^\]]*)\]", txt, flags=re.S)
        if m:
            axs = {a.strip() for a in m.group(1).replace("\n", " ").split(",") if a.strip()}
            axioms_seen[th] = sorted(axs)
            if axs <= ALLOWED_AXIOMS:
                discharged += 1
            else:
                result["broken"].append({"kind": "proof", "what": f"theorem {th} depends on disallowed axioms", "detail": ", ".join(sorted(axs - ALLOWED_AXIOMS))})
        elif re.search(r"'" + re.escape(short) + r"' does not depend on any axioms", txt):
            axioms_seen[th] = []
            discharged += 1
        else:
            result["broken"].append({"kind": "proof", "what": f"theorem {th} not found by the axiom audit", "detail": txt[-800:]})
    bad = lean_sources_clean(P.LEAN_MODULES)
    if bad:
        result["broken"].append({"kind": "proof", "what": "forbidden token in Lean sources", "detail": "\n".join(bad[:10])})
        discharged = 0
    result["axioms"] = axioms_seen
    return obligations, discharged


# ---------------------------------------------------------------------------
# step 3: build harness and driver
# ---------------------------------------------------------------------------

def build_harness(P, result):
    """go build -tags verif -overlay ... ./internal/verifdrv/<id> from /repo's working tree."""
    hname = getattr(P, "HARNESS", P.ID.lower())
    hdir = os.path.join(VERIF, "harness", "verifdrv", hname)
    if not os.path.isdir(hdir):
        return None
    replace = {}
    for fn in os.listdir(hdir):
        if fn.endswith(".go"):
            replace[os.path.join(REPO, "internal", "verifdrv", hname, fn)] = os.path.join(hdir, fn)
    vlib = os.path.join(VERIF, "harness", "verifdrv", "vlib")
    if os.path.isdir(vlib):
        for fn in os.listdir(vlib):
            if fn.endswith(".go"):
                replace[os.path.join(REPO, "internal", "verifdrv", "vlib", fn)] = os.path.join(vlib, fn)
    vs = os.path.join(VERIF, "harness", "vsched")
    for fn in os.listdir(vs):
        if fn.endswith(".go"):
            replace[os.path.join(REPO, "internal", "vsched", fn)] = os.path.join(vs, fn)
    for rel in getattr(P, "INPKG", []):
        src = os.path.join(VERIF, "harness", "inpkg", rel)
        if not os.path.exists(src):
            sys.exit(f"missing in-package hook {src}")
        replace[os.path.join(REPO, rel)] = src
    # optional source rewriting (yield-point injection): P.INSTRUMENT = [repo-relative files]
    inst = getattr(P, "INSTRUMENT", None)
    if inst:
        tool = ensure_tool("yieldinject")
        outdir = os.path.join(BUILD, "inst_" + P.ID)
        os.makedirs(outdir, exist_ok=True)
        for rel in inst:
            dst = os.path.join(outdir, rel.replace("/", "__"))
            if os.path.exists(dst):
                os.remove(dst)
            sites = dst + ".sites.json"
            rc, so, se, _ = run([tool, os.path.join(REPO, rel), dst, "-sites", sites] + list(getattr(P, "INSTRUMENT_ARGS", {}).get(rel, [])))
            if rc != 0:
                result["broken"].append({"kind": "correspondence", "what": f"yieldinject failed on {rel}", "detail": se[-1500:]})
                return None
            replace[os.path.join(REPO, rel)] = dst
            # fact check: the sequence of atomic sites per function the model was written against
            expected = getattr(P, "SITES", {})
            got = {f["func"]: f["sites"] for f in (json.load(open(sites))["funcs"] or [])}
            for fn, labs in expected.items():
                if fn.split(":")[0] != rel:
                    continue
                g = got.get(fn.split(":")[1])
                if g != labs:
                    result["broken"].append({"kind": "correspondence", "what": f"atomic-operation sites of {fn} differ from the sequence the model mirrors",
                                             "detail": f"expected {labs} got {g}"})
    # optional build-time gates: P.REWRITE = [{"file": rel, "before": "<exact source text>", "insert": "<Go text>"}]
    # puts `insert` in front of the single occurrence of `before` in a copy of the file (nothing is written to /repo).
    # A missing or ambiguous anchor means the code path the scenario gates was rewritten: broken correspondence.
    for k, rw in enumerate(getattr(P, "REWRITE", [])):
        rel = rw["file"]
        key = os.path.join(REPO, rel)
        src = replace.get(key, key)
        try:
            txt = open(src).read()
        except OSError as e:
            result["broken"].append({"kind": "correspondence", "what": f"rewrite: cannot read {rel}", "detail": str(e)})
            return None
        if txt.count(rw["before"]) != 1:
            result["broken"].append({"kind": "correspondence", "what": f"rewrite: the statement the gate goes in front of occurs {txt.count(rw['before'])} times in {rel} (expected once): the spawn path the scenario holds was rewritten",
                                     "detail": rw["before"].strip()})
            return None
        outdir = os.path.join(BUILD, "inst_" + P.ID)
        os.makedirs(outdir, exist_ok=True)
        dst = os.path.join(outdir, rel.replace("/", "__") + f".rw{k}.go")
        with open(dst, "w") as f:
            f.write(txt.replace(rw["before"], rw["insert"] + rw["before"]))
        replace[key] = dst
    ov = os.path.join(BUILD, f"overlay_{P.ID}.json")
    with open(ov, "w") as f:
        json.dump({"Replace": replace}, f, indent=1)
    out = os.path.join(BUILD, "verifdrv_" + P.ID)
    if os.path.exists(out):
        os.remove(out)
    rc, so, se, dt = run(["go", "build", "-tags", "verif", "-overlay", ov, "-o", out, "./internal/verifdrv/" + hname],
                         cwd=REPO, env=GOENV, timeout=1500)
    result["timing"]["go_build_s"] = round(dt, 1)
    if rc != 0:
        result["broken"].append({"kind": "correspondence", "what": "harness does not build against the current /repo (hooks or API it calls changed)", "detail": se[-2500:]})
        return None
    return out


def check_facts(P, result):
    """FACTS = [{"file": rel, "suffixes": "a.b,c.*", "expect": {"T.f": [calls…]}}]: ordered call lists the model
    assumes, re-extracted from /repo's current source by tools/factextract on every run."""
    facts = getattr(P, "FACTS", None)
    if not facts:
        return
    tool = ensure_tool("factextract")
    for f in facts:
        rc, so, se, _ = run([tool, os.path.join(REPO, f["file"]), f["suffixes"]])
        if rc != 0:
            result["broken"].append({"kind": "correspondence", "what": f"factextract failed on {f['file']}", "detail": se[-800:]})
            continue
        got = json.loads(so)
        for fn, exp in f["expect"].items():
            if got.get(fn) != exp:
                result["broken"].append({"kind": "correspondence", "what": f"call order in {f['file']}:{fn} differs from what the model assumes",
                                         "detail": f"expected {exp} got {got.get(fn)}"})


def build_driver(result):
    with Lock("lake"):
        # Main.lean is generated from the Driver/ directory listing
        gen_main()
        rc, so, se, dt = run(["lake", "build", "gvdriver"], cwd=LEAN, timeout=3000)
    result["timing"]["driver_build_s"] = round(dt, 1)
    if rc != 0:
        result["broken"].append({"kind": "correspondence", "what": "Lean driver does not build", "detail": (so + se)[-2000:]})
        return None
    return os.path.join(LEAN, ".lake", "build", "bin", "gvdriver")


def gen_main():
    ddir = os.path.join(LEAN, "GoaktVerif", "Driver")
    ids = sorted(f[:-5] for f in os.listdir(ddir) if re.fullmatch(r"C\d\d\.lean", f))
    lines = ["-- GENERATED by tools/check.py (gen_main) from the listing of GoaktVerif/Driver/ — do not edit"]
    lines += [f"import GoaktVerif.Driver.{i}" for i in ids]
    lines += ["", "def main (args : List String) : IO UInt32 := do", "  match args with"]
    for i in ids:
        lines.append(f"  | \"{i}\" :: rest => GoaktVerif.Driver.{i}.run rest")
    lines.append("  | _ => do IO.eprintln \"usage: gvdriver <Cnn> <mode>\"; return 2")
    txt = "\n".join(lines) + "\n"
    p = os.path.join(LEAN, "Main.lean")
    if not os.path.exists(p) or open(p).read() != txt:
        open(p, "w").write(txt)


# ---------------------------------------------------------------------------
# step 4: run both sides
# ---------------------------------------------------------------------------

DEADLINE = [None]  # wall-clock time after which no new harness/driver batch is started (set in main)


def run_lines(cmd, lines, timeout, env=None, label=""):
    """feed lines, expect one output line per input line. A crash mid-way marks that line
    `CRASH` and resumes after it."""
    outs = []
    i = 0
    guard = 0
    timeouts = 0
    while i < len(lines):
        chunk = lines[i:]
        if DEADLINE[0] is not None:
            left = DEADLINE[0] - time.time()
            if left < 5:
                outs.extend(["CRASH deadline"] * (len(lines) - len(outs)))
                break
            timeout = min(timeout, left)
        rc, so, se, dt = run(cmd, inp="\n".join(chunk) + "\n", timeout=timeout, env=env)
        got = so.split("\n")
        if got and got[-1] == "":
            got.pop()
        if len(got) >= len(chunk):
            outs.extend(got[:len(chunk)])
            break
        outs.extend(got)
        tail = se.strip().split("\n")[-1][:200] if se.strip() else ""
        outs.append("CRASH " + ("timeout" if rc == 124 else f"rc={rc} {tail}"))
        i = len(outs)
        guard += 1
        if rc == 124:
            timeouts += 1
        if timeouts >= 2:
            # the harness keeps hanging (typical of a change that makes the code block): do not grind through the rest
            outs.extend(["CRASH timeout-abort"] * (len(lines) - len(outs)))
            break
        if guard > 50:
            outs.extend(["CRASH too-many-crashes"] * (len(lines) - len(outs)))
            break
    return outs


def evaluate(P, cases, harness, driver, tier, result):
    """returns list of records {case, impl, model, judge, diff, fail}"""
    timeout = getattr(P, "TIMEOUT", 600)
    henv = dict(os.environ)
    henv.setdefault("GOMEMLIMIT", "8GiB")
    impl = run_lines([harness] + list(getattr(P, "HARNESS_ARGS", [])), cases, timeout, env=henv) if harness else [None] * len(cases)
    if hasattr(P, "canon_impl"):
        impl = [P.canon_impl(c, o) if o is not None else None for c, o in zip(cases, impl)]
    model = [None] * len(cases)
    judge = [None] * len(cases)
    if driver and getattr(P, "DRIVER", True):
        model = run_lines([driver, P.ID, "model"], cases, timeout)
        if getattr(P, "JUDGE", True) and harness:
            jl = [c + "\t" + (o if o is not None else "") for c, o in zip(cases, impl)]
            judge = run_lines([driver, P.ID, "judge"], jl, timeout)
    recs = []
    for c, o, m, j in zip(cases, impl, model, judge):
        if "CRASH deadline" in (o, m, j):
            result["skipped_deadline"] = result.get("skipped_deadline", 0) + 1
            continue
        r = {"case": c, "impl": o, "model": m, "judge": j, "diff": None, "fail": None}
        if o is not None and m is not None:
            cmpf = getattr(P, "compare", None)
            r["diff"] = cmpf(c, o, m) if cmpf else (None if o == m else f"impl={o!r} model={m!r}")
        # property oracle on the implementation
        of = getattr(P, "oracle", None)
        if of and o is not None:
            r["fail"] = of(c, o, j)
        elif j is not None and o is not None and not j.startswith("ok"):
            r["fail"] = j
        recs.append(r)
    return recs


# ---------------------------------------------------------------------------
# findings
# ---------------------------------------------------------------------------

def known_findings(pid):
    p = os.path.join(VERIF, "KNOWN_FINDINGS.json")
    if not os.path.exists(p):
        return []
    data = json.load(open(p))
    return [e for e in data.get("findings", []) if e.get("property") == pid and e.get("status", "open") == "open"]


def shrink(P, rec, harness, driver, tier, result, cls):
    sh = getattr(P, "shrink", None)
    if not sh:
        return rec
    cur = rec
    budget = 40
    progress = True
    while progress and budget > 0:
        progress = False
        cands = list(sh(cur["case"]))[:64]
        if not cands:
            break
        budget -= 1
        rs = evaluate(P, cands, harness, driver, tier, result)
        for r in rs:
            # keep the kind of failure: a property failure must stay a property failure
            bad = r["fail"] if rec.get("fail") else (r["fail"] or r["diff"])
            if bad and classify(P, r) == cls:
                cur = r
                progress = True
                break
    return cur


def classify(P, rec):
    f = getattr(P, "classify", None)
    if not f:
        return None
    try:
        return f(rec["case"], rec["impl"], rec.get("fail") or rec.get("diff"))
    except Exception as e:  # a classifier that fails must not hide a violation
        return None


# ---------------------------------------------------------------------------
# extra checks
# ---------------------------------------------------------------------------

def run_extras(P, tier, seed, replay, result):
    """EXTRA_CHECKS = ["tools/extra/x.py", …] in a property module: id-less companion checks of the same property
    (e.g. the grain variant of C01/C02).  Each script is run as `python3 <script> <tier> <seed>` and prints ONE JSON
    object {"obligations","discharged","theorems","cases","diffs","oracle_failures","broken","failing"}; it does for
    its own model what this file does for a property (prove + audit, harness, lockstep, oracle, search).  A script
    that is absent is skipped; one that does not deliver its JSON object counts as a broken correspondence.
    With --replay only the script named by the replay file's "extra" field runs (on that case)."""
    out = []
    only = None
    if replay:
        only = json.load(open(replay)).get("extra")
        if not only:
            return out
    for rel in getattr(P, "EXTRA_CHECKS", []) or []:
        script = os.path.join(VERIF, rel)
        if not os.path.exists(script) or (only and rel != only):
            continue
        cmd = [sys.executable, script, tier, str(seed)] + (["--replay", replay] if only else [])
        log("extra check", rel)
        rc, so, se, dt = run(cmd, timeout=7200)
        e = None
        for line in reversed(so.strip().split("\n")):
            try:
                e = json.loads(line)
                break
            except ValueError:
                continue
        if not isinstance(e, dict) or "obligations" not in e:
            result["broken"].append({"kind": "correspondence", "what": f"extra check {rel} did not deliver a result (rc={rc})", "detail": (se or so)[-1500:]})
            continue
        e["script"] = rel
        e["wall_s"] = round(dt, 1)
        out.append(e)
    return out


# ---------------------------------------------------------------------------
# main
# ---------------------------------------------------------------------------

def write_replay(pid, payload):
    os.makedirs(os.path.join(VERIF, "replays"), exist_ok=True)
    h = hashlib.sha1(json.dumps(payload, sort_keys=True).encode()).hexdigest()[:10]
    p = os.path.join(VERIF, "replays", f"{pid}_{h}.json")
    with open(p, "w") as f:
        json.dump(payload, f, indent=1)
    return p


def main():
    ap = argparse.ArgumentParser()
    ap.add_argument("prop")
    ap.add_argument("--tier", default=os.environ.get("VERIF_TIER", "quick"))
    ap.add_argument("--replay")
    args = ap.parse_args()
    tier = args.tier if args.tier in ("quick", "thorough") else "quick"
    seed = int(os.environ.get("VERIF_SEED", "1") or "1")
    pid = args.prop.upper()
    P = load_prop(pid)
    t_start = time.time()
    os.makedirs(BUILD, exist_ok=True)
    os.makedirs(os.path.join(VERIF, "evidence"), exist_ok=True)
    result = {"broken": [], "timing": {}}

    # 1+2 regenerate, prove
    regenerate(P, result)
    obligations, discharged = prove(P, result, tier)

    # 3 facts + build
    check_facts(P, result)
    with Lock("gobuild_" + pid):
        harness = build_harness(P, result)
    driver = build_driver(result)

    # overall budget for running cases: a code change that makes the implementation hang must not hang the check.
    # It starts here, after the proofs and builds (waiting for the shared lake lock on a loaded machine is not case time);
    # cases the budget cuts off are not evaluated (counted as skipped_deadline), a hanging harness is a CRASH timeout.
    DEADLINE[0] = time.time() + float(os.environ.get("VERIF_DEADLINE_S", "1500" if tier == "quick" else "3300"))

    # 4 cases
    rng = random.Random(seed * 1000003 + int(hashlib.sha1(pid.encode()).hexdigest()[:6], 16))
    cases = []
    if args.replay:
        rp = json.load(open(args.replay))
        cases = [rp["case"]] if "case" in rp else rp.get("cases", [])
        if rp.get("extra"):
            cases = []  # the case belongs to an extra check (run_extras replays it)
    else:
        cdir = os.path.join(VERIF, "corpus", pid)
        if os.path.isdir(cdir):
            for fn in sorted(os.listdir(cdir)):
                if fn.endswith(".case"):
                    for line in open(os.path.join(cdir, fn)):
                        line = line.rstrip("\n")
                        if line and not line.startswith("#"):
                            cases.append(line)
        ncorpus = len(cases)
        cases += P.gen_cases(rng, tier)
    recs = evaluate(P, cases, harness, driver, tier, result) if (harness or driver) else []

    if cases and not recs and result.get("skipped_deadline"):
        result["broken"].append({"kind": "correspondence", "what": "no case could be run within the time budget (VERIF_DEADLINE_S)",
                                 "detail": f"{result['skipped_deadline']} cases cut off"})
    diffs = [r for r in recs if r["diff"]]
    fails = [r for r in recs if r["fail"]]
    if diffs:
        result["broken"].append({"kind": "correspondence", "what": f"model and implementation differ on {len(diffs)} of {len(recs)} cases",
                                 "detail": json.dumps({k: diffs[0][k] for k in ("case", "impl", "model", "diff")})[:1500]})

    # 6 search when something broke
    searched = 0
    if result["broken"] and harness and not args.replay and hasattr(P, "search_cases"):
        log("proof or correspondence broken; searching the implementation for a failing input")
        extra = P.search_cases(rng, tier)
        searched = len(extra)
        recs2 = evaluate(P, extra, harness, None, tier, result) if getattr(P, "oracle", None) and not getattr(P, "ORACLE_NEEDS_JUDGE", False) \
            else evaluate(P, extra, harness, driver, tier, result)
        fails += [r for r in recs2 if r["fail"]]
        recs += recs2

    # classify failures
    kf = known_findings(pid)
    kf_ids = {e["id"] for e in kf}
    known_hits = {}
    new_fail = []
    for r in fails:
        c = classify(P, r)
        if c is not None and c in kf_ids:
            known_hits.setdefault(c, r)
        else:
            new_fail.append((c, r))

    # extra checks: their obligations, cases, differences, failures and broken obligations count like the main ones
    extras = run_extras(P, tier, seed, args.replay, result)
    extra_failing = None
    for e in extras:
        obligations += int(e.get("obligations", 0))
        discharged += int(e.get("discharged", 0))
        result["broken"] += list(e.get("broken") or [])
        result.setdefault("axioms", {}).update(e.get("axioms") or {})
        if e.get("failing") and extra_failing is None:
            extra_failing = (e["script"], e["failing"])
    extra_cases = sum(int(e.get("cases", 0)) for e in extras)
    extra_diffs = sum(int(e.get("diffs", 0)) for e in extras)
    extra_fails = sum(int(e.get("oracle_failures", 0)) for e in extras)

    violation = None
    if extra_failing and not new_fail:
        script, fr = extra_failing
        violation = write_replay(pid, {"property": pid, "kind": "failing-input", "extra": script, "case": fr.get("case"), "impl": fr.get("impl"),
                                       "model": fr.get("model"), "why": fr.get("why"), "broken": result["broken"], "seed": seed, "tier": tier,
                                       "how_to_replay": f"python3 tools/check.py {pid} --replay <this file>"})
        vline = f"VIOLATION property={pid} replay={violation}"
    elif new_fail:
        c, r = new_fail[0]
        r = shrink(P, r, harness, driver, tier, result, c)
        violation = write_replay(pid, {"property": pid, "kind": "failing-input", "case": r["case"], "impl": r["impl"], "model": r["model"],
                                       "why": r["fail"], "broken": result["broken"], "seed": seed, "tier": tier,
                                       "how_to_replay": f"python3 tools/check.py {pid} --replay <this file>"})
        vline = f"VIOLATION property={pid} replay={violation}"
    elif result["broken"]:
        violation = write_replay(pid, {"property": pid, "kind": "no-failing-input-found", "broken": result["broken"],
                                       "searched_cases": searched + len(recs), "seed": seed, "tier": tier})
        vline = f"VIOLATION property={pid} replay={violation} no-failing-input-found"

    # 7 evidence
    def nontrivial(r):
        f = getattr(P, "is_trivial", None)
        if r["impl"] is None:
            return False
        return not (f(r["case"], r["impl"]) if f else (r["impl"].startswith("err") or r["impl"] == ""))
    distinct = len({(r["case"], r["impl"]) for r in recs if nontrivial(r)})
    dist = {}
    tagf = getattr(P, "tag", None)
    if tagf:
        for r in recs:
            t = tagf(r["case"], r["impl"])
            dist[t] = dist.get(t, 0) + 1
    samples = [{"case": r["case"][:400], "impl": (r["impl"] or "")[:400], "model": (r["model"] or "")[:400]} for r in recs[:2] + recs[-3:]]
    if not samples:
        samples = [{"obligation": t} for t in P.THEOREMS[:5]]
    distinct += sum(int(e.get("distinct_nontrivial", 0)) for e in extras)
    ev = {
        "property_id": pid, "tier": tier, "seed": seed, "level": getattr(P, "LEVEL", "proof"),
        "coverage": {
            "obligations": obligations, "discharged": discharged,
            "checker_cmd": f"cd /verif/lean && lake build {' '.join(P.LEAN_MODULES)} && lake env lean ../build/audit_{pid}.lean" + (" && lake env leanchecker <module>" if tier == "thorough" else ""),
            "trusted_base": TRUSTED_BASE_COMMON + list(getattr(P, "TRUSTED", [])),
            "theorems": list(P.THEOREMS) + [t for e in extras for t in e.get("theorems", [])],
            "axioms": result.get("axioms", {}),
            "evaluations": len(recs) + extra_cases,
            "distinct_nontrivial": distinct,
            "rule": getattr(P, "RULE", "cases generated by tools/props/%s.py gen_cases from one PRNG; non-trivial = implementation output is not an error/empty; distinct by (case, output)" % pid.lower()),
            "samples": samples,
            "traces_validated_against_impl": len([r for r in recs if r["impl"] is not None and r["model"] is not None and not r["diff"]])
                                             + sum(int(e.get("traces_validated_against_impl", 0)) for e in extras),
            "correspondence_differences": len(diffs) + extra_diffs,
            "oracle_failures": len(fails) + extra_fails,
            "known_findings_hit": sorted(known_hits),
            "input_distribution": dist,
            "explanation": getattr(P, "EXPLANATION", ""),
            "exhaustive": bool(getattr(P, "EXHAUSTIVE", {}).get(tier, False)) if isinstance(getattr(P, "EXHAUSTIVE", None), dict) else False,
        },
        "extra_checks": [{k: e.get(k) for k in ("script", "id", "obligations", "discharged", "cases", "diffs", "oracle_failures", "wall_s", "timing")} for e in extras],
        "assumptions": list(getattr(P, "ASSUMPTIONS", [])),
        "wall_s": round(time.time() - t_start, 2),
        "violations": 1 if violation else 0,
        "timing": result["timing"],
        "skipped_deadline": result.get("skipped_deadline", 0),
        "broken": result["broken"],
    }
    # evidence/ describes runs against /repo itself; a run against another tree (VERIF_REPO, used for seeded changes
    # in scratch worktrees) writes its record under build/ so that it never replaces the evidence of the real tree
    evdir = os.path.join(VERIF, "evidence") if os.path.realpath(REPO) == "/repo" else os.path.join(BUILD, "evidence_other_tree")
    os.makedirs(evdir, exist_ok=True)
    with open(os.path.join(evdir, pid + ".json"), "w") as f:
        json.dump(ev, f, indent=1)

    for c, r in known_hits.items():
        e = [e for e in kf if e["id"] == c][0]
        print(f"KNOWN-FINDING: property={pid} {c}: {e['what']} (witness: {r['case'][:160]})")
    print(f"[{pid}] tier={tier} seed={seed} obligations={obligations} discharged={discharged} cases={len(recs) + extra_cases} "
          f"distinct_nontrivial={distinct} diffs={len(diffs) + extra_diffs} oracle_failures={len(fails) + extra_fails} known={len(known_hits)} wall={ev['wall_s']}s")
    if violation:
        for b in result["broken"]:
            print(f"  broken[{b['kind']}]: {b['what']}")
            if b.get("detail"):
                print("    " + b["detail"].replace("\n", "\n    ")[:1200])
        print(vline)
        sys.exit(1)
    sys.exit(0)


if __name__ == "__main__":
    main()

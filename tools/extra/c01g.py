#!/usr/bin/env python3
"""C01G — the GRAIN variant of C01/C02 (grain turn loop, two queues, pause), run as an EXTRA check of C01 and C02.

usage: python3 tools/extra/c01g.py <tier> <seed> [--replay FILE]

Does for the id-less check "C01G" what tools/check.py does for a property, with check.py's own functions:
lake build GoaktVerif.Props.C01G + axiom audit, call-order facts, instrumented harness (engine E3) built from the
current tree, lockstep replay of every generated schedule on the real grain code and on the Lean model
(Driver/C01G.lean, run through `lean --run`: gvdriver's generated Main only lists Cnn drivers), the spec oracle on
the implementation's output, and a search for a failing schedule when a proof or the correspondence broke.
Prints ONE JSON object on stdout:
  {"obligations","discharged","theorems","cases","diffs","oracle_failures","broken","failing"}
"""
import hashlib, json, os, random, re, stat, sys, time

HERE = os.path.dirname(os.path.abspath(__file__))
sys.path.insert(0, os.path.dirname(HERE))
import check  # noqa: E402  (tools/check.py)


class P:
    ID = "C01G"
    LEAN_MODULES = ["GoaktVerif.Props.C01G"]
    THEOREMS = [
        "GoaktVerif.C01G.exec_frame",
        "GoaktVerif.C01G.step_inv",
        "GoaktVerif.C01G.init_inv",
        "GoaktVerif.C01G.run_inv",
        "GoaktVerif.C01G.C01G_holds",
        "GoaktVerif.C01G.C02G_accounting",
        "GoaktVerif.C01G.C02G_no_duplicate",
        "GoaktVerif.C01G.C02G_absorbed_kinds",
        "GoaktVerif.C01G.C02G_len",
        "GoaktVerif.C01G.C02G_no_lost_wakeup",
        "GoaktVerif.C01G.C02G_quiescent",
        "GoaktVerif.C01G.C02G_paused_idle_is_reachable",
        "GoaktVerif.C01G.C02G_holds",
    ]
    INPKG = ["actor/zz_verif_c01g.go"]
    HARNESS = "c01g"
    INSTRUMENT = ["actor/dispatch_state.go", "actor/grain_mailbox.go", "actor/dispatcher.go", "actor/worker.go", "actor/grain_pid.go"]
    INSTRUMENT_ARGS = {
        "actor/dispatcher.go": ["-funcs", "none", "-entry", "dispatcher.schedule"],
        "actor/worker.go": ["-funcs", "none", "-entry", "worker.reschedule"],
        "actor/grain_pid.go": ["-funcs", "grainPID.paused"],
    }
    SITES = {
        "actor/dispatch_state.go:dispatchState.Load": ["Load:v"],
        "actor/dispatch_state.go:dispatchState.TrySchedule": ["Load:v", "CAS:v"],
        "actor/dispatch_state.go:dispatchState.TakeForProcessing": ["CAS:v"],
        "actor/dispatch_state.go:dispatchState.YieldToScheduled": ["Store:v"],
        "actor/dispatch_state.go:dispatchState.reset": ["Store:v"],
        "actor/grain_mailbox.go:grainMailbox.tryEnqueue": ["Load:len", "CAS:len", "Store:next", "Swap:tail", "Store:next", "Add:len"],
        "actor/grain_mailbox.go:grainMailbox.Dequeue": ["Load:head", "Load:next", "Load:tail", "Load:next", "Store:head", "Add:len", "Store:next"],
        "actor/grain_mailbox.go:grainMailbox.Len": ["Load:len"],
        "actor/dispatcher.go:dispatcher.schedule": ["Call:schedule"],
        "actor/worker.go:worker.reschedule": ["Call:reschedule"],
        "actor/grain_pid.go:grainPID.paused": ["Load:reentrancy", "Load:blockingCount"],
    }
    FACTS = [
        {"file": "actor/grain_pid.go",
         "suffixes": "schedState.*,mailbox.Enqueue,queue.Enqueue,mailbox.IsEmpty,mailbox.Dequeue,responses.IsEmpty,responses.Dequeue,dispatcher.schedule,w.reschedule,pid.hasPendingWork,pid.dequeueResponse,pid.paused",
         "expect": {
             "grainPID.receive": ["mailbox.Enqueue", "schedState.TrySchedule", "dispatcher.schedule"],
             "grainPID.enqueueEnvelope": ["queue.Enqueue", "schedState.TrySchedule", "dispatcher.schedule"],
             "grainPID.deliverTimerTick": ["mailbox.Enqueue", "schedState.TrySchedule", "dispatcher.schedule"],
             "grainPID.enqueuePassivationPill": ["mailbox.Enqueue", "schedState.TrySchedule", "dispatcher.schedule"],
             "grainPID.runTurn": ["schedState.TakeForProcessing", "pid.dequeueResponse", "pid.paused", "mailbox.Dequeue",
                                  "schedState.YieldToScheduled", "w.reschedule"],
             "grainPID.dequeueResponse": ["responses.Dequeue"],
             "grainPID.finishOrReclaim": ["schedState.reset", "pid.hasPendingWork", "schedState.TrySchedule", "schedState.TakeForProcessing"],
             "grainPID.hasPendingWork": ["responses.IsEmpty", "pid.paused", "mailbox.IsEmpty"],
         }},
    ]
    TIMEOUT = 900
    DRIVER = True
    JUDGE = True

    @staticmethod
    def compare(case, impl, model):
        if model == "*":
            return None
        return None if impl == model else f"impl={impl[:300]!r} model={model[:300]!r}"

    @staticmethod
    def oracle(case, impl, judge):
        if impl.startswith("CRASH"):
            return "harness crashed: " + impl
        if "!stuck" in impl:
            return "a logical thread blocked outside the instrumented points: " + impl[-200:]
        if impl.endswith("unfinished"):
            return None
        if judge is not None:
            return None if judge.startswith("ok") else judge
        m = re.search(r" O=(\d+) ", impl)
        if m and int(m.group(1)) > 1:
            return f"bad C01: {m.group(1)} handler invocations in progress at once"
        if " P=true" in impl:
            return "bad C02: lost wake-up"
        return None

    ORACLE_NEEDS_JUDGE = True


SENDER_KINDS = "tqk"


def sender_progs(rng, reent, mid0=1):
    """1..3 sender threads with 1..3 ops each, ids unique in the case; passivation pills; with reentrancy: block
    messages and their responses (sometimes a response nobody asked for)"""
    progs = []
    mid = mid0
    blocks = []
    for _ in range(rng.randint(1, 3)):
        ops = []
        for _ in range(rng.randint(1, 3)):
            r = rng.random()
            if reent and r < 0.25:
                ops.append(f"b{mid}")
                blocks.append(mid)
            elif r < 0.33 and (reent or r >= 0.27):
                # a pill reaches a grain WITHOUT reentrancy too: passivationTry sends one when the grain is not Idle
                ops.append(f"z{mid}")
            else:
                ops.append(rng.choice(SENDER_KINDS) + str(mid))
            mid += 1
        progs.append(ops)
    answered = [b for b in blocks if rng.random() < 0.8]
    if rng.random() < 0.15:
        answered.append(mid)  # a response without a request
        mid += 1
    rng.shuffle(answered)
    while answered:
        k = rng.randint(1, 2)
        progs.append([f"a{b}" for b in answered[:k]])
        answered = answered[k:]
    return progs


def one_case(rng, maxsched=160):
    nw = rng.randint(1, 3)
    budget = rng.randint(1, 3)
    reent = 1 if rng.random() < 0.6 else 0
    progs = sender_progs(rng, reent)
    for w in range(nw):
        progs.append([f"w{w}"] * rng.randint(1, 4))
    rng.shuffle(progs)
    nt = len(progs)
    if rng.random() < 0.5:
        sched = [rng.randrange(nt) for _ in range(rng.randint(0, maxsched))]
    else:
        sched = []
        for _ in range(rng.randint(1, 10)):
            sched += [rng.randrange(nt)] * rng.randint(1, 24)
    return f"{nw} {budget} {reent} | " + " ; ".join(" ".join(p) for p in progs) + " | " + " ".join(map(str, sched))


def template_cases():
    """systematic release/reclaim race template (macro steps, `tid*` = run thread tid up to its next boundary): worker 0
    is stopped at every boundary q of its turn, optionally a sender B completes there, worker 0 advances r more
    boundaries, a sender C completes, worker 1 runs a few boundaries, worker 0 continues, a last sender D completes;
    everything then runs to completion.  Variants: plain user messages; a paused grain (block message first, its
    response as sender B or C).  (A sender thread is parked at the first point of its Enqueue until scheduled and has
    no effect before it, so no pause op is needed.)"""
    cases = []
    for budget in (1, 3):
        for q in range(0, 21):
            for use_b in (0, 1):
                for r in (0, 1, 2, 4, 7):
                    for variant in ("plain", "pause"):
                        if variant == "plain":
                            progs = ["t1", "t2", "k3", "w0 w0 w0", "w1 w1 w1", "q4"]
                            re_ = 0
                        else:
                            progs = ["b1 t5", "a1" if use_b else "t2", "a1" if not use_b else "t3", "w0 w0 w0", "w1 w1 w1", "t4"]
                            re_ = 1
                        sched = ["0*"] * 14 + ["3*"] * q + (["1*"] * 8 if use_b else []) + ["3*"] * r + ["2*"] * 8 + ["4*"] * 4 + ["3*"] * 2 + ["5*"] * 8
                        cases.append(f"2 {budget} {re_} | " + " ; ".join(progs) + " | " + " ".join(sched))
    return cases


def early_sender_cases():
    """a sender is stopped after each of its first boundaries while a worker runs complete turns, then resumes
    (wake-up before / after the enqueue)"""
    cases = []
    for budget in (1, 2):
        for a in range(0, 8):
            for b in (0, 6, 14, 30):
                progs = ["t1", "w0 w0 w0", "w1 w1"]
                sched = ["0*"] * a + ["1*"] * b + ["0*"] * 8 + ["2*"] * 3
                cases.append(f"2 {budget} 0 | " + " ; ".join(progs) + " | " + " ".join(sched))
    return cases


def gen_cases(rng, tier):
    n = 60 if tier == "quick" else (800 if tier == "mid" else 2500)
    t = template_cases() + early_sender_cases()
    if tier == "quick":
        t = rng.sample(t, 60)
    return [one_case(rng) for _ in range(n)] + t


def search_cases(rng, tier):
    cases = template_cases() + early_sender_cases() + [one_case(rng, maxsched=220) for _ in range(400)]
    for _ in range(3000):
        reent = rng.choice([0, 1, 1])
        budget = rng.choice([1, 2, 3])
        progs = sender_progs(rng, reent)
        progs += [["w0"] * 3, ["w1"] * 3]
        rng.shuffle(progs)
        depth = rng.choice([2, 3, 3, 3, 4])
        k = rng.choice([12, 18, 25, 35, 50])
        cases.append(f"2 {budget} {reent} | " + " ; ".join(" ".join(p) for p in progs) + f" | pct {rng.randrange(1 << 30)} {depth} {k}")
    return cases


def concretise(rec):
    """explicit schedule (one thread id per executed step) from the trace of a pct / macro-step run"""
    parts = rec["case"].split("|")
    impl = rec.get("impl") or ""
    if len(parts) != 3 or not impl.startswith("T ") or not ("*" in parts[2] or "pct" in parts[2]):
        return None
    tids = []
    for ent in impl[2:].split(" | R ")[0].split():
        tid = ent.split(":")[0]
        if tid.isdigit():
            tids.append(tid)
    return parts[0].strip() + " | " + parts[1].strip() + " | " + " ".join(tids)


def build_driver(result):
    """Driver/C01G.lean is built as a library module and run by the Lean interpreter (`lean --run`)."""
    with check.Lock("lake"):
        rc, so, se, dt = check.run(["lake", "build", "GoaktVerif.Driver.C01G"], cwd=check.LEAN, timeout=3000)
    result["timing"]["driver_build_s"] = round(dt, 1)
    if rc != 0:
        result["broken"].append({"kind": "correspondence", "what": "Lean driver of C01G does not build", "detail": (so + se)[-2000:]})
        return None
    main = os.path.join(check.BUILD, "c01g_main.lean")
    txt = "import GoaktVerif.Driver.C01G\ndef main (args : List String) : IO UInt32 := GoaktVerif.Driver.C01G.run args\n"
    if not os.path.exists(main) or open(main).read() != txt:
        open(main, "w").write(txt)
    sh = os.path.join(check.BUILD, "gvdriver_C01G.sh")
    body = "#!/bin/sh\n# usage: gvdriver_C01G.sh C01G model|judge   (same calling convention as gvdriver)\nshift\ncd '%s' && exec lake env lean --run '%s' \"$@\"\n" % (check.LEAN, main)
    if not os.path.exists(sh) or open(sh).read() != body:
        open(sh, "w").write(body)
        os.chmod(sh, os.stat(sh).st_mode | stat.S_IXUSR | stat.S_IXGRP | stat.S_IXOTH)
    return sh


def main():
    args = sys.argv[1:]
    replay = None
    if "--replay" in args:
        i = args.index("--replay")
        replay = args[i + 1]
        args = args[:i] + args[i + 2:]
    tier = args[0] if args and args[0] in ("quick", "thorough") else "quick"
    seed = int(args[1]) if len(args) > 1 else 1
    t0 = time.time()
    check.DEADLINE[0] = t0 + float(os.environ.get("VERIF_DEADLINE_S", "1500" if tier == "quick" else "3300"))
    os.makedirs(check.BUILD, exist_ok=True)
    result = {"broken": [], "timing": {}}
    obligations, discharged = check.prove(P, result, tier)
    check.check_facts(P, result)
    with check.Lock("gobuild_" + P.ID):
        harness = check.build_harness(P, result)
    driver = build_driver(result)

    rng = random.Random(seed * 1000003 + int(hashlib.sha1(P.ID.encode()).hexdigest()[:6], 16))
    cases = []
    if replay:
        rp = json.load(open(replay))
        cases = [rp["case"]] if "case" in rp else rp.get("cases", [])
    else:
        cdir = os.path.join(check.VERIF, "corpus", P.ID)
        if os.path.isdir(cdir):
            for fn in sorted(os.listdir(cdir)):
                if fn.endswith(".case"):
                    for line in open(os.path.join(cdir, fn)):
                        line = line.rstrip("\n")
                        if line and not line.startswith("#"):
                            cases.append(line)
        cases += gen_cases(rng, tier)
    recs = check.evaluate(P, cases, harness, driver, tier, result) if (harness or driver) else []
    diffs = [r for r in recs if r["diff"]]
    fails = [r for r in recs if r["fail"]]
    if diffs:
        result["broken"].append({"kind": "correspondence", "what": f"C01G: model and implementation differ on {len(diffs)} of {len(recs)} cases",
                                 "detail": json.dumps({k: diffs[0][k] for k in ("case", "impl", "model", "diff")})[:1500]})
    if result["broken"] and harness and not replay and not fails:
        check.log("C01G: proof or correspondence broken; searching the grain implementation for a failing schedule")
        extra = search_cases(rng, tier)
        # the oracle is the Lean judge (it only needs the implementation's output); the model is not replayed here
        P.DRIVER = True
        recs2 = []
        for i in range(0, len(extra), 600):
            recs2 += check.evaluate(P, extra[i:i + 600], harness, driver, tier, result)
            if any(r["fail"] for r in recs2):
                break
        fails += [r for r in recs2 if r["fail"]]
        recs += recs2
    failing = None
    if fails:
        r = fails[0]
        # a failure found under an online (pct) or macro-step schedule is re-run as the explicit step-by-step schedule
        # the harness reported in its trace: a concrete interleaving that the Lean model replays too
        conc = concretise(r)
        if conc and harness:
            r2 = check.evaluate(P, [conc], harness, driver, tier, result)[0]
            if r2["fail"]:
                r = r2
        failing = {"case": r["case"], "impl": r["impl"], "model": r["model"], "why": r["fail"]}
    distinct = len({(r["case"], r["impl"]) for r in recs if r["impl"] is not None and r["impl"].startswith("T ")})
    for b in result["broken"]:
        if not b["what"].startswith("C01G"):
            b["what"] = "C01G: " + b["what"]
    out = {
        "id": P.ID, "obligations": obligations, "discharged": discharged, "theorems": list(P.THEOREMS),
        "axioms": result.get("axioms", {}),
        "cases": len(recs), "distinct_nontrivial": distinct,
        "traces_validated_against_impl": len([r for r in recs if r["impl"] is not None and r["model"] not in (None, "*") and not r["diff"]]),
        "diffs": len(diffs), "oracle_failures": len(fails), "broken": result["broken"], "failing": failing,
        "timing": result["timing"], "wall_s": round(time.time() - t0, 2),
        "samples": [{"case": r["case"][:300], "impl": (r["impl"] or "")[:300]} for r in recs[:1]],
    }
    print(json.dumps(out))


if __name__ == "__main__":
    # C01 and C02 both run this script: concurrent runs in one tree share the harness binary, so they take turns
    with check.Lock("extra_" + P.ID):
        main()

#!/usr/bin/env python3
"""Generates the exhaustive-match measure functions of lean/GoaktVerif/Lemmas/C01G.lean (section between the
GENERATED markers).  Every function lists EVERY constructor of Model.C01G.PC (no wildcard), so its equation
lemmas are unconditional and `simp only [tokP, …]` evaluates it on any concrete program counter — the role the
per-constructor `rfl` lemma lists play in Lemmas/C01.lean.  Run by hand after changing the PC type:
    python3 tools/extra/gen_c01g_measures.py > /tmp/measures.lean   (then paste between the markers)"""
PCS = [("sE0", "x"), ("sE1", "x"), ("sE2", "x"), ("sE3", "x"), ("sT1", ""), ("sT2", ""), ("sPush", ""),
       ("wTake", ""), ("wTfp", ""), ("dq1", "q b"), ("dq2", "q b"), ("dq3", "q b"), ("dq4", "q b"),
       ("dq5", "q b x"), ("dq6", "q b x"), ("dq7", "q b x"), ("wP1", "b"), ("wP2", "b"), ("wRecv", "b x"),
       ("wPP1", "b x"), ("wPP2", "b x"), ("wReset", "b"), ("wRE", "b"), ("wHP1", "b"), ("wHP2", "b"), ("wME", "b"),
       ("wTs1", "b"), ("wTs2", "b"), ("wRetake", "b"), ("wYield", ""), ("wResched", "")]


def fn(name, ty, default, special, doc, extra_args="", argmap=None):
    """special: ctor -> expression (may use the ctor's argument names)"""
    out = [f"/-- {doc} -/", f"def {name} {extra_args}: PC → {ty}"]
    for c, args in PCS:
        if c in special:
            import re
            names = [(argmap or {}).get(a, a) for a in args.split()]
            pat = " ".join(a if re.search(r"(?<![\w'])" + re.escape(a) + r"(?![\w'])", special[c]) else "_" for a in names)
            out.append(f"  | .{c}{(' ' + pat) if pat else ''} => {special[c]}")
        else:
            pat = " ".join("_" for _ in args.split())
            out.append(f"  | .{c}{(' ' + pat) if pat else ''} => {default}")
    # per-constructor evaluation lemmas (all by rfl), collected in the simp set `c01g`
    for c, args in PCS:
        names = args.split()
        tys = {"x": "Msg", "q": "Q", "b": "Nat"}
        binders = "".join(f" ({(argmap or {}).get(a, a)} : {tys[a]})" for a in names)
        app = f"(.{c}" + "".join(" " + (argmap or {}).get(a, a) for a in names) + ")"
        rhs = special.get(c, default)
        qarg = " q" if extra_args else ""
        qb = " (q : Q)" if extra_args else ""
        out.append(f"@[c01g] theorem {name}_{c}{qb}{binders} : {name}{qarg} {app} = {rhs} := rfl")
    return "\n".join(out) + "\n"


one = lambda cs: {c: "1" for c in cs}
print(fn("tokP", "Nat", "0", one(["sPush", "wTfp", "wRetake", "wResched"]),
         "threads that hold the (unique) scheduled token: they made, or popped, the ready-queue entry"))
print(fn("ownP", "Nat", "0", one(["dq1", "dq2", "dq3", "dq4", "dq5", "dq6", "dq7", "wP1", "wP2", "wRecv", "wPP1", "wPP2", "wReset", "wYield"]),
         "threads that own the turn (between a successful TakeForProcessing and the releasing store)"))
print(fn("inRecvP", "Nat", "0", one(["wRecv"]), "inside a handler"))
print(fn("heldP", "List Msg", "[]", {c: "[x]" for c in ["dq5", "dq6", "dq7", "wRecv", "wPP1", "wPP2"]},
         "the message a worker has dequeued and not yet finished with"))
print(fn("inflightP", "Nat", "0", one(["sE2", "sE3", "sT1", "sT2"]),
         "senders between their reservation and the outcome of their TrySchedule"))
print(fn("midSP", "Nat", "0", {c: "if qOf x.kind = q then 1 else 0" for c in ["sE2", "sE3"]},
         "producers of queue `q` that reserved a cell and have not yet incremented `len`", "(q : Q) ", {"q": "q'"}))
print(fn("midDP", "Nat", "0", {c: "if q' = q then 1 else 0" for c in ["dq5", "dq6"]},
         "consumers of queue `q` that removed a cell and have not yet decremented `len`", "(q : Q) ", {"q": "q'"}))
print(fn("recRP", "Nat", "0", one(["wRE", "wTs1", "wTs2"]),
         "workers in finishOrReclaim that still answer for the RESPONSES queue: before its emptiness check, or committed to TrySchedule"))
print(fn("recMP", "Nat", "0", one(["wRE", "wHP1", "wHP2", "wME", "wTs1", "wTs2"]),
         "workers in finishOrReclaim that still answer for the user MAILBOX: anywhere between the reset and the outcome of hasPendingWork / TrySchedule"))

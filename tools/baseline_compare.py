#!/usr/bin/env python3
"""compare a `go test -json ./...` log with /root/.vp/BASELINE.json: every stable_pass test must pass"""
import json, sys
b = json.load(open('/root/.vp/BASELINE.json'))
stable = set(b['stable_pass']); flaky = set(b['flaky'])
res = {}
for l in open(sys.argv[1], errors='replace'):
    try:
        e = json.loads(l)
    except Exception:
        continue
    if e.get('Test') and e.get('Action') in ('pass', 'fail', 'skip'):
        res[e['Package'] + '::' + e['Test']] = e['Action']
missing = [t for t in stable if t not in res]
failed = [t for t in stable if res.get(t) == 'fail']
print(f"stable={len(stable)} seen={len(res)} stable_failed={len(failed)} stable_missing={len(missing)}")
for t in sorted(failed)[:60]:
    print("FAIL", t)
for t in sorted(missing)[:20]:
    print("MISSING", t)
print("flaky failed:", sorted(t for t in flaky if res.get(t) == 'fail')[:20])

// yieldinject: rewrite a COPY of a Go source file, inserting cooperative
// scheduler points (vsched.Point) before every sync/atomic operation and
// replacing mutex acquisitions by cooperative ones, so that the verification
// harness can drive the real code through chosen interleavings at
// atomic-operation granularity.  Statements are only added (or a lock call is
// wrapped); nothing is removed.  The copy enters the build through
// `go build -overlay`; /repo is never modified.
//
// usage: yieldinject <in.go> <out.go> [-funcs a,b,T.m] [-sites out.json] [-pkgdir dir]
//
// Label scheme (stable under renaming of locals and functions):
//   <Kind>:<field>   Kind ∈ Load, Store, CAS, Swap, Add, Lock, RLock  ; field = last
//   selector name of the operand (e.g. `atomic.StorePointer(&prev.next, …)` → Store:next,
//   `s.v.CompareAndSwap(a,b)` → CAS:v, `m.mu.Lock()` → Lock:mu).
//   sync.Cond fields: `x.cond.Wait()` → vsched.CondWait(x.cond,"cond") with the two sites
//   Wait:cond (enqueue + unlock) and Wake:cond (signalled + relock); `x.cond.Signal()` →
//   Signal:cond; `x.cond.Broadcast()` → Broadcast:cond.
//   With -plain f,g (opt-in): every statement that reads or writes a PLAIN (non-atomic) field named f or g gets a
//   point `Access:<field>` in front of it, so the harness can preempt a thread between an atomic publication
//   and the plain access it is supposed to order (e.g. `cell.seq.Store(..)` vs `cell.ctx`).
//   With -syncmap (opt-in, off by default): every method call on a sync.Map field is a point
//   `Map<Method>:<field>` (e.g. `m.senders.Load(k)` → MapLoad:senders, CompareAndDelete → MapCompareAndDelete:senders).
package main

import (
	"bytes"
	"encoding/json"
	"fmt"
	"go/ast"
	"go/format"
	"go/parser"
	"go/printer"
	"go/token"
	"os"
	"path/filepath"
	"strings"
)

var fset = token.NewFileSet()

func die(f string, a ...any) {
	fmt.Fprintf(os.Stderr, "yieldinject: "+f+"\n", a...)
	os.Exit(2)
}

func src(n ast.Node) string {
	var b bytes.Buffer
	printer.Fprint(&b, fset, n)
	return b.String()
}

var (
	atomicFields = map[string]bool{} // field / var names of atomic types in the package
	mutexFields  = map[string]string{}
	// field name -> "Mutex" | "RWMutex" | "*Mutex" | "*RWMutex" | "ambiguous"
	condFields = map[string]string{} // field name -> "Cond" | "*Cond"
	mapFields  = map[string]bool{}   // field names of type sync.Map / *sync.Map
	syncMapOn  bool                  // -syncmap: sync.Map method calls are points
	plainOn    = map[string]bool{}   // -plain f,g: plain fields whose accesses are points
	mapMethods = map[string]bool{"Load": true, "Store": true, "LoadOrStore": true, "LoadAndDelete": true, "Delete": true,
		"Swap": true, "CompareAndSwap": true, "CompareAndDelete": true, "Range": true, "Clear": true}
)

func collectFields(dir string) {
	pkgs, err := parser.ParseDir(fset, dir, func(fi os.FileInfo) bool { return !strings.HasSuffix(fi.Name(), "_test.go") }, 0)
	if err != nil {
		die("parse dir: %v", err)
	}
	for _, p := range pkgs {
		for _, f := range p.Files {
			ast.Inspect(f, func(n ast.Node) bool {
				st, ok := n.(*ast.StructType)
				if !ok {
					return true
				}
				for _, fld := range st.Fields.List {
					t := src(fld.Type)
					for _, nm := range fld.Names {
						classify(nm.Name, t)
					}
				}
				return true
			})
		}
	}
}

// types declared in goakt that wrap an atomic and are used through methods with points inside
// (their methods are instrumented in their own file), so they are not atomic fields themselves.
func classify(name, t string) {
	tt := strings.TrimPrefix(t, "*")
	// arrays / slices of atomics (e.g. `data [segmentSize]atomic.Pointer[T]`): x.data[i].Store(v) → Store:data
	if i := strings.Index(tt, "]"); strings.HasPrefix(tt, "[") && i > 0 {
		tt = strings.TrimPrefix(tt[i+1:], "*")
	}
	switch {
	case strings.HasPrefix(tt, "atomic."):
		atomicFields[name] = true
	case tt == "sync.Mutex":
		if strings.HasPrefix(t, "*") {
			setMutex(name, "*Mutex")
		} else {
			setMutex(name, "Mutex")
		}
	case tt == "sync.RWMutex":
		if strings.HasPrefix(t, "*") {
			setMutex(name, "*RWMutex")
		} else {
			setMutex(name, "RWMutex")
		}
	case tt == "sync.Map":
		mapFields[name] = true
	case tt == "sync.Cond":
		if strings.HasPrefix(t, "*") {
			condFields[name] = "*Cond"
		} else {
			condFields[name] = "Cond"
		}
	}
}

// setMutex records the kind of mutex field `name`. The classification is by field NAME, so when two
// structs of the package declare the same name with different mutex kinds the name is "ambiguous"
// and its Lock()/RLock() is rewritten to the kind-agnostic vsched.LockAny / RLockAny (same labels).
func setMutex(name, kind string) {
	if old, ok := mutexFields[name]; ok && old != kind {
		mutexFields[name] = "ambiguous"
		return
	}
	mutexFields[name] = kind
}

func lastName(e ast.Expr) string {
	switch x := e.(type) {
	case *ast.Ident:
		return x.Name
	case *ast.SelectorExpr:
		return x.Sel.Name
	case *ast.UnaryExpr:
		return lastName(x.X)
	case *ast.ParenExpr:
		return lastName(x.X)
	case *ast.StarExpr:
		return lastName(x.X)
	case *ast.IndexExpr:
		return lastName(x.X)
	case *ast.CallExpr:
		// conversions like (*unsafe.Pointer)(unsafe.Pointer(&x.f))
		if len(x.Args) == 1 {
			return lastName(x.Args[0])
		}
	}
	return "?"
}

func kindOf(fn string) string {
	switch {
	case strings.HasPrefix(fn, "Load"):
		return "Load"
	case strings.HasPrefix(fn, "Store"):
		return "Store"
	case strings.HasPrefix(fn, "CompareAndSwap"), fn == "CAS":
		return "CAS"
	case strings.HasPrefix(fn, "Swap"):
		return "Swap"
	case strings.HasPrefix(fn, "Add"), fn == "Inc", fn == "Dec", fn == "Sub":
		return "Add"
	}
	return ""
}

// atomicLabels returns the labels of the atomic operations syntactically inside n
// (not descending into function literals), in source order.
func atomicLabels(n ast.Node) []string {
	var out []string
	ast.Inspect(n, func(nd ast.Node) bool {
		if _, ok := nd.(*ast.FuncLit); ok {
			return false
		}
		if se, ok := nd.(*ast.SelectorExpr); ok && plainOn[se.Sel.Name] {
			l := "Access:" + se.Sel.Name
			if len(out) == 0 || out[len(out)-1] != l {
				out = append(out, l)
			}
		}
		call, ok := nd.(*ast.CallExpr)
		if !ok {
			return true
		}
		sel, ok := call.Fun.(*ast.SelectorExpr)
		if !ok {
			return true
		}
		// atomic.F(&x.f, ...)
		if id, ok := sel.X.(*ast.Ident); ok && id.Name == "atomic" {
			if k := kindOf(sel.Sel.Name); k != "" && len(call.Args) >= 1 {
				out = append(out, k+":"+lastName(call.Args[0]))
			}
			return true
		}
		// -syncmap: x.f.M(...) on a sync.Map field
		if syncMapOn && mapMethods[sel.Sel.Name] && mapFields[lastName(sel.X)] && !atomicFields[lastName(sel.X)] {
			out = append(out, "Map"+sel.Sel.Name+":"+lastName(sel.X))
			return true
		}
		// x.f.Load() etc. on a known atomic field
		if k := kindOf(sel.Sel.Name); k != "" {
			recv := lastName(sel.X)
			if atomicFields[recv] {
				ok := false
				switch k {
				case "Load":
					ok = len(call.Args) == 0
				case "Store", "Swap":
					ok = len(call.Args) == 1
				case "CAS":
					ok = len(call.Args) == 2
				case "Add":
					ok = len(call.Args) <= 1
				}
				if ok {
					out = append(out, k+":"+recv)
				}
			}
		}
		return true
	})
	return out
}

// curRecv is the name of the current method's receiver ("" for plain functions): points
// then go through vsched.PointOn(recv, label) so the harness can focus on chosen objects.
var curRecv string

func pointStmt(label string) ast.Stmt {
	if curRecv != "" {
		return &ast.ExprStmt{X: &ast.CallExpr{
			Fun:  &ast.SelectorExpr{X: ast.NewIdent("vsched"), Sel: ast.NewIdent("PointOn")},
			Args: []ast.Expr{ast.NewIdent(curRecv), &ast.BasicLit{Kind: token.STRING, Value: fmt.Sprintf("%q", label)}},
		}}
	}
	return &ast.ExprStmt{X: &ast.CallExpr{
		Fun:  &ast.SelectorExpr{X: ast.NewIdent("vsched"), Sel: ast.NewIdent("Point")},
		Args: []ast.Expr{&ast.BasicLit{Kind: token.STRING, Value: fmt.Sprintf("%q", label)}},
	}}
}

// lockRewrite turns `x.mu.Lock()` into `vsched.Lock(&x.mu, "Lock:mu")`; returns nil if s is not a lock call.
func lockRewrite(s ast.Stmt) (ast.Stmt, string) {
	es, ok := s.(*ast.ExprStmt)
	if !ok {
		return nil, ""
	}
	call, ok := es.X.(*ast.CallExpr)
	if !ok || len(call.Args) != 0 {
		return nil, ""
	}
	sel, ok := call.Fun.(*ast.SelectorExpr)
	if !ok {
		return nil, ""
	}
	m := sel.Sel.Name
	if m != "Lock" && m != "RLock" {
		return nil, ""
	}
	recv := lastName(sel.X)
	kind, ok := mutexFields[recv]
	if !ok {
		return nil, ""
	}
	var arg ast.Expr = sel.X
	if !strings.HasPrefix(kind, "*") {
		arg = &ast.UnaryExpr{Op: token.AND, X: sel.X}
	}
	fn := "Lock"
	if kind == "ambiguous" {
		arg = &ast.UnaryExpr{Op: token.AND, X: sel.X}
		if m == "RLock" {
			fn = "RLockAny"
		} else {
			fn = "LockAny"
		}
	} else if strings.HasSuffix(kind, "RWMutex") {
		if m == "RLock" {
			fn = "RLock"
		} else {
			fn = "WLock"
		}
	}
	label := m + ":" + recv
	if (fn == "LockAny" || fn == "RLockAny") && curRecv != "" {
		return &ast.ExprStmt{X: &ast.CallExpr{
			Fun:  &ast.SelectorExpr{X: ast.NewIdent("vsched"), Sel: ast.NewIdent(fn + "On")},
			Args: []ast.Expr{ast.NewIdent(curRecv), arg, &ast.BasicLit{Kind: token.STRING, Value: fmt.Sprintf("%q", label)}},
		}}, label
	}
	if fn == "Lock" && curRecv != "" {
		return &ast.ExprStmt{X: &ast.CallExpr{
			Fun:  &ast.SelectorExpr{X: ast.NewIdent("vsched"), Sel: ast.NewIdent("LockOn")},
			Args: []ast.Expr{ast.NewIdent(curRecv), arg, &ast.BasicLit{Kind: token.STRING, Value: fmt.Sprintf("%q", label)}},
		}}, label
	}
	return &ast.ExprStmt{X: &ast.CallExpr{
		Fun:  &ast.SelectorExpr{X: ast.NewIdent("vsched"), Sel: ast.NewIdent(fn)},
		Args: []ast.Expr{arg, &ast.BasicLit{Kind: token.STRING, Value: fmt.Sprintf("%q", label)}},
	}}, label
}

// condRewrite turns `x.cond.Wait()/Signal()/Broadcast()` on a sync.Cond field into the cooperative
// vsched.CondWait/CondSignal/CondBroadcast(x.cond, "cond") (…On(recv, …) inside pointer-receiver
// methods, like PointOn); returns nil if s is not such a call.
func condRewrite(s ast.Stmt) (ast.Stmt, []string) {
	es, ok := s.(*ast.ExprStmt)
	if !ok {
		return nil, nil
	}
	call, ok := es.X.(*ast.CallExpr)
	if !ok || len(call.Args) != 0 {
		return nil, nil
	}
	sel, ok := call.Fun.(*ast.SelectorExpr)
	if !ok {
		return nil, nil
	}
	m := sel.Sel.Name
	if m != "Wait" && m != "Signal" && m != "Broadcast" {
		return nil, nil
	}
	recv := lastName(sel.X)
	kind, ok := condFields[recv]
	if !ok {
		return nil, nil
	}
	var arg ast.Expr = sel.X
	if !strings.HasPrefix(kind, "*") {
		arg = &ast.UnaryExpr{Op: token.AND, X: sel.X}
	}
	labels := []string{m + ":" + recv}
	if m == "Wait" {
		labels = append(labels, "Wake:"+recv)
	}
	fn := "Cond" + m
	args := []ast.Expr{arg, &ast.BasicLit{Kind: token.STRING, Value: fmt.Sprintf("%q", recv)}}
	if curRecv != "" {
		fn += "On"
		args = append([]ast.Expr{ast.NewIdent(curRecv)}, args...)
	}
	return &ast.ExprStmt{X: &ast.CallExpr{
		Fun:  &ast.SelectorExpr{X: ast.NewIdent("vsched"), Sel: ast.NewIdent(fn)},
		Args: args,
	}}, labels
}

type siteLog struct {
	Func  string   `json:"func"`
	Sites []string `json:"sites"`
}

var curSites *siteLog

// entry: functions that get a `Call:<name>` point as their first statement (-entry a,b)
var entry map[string]bool
var multi []string

// header expression of compound statements (what is evaluated when the statement starts)
func headerOf(s ast.Stmt) []ast.Node {
	switch x := s.(type) {
	case *ast.IfStmt:
		var r []ast.Node
		if x.Init != nil {
			r = append(r, x.Init)
		}
		return append(r, x.Cond)
	case *ast.SwitchStmt:
		var r []ast.Node
		if x.Init != nil {
			r = append(r, x.Init)
		}
		if x.Tag != nil {
			r = append(r, x.Tag)
		}
		return r
	case *ast.ForStmt:
		var r []ast.Node
		if x.Init != nil {
			r = append(r, x.Init)
		}
		return r
	case *ast.RangeStmt:
		return []ast.Node{x.X}
	case *ast.BlockStmt, *ast.SelectStmt, *ast.TypeSwitchStmt, *ast.LabeledStmt:
		return nil
	case *ast.DeferStmt, *ast.GoStmt:
		return nil
	}
	return []ast.Node{s}
}

func rewriteBlock(list []ast.Stmt) []ast.Stmt {
	var out []ast.Stmt
	for _, s := range list {
		// recurse first
		switch x := s.(type) {
		case *ast.BlockStmt:
			x.List = rewriteBlock(x.List)
		case *ast.IfStmt:
			rewriteIf(x)
		case *ast.ForStmt:
			x.Body.List = rewriteBlock(x.Body.List)
			// `for cond { body }` with atomics in cond: evaluate cond behind a point each iteration
			if x.Init == nil && x.Post == nil && x.Cond != nil {
				if labs := atomicLabels(x.Cond); len(labs) > 0 {
					var pre []ast.Stmt
					for _, l := range labs {
						pre = append(pre, pointStmt(l))
						curSites.Sites = append(curSites.Sites, l)
					}
					brk := &ast.IfStmt{Cond: &ast.UnaryExpr{Op: token.NOT, X: &ast.ParenExpr{X: x.Cond}},
						Body: &ast.BlockStmt{List: []ast.Stmt{&ast.BranchStmt{Tok: token.BREAK}}}}
					x.Body.List = append(append(pre, brk), x.Body.List...)
					x.Cond = nil
				}
			} else if x.Cond != nil || x.Post != nil {
				var hl []string
				if x.Cond != nil {
					hl = append(hl, atomicLabels(x.Cond)...)
				}
				if x.Post != nil {
					hl = append(hl, atomicLabels(x.Post)...)
				}
				if len(hl) > 0 {
					die("atomic operation in a 3-clause for header is not supported: %s", src(x.Cond))
				}
			}
		case *ast.RangeStmt:
			x.Body.List = rewriteBlock(x.Body.List)
		case *ast.SwitchStmt:
			for _, c := range x.Body.List {
				cc := c.(*ast.CaseClause)
				cc.Body = rewriteBlock(cc.Body)
			}
		case *ast.TypeSwitchStmt:
			for _, c := range x.Body.List {
				cc := c.(*ast.CaseClause)
				cc.Body = rewriteBlock(cc.Body)
			}
		case *ast.SelectStmt:
			for _, c := range x.Body.List {
				cc := c.(*ast.CommClause)
				cc.Body = rewriteBlock(cc.Body)
			}
		case *ast.LabeledStmt:
			tmp := rewriteBlock([]ast.Stmt{x.Stmt})
			if len(tmp) == 1 {
				x.Stmt = tmp[0]
			} else {
				// points must stay outside the label's statement; keep label on the last stmt
				out = append(out, tmp[:len(tmp)-1]...)
				x.Stmt = tmp[len(tmp)-1]
			}
		}
		if ns, label := lockRewrite(s); ns != nil {
			curSites.Sites = append(curSites.Sites, label)
			out = append(out, ns)
			continue
		}
		if ns, labels := condRewrite(s); ns != nil {
			curSites.Sites = append(curSites.Sites, labels...)
			out = append(out, ns)
			continue
		}
		var labs []string
		for _, h := range headerOf(s) {
			labs = append(labs, atomicLabels(h)...)
		}
		if len(labs) > 1 {
			multi = append(multi, fmt.Sprintf("%s: %v", curSites.Func, labs))
		}
		for _, l := range labs {
			out = append(out, pointStmt(l))
			curSites.Sites = append(curSites.Sites, l)
		}
		out = append(out, s)
	}
	return out
}

func rewriteIf(x *ast.IfStmt) {
	x.Body.List = rewriteBlock(x.Body.List)
	switch e := x.Else.(type) {
	case *ast.BlockStmt:
		e.List = rewriteBlock(e.List)
	case *ast.IfStmt:
		// else-if with atomics in its header: wrap in a block so the point can precede it
		var labs []string
		for _, h := range headerOf(e) {
			labs = append(labs, atomicLabels(h)...)
		}
		if len(labs) > 0 {
			x.Else = &ast.BlockStmt{List: rewriteBlock([]ast.Stmt{e})}
		} else {
			rewriteIf(e)
		}
	}
}

func funcName(fd *ast.FuncDecl) string {
	if fd.Recv != nil && len(fd.Recv.List) == 1 {
		t := strings.TrimPrefix(src(fd.Recv.List[0].Type), "*")
		if i := strings.Index(t, "["); i >= 0 {
			t = t[:i]
		}
		return t + "." + fd.Name.Name
	}
	return fd.Name.Name
}

func main() {
	if len(os.Args) < 3 {
		die("usage: yieldinject in.go out.go [-funcs a,b] [-sites out.json] [-pkgdir dir]")
	}
	in, out := os.Args[1], os.Args[2]
	only := map[string]bool{}
	sitesOut := ""
	entry = map[string]bool{}
	pkgdir := filepath.Dir(in)
	for i := 3; i < len(os.Args); i++ {
		switch os.Args[i] {
		case "-funcs":
			i++
			for _, f := range strings.Split(os.Args[i], ",") {
				only[f] = true
			}
		case "-syncmap":
			syncMapOn = true
		case "-plain":
			i++
			for _, f := range strings.Split(os.Args[i], ",") {
				plainOn[f] = true
			}
		case "-entry":
			i++
			for _, f := range strings.Split(os.Args[i], ",") {
				entry[f] = true
			}
		case "-sites":
			i++
			sitesOut = os.Args[i]
		case "-pkgdir":
			i++
			pkgdir = os.Args[i]
		}
	}
	collectFields(pkgdir)
	f, err := parser.ParseFile(fset, in, nil, parser.ParseComments)
	if err != nil {
		die("parse %s: %v", in, err)
	}
	var logs []*siteLog
	for _, d := range f.Decls {
		fd, ok := d.(*ast.FuncDecl)
		if !ok || fd.Body == nil {
			continue
		}
		name := funcName(fd)
		if len(only) > 0 && !only[name] && !only[fd.Name.Name] && !entry[name] && !entry[fd.Name.Name] {
			continue
		}
		curSites = &siteLog{Func: name}
		curRecv = ""
		if fd.Recv != nil && len(fd.Recv.List) == 1 && len(fd.Recv.List[0].Names) == 1 && fd.Recv.List[0].Names[0].Name != "_" {
			if _, isPtr := fd.Recv.List[0].Type.(*ast.StarExpr); isPtr {
				curRecv = fd.Recv.List[0].Names[0].Name
			}
		}
		if entry[name] || entry[fd.Name.Name] {
			l := "Call:" + fd.Name.Name
			fd.Body.List = append([]ast.Stmt{pointStmt(l)}, fd.Body.List...)
			curSites.Sites = append(curSites.Sites, l)
		}
		fd.Body.List = rewriteBlock(fd.Body.List)
		// function literals inside (goroutines etc.) are left alone on purpose
		if len(curSites.Sites) > 0 {
			logs = append(logs, curSites)
		}
	}
	// add import
	imp := &ast.ImportSpec{Path: &ast.BasicLit{Kind: token.STRING, Value: `"github.com/tochemey/goakt/v4/internal/vsched"`}}
	added := false
	for _, d := range f.Decls {
		if gd, ok := d.(*ast.GenDecl); ok && gd.Tok == token.IMPORT {
			gd.Specs = append(gd.Specs, imp)
			if !gd.Lparen.IsValid() {
				gd.Lparen = gd.Pos()
				gd.Rparen = gd.End()
			}
			added = true
			break
		}
	}
	if !added {
		f.Decls = append([]ast.Decl{&ast.GenDecl{Tok: token.IMPORT, Specs: []ast.Spec{imp}}}, f.Decls...)
	}
	f.Imports = append(f.Imports, imp)
	var buf bytes.Buffer
	// comments confuse positions after insertion; drop free-floating comments (the copy is only compiled)
	f.Comments = nil
	if err := printer.Fprint(&buf, fset, f); err != nil {
		die("print: %v", err)
	}
	res, err := format.Source(buf.Bytes())
	if err != nil {
		die("format: %v\n%s", err, buf.String())
	}
	hdr := "// Code generated by /verif/tools/yieldinject from " + in + "; DO NOT EDIT.\n"
	if len(logs) == 0 {
		// nothing instrumented: the vsched import would be unused
		res = bytes.Replace(res, []byte("\t\"github.com/tochemey/goakt/v4/internal/vsched\"\n"), nil, 1)
	}
	if err := os.WriteFile(out, append([]byte(hdr), res...), 0o644); err != nil {
		die("%v", err)
	}
	if sitesOut != "" {
		b, _ := json.MarshalIndent(map[string]any{"file": in, "funcs": logs, "multi_atomic_statements": multi}, "", " ")
		os.WriteFile(sitesOut, b, 0o644)
	}
	for _, m := range multi {
		fmt.Fprintf(os.Stderr, "yieldinject: note: several atomic operations in one statement (executed as one step after %s)\n", m)
	}
}

module yieldinject

go 1.23

// factextract: print, per function of a Go file, the ordered list (source order) of the calls whose
// selector path ends with one of the given two-component suffixes (e.g. schedState.TrySchedule,
// mailbox.Enqueue, dispatcher.schedule).  The models in /verif assume a particular order of these
// calls (Enqueue BEFORE TrySchedule, reset BEFORE IsEmpty …); check.py compares the extracted lists
// with the expectation stored next to the model, on every run, from /repo's current source.
//
// usage: factextract file.go suffix[,suffix…]      (suffix "schedState.*" matches any method)
package main

import (
	"bytes"
	"encoding/json"
	"fmt"
	"go/ast"
	"go/parser"
	"go/printer"
	"go/token"
	"os"
	"strings"
)

func main() {
	if len(os.Args) != 3 {
		fmt.Fprintln(os.Stderr, "usage: factextract file.go suffixes")
		os.Exit(2)
	}
	fset := token.NewFileSet()
	f, err := parser.ParseFile(fset, os.Args[1], nil, 0)
	if err != nil {
		fmt.Fprintln(os.Stderr, err)
		os.Exit(2)
	}
	pats := strings.Split(os.Args[2], ",")
	match := func(path string) (string, bool) {
		parts := strings.Split(path, ".")
		if len(parts) < 2 {
			return "", false
		}
		last2 := parts[len(parts)-2] + "." + parts[len(parts)-1]
		for _, p := range pats {
			if p == last2 || (strings.HasSuffix(p, ".*") && strings.TrimSuffix(p, "*") == parts[len(parts)-2]+".") {
				return last2, true
			}
		}
		return "", false
	}
	out := map[string][]string{}
	for _, d := range f.Decls {
		fd, ok := d.(*ast.FuncDecl)
		if !ok || fd.Body == nil {
			continue
		}
		name := fd.Name.Name
		if fd.Recv != nil && len(fd.Recv.List) == 1 {
			var b bytes.Buffer
			printer.Fprint(&b, fset, fd.Recv.List[0].Type)
			t := strings.TrimPrefix(b.String(), "*")
			if i := strings.Index(t, "["); i >= 0 {
				t = t[:i]
			}
			name = t + "." + name
		}
		var calls []string
		ast.Inspect(fd.Body, func(n ast.Node) bool {
			c, ok := n.(*ast.CallExpr)
			if !ok {
				return true
			}
			if sel, ok := c.Fun.(*ast.SelectorExpr); ok {
				var b bytes.Buffer
				printer.Fprint(&b, fset, sel)
				if m, ok := match(b.String()); ok {
					calls = append(calls, m)
				}
			}
			return true
		})
		if len(calls) > 0 {
			out[name] = calls
		}
	}
	b, _ := json.MarshalIndent(out, "", " ")
	fmt.Println(string(b))
}

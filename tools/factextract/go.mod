module factextract

go 1.23

#!/usr/bin/env python3
"""build every harness binary once so later checks hit a warm Go build cache"""
import os, sys
from concurrent.futures import ThreadPoolExecutor
sys.path.insert(0, os.path.dirname(os.path.abspath(__file__)))
import check
ids = [fn[:-3].upper() for fn in sorted(os.listdir(os.path.join(check.VERIF, "tools", "props"))) if fn.endswith(".py") and fn[0] == "c"]
def one(i):
    P = check.load_prop(i)
    res = {"broken": [], "timing": {}}
    check.build_harness(P, res)
    return i, res["timing"].get("go_build_s"), [b["what"] for b in res["broken"]]
with ThreadPoolExecutor(4) as ex:
    for r in ex.map(one, ids):
        print("warm", *r)

#!/usr/bin/env python3
"""seed_confirm.py <id> <seedname> <property> <demo-dest-relative-path> <go test pkg> <run pattern> [existing-test pkg pattern]
Confirms a seeded change delivered in $SEED_ROOT/<id>/out (default /tmp/m) in the scratch worktree $SEED_ROOT/wt_<id>:
 builds with the patch, demo FAILS with the patch, demo PASSES without it; optional existing tests pass with the patch;
then runs /verif's check for <property> against /repo with the patch applied and records everything in
/verif/seeded/<seedname>/ (patch.diff, demo, NOTES.md, meta.json)."""
import json, os, shutil, subprocess, sys
idn, seedname, prop, dest, pkg, pat = sys.argv[1:7]
extra = sys.argv[7:9] if len(sys.argv) >= 9 else None
ROOT = os.environ.get("SEED_ROOT", "/tmp/m")   # second round: SEED_ROOT=/tmp/m2
wt = f"{ROOT}/wt_{idn}"
out = f"{ROOT}/{idn}/out"
env = dict(os.environ, GOFLAGS="-mod=mod", GOPROXY="off")
def sh(cmd, cwd=wt, timeout=3000):
    p = subprocess.run(cmd, shell=True, cwd=cwd, env=env, stdout=subprocess.PIPE, stderr=subprocess.STDOUT, text=True, timeout=timeout)
    return p.returncode, p.stdout
res = {}
# normalise worktree: clean, apply patch
sh("git checkout -- . && git clean -fdq")
rc, o = sh(f"git apply {out}/patch.diff"); assert rc == 0, o
rc, o = sh("go build ./..."); res["build_with_patch"] = rc == 0
demo = [f for f in os.listdir(out) if f.endswith("_test.go") or f == "demo"]
shutil.copy(os.path.join(out, "demo_test.go"), os.path.join(wt, dest))
rc1, o1 = sh(f"go test -vet=off -count=1 {pkg} -run '{pat}'")
res["demo_with_patch_fails"] = rc1 != 0
res["demo_with_patch_tail"] = o1[-600:]
sh(f"git apply -R {out}/patch.diff")
rc2, o2 = sh(f"go test -vet=off -count=1 {pkg} -run '{pat}'")
res["demo_without_patch_passes"] = rc2 == 0
res["demo_without_patch_tail"] = o2[-300:]
os.remove(os.path.join(wt, dest))
sh(f"git apply {out}/patch.diff")
if extra:
    rc3, o3 = sh(f"go test -vet=off -count=1 {extra[0]} -run '{extra[1]}'")
    res["existing_tests_with_patch_pass"] = rc3 == 0
    res["existing_tests_tail"] = o3[-400:]
# run the check against the scratch worktree (patch applied) through VERIF_REPO: /repo itself is not touched
env["VERIF_REPO"] = wt
rc4, o4 = sh(f"python3 tools/check.py {prop}", cwd="/verif", timeout=3500)
lines = [l for l in o4.split("\n") if l.startswith("VIOLATION") or l.startswith("[" + prop)]
res["check_exit"] = rc4
res["check_lines"] = lines
res["caught"] = rc4 == 1 and any(l.startswith("VIOLATION") for l in lines)
res["with_failing_input"] = res["caught"] and not any("no-failing-input-found" in l for l in lines)
d = f"/verif/seeded/{seedname}"
os.makedirs(d, exist_ok=True)
shutil.copy(f"{out}/patch.diff", d)
shutil.copy(f"{out}/demo_test.go", d)
shutil.copy(f"{out}/NOTES.md", d)
meta = {"property": prop, "origin": "independent sub-agent given only the property text and a scratch worktree",
        "demo": {"place_at": dest, "run": f"go test -vet=off -count=1 {pkg} -run '{pat}'"},
        "needs": open(f"{out}/NOTES.md").read().split("## What is needed to manifest")[-1].split("##")[0].strip()[:600] if "## What is needed to manifest" in open(f"{out}/NOTES.md").read() else "see NOTES.md",
        "confirmed": {k: res[k] for k in res if not k.endswith("_tail")},
        "ran": f"scratch worktree {wt}: build, demo with/without patch" + (", existing tests" if extra else "") + f"; then VERIF_REPO={wt} python3 tools/check.py {prop} (same as: git -C /repo apply patch.diff; python3 tools/check.py {prop}; git -C /repo checkout -- .)"}
json.dump(meta, open(f"{d}/meta.json", "w"), indent=1)
print(json.dumps(meta["confirmed"], indent=1))
print(res.get("demo_with_patch_tail", "")[-300:])

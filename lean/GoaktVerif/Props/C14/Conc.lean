/-
C14, concurrent layer: actor/behavior_stack.go at atomic-operation granularity (engine E3)

Model/C14/Conc.lean has one transition per sync/atomic site of Push/Pop/Peek/Len/Reset (labels =
tools/yieldinject's), any number of threads with arbitrary programs, every schedule.  What holds:

* the linked chain IS a linearizable stack (`conc_refines`): every step changes the abstract stack
  (the values a sequential walk from `top` sees) by exactly the sequential operation `effect` says —
  a push at its successful CAS, a pop at its successful CAS, Reset at its first store, nothing
  otherwise — and the values operations return are the sequential ones at those points
  (`conc_peek_result`, `conc_pop_empty_result`, `conc_pop_result`);
* `Len()` is NOT linearizable with the chain: it can transiently read -1
  (`conc_len_transient_negative`), and with a concurrent Reset the counter and the chain can
  disagree FOREVER (`conc_len_reset_diverges`: Reset is two stores, top then length);
* what holds of the counter: without concurrent Reset, length = depth − (pushes linked but not yet
  counted) + (pops unlinked but not yet discounted) in every reachable configuration
  (`conc_len_inv`), hence `Len()` = depth whenever no operation is between its CAS and its Add
  (`conc_len_quiescent`, eventual consistency);
* through the PID API: setBehavior / resetBehavior / setBehaviorStacked / unsetBehaviorStacked all hold
  fieldsLocker and are only called by the goroutine handling the current message, so they form ONE
  logical thread; for one thread, with Reset allowed, `Len()` = depth at every operation boundary
  (`conc_solo`), which is what the `Len() > 1` guard of unsetBehaviorStacked relies on.  The only
  unlocked caller is `pid.reset()` (doStop, on the goroutine that called Shutdown): it can interleave
  its two stores with a handler's Push/Pop, which is the `conc_len_reset_diverges` schedule; the
  actor is stopped at that point and the stack is rebuilt by resetBehavior (Reset;Push under the
  lock) on restart, so the divergence is not observable through Become/UnBecome*. -/
import GoaktVerif.Model.C14.Conc
import GoaktVerif.Lemmas.C14

namespace GoaktVerif.C14.Conc
open GoaktVerif.Model.C14.Conc



/-- forward simulation, one step: the abstract stack changes by the step's sequential effect -/
theorem conc_refines (c : Cfg) (tid : Nat) (t : Thread) (pc : Pc) (hi : Inv c)
    (hth : c.threads[tid]? = some t) (hpc : t.pc = some pc) :
    Inv (step c tid) ∧ abs (step c tid) = effect c pc (abs c) := by
  refine ⟨inv_step c tid hi, ?_⟩
  have ht : ThrOK c.heap { t with pc := some pc } := by
    have := hi.thr t (List.mem_of_getElem? hth)
    simpa [ThrOK, hpc] using this
  have := abs_exec c t pc hi ht
  simpa [step, hth, hpc, abs, absOf] using this

/-- a thread that is done (or does not exist) changes nothing -/
theorem conc_idle (c : Cfg) (tid : Nat) (h : done c tid = true) : step c tid = c := by
  unfold done at h
  unfold step
  cases hth : c.threads[tid]? with
  | none => rfl
  | some t =>
    simp only [hth, Option.isNone_iff_eq_none] at h
    simp [h]

/-- every reachable configuration satisfies the invariant, so `conc_refines` applies along every schedule -/
theorem conc_reachable (progs : List (List Op)) (sched : List Nat) : Inv (run (init progs) sched) :=
  inv_run _ sched (inv_init progs)

/-- Peek returns the top of the abstract stack at its (single) step -/
theorem conc_peek_result (c : Cfg) (t : Thread) (hi : Inv c) :
    (exec c t .peekLoad).2.2.2 = finish t (.val (abs c).head?) := by
  simp only [exec]
  cases h : c.top with
  | none => simp [abs, h, chain_none]
  | some a => rw [abs_pop c hi a h]; rfl

/-- Pop that finds `top == nil` returns nil, and the abstract stack is empty at that step -/
theorem conc_pop_empty_result (c : Cfg) (t : Thread) (h : c.top = none) :
    (exec c t .popLoad).2.2.2 = finish t (.val none) ∧ abs c = [] := by
  simp [exec, h, abs, chain_none]

/-- Pop whose CAS succeeds returns (at its last step) the value that was on top of the abstract stack at the CAS -/
theorem conc_pop_result (c : Cfg) (t : Thread) (a : Nat) (n : Option Nat) (hi : Inv c) (h : c.top = some a) :
    (exec c t (.popCAS a n)).2.2.2.pc = some (.popAdd (valAt c.heap a)) ∧ (abs c).head? = some (valAt c.heap a)
    ∧ ∀ (c' : Cfg) (t' : Thread) (v : Nat), (exec c' t' (.popAdd v)).2.2.2 = finish t' (.val (some v)) := by
  refine ⟨by simp [exec, h], by rw [abs_pop c hi a h]; rfl, fun _ _ _ => rfl⟩

/-! ### the length counter -/

def NoReset (c : Cfg) : Prop := ∀ t ∈ c.threads, NoResetT t
def LenInv (c : Cfg) : Prop := c.length + pendSum c.threads = ((abs c).length : Int)

theorem len_step (c : Cfg) (tid : Nat) (hi : Inv c) (hn : NoReset c) (hl : LenInv c) :
    NoReset (step c tid) ∧ LenInv (step c tid) := by
  unfold step
  cases hth : c.threads[tid]? with
  | none => exact ⟨hn, hl⟩
  | some t =>
    simp only
    cases hpc : t.pc with
    | none => exact ⟨hn, hl⟩
    | some pc =>
      simp only
      have hmem : t ∈ c.threads := List.mem_of_getElem? hth
      obtain ⟨n1, n2, n3⟩ := hn t hmem
      have h1 : pc ≠ .resetTop := fun e => n2 (by rw [hpc, e])
      have h2 : pc ≠ .resetLen := fun e => n3 (by rw [hpc, e])
      have ht : ThrOK c.heap { t with pc := some pc } := by
        have := hi.thr t hmem
        simpa [ThrOK, hpc] using this
      constructor
      · intro u hu
        rcases List.mem_or_eq_of_mem_set hu with hu | rfl
        · exact hn u hu
        · exact exec_noReset c t pc n1 h1 h2
      · have hle := len_exec c t pc hi ht hpc h1 h2
        unfold LenInv at hl ⊢
        simp only [abs] at hl ⊢
        rw [pendSum_set _ _ t _ hth]
        simp only [absOf, abs] at hle
        omega

theorem pendSum_init (progs : List (List Op)) : pendSum (init progs).threads = 0 := by
  simp only [init, pendSum, List.map_map]
  induction progs with
  | nil => rfl
  | cons p ps ih => simp only [List.map_cons, List.sum_cons, Function.comp, pend_startNext]; simpa using ih

/-- without Reset: in EVERY reachable configuration, for every schedule and any number of threads,
    length = depth − #(pushes linked, not yet counted) + #(pops unlinked, not yet discounted) -/
theorem conc_len_inv (progs : List (List Op)) (hp : ∀ p ∈ progs, Op.reset ∉ p) (sched : List Nat) :
    LenInv (run (init progs) sched) := by
  have key : ∀ (sched : List Nat) (c : Cfg), Inv c → NoReset c → LenInv c → LenInv (run c sched) := by
    intro sched
    induction sched with
    | nil => intro c _ _ hl; exact hl
    | cons t ts ih =>
      intro c hi hn hl
      obtain ⟨a, b⟩ := len_step c t hi hn hl
      exact ih _ (inv_step c t hi) a b
  apply key _ _ (inv_init progs)
  · intro t ht
    simp only [init, List.mem_map] at ht
    obtain ⟨p, hpm, rfl⟩ := ht
    exact noReset_startNext _ (hp p hpm)
  · unfold LenInv
    rw [pendSum_init]
    simp [init, abs, chain]

/-- eventual consistency: whenever no operation sits between its CAS and its Add, Len() = depth -/
theorem conc_len_quiescent (progs : List (List Op)) (hp : ∀ p ∈ progs, Op.reset ∉ p) (sched : List Nat)
    (hq : ∀ t ∈ (run (init progs) sched).threads, pend t = 0) :
    (run (init progs) sched).length = ((abs (run (init progs) sched)).length : Int) := by
  have h := conc_len_inv progs hp sched
  unfold LenInv at h
  have : pendSum (run (init progs) sched).threads = 0 := by
    unfold pendSum
    generalize (run (init progs) sched).threads = ts at hq
    induction ts with
    | nil => rfl
    | cons x xs ih =>
      have hx := hq x (by simp)
      have hxs := ih (fun t ht => hq t (by simp [ht]))
      simp only [List.map_cons, List.sum_cons, hx, hxs]; rfl
  omega

example : (∀ p ∈ [[Op.push 1, .pop], [.push 2, .len, .peek]], Op.reset ∉ p) := by decide

/-- REFUTED with a concurrent Reset: thread 0 pushes, thread 1 resets between the push's CAS and
    its Add. Everything has finished, the chain is empty, `Len()` says 1 — forever. -/
theorem conc_len_reset_diverges :
    let c := run (init [[.push 1], [.reset]]) [0, 0, 1, 1, 0]
    done c 0 = true ∧ done c 1 = true ∧ abs c = [] ∧ c.length = 1 := by decide

/-- and even without Reset `Len()` can transiently read -1: the pop discounts a node whose push has not counted it yet -/
theorem conc_len_transient_negative :
    let c := run (init [[.push 1], [.pop, .len]]) [0, 0, 1, 1, 1, 1, 1]
    (c.threads.map (·.hist))[1]? = some [.num (-1), .val (some 1)] := by decide

/-- the PID-level view: one logical thread (all callers hold fieldsLocker), Reset allowed.  Between
    the two stores of Reset the chain is empty; everywhere else length + pending = depth; so at every
    operation boundary `Len()` = depth. -/
def Solo (c : Cfg) : Prop :=
  ∃ t, c.threads = [t] ∧ (t.pc = some .resetLen → abs c = [])
    ∧ (t.pc ≠ some .resetLen → c.length + pend t = ((abs c).length : Int))

theorem startNext_pc_ne (t : Thread) : (startNext t).pc ≠ some .resetLen := by
  unfold startNext
  cases t.todo with
  | nil => simp
  | cons op r => cases op <;> simp [pcOf]

theorem exec_pc_resetLen (c : Cfg) (t : Thread) (pc : Pc) (h : (exec c t pc).2.2.2.pc = some .resetLen) : pc = .resetTop := by
  cases pc with
  | resetTop => rfl
  | pushCAS b old => simp only [exec] at h; split at h <;> simp at h
  | popCAS a n => simp only [exec] at h; split at h <;> simp at h
  | popLoad =>
    simp only [exec] at h
    cases hx : c.top with
    | none => rw [hx] at h; exact absurd h (startNext_pc_ne _)
    | some a => rw [hx] at h; simp at h
  | pushLoad b => simp [exec] at h
  | popNext a => simp [exec] at h
  | pushAdd => exact absurd h (startNext_pc_ne _)
  | popAdd v => exact absurd h (startNext_pc_ne _)
  | peekLoad => exact absurd h (startNext_pc_ne _)
  | lenLoad => exact absurd h (startNext_pc_ne _)
  | resetLen => exact absurd h (startNext_pc_ne _)

theorem conc_solo_step (c : Cfg) (hi : Inv c) (hs : Solo c) : Solo (step c 0) := by
  obtain ⟨t, hts, hm1, hm2⟩ := hs
  unfold step
  simp only [hts, List.getElem?_cons_zero]
  cases hpc : t.pc with
  | none => exact ⟨t, hts, hm1, hm2⟩
  | some pc =>
    simp only [List.set_cons_zero]
    have ht : ThrOK c.heap { t with pc := some pc } := by
      have := hi.thr t (by simp [hts])
      simpa [ThrOK, hpc] using this
    have habs := abs_exec c t pc hi ht
    refine ⟨_, rfl, ?_, ?_⟩
    · intro hnew
      have := exec_pc_resetLen c t pc hnew
      subst this
      simpa [abs, absOf, effect] using habs
    · intro hnew
      by_cases h1 : pc = .resetTop
      · subst h1; exact absurd (by simp [exec]) hnew
      · by_cases h2 : pc = .resetLen
        · subst h2
          have he := hm1 hpc
          simp only [effect, id] at habs
          simp only [abs, absOf] at habs he ⊢
          rw [habs, he]
          simp [exec, pend_finish]
        · have hle := len_exec c t pc hi ht hpc h1 h2
          have hm := hm2 (by rw [hpc]; simpa using h2)
          simp only [abs, absOf] at hle hm ⊢
          omega

/-- so along every run of ONE thread (the handler goroutine under fieldsLocker) the counter is right at every operation boundary -/
theorem conc_solo (prog : List Op) (n : Nat) :
    Solo (run (init [prog]) (List.replicate n 0)) := by
  have key : ∀ (n : Nat) (c : Cfg), Inv c → Solo c → Solo (run c (List.replicate n 0)) := by
    intro n
    induction n with
    | zero => intro c _ hs; exact hs
    | succ n ih => intro c hi hs; exact ih _ (inv_step c 0 hi) (conc_solo_step c hi hs)
  apply key n _ (inv_init _)
  refine ⟨startNext ⟨none, prog, []⟩, rfl, fun h => absurd h (startNext_pc_ne _), fun _ => ?_⟩
  simp [init, abs, chain, pend_startNext]

end GoaktVerif.C14.Conc

/-
C13, physical layer: no ReceiveContext object is ever in two places.

Theorem `pool_no_alias`: for every run (any tells, deliveries, stash/unstash/unstashAll calls, other
actors taking contexts from the global pool), the contexts that are the main mailbox's sentinel (the
handler's current context), queued in the main mailbox, the stash mailbox's sentinel, queued in the
stash, or free in the pool are pairwise distinct: a stashed context never aliases a pooled one that
getContext hands out again, nor a node of the main mailbox.  `pool_fast_aliases`: the seeded variant
C13-m2 (unstash re-enqueues the dequeued context itself) breaks exactly this.
-/
import GoaktVerif.Model.C13.Pool

namespace GoaktVerif.C13.Pool
open GoaktVerif.Model.C13.Pool

/-- all locations hold pairwise distinct contexts, all of them already allocated -/
def Good (s : S) : Prop := (ids s).Nodup ∧ ∀ i ∈ ids s, i < s.fresh

theorem good_of_perm (s s' : S) (h : Good s) (hp : (ids s').Perm (ids s)) (hf : s'.fresh = s.fresh) : Good s' :=
  ⟨hp.nodup_iff.mpr h.1, fun i hi => by rw [hf]; exact h.2 i (hp.mem_iff.mp hi)⟩

theorem good_of_perm_fresh (s s' : S) (h : Good s) (hp : (ids s').Perm (s.fresh :: ids s)) (hf : s'.fresh = s.fresh + 1) : Good s' := by
  constructor
  · rw [hp.nodup_iff, List.nodup_cons]
    exact ⟨fun hm => Nat.lt_irrefl _ (h.2 _ hm), h.1⟩
  · intro i hi
    rw [hf]
    rcases List.mem_cons.mp (hp.mem_iff.mp hi) with rfl | hm
    · omega
    · have := h.2 i hm; omega

theorem good_putMain (s : S) (h : Good s) : Good (putMain s) := by
  unfold putMain
  cases hp : s.pool with
  | nil =>
    dsimp only
    refine good_of_perm_fresh s _ h ?_ rfl
    simp only [ids, stashIds, hp, List.append_nil]
    cases s.stash <;> simp <;> grind
  | cons x r =>
    dsimp only
    refine good_of_perm s _ h ?_ rfl
    simp only [ids, stashIds, hp]
    cases s.stash <;> simp <;> grind

theorem good_putStash (s : S) (h : Good s) : Good (putStash s) := by
  unfold putStash
  cases hs : s.stash with
  | none => exact h
  | some b =>
    dsimp only
    cases hp : s.pool with
    | nil =>
      dsimp only
      refine good_of_perm_fresh s _ h ?_ rfl
      simp only [ids, stashIds, hs, hp, List.append_nil]
      (try simp) <;> grind
    | cons x r =>
      dsimp only
      refine good_of_perm s _ h ?_ rfl
      simp only [ids, stashIds, hs, hp]
      (try simp) <;> grind

theorem good_popMain (s : S) (h : Good s) : Good (popMain s) := by
  unfold popMain
  cases hq : s.main.q with
  | nil => exact h
  | cons x r =>
    dsimp only
    refine good_of_perm s _ h ?_ rfl
    simp only [ids, stashIds, hq]
    cases s.stash <;> simp <;> grind

theorem good_popStash (s : S) (h : Good s) : Good (popStash s) := by
  unfold popStash
  cases hs : s.stash with
  | none => exact h
  | some b =>
    dsimp only
    cases hq : b.q with
    | nil => exact h
    | cons x r =>
      dsimp only
      refine good_of_perm s _ h ?_ rfl
      simp only [ids, stashIds, hs, hq]
      (try simp) <;> grind

theorem unstash_slow (s : S) : unstash false s = (match s.stash with
    | none => s
    | some b => match b.q with
      | [] => s
      | _ :: _ => putMain (popStash s)) := by
  unfold unstash
  cases hs : s.stash with
  | none => rfl
  | some b => cases hq : b.q <;> simp <;> simp [hq]

theorem good_unstash (s : S) (h : Good s) : Good (unstash false s) := by
  rw [unstash_slow]
  cases hs : s.stash with
  | none => exact h
  | some b =>
    dsimp only
    cases hq : b.q with
    | nil => exact h
    | cons x r => exact good_putMain _ (good_popStash _ h)

theorem good_unstashAll (s : S) (n : Nat) (h : Good s) : Good (unstashAll s n) := by
  induction n generalizing s with
  | zero => exact h
  | succ n ih => exact ih _ (good_unstash s h)

theorem good_envTake (s : S) (h : Good s) : Good { s with pool := s.pool.tail } := by
  have hsub : (ids { s with pool := s.pool.tail }).Sublist (ids s) := by
    simp only [ids, stashIds]
    exact List.cons_sublist_cons.mpr
      ((List.Sublist.refl _).append ((List.Sublist.refl _).append (List.tail_sublist _)))
  exact ⟨h.1.sublist hsub, fun i hi => h.2 i (hsub.subset hi)⟩

theorem good_step (s : S) (st : Step) (h : Good s) : Good (step false s st) := by
  cases st with
  | tell => exact good_putMain s h
  | deliver => exact good_popMain s h
  | stash => exact good_putStash s h
  | unstash => exact good_unstash s h
  | unstashAll => exact good_unstashAll s _ h
  | envTake => exact good_envTake s h

theorem good_init (buf : Bool) : Good (init buf) := by
  cases buf <;> simp [Good, init, ids, stashIds] <;> omega

/-- NO ALIASING, every run of the code as it is: the handler's context / main sentinel, the queued
    main contexts, the stash sentinel, the stashed contexts and the free pooled contexts are pairwise
    distinct objects at every moment. -/
theorem pool_no_alias (buf : Bool) (steps : List Step) : Good (run false (init buf) steps) := by
  have key : ∀ (steps : List Step) (s : S), Good s → Good (run false s steps) := by
    intro steps
    induction steps with
    | nil => intro s h; exact h
    | cons x xs ih => intro s h; exact ih _ (good_step s x h)
  exact key steps _ (good_init buf)

/-- consequences spelled out: a stashed context is never in the pool, never in the main mailbox, and is not the stash sentinel -/
theorem stashed_not_pooled (buf : Bool) (steps : List Step) (b : MBox) (i : Nat)
    (hb : (run false (init buf) steps).stash = some b) (hi : i ∈ b.q) :
    i ∉ (run false (init buf) steps).pool ∧ i ∉ (run false (init buf) steps).main.q
    ∧ i ≠ (run false (init buf) steps).main.sent ∧ i ≠ b.sent := by
  have h := (pool_no_alias buf steps).1
  generalize run false (init buf) steps = s at *
  simp only [ids, stashIds, hb] at h
  simp only [List.nodup_cons, List.nodup_append, List.mem_append, List.mem_cons] at h
  grind

/-- the seeded defect C13-m2 in the model: stash one message, Unstash it (fast path) — the same
    context is now the stash mailbox's sentinel AND a node of the main mailbox -/
theorem pool_fast_aliases :
    let s := run true (init true) [.tell, .deliver, .stash, .unstash]
    ¬ (ids s).Nodup ∧ (∃ b, s.stash = some b ∧ b.sent ∈ s.main.q) := by
  decide

example : (run false (init true) [.tell, .deliver, .stash, .unstash]).main.q ≠ [] := by decide

end GoaktVerif.C13.Pool

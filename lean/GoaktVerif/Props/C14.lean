/-
C14 — Behavior switching follows stack semantics.

"For any sequence of Become, BecomeStacked, UnBecomeStacked and UnBecome calls made while
 handling messages, the handler used for each later message is the one a stack model predicts:
 Become replaces all behaviors with one, BecomeStacked pushes, UnBecomeStacked pops, and
 UnBecome restores only the default behavior, clearing stacked ones. The message being handled
 always finishes under the behavior that started it."

Model (Model/C14): behaviorStack (nodes + length counter), the four PID functions, handleReceived
reading Peek once per message.  Spec (Spec/C14): the documented stack, where UnBecomeStacked has
"No effect if there is no stack".  The model is tied to /repo by the differential run of a real
actor in a real actor system (harness/verifdrv/c14) on every check.

Result on the current tree: the code is EXACTLY the naive stack for all op sequences
(`C14_plain_holds`, no guard), which coincides with the documented stack on every sequence that
never calls UnBecomeStacked with nothing stacked (`C14_partial`).  On the remaining sequences the
code pops the base behaviour and the actor silently ignores every later message, forever
(`C14_refuted`, `deaf_absorbing`): finding C14-F1.
-/
import GoaktVerif.Model.C14
import GoaktVerif.Spec.C14

namespace GoaktVerif.C14
open GoaktVerif.Model.C14 GoaktVerif.Spec.C14

/-! ### the code is a stack: state after any call = naive stack op on the node list -/

theorem applyOp_dflt (p : PID) (op : Op) : (applyOp p op).dflt = p.dflt := by
  cases op <;> rfl

theorem applyOp_nodes (p : PID) (op : Op) :
    (applyOp p op).stack.nodes = plainOp p.dflt p.stack.nodes op := by
  cases op with
  | become b => rfl
  | becomeStacked b => rfl
  | unbecome => rfl
  | unbecomeStacked =>
    simp only [applyOp, unsetBehaviorStacked, BStack.pop, plainOp]
    cases h : p.stack.nodes <;> simp [h]

/-- the `length` counter always equals the number of linked nodes (so `Len`/`IsEmpty` are truthful) -/
theorem applyOp_len_inv (p : PID) (op : Op) (h : p.stack.length = p.stack.nodes.length) :
    (applyOp p op).stack.length = (applyOp p op).stack.nodes.length := by
  cases op with
  | become b => rfl
  | becomeStacked b => simp [applyOp, setBehaviorStacked, BStack.push, h]
  | unbecome => rfl
  | unbecomeStacked =>
    simp only [applyOp, unsetBehaviorStacked, BStack.pop]
    cases hn : p.stack.nodes with
    | nil => simp [h, hn]
    | cons x xs => simp [h, hn]

/-- regression statement for fix c9f88bb: whatever was stacked, after UnBecome exactly the default remains -/
theorem unbecome_clears (p : PID) : (applyOp p .unbecome).stack.nodes = [p.dflt] := rfl

theorem exec_dflt (b : Beh) (p : PID) (ops : List Op) : (exec b p ops).2.dflt = p.dflt := by
  induction ops generalizing p with
  | nil => rfl
  | cons op ops ih => simp only [exec]; rw [ih, applyOp_dflt]

theorem exec_nodes (b : Beh) (p : PID) (ops : List Op) :
    (exec b p ops).2.stack.nodes = ops.foldl (plainOp p.dflt) p.stack.nodes := by
  induction ops generalizing p with
  | nil => rfl
  | cons op ops ih =>
    simp only [exec, List.foldl_cons]
    rw [ih, applyOp_dflt, applyOp_nodes]

theorem exec_len_inv (b : Beh) (p : PID) (ops : List Op) (h : p.stack.length = p.stack.nodes.length) :
    (exec b p ops).2.stack.length = (exec b p ops).2.stack.nodes.length := by
  induction ops generalizing p with
  | nil => exact h
  | cons op ops ih => simp only [exec]; exact ih _ (applyOp_len_inv p op h)

/-- every call made while a message is handled is made by the behaviour that was entered -/
theorem exec_events (b : Beh) (p : PID) (ops : List Op) :
    (exec b p ops).1 = ops.map fun op => (b, op) := by
  induction ops generalizing p with
  | nil => rfl
  | cons op ops ih => simp only [exec, List.map_cons]; rw [ih]

theorem handle_dflt (p : PID) (m : List Op) : (handleReceived p m).2.2.dflt = p.dflt := by
  unfold handleReceived
  cases p.stack.peek with
  | none => rfl
  | some b => exact exec_dflt b p m

/-- handler of a message = top at its start -/
theorem handle_handler (p : PID) (m : List Op) : (handleReceived p m).1 = p.stack.nodes.head? := by
  unfold handleReceived BStack.peek
  cases p.stack.nodes.head? <;> rfl

/-- state after a message: the naive stack ops applied — unless there was no handler, then nothing ran -/
theorem handle_nodes (p : PID) (m : List Op) :
    (handleReceived p m).2.2.stack.nodes =
      if p.stack.nodes = [] then [] else m.foldl (plainOp p.dflt) p.stack.nodes := by
  unfold handleReceived BStack.peek
  cases h : p.stack.nodes with
  | nil => simp [h]
  | cons x xs => simp only [List.head?_cons]; rw [exec_nodes, h]; simp

theorem handle_len_inv (p : PID) (m : List Op) (h : p.stack.length = p.stack.nodes.length) :
    (handleReceived p m).2.2.stack.length = (handleReceived p m).2.2.stack.nodes.length := by
  unfold handleReceived
  cases p.stack.peek with
  | none => exact h
  | some b => exact exec_len_inv b p m h

/-- "The message being handled always finishes under the behavior that started it": the behaviour
    is read once (Peek at the start); every later call of the same message is executed by that
    same behaviour, although the top of the stack may already be a different one. -/
theorem C14_inprogress (p : PID) (m : List Op) :
    ∀ e ∈ (handleReceived p m).2.1, some e.1 = p.stack.peek ∧ some e.1 = (handleReceived p m).1 := by
  unfold handleReceived
  cases h : p.stack.peek with
  | none => simp
  | some b =>
    simp only [exec_events]
    intro e he
    simp only [List.mem_map] at he
    obtain ⟨op, _, rfl⟩ := he
    exact ⟨rfl, rfl⟩

/-- non-vacuous: handler 0 executes both calls although after the first call the top is 7 -/
example : (handleReceived (PID.init 0) [.becomeStacked 7, .becomeStacked 8]).2.1 = [(0, .becomeStacked 7), (0, .becomeStacked 8)]
    ∧ (applyOp (PID.init 0) (.becomeStacked 7)).stack.peek = some 7 := by decide

/-! ### whole runs -/

/-- an actor whose stack is empty never gets a behaviour back by itself: no handler runs, so no
    switch call can ever be made (only Restart, which is outside this model, re-pushes the default) -/
theorem deaf_absorbing (p : PID) (h : p.stack.nodes = []) (msgs : List (List Op)) :
    (run p msgs).1 = List.replicate msgs.length none ∧ (run p msgs).2 = p := by
  induction msgs with
  | nil => exact ⟨rfl, rfl⟩
  | cons m ms ih =>
    have hp : p.stack.peek = none := by simp [BStack.peek, h]
    simp only [run, handleReceived, hp, List.length_cons, List.replicate_succ]
    exact ⟨by rw [ih.1], ih.2⟩

/-- The code is the naive stack, for ALL message streams and ALL switch scripts (no guard):
    handler of each message = top of the naive stack at the start of that message, where a
    message that finds the stack empty has no handler and its script does not run. -/
theorem run_eq_plain (p : PID) (msgs : List (List Op)) :
    (run p msgs).1 = plainHandlersFrom p.dflt p.stack.nodes msgs := by
  induction msgs generalizing p with
  | nil => rfl
  | cons m ms ih =>
    simp only [run, plainHandlersFrom]
    rw [ih, handle_handler, handle_dflt, handle_nodes]

/-- and the stack a stream leaves behind is the naive stack's -/
theorem run_nodes_plain (p : PID) (msgs : List (List Op)) :
    (run p msgs).2.stack.nodes = plainFinalFrom p.dflt p.stack.nodes msgs := by
  induction msgs generalizing p with
  | nil => rfl
  | cons m ms ih =>
    simp only [run, plainFinalFrom]
    rw [ih, handle_dflt, handle_nodes]

theorem run_len_inv (p : PID) (msgs : List (List Op)) (h : p.stack.length = p.stack.nodes.length) :
    (run p msgs).2.stack.length = (run p msgs).2.stack.nodes.length := by
  induction msgs generalizing p with
  | nil => exact h
  | cons m ms ih => simp only [run]; exact ih _ (handle_len_inv p m h)

/-! ### naive stack = documented stack on well-formed scripts -/

theorem wf_script_agree (d : Beh) (s : List Beh) (m : List Op) (hs : s ≠ []) (hw : wfScript d s m = true) :
    m.foldl (plainOp d) s = m.foldl (docOp d) s ∧ m.foldl (docOp d) s ≠ [] := by
  induction m generalizing s with
  | nil => exact ⟨rfl, hs⟩
  | cons op ops ih =>
    simp only [wfScript, Bool.and_eq_true] at hw
    have hstep : plainOp d s op = docOp d s op ∧ docOp d s op ≠ [] := by
      cases op with
      | become b => exact ⟨rfl, by simp [docOp]⟩
      | becomeStacked b => exact ⟨rfl, by simp [docOp]⟩
      | unbecome => exact ⟨rfl, by simp [docOp]⟩
      | unbecomeStacked =>
        have h2 : 2 ≤ s.length := by simpa using hw.1
        have : ¬ s.length ≤ 1 := by omega
        simp only [plainOp, docOp, this, if_false, true_and]
        match s, h2 with
        | _ :: _ :: _, _ => simp
    simp only [List.foldl_cons]
    rw [hstep.1]
    exact ih _ hstep.2 hw.2

theorem wf_handlers_agree (d : Beh) (s : List Beh) (msgs : List (List Op)) (hs : s ≠ [])
    (hw : wfFrom d s msgs = true) :
    plainHandlersFrom d s msgs = handlers (docOp d) s msgs := by
  induction msgs generalizing s with
  | nil => rfl
  | cons m ms ih =>
    simp only [wfFrom, Bool.and_eq_true] at hw
    have ha := wf_script_agree d s m hs hw.1
    simp only [plainHandlersFrom, handlers, hs, if_false]
    rw [ha.1]
    exact congrArg _ (ih _ ha.2 hw.2)

theorem wf_final_agree (d : Beh) (s : List Beh) (msgs : List (List Op)) (hs : s ≠ [])
    (hw : wfFrom d s msgs = true) :
    plainFinalFrom d s msgs = docFinalFrom d s msgs := by
  induction msgs generalizing s with
  | nil => rfl
  | cons m ms ih =>
    simp only [wfFrom, Bool.and_eq_true] at hw
    have ha := wf_script_agree d s m hs hw.1
    simp only [plainFinalFrom, docFinalFrom, hs, if_false]
    rw [ha.1]
    exact ih _ ha.2 hw.2

/-- the documented stack is never empty, so the documentation promises a handler for every message -/
theorem doc_nonempty (d : Beh) (s : List Beh) (hs : s ≠ []) (op : Op) : docOp d s op ≠ [] := by
  cases op with
  | become b => simp [docOp]
  | becomeStacked b => simp [docOp]
  | unbecome => simp [docOp]
  | unbecomeStacked =>
    simp only [docOp]
    split
    · exact hs
    · match s with
      | [] => exact absurd rfl hs
      | [_] => simp at *
      | _ :: _ :: _ => simp

theorem doc_fold_nonempty (d : Beh) (s : List Beh) (hs : s ≠ []) (m : List Op) : m.foldl (docOp d) s ≠ [] := by
  induction m generalizing s with
  | nil => exact hs
  | cons op ops ih => exact ih _ (doc_nonempty d s hs op)

theorem doc_handlers_some (d : Beh) (s : List Beh) (hs : s ≠ []) (msgs : List (List Op)) :
    ∀ h ∈ handlers (docOp d) s msgs, h.isSome = true := by
  induction msgs generalizing s with
  | nil => simp [handlers]
  | cons m ms ih =>
    simp only [handlers, List.mem_cons]
    intro h hh
    rcases hh with rfl | hh
    · match s, hs with
      | _ :: _, _ => rfl
    · exact ih _ (doc_fold_nonempty d s hs m) h hh

/-- events: the code's per-message calls are attributed exactly as the documentation says -/
theorem events_agree (p : PID) (msgs : List (List Op)) (hs : p.stack.nodes ≠ [])
    (hw : wfFrom p.dflt p.stack.nodes msgs = true) :
    runEvents p msgs = docEvents p.dflt p.stack.nodes msgs := by
  induction msgs generalizing p with
  | nil => rfl
  | cons m ms ih =>
    simp only [wfFrom, Bool.and_eq_true] at hw
    have ha := wf_script_agree p.dflt p.stack.nodes m hs hw.1
    have hnodes : (handleReceived p m).2.2.stack.nodes = m.foldl (docOp p.dflt) p.stack.nodes := by
      rw [handle_nodes, if_neg hs, ha.1]
    simp only [runEvents, docEvents]
    congr 1
    · unfold handleReceived BStack.peek
      match hN : p.stack.nodes, hs with
      | x :: xs, _ => simp [exec_events]
    · have := ih (handleReceived p m).2.2 (by rw [hnodes]; exact ha.2) (by rw [handle_dflt, hnodes]; exact hw.2)
      rw [this, handle_dflt, hnodes]

/-! ### the property -/

/-- The full statement, against the DOCUMENTED stack: for every default behaviour and every
    stream of messages with arbitrary switch scripts, (1) the handler used for each message is
    the documented stack's top at the start of that message, and (2) every call made while a
    message is handled is made by the behaviour that started it. -/
def C14_full : Prop :=
  ∀ (d : Beh) (msgs : List (List Op)),
    (run (PID.init d) msgs).1 = docHandlers d msgs
    ∧ runEvents (PID.init d) msgs = docEvents d [d] msgs

/-- FALSE of the current code: UnBecomeStacked with nothing stacked ("No effect if there is no
    stack" in the documentation) pops the base behaviour; the next message has no handler. -/
theorem C14_refuted : ¬ C14_full := by
  intro h
  have := (h 0 [[.unbecomeStacked], []]).1
  revert this
  decide

/-- the witness, spelled out: message 1 (handled by the default) calls UnBecomeStacked; message 2
    is dropped by the code, the documentation says the default handles it -/
example : (run (PID.init 0) [[.unbecomeStacked], []]).1 = [some 0, none]
    ∧ docHandlers 0 [[.unbecomeStacked], []] = [some 0, some 0] := by decide

/-- TRUE for every stream and all scripts in which UnBecomeStacked is only called while something
    is stacked above the base (`wellFormed`, decidable).  What the guard excludes: exactly the
    documented-as-no-effect calls of finding C14-F1. -/
theorem C14_partial (d : Beh) (msgs : List (List Op)) (hw : wellFormed d msgs = true) :
    (run (PID.init d) msgs).1 = docHandlers d msgs
    ∧ runEvents (PID.init d) msgs = docEvents d [d] msgs := by
  constructor
  · rw [run_eq_plain]
    exact wf_handlers_agree d [d] msgs (by simp) hw
  · exact events_agree (PID.init d) msgs (by simp [PID.init, BStack.push, BStack.new]) hw

/-- non-vacuous instance of the guard: the script of the fixed defect F6 (BecomeStacked; UnBecome
    in one message, a probe) and a deeper push/pop script are well-formed -/
example : wellFormed 0 [[.becomeStacked 1, .unbecome], [.becomeStacked 2], [.becomeStacked 3, .unbecomeStacked], [.unbecomeStacked], []] = true := by decide
example : wellFormed 0 [[.unbecomeStacked]] = false := by decide
example : wellFormed 0 [[.become 1], [.unbecomeStacked]] = false := by decide

/-- under the same guard the stack left behind (what any continuation of the stream will see, and
    what `Len` reports) is the documented one -/
theorem C14_partial_stack (d : Beh) (msgs : List (List Op)) (hw : wellFormed d msgs = true) :
    (run (PID.init d) msgs).2.stack.nodes = docFinal d msgs
    ∧ (run (PID.init d) msgs).2.stack.len = (docFinal d msgs).length := by
  have h1 : (run (PID.init d) msgs).2.stack.nodes = docFinal d msgs := by
    rw [run_nodes_plain]
    exact wf_final_agree d [d] msgs (by simp) hw
  refine ⟨h1, ?_⟩
  unfold BStack.len
  rw [run_len_inv (PID.init d) msgs rfl, h1]

/-- under the guard every message gets a handler (the actor never goes deaf) -/
theorem C14_partial_never_deaf (d : Beh) (msgs : List (List Op)) (hw : wellFormed d msgs = true) :
    ∀ h ∈ (run (PID.init d) msgs).1, h.isSome = true := by
  rw [(C14_partial d msgs hw).1]
  exact doc_handlers_some d [d] (by simp) msgs

/-- Unguarded characterisation of the code, ALL streams and scripts: it is the naive stack in
    which UnBecomeStacked also pops the base; and the `length` counter equals the node count. -/
theorem C14_plain_holds (d : Beh) (msgs : List (List Op)) :
    (run (PID.init d) msgs).1 = plainHandlersFrom d [d] msgs
    ∧ (run (PID.init d) msgs).2.stack.length = (run (PID.init d) msgs).2.stack.nodes.length :=
  ⟨run_eq_plain (PID.init d) msgs, run_len_inv (PID.init d) msgs rfl⟩

/-- and once the base is popped, every later message is ignored, whatever it would have asked for -/
theorem C14_deaf_forever (d : Beh) (pre post : List (List Op))
    (h : (run (PID.init d) pre).2.stack.nodes = []) :
    (run (run (PID.init d) pre).2 post).1 = List.replicate post.length none :=
  (deaf_absorbing _ h post).1

example : (run (PID.init 0) [[.become 1], [.unbecomeStacked]]).2.stack.nodes = [] := by decide

end GoaktVerif.C14

/-
C14 — Behavior switching follows stack semantics.

"For any sequence of Become, BecomeStacked, UnBecomeStacked and UnBecome calls made while
 handling messages, the handler used for each later message is the one a stack model predicts:
 Become replaces all behaviors with one, BecomeStacked pushes, UnBecomeStacked pops, and
 UnBecome restores only the default behavior, clearing stacked ones. The message being handled
 always finishes under the behavior that started it."

Model (Model/C14): behaviorStack (nodes + length counter), the four PID functions, handleReceived
reading Peek once per message.  Spec (Spec/C14): the documented stack, where UnBecomeStacked has
"No effect if there is no stack".  The model is tied to /repo by the differential run of a real
actor in a real actor system (harness/verifdrv/c14) on every check.

Result on the current tree (after fix c9f88bb — UnBecome clears — and the fix that keeps the base
behaviour in unsetBehaviorStacked, finding C14-F1): the code IS the documented stack for all
message streams and all switch scripts, no guard (`C14_holds`).
-/
import GoaktVerif.Model.C14
import GoaktVerif.Spec.C14

namespace GoaktVerif.C14
open GoaktVerif.Model.C14 GoaktVerif.Spec.C14

/-- representation invariant of the PID's behaviour stack: the `length` counter equals the number
    of linked nodes (so the `Len() > 1` guard of unsetBehaviorStacked is truthful) and at least one
    behaviour is present -/
structure Good (p : PID) : Prop where
  len : p.stack.length = p.stack.nodes.length
  nonempty : p.stack.nodes ≠ []

theorem good_init (d : Beh) : Good (PID.init d) := ⟨rfl, by simp [PID.init, BStack.push, BStack.new]⟩

theorem applyOp_dflt (p : PID) (op : Op) : (applyOp p op).dflt = p.dflt := by
  cases op with
  | become b => rfl
  | becomeStacked b => rfl
  | unbecome => rfl
  | unbecomeStacked => simp only [applyOp, unsetBehaviorStacked]; split <;> rfl

theorem unset_cases (p : PID) (h : p.stack.length = p.stack.nodes.length) :
    (unsetBehaviorStacked p).stack.nodes = if p.stack.nodes.length ≤ 1 then p.stack.nodes else p.stack.nodes.tail := by
  unfold unsetBehaviorStacked BStack.len
  rw [h]
  by_cases h1 : p.stack.nodes.length > 1
  · have h3 : ¬ p.stack.nodes.length ≤ 1 := by omega
    rw [if_pos h1, if_neg h3]
    simp only [BStack.pop]
    cases hn : p.stack.nodes with
    | nil => rw [hn] at h1; simp at h1
    | cons x xs => rfl
  · have h3 : p.stack.nodes.length ≤ 1 := by omega
    rw [if_neg h1, if_pos h3]

/-- each call acts on the node list exactly as the documentation says -/
theorem applyOp_nodes (p : PID) (op : Op) (h : p.stack.length = p.stack.nodes.length) :
    (applyOp p op).stack.nodes = docOp p.dflt p.stack.nodes op := by
  cases op with
  | become b => rfl
  | becomeStacked b => rfl
  | unbecome => rfl
  | unbecomeStacked => exact unset_cases p h

theorem applyOp_len_inv (p : PID) (op : Op) (h : p.stack.length = p.stack.nodes.length) :
    (applyOp p op).stack.length = (applyOp p op).stack.nodes.length := by
  cases op with
  | become b => rfl
  | becomeStacked b => simp [applyOp, setBehaviorStacked, BStack.push, h]
  | unbecome => rfl
  | unbecomeStacked =>
    simp only [applyOp, unsetBehaviorStacked]
    split
    · simp only [BStack.pop]
      cases hn : p.stack.nodes with
      | nil => simp [h, hn]
      | cons x xs => simp [h, hn]
    · exact h

/-- the documented stack is never empty -/
theorem doc_nonempty (d : Beh) (s : List Beh) (hs : s ≠ []) (op : Op) : docOp d s op ≠ [] := by
  cases op with
  | become b => simp [docOp]
  | becomeStacked b => simp [docOp]
  | unbecome => simp [docOp]
  | unbecomeStacked =>
    simp only [docOp]
    split
    · exact hs
    · match s with
      | [] => exact absurd rfl hs
      | [_] => simp at *
      | _ :: _ :: _ => simp

theorem doc_fold_nonempty (d : Beh) (s : List Beh) (hs : s ≠ []) (m : List Op) : m.foldl (docOp d) s ≠ [] := by
  induction m generalizing s with
  | nil => exact hs
  | cons op ops ih => exact ih _ (doc_nonempty d s hs op)

theorem good_applyOp (p : PID) (op : Op) (h : Good p) : Good (applyOp p op) :=
  ⟨applyOp_len_inv p op h.len, by rw [applyOp_nodes p op h.len]; exact doc_nonempty _ _ h.nonempty op⟩

/-- regression statement for fix c9f88bb: whatever was stacked, after UnBecome exactly the default remains -/
theorem unbecome_clears (p : PID) : (applyOp p .unbecome).stack.nodes = [p.dflt] := rfl

/-- regression statement for finding C14-F1: UnBecomeStacked never removes the last behaviour -/
theorem unbecomeStacked_keeps_base (p : PID) (h : Good p) : (applyOp p .unbecomeStacked).stack.nodes ≠ [] :=
  (good_applyOp p _ h).nonempty

theorem exec_dflt (b : Beh) (p : PID) (ops : List Op) : (exec b p ops).2.dflt = p.dflt := by
  induction ops generalizing p with
  | nil => rfl
  | cons op ops ih => simp only [exec]; rw [ih, applyOp_dflt]

theorem exec_nodes (b : Beh) (p : PID) (ops : List Op) (h : Good p) :
    (exec b p ops).2.stack.nodes = ops.foldl (docOp p.dflt) p.stack.nodes ∧ Good (exec b p ops).2 := by
  induction ops generalizing p with
  | nil => exact ⟨rfl, h⟩
  | cons op ops ih =>
    simp only [exec, List.foldl_cons]
    have := ih (applyOp p op) (good_applyOp p op h)
    rw [applyOp_dflt, applyOp_nodes p op h.len] at this
    exact this

/-- every call made while a message is handled is made by the behaviour that was entered -/
theorem exec_events (b : Beh) (p : PID) (ops : List Op) :
    (exec b p ops).1 = ops.map fun op => (b, op) := by
  induction ops generalizing p with
  | nil => rfl
  | cons op ops ih => simp only [exec, List.map_cons]; rw [ih]

theorem handle_dflt (p : PID) (m : List Op) : (handleReceived p m).2.2.dflt = p.dflt := by
  unfold handleReceived
  cases p.stack.peek with
  | none => rfl
  | some b => exact exec_dflt b p m

/-- handler of a message = top at its start -/
theorem handle_handler (p : PID) (m : List Op) : (handleReceived p m).1 = p.stack.nodes.head? := by
  unfold handleReceived BStack.peek
  cases p.stack.nodes.head? <;> rfl

theorem handle_nodes (p : PID) (m : List Op) (h : Good p) :
    (handleReceived p m).2.2.stack.nodes = m.foldl (docOp p.dflt) p.stack.nodes ∧ Good (handleReceived p m).2.2 := by
  unfold handleReceived BStack.peek
  match hn : p.stack.nodes, h.nonempty with
  | x :: xs, _ =>
    simp only [List.head?_cons]
    have := exec_nodes x p m h
    rw [hn] at this
    exact this

/-- "The message being handled always finishes under the behavior that started it": the behaviour
    is read once (Peek at the start); every later call of the same message is executed by that
    same behaviour, although the top of the stack may already be a different one. -/
theorem C14_inprogress (p : PID) (m : List Op) :
    ∀ e ∈ (handleReceived p m).2.1, some e.1 = p.stack.peek ∧ some e.1 = (handleReceived p m).1 := by
  unfold handleReceived
  cases h : p.stack.peek with
  | none => simp
  | some b =>
    simp only [exec_events]
    intro e he
    simp only [List.mem_map] at he
    obtain ⟨op, _, rfl⟩ := he
    exact ⟨rfl, rfl⟩

/-- non-vacuous: handler 0 executes both calls although after the first call the top is 7 -/
example : (handleReceived (PID.init 0) [.becomeStacked 7, .becomeStacked 8]).2.1 = [(0, .becomeStacked 7), (0, .becomeStacked 8)]
    ∧ (applyOp (PID.init 0) (.becomeStacked 7)).stack.peek = some 7 := by decide

/-! ### whole runs: the code refines the documented stack -/

theorem run_eq_doc (p : PID) (msgs : List (List Op)) (h : Good p) :
    (run p msgs).1 = handlers (docOp p.dflt) p.stack.nodes msgs := by
  induction msgs generalizing p with
  | nil => rfl
  | cons m ms ih =>
    have hn := handle_nodes p m h
    simp only [run, handlers]
    rw [ih _ hn.2, handle_handler, handle_dflt, hn.1]

theorem run_final (p : PID) (msgs : List (List Op)) (h : Good p) :
    (run p msgs).2.stack.nodes = docFinalFrom p.dflt p.stack.nodes msgs ∧ Good (run p msgs).2 := by
  induction msgs generalizing p with
  | nil => exact ⟨rfl, h⟩
  | cons m ms ih =>
    have hn := handle_nodes p m h
    simp only [run, docFinalFrom]
    have := ih _ hn.2
    rw [handle_dflt, hn.1] at this
    exact this

theorem run_events (p : PID) (msgs : List (List Op)) (h : Good p) :
    runEvents p msgs = docEvents p.dflt p.stack.nodes msgs := by
  induction msgs generalizing p with
  | nil => rfl
  | cons m ms ih =>
    have hn := handle_nodes p m h
    simp only [runEvents, docEvents]
    congr 1
    · unfold handleReceived BStack.peek
      match hN : p.stack.nodes, h.nonempty with
      | x :: xs, _ => simp [exec_events]
    · have := ih _ hn.2
      rw [this, handle_dflt, hn.1]

theorem doc_handlers_some (d : Beh) (s : List Beh) (hs : s ≠ []) (msgs : List (List Op)) :
    ∀ h ∈ handlers (docOp d) s msgs, h.isSome = true := by
  induction msgs generalizing s with
  | nil => simp [handlers]
  | cons m ms ih =>
    simp only [handlers, List.mem_cons]
    intro h hh
    rcases hh with rfl | hh
    · match s, hs with
      | _ :: _, _ => rfl
    · exact ih _ (doc_fold_nonempty d s hs m) h hh

/-! ### the property -/

/-- The full statement, against the DOCUMENTED stack: for every default behaviour and every
    stream of messages with arbitrary switch scripts, (1) the handler used for each message is
    the documented stack's top at the start of that message, and (2) every call made while a
    message is handled is made by the behaviour that started it. -/
def C14_full : Prop :=
  ∀ (d : Beh) (msgs : List (List Op)),
    (run (PID.init d) msgs).1 = docHandlers d msgs
    ∧ runEvents (PID.init d) msgs = docEvents d [d] msgs

theorem C14_holds : C14_full := fun d msgs =>
  ⟨run_eq_doc (PID.init d) msgs (good_init d), run_events (PID.init d) msgs (good_init d)⟩

/-- the two historical witnesses, now in agreement with the documentation:
    F6  BecomeStacked 1; UnBecome | UnBecomeStacked | probe     (before c9f88bb the probe went to 1)
    F1  UnBecomeStacked | probe                                  (before the base guard the probe was dropped) -/
example : (run (PID.init 0) [[.becomeStacked 1, .unbecome], [.unbecomeStacked], []]).1 = [some 0, some 0, some 0]
    ∧ (run (PID.init 0) [[.unbecomeStacked], []]).1 = [some 0, some 0] := by decide

/-- the stack left behind (what any continuation of the stream will see, and what `Len` reports) is the documented one -/
theorem C14_stack (d : Beh) (msgs : List (List Op)) :
    (run (PID.init d) msgs).2.stack.nodes = docFinal d msgs
    ∧ (run (PID.init d) msgs).2.stack.len = (docFinal d msgs).length := by
  have h := run_final (PID.init d) msgs (good_init d)
  refine ⟨h.1, ?_⟩
  unfold BStack.len
  rw [h.2.len, h.1]
  rfl

/-- every message gets a handler: the actor can never lose its last behaviour -/
theorem C14_never_deaf (d : Beh) (msgs : List (List Op)) :
    ∀ h ∈ (run (PID.init d) msgs).1, h.isSome = true := by
  rw [(C14_holds d msgs).1]
  exact doc_handlers_some d [d] (by simp) msgs


end GoaktVerif.C14

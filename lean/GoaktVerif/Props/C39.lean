/-
C39 — Replicas that apply the same updates converge.

"For any operations performed at several replicas, if each replica applies the deltas of the others
 (in any order, possibly duplicated) and/or merges their full states, then replicas that have seen
 the same set of updates expose the same value, equal to the merge of the originators' full states;
 no add, remove or increment is lost or resurrected by delta replication."

Model: `Model/C39.lean` — any number of replicators (the handlers of `Model/C41.lean`: handleUpdate
= apply, Delta(), ResetDelta(), store, publish; handleDelta = store-or-merge), the codec
(`Model/C40.lean`) between publisher and receiver, a log of published deltas delivered in any order,
any number of times, or never; CRDT types = `Model/Crdt/*.lean`.

Result.
* GENERIC THEOREM (`converge`, `complete_eq_join_all`; Lemmas/C39.lean, Lemmas/C39Net.lean): for any
  value type whose merge is a join on cores and whose mutators are delta-mutators (`Laws`: the stored
  core after an update = old core ⊔ core of the shipped delta), every replica's core is the join of
  the deltas it has seen, for every reachable network.  Hence equal seen-sets ⇒ equal cores, and a
  replica that has seen every delta holds the join of all of them (= the merge of the originators'
  full states, each of which is a join of a subset that contains its own deltas).
* The network also has full-state merges between any two replicas at any time (anti-entropy), `Act.sync`.
* INSTANCES proved: G-counter and PN-counter (guard: no uint64 overflow of a slot) and Flag —
  `C39_gcounter`, `C39_pncounter`, `C39_flag`.
* LWW register: an instance since fix 670e96a (`lw_laws`, `C39_lww`; guard: a stamp names one write, timestamps ≥ 0);
  the former witness of C39-F2 is kept as `lww_stale_write_ignored`.
* The full statement is FALSE of the current code (`C39_refuted`), two independent witnesses:
  OR-set deltas lose earlier adds of the same node (`orset_delta_loses_add`; root cause
  `orset_violates_delta_law`), an LWW write with a stale stamp is exposed locally only
  (`lww_stale_write_diverges`), an OR-map remove + re-set leaves peers with the old value merged in
  (`ormap_readd_diverges`).
-/
import GoaktVerif.Lemmas.C39Net
import GoaktVerif.Lemmas.C38.Counters

namespace GoaktVerif.C39
open GoaktVerif.Model.Crdt GoaktVerif.Model.C40 GoaktVerif.Model.C41 GoaktVerif.Model.C39 GoaktVerif.C38

/-! ### generic convergence -/

section generic
variable {V C : Type} {ops : Ops V} {wire : V → Option V} {init : V} {S : Semi C} {core : V → C}
  {Ok : V → Prop} {Mut : (V → V) → V → Prop} {k dt : Nat}

/-- Replicas that have seen the same SET of deltas (whatever the order and the duplications) hold
    the same core. -/
theorem converge (L : Laws ops wire init S core Ok Mut) (w : FNet V) (arr : Nat → List Nat)
    (h : Reach ops wire init Mut k dt w arr) (i i' : Nat)
    (h1 : ∀ j ∈ arr i, j ∈ arr i') (h2 : ∀ j ∈ arr i', j ∈ arr i)
    (v v' : V) (hv : w.at i k = some v) (hv' : w.at i' k = some v') : core v = core v' := by
  have inv := reach_inv L w arr h
  have a := inv.val i
  have b := inv.val i'
  unfold FNet.at at hv hv'
  rw [hv] at a; rw [hv'] at b
  simp only at a b
  rw [a.2, b.2]
  apply J_sameSet S _ _ (wf_map w arr L inv i) (wf_map w arr L inv i')
  · intro x hx
    obtain ⟨j, hj, rfl⟩ := List.mem_map.mp hx
    exact List.mem_map.mpr ⟨j, h1 j hj, rfl⟩
  · intro x hx
    obtain ⟨j, hj, rfl⟩ := List.mem_map.mp hx
    exact List.mem_map.mpr ⟨j, h2 j hj, rfl⟩

/-- A replica that has seen every published delta holds the join of all of them: nothing shipped
    is lost, nothing else is present. -/
theorem complete_eq_join_all (L : Laws ops wire init S core Ok Mut) (w : FNet V) (arr : Nat → List Nat)
    (h : Reach ops wire init Mut k dt w arr) (i : Nat) (hall : ∀ j, j < w.log.length → j ∈ arr i)
    (v : V) (hv : w.at i k = some v) : core v = J S (w.log.map fun d => core d.data) := by
  have inv := reach_inv L w arr h
  have a := inv.val i
  unfold FNet.at at hv
  rw [hv] at a
  simp only at a
  rw [a.2]
  have hwf2 : ∀ x ∈ w.log.map (fun d => core d.data), S.WF x := by
    intro x hx
    obtain ⟨d, hd, rfl⟩ := List.mem_map.mp hx
    obtain ⟨j, hj, hje⟩ := List.getElem_of_mem hd
    exact L.ok_wf _ (inv.logok j d (by rw [List.getElem?_eq_getElem hj, hje])).1
  apply J_sameSet S _ _ (wf_map w arr L inv i) hwf2
  · intro x hx
    obtain ⟨j, hj, rfl⟩ := List.mem_map.mp hx
    have hb := inv.bound i j hj
    refine List.mem_map.mpr ⟨w.log[j], List.getElem_mem hb, ?_⟩
    simp [coreAt, List.getElem?_eq_getElem hb]
  · intro x hx
    obtain ⟨d, hd, rfl⟩ := List.mem_map.mp hx
    obtain ⟨j, hj, hje⟩ := List.getElem_of_mem hd
    refine List.mem_map.mpr ⟨j, hall j hj, ?_⟩
    simp [coreAt, List.getElem?_eq_getElem hj, hje]

/-- every replica's core is below the join of all published deltas (nothing is invented) -/
theorem below_join_all (L : Laws ops wire init S core Ok Mut) (w : FNet V) (arr : Nat → List Nat)
    (h : Reach ops wire init Mut k dt w arr) (i : Nat) (v : V) (hv : w.at i k = some v) :
    S.join (core v) (J S (w.log.map fun d => core d.data)) = J S (w.log.map fun d => core d.data) := by
  have inv := reach_inv L w arr h
  have a := inv.val i
  unfold FNet.at at hv
  rw [hv] at a
  simp only at a
  rw [a.2]
  have hwf2 : ∀ x ∈ w.log.map (fun d => core d.data), S.WF x := by
    intro x hx
    obtain ⟨d, hd, rfl⟩ := List.mem_map.mp hx
    obtain ⟨j, hj, hje⟩ := List.getElem_of_mem hd
    exact L.ok_wf _ (inv.logok j d (by rw [List.getElem?_eq_getElem hj, hje])).1
  apply J_mono S _ _ (wf_map w arr L inv i) hwf2
  intro x hx
  obtain ⟨j, hj, rfl⟩ := List.mem_map.mp hx
  have hb := inv.bound i j hj
  refine List.mem_map.mpr ⟨w.log[j], List.getElem_mem hb, ?_⟩
  simp [coreAt, List.getElem?_eq_getElem hb]

end generic

/-! ### instance: G-counter -/

theorem mergeMax_nil_left {a : AMap Nat} (ha : AMap.Sorted a) : mergeMax [] a = a :=
  AMap.ext (sorted_mergeMax AMap.sorted_nil a) ha fun x => by
    rw [get?_mergeMax _ ha]
    cases AMap.get? a x <;> simp [optMax]

def gcSemi : Semi (AMap Nat) where
  join := mergeMax
  bot := []
  WF := AMap.Sorted
  wf_bot := AMap.sorted_nil
  wf_join := fun a b ha _ => sorted_mergeMax ha b
  comm := fun _ _ ha hb => mergeMax_comm ha hb
  assoc := fun _ _ _ ha hb hc => mergeMax_assoc ha hb hc
  idem := fun _ ha => mergeMax_idem ha
  bot_join := fun _ ha => mergeMax_nil_left ha

def gcCore : CV → AMap Nat
  | .gc c => c.state
  | _ => []

/-- the G-counter values that occur in a replicator: no pending delta, state a map -/
def gcOk (v : CV) : Prop := ∃ c, v = .gc c ∧ c.delta = [] ∧ AMap.Sorted c.state

/-- Modify closures of a G-counter key: `Increment(node, x)` (any node id) -/
def gcIncr (n x : Nat) : CV → CV
  | .gc c => .gc (c.increment n x)
  | v => v

/-- allowed at state `s`: an increment that does not overflow the uint64 slot -/
def gcMut (f : CV → CV) (s : CV) : Prop :=
  ∃ n x, f = gcIncr n x ∧ ∀ c, s = .gc c → AMap.getD c.state n 0 + x < U64

theorem set_same {m : AMap Nat} (hm : AMap.Sorted m) (n v : Nat) (h : AMap.get? m n = some v) :
    AMap.set m n v = m :=
  AMap.ext (AMap.sorted_set hm n v) hm fun y => by
    rw [AMap.get?_set]
    split
    · subst y; exact h.symm
    · rfl

/-- the heart of the G-counter delta law: raising one slot = joining the one-slot delta -/
theorem incr_eq_join {st : AMap Nat} (hs : AMap.Sorted st) (n x : Nat) :
    AMap.set st n (AMap.getD st n 0 + x) = mergeMax st [(n, AMap.getD st n 0 + x)] := by
  rw [mergeMax_eq]
  simp only [List.foldl_cons, List.foldl_nil, maxStep]
  cases hg : AMap.get? st n with
  | none => rfl
  | some lv =>
    have : AMap.getD st n 0 = lv := by simp [AMap.getD, hg]
    rw [this]
    simp only
    split
    · rfl
    · have hx : x = 0 := by omega
      subst hx
      exact set_same hs n lv hg

theorem gc_laws : Laws cvOps (wire idSer) (.gc .new) gcSemi gcCore gcOk gcMut where
  ok_wf := by rintro v ⟨c, rfl, _, hs⟩; exact hs
  ok_init := ⟨.new, rfl, rfl, AMap.sorted_nil⟩
  core_init := rfl
  merge_ok := by
    rintro a b ⟨ca, rfl, hda, hsa⟩ ⟨cb, rfl, _, _⟩
    exact ⟨⟨_, rfl, hda, sorted_mergeMax hsa cb.state⟩, rfl⟩
  wire_ok := by
    rintro v v' ⟨c, rfl, hd, hs⟩ hw
    cases hw
    exact ⟨⟨_, rfl, rfl, hs⟩, rfl⟩
  upd_none := by
    rintro f s ⟨n, x, rfl, _⟩ ⟨c, rfl, hd, _⟩ hnone
    simp [cvOps, gcIncr, CV.delta?, GCounter.delta?, GCounter.increment, hd, AMap.set] at hnone
  upd_some := by
    rintro f s d ⟨n, x, rfl, hov⟩ ⟨c, rfl, hd, hs⟩ hsome
    have hlt := hov c rfl
    have hnew : (AMap.getD c.state n 0 + x) % U64 = AMap.getD c.state n 0 + x := Nat.mod_eq_of_lt hlt
    have hdval : d = .gc ⟨[(n, AMap.getD c.state n 0 + x)], []⟩ := by
      simp [cvOps, gcIncr, CV.delta?, GCounter.delta?, GCounter.increment, hd, AMap.set, AMap.getD_set, hnew] at hsome
      exact hsome.symm
    subst hdval
    refine ⟨.gc ⟨[(n, AMap.getD c.state n 0 + x)], []⟩, rfl, ⟨_, rfl, rfl, ?_⟩, ⟨_, rfl, rfl, ?_⟩, ?_⟩
    · exact List.pairwise_singleton _ _
    · simp only [gcIncr, GCounter.increment]
      exact AMap.sorted_set hs _ _
    · show (AMap.set c.state n ((AMap.getD c.state n 0 + x) % U64)) = mergeMax c.state [(n, AMap.getD c.state n 0 + x)]
      rw [hnew]; exact incr_eq_join hs n x

/-- G-counter: replicas that have seen the same set of deltas hold the same per-node counts (hence
    the same Value()), for every history of non-overflowing increments by any nodes at any replicas
    and every delivery order / duplication / loss of the deltas. -/
theorem C39_gcounter (w : Net) (arr : Nat → List Nat)
    (h : Reach cvOps (wire idSer) (.gc .new) gcMut 0 0 w arr) (i i' : Nat)
    (h1 : ∀ j ∈ arr i, j ∈ arr i') (h2 : ∀ j ∈ arr i', j ∈ arr i)
    (v v' : CV) (hv : w.at i 0 = some v) (hv' : w.at i' 0 = some v') :
    ∃ c c', v = .gc c ∧ v' = .gc c' ∧ c.state = c'.state ∧ c.value = c'.value := by
  have hc := converge gc_laws w arr h i i' h1 h2 v v' hv hv'
  have inv := reach_inv gc_laws w arr h
  have a := inv.val i
  have b := inv.val i'
  unfold FNet.at at hv hv'
  rw [hv] at a; rw [hv'] at b
  obtain ⟨⟨c, rfl, _, _⟩, _⟩ := a
  obtain ⟨⟨c', rfl, _, _⟩, _⟩ := b
  refine ⟨c, c', rfl, rfl, hc, ?_⟩
  simp only [gcCore] at hc
  simp [GCounter.value, hc]

/-! ### instance: PN-counter (two G-counters) -/

def pnSemi : Semi (AMap Nat × AMap Nat) where
  join := fun a b => (mergeMax a.1 b.1, mergeMax a.2 b.2)
  bot := ([], [])
  WF := fun a => AMap.Sorted a.1 ∧ AMap.Sorted a.2
  wf_bot := ⟨AMap.sorted_nil, AMap.sorted_nil⟩
  wf_join := fun a b ha _ => ⟨sorted_mergeMax ha.1 b.1, sorted_mergeMax ha.2 b.2⟩
  comm := fun _ _ ha hb => by simp only [mergeMax_comm ha.1 hb.1, mergeMax_comm ha.2 hb.2]
  assoc := fun _ _ _ ha hb hc => by simp only [mergeMax_assoc ha.1 hb.1 hc.1, mergeMax_assoc ha.2 hb.2 hc.2]
  idem := fun _ ha => by simp only [mergeMax_idem ha.1, mergeMax_idem ha.2]
  bot_join := fun _ ha => by simp only [mergeMax_nil_left ha.1, mergeMax_nil_left ha.2]

def pnCore : CV → AMap Nat × AMap Nat
  | .pn c => (c.increments.state, c.decrements.state)
  | _ => ([], [])

def pnOk (v : CV) : Prop :=
  ∃ c, v = .pn c ∧ c.increments.delta = [] ∧ c.decrements.delta = []
    ∧ AMap.Sorted c.increments.state ∧ AMap.Sorted c.decrements.state

def pnIncr (n x : Nat) : CV → CV
  | .pn c => .pn (c.increment n x)
  | v => v

def pnDecr (n x : Nat) : CV → CV
  | .pn c => .pn (c.decrement n x)
  | v => v

/-- allowed at state `s`: an increment / decrement that does not overflow its uint64 slot -/
def pnMut (f : CV → CV) (s : CV) : Prop :=
  ∃ n x, (f = pnIncr n x ∧ ∀ c, s = .pn c → AMap.getD c.increments.state n 0 + x < U64)
       ∨ (f = pnDecr n x ∧ ∀ c, s = .pn c → AMap.getD c.decrements.state n 0 + x < U64)

theorem pn_laws : Laws cvOps (wire idSer) (.pn .new) pnSemi pnCore pnOk pnMut where
  ok_wf := by rintro v ⟨c, rfl, _, _, h1, h2⟩; exact ⟨h1, h2⟩
  ok_init := ⟨.new, rfl, rfl, rfl, AMap.sorted_nil, AMap.sorted_nil⟩
  core_init := rfl
  merge_ok := by
    rintro a b ⟨ca, rfl, h1, h2, h3, h4⟩ ⟨cb, rfl, _, _, _, _⟩
    exact ⟨⟨_, rfl, h1, h2, sorted_mergeMax h3 _, sorted_mergeMax h4 _⟩, rfl⟩
  wire_ok := by
    rintro v v' ⟨c, rfl, _, _, h3, h4⟩ hw
    cases hw
    exact ⟨⟨_, rfl, rfl, rfl, h3, h4⟩, rfl⟩
  upd_none := by
    rintro f s ⟨n, x, h⟩ ⟨c, rfl, h1, h2, _, _⟩ hnone
    rcases h with ⟨rfl, _⟩ | ⟨rfl, _⟩ <;>
      simp [cvOps, pnIncr, pnDecr, CV.delta?, PNCounter.delta?, PNCounter.increment, PNCounter.decrement,
        GCounter.delta?, GCounter.increment, GCounter.clone, h1, h2, AMap.set] at hnone
  upd_some := by
    rintro f s d ⟨n, x, h⟩ ⟨c, rfl, h1, h2, h3, h4⟩ hsome
    rcases h with ⟨rfl, hov⟩ | ⟨rfl, hov⟩
    · have hnew : (AMap.getD c.increments.state n 0 + x) % U64 = AMap.getD c.increments.state n 0 + x :=
        Nat.mod_eq_of_lt (hov c rfl)
      have hdval : d = .pn ⟨⟨[(n, AMap.getD c.increments.state n 0 + x)], []⟩, GCounter.new⟩ := by
        simp [cvOps, pnIncr, CV.delta?, PNCounter.delta?, PNCounter.increment, GCounter.delta?, GCounter.increment,
          GCounter.clone, h1, h2, AMap.set, AMap.getD_set, hnew] at hsome
        exact hsome.symm
      subst hdval
      refine ⟨.pn ⟨⟨[(n, AMap.getD c.increments.state n 0 + x)], []⟩, ⟨[], []⟩⟩, rfl,
        ⟨_, rfl, rfl, rfl, List.pairwise_singleton _ _, AMap.sorted_nil⟩,
        ⟨_, rfl, rfl, ?_, ?_, ?_⟩, ?_⟩
      · rfl
      · simp only [pnIncr, PNCounter.increment, GCounter.increment, GCounter.resetDelta]
        exact AMap.sorted_set h3 _ _
      · exact h4
      · show (AMap.set c.increments.state n ((AMap.getD c.increments.state n 0 + x) % U64), c.decrements.state)
            = (mergeMax c.increments.state [(n, AMap.getD c.increments.state n 0 + x)], mergeMax c.decrements.state [])
        rw [hnew, incr_eq_join h3 n x]; rfl
    · have hnew : (AMap.getD c.decrements.state n 0 + x) % U64 = AMap.getD c.decrements.state n 0 + x :=
        Nat.mod_eq_of_lt (hov c rfl)
      have hdval : d = .pn ⟨GCounter.new, ⟨[(n, AMap.getD c.decrements.state n 0 + x)], []⟩⟩ := by
        simp [cvOps, pnDecr, CV.delta?, PNCounter.delta?, PNCounter.decrement, GCounter.delta?, GCounter.increment,
          GCounter.clone, h1, h2, AMap.set, AMap.getD_set, hnew] at hsome
        exact hsome.symm
      subst hdval
      refine ⟨.pn ⟨⟨[], []⟩, ⟨[(n, AMap.getD c.decrements.state n 0 + x)], []⟩⟩, rfl,
        ⟨_, rfl, rfl, rfl, AMap.sorted_nil, List.pairwise_singleton _ _⟩,
        ⟨_, rfl, ?_, rfl, ?_, ?_⟩, ?_⟩
      · rfl
      · exact h3
      · simp only [pnDecr, PNCounter.decrement, GCounter.increment, GCounter.resetDelta]
        exact AMap.sorted_set h4 _ _
      · show (c.increments.state, AMap.set c.decrements.state n ((AMap.getD c.decrements.state n 0 + x) % U64))
            = (mergeMax c.increments.state [], mergeMax c.decrements.state [(n, AMap.getD c.decrements.state n 0 + x)])
        rw [hnew, incr_eq_join h4 n x]; rfl

/-- PN-counter: same seen-set ⇒ same increment and decrement slots ⇒ same Value() -/
theorem C39_pncounter (w : Net) (arr : Nat → List Nat)
    (h : Reach cvOps (wire idSer) (.pn .new) pnMut 1 1 w arr) (i i' : Nat)
    (h1 : ∀ j ∈ arr i, j ∈ arr i') (h2 : ∀ j ∈ arr i', j ∈ arr i)
    (v v' : CV) (hv : w.at i 1 = some v) (hv' : w.at i' 1 = some v') :
    ∃ c c', v = .pn c ∧ v' = .pn c' ∧ c.value = c'.value := by
  have hc := converge pn_laws w arr h i i' h1 h2 v v' hv hv'
  have inv := reach_inv pn_laws w arr h
  have a := inv.val i
  have b := inv.val i'
  unfold FNet.at at hv hv'
  rw [hv] at a; rw [hv'] at b
  obtain ⟨⟨c, rfl, _⟩, _⟩ := a
  obtain ⟨⟨c', rfl, _⟩, _⟩ := b
  refine ⟨c, c', rfl, rfl, ?_⟩
  simp only [pnCore, Prod.mk.injEq] at hc
  simp [PNCounter.value, GCounter.value, hc.1, hc.2]

/-! ### instance: Flag -/

def flSemi : Semi Bool where
  join := or
  bot := false
  WF := fun _ => True
  wf_bot := trivial
  wf_join := fun _ _ _ _ => trivial
  comm := fun a b _ _ => Bool.or_comm a b
  assoc := fun a b c _ _ _ => Bool.or_assoc a b c
  idem := fun a _ => Bool.or_self a
  bot_join := fun a _ => Bool.false_or a

def flCore : CV → Bool
  | .fl x => x.enabled
  | _ => false

def flOk (v : CV) : Prop := ∃ x, v = .fl x

def flEnable : CV → CV
  | .fl x => .fl x.enable
  | v => v

def flMut (f : CV → CV) (_ : CV) : Prop := f = flEnable

theorem fl_laws : Laws cvOps (wire idSer) (.fl .new) flSemi flCore flOk flMut where
  ok_wf := fun _ _ => trivial
  ok_init := ⟨.new, rfl⟩
  core_init := rfl
  merge_ok := by rintro a b ⟨x, rfl⟩ ⟨y, rfl⟩; exact ⟨⟨_, rfl⟩, rfl⟩
  wire_ok := by
    rintro v v' ⟨x, rfl⟩ hw
    obtain ⟨e, d⟩ := x
    cases e <;> (cases hw; exact ⟨⟨_, rfl⟩, rfl⟩)
  upd_none := by
    rintro f s rfl ⟨x, rfl⟩ hnone
    obtain ⟨e, d⟩ := x
    cases e <;> cases d <;> simp [cvOps, flEnable, CV.delta?, Flag.delta?, Flag.enable] at hnone ⊢
    exact ⟨⟨_, rfl⟩, rfl⟩
  upd_some := by
    rintro f s d rfl ⟨x, rfl⟩ hsome
    obtain ⟨e, dr⟩ := x
    cases e <;> cases dr <;>
      simp [cvOps, flEnable, CV.delta?, Flag.delta?, Flag.enable] at hsome <;>
      (subst hsome; exact ⟨.fl ⟨true, true⟩, rfl, ⟨_, rfl⟩, ⟨_, rfl⟩, rfl⟩)

/-- Flag: replicas that have seen the same set of deltas agree on `Enabled()` -/
theorem C39_flag (w : Net) (arr : Nat → List Nat)
    (h : Reach cvOps (wire idSer) (.fl .new) flMut 5 5 w arr) (i i' : Nat)
    (h1 : ∀ j ∈ arr i, j ∈ arr i') (h2 : ∀ j ∈ arr i', j ∈ arr i)
    (v v' : CV) (hv : w.at i 5 = some v) (hv' : w.at i' 5 = some v') : flCore v = flCore v' :=
  converge fl_laws w arr h i i' h1 h2 v v' hv hv'

/-! ### refutation witnesses (kernel evaluation of the model) -/

def osElems : Option CV → List Nat
  | some (.os s) => s.elements
  | _ => []

def osAdd (n e : Nat) : CV → CV
  | .os s => .os (s.add n e)
  | v => v

/-- replica 0 adds 1 then 2 (node 1) to an OR-set; replica 1 receives both deltas, in order,
    and is left with {2} -/
theorem orset_delta_loses_add :
    osElems ((Net.run [.upd 0 3 3 (.os .new) (osAdd 1 1), .upd 0 3 3 (.os .new) (osAdd 1 2), .dlv 1 0, .dlv 1 1]).at 0 3) = [1, 2]
    ∧ osElems ((Net.run [.upd 0 3 3 (.os .new) (osAdd 1 1), .upd 0 3 3 (.os .new) (osAdd 1 2), .dlv 1 0, .dlv 1 1]).at 1 3) = [2] := by
  decide

/-- the root cause: `Add` is not a delta-mutator.  Merging the shipped delta into the state the
    update started from does not give the updated state — it drops the earlier element. -/
theorem orset_violates_delta_law :
    ∃ (s u d : ORSet), u = s.add 1 2 ∧ u.delta? = some d ∧ u.elements = [1, 2] ∧ (s.merge d).elements = [2] :=
  ⟨(ORSet.new.add 1 1).resetDelta, ((ORSet.new.add 1 1).resetDelta).add 1 2,
   ⟨[(2, [⟨1, 2⟩])], [(1, 2)], ORSet.newDelta⟩, rfl, by decide, by decide, by decide⟩

def lwVal : Option CV → Option Nat
  | some (.lw r) => r.value
  | _ => none

def lwSet (v : Nat) (ts : Int) (n : Nat) : CV → CV
  | .lw r => .lw (r.set v ts n)
  | x => x

/-- the former counterexample C39-F2 (before fix 670e96a replica 1 exposed its own stale write 2):
    replica 0 writes 1 at time 10; replica 1 receives it, then writes 2 at time 5 (its clock is
    behind) — the write is ignored; both expose 1. -/
theorem lww_stale_write_ignored :
    lwVal ((Net.run [.upd 0 2 2 (.lw .new) (lwSet 1 10 1), .dlv 1 0, .upd 1 2 2 (.lw .new) (lwSet 2 5 2), .dlv 0 1]).at 0 2) = some 1
    ∧ lwVal ((Net.run [.upd 0 2 2 (.lw .new) (lwSet 1 10 1), .dlv 1 0, .upd 1 2 2 (.lw .new) (lwSet 2 5 2), .dlv 0 1]).at 1 2) = some 1 := by
  decide

/-! ### instance: LWW register (since fix 670e96a)

Guard: a stamp names ONE write — `valOf (ts, node)` is the value written under that stamp (two
different values under one stamp is C38's commutativity finding) — and timestamps are not negative
(a fresh register carries stamp (0, ""), which a write before 1970 would lose against). -/

abbrev LwCore := Option Nat × Int × Nat

def lwWins (a b : LwCore) : Bool :=
  decide (b.2.1 > a.2.1) || (decide (b.2.1 = a.2.1) && decide (b.2.2 > a.2.2))

def lwJoin (a b : LwCore) : LwCore := if lwWins a b then b else a

def lwSemi (valOf : Int × Nat → Option Nat) (h0 : valOf (0, 0) = none) : Semi LwCore where
  join := lwJoin
  bot := (none, 0, 0)
  WF := fun c => 0 ≤ c.2.1 ∧ c.1 = valOf (c.2.1, c.2.2)
  wf_bot := ⟨Int.le_refl 0, h0.symm⟩
  wf_join := by
    intro a b ha hb
    unfold lwJoin; split <;> assumption
  comm := by
    rintro ⟨va, ta, na⟩ ⟨vb, tb, nb⟩ ⟨_, ha⟩ ⟨_, hb⟩
    simp only at ha hb
    simp only [lwJoin, lwWins]
    by_cases h1 : tb > ta
    · have : ¬ ta > tb := by omega
      have : ¬ ta = tb := by omega
      simp [*]
    · by_cases h2 : ta > tb
      · have : ¬ tb = ta := by omega
        simp [*]
      · have ht : tb = ta := by omega
        subst ht
        by_cases h3 : nb > na
        · have : ¬ na > nb := by omega
          simp [*]
        · by_cases h4 : na > nb
          · simp [*]
          · have hn : nb = na := by omega
            subst hn
            simp [ha, hb]
  assoc := by
    rintro ⟨va, ta, na⟩ ⟨vb, tb, nb⟩ ⟨vc, tc, nc⟩ _ _ _
    simp only [lwJoin, lwWins]
    grind
  idem := by
    rintro ⟨va, ta, na⟩ _
    simp [lwJoin, lwWins]
  bot_join := by
    rintro ⟨va, ta, na⟩ ⟨h1, h2⟩
    simp only at h1 h2
    simp only [lwJoin, lwWins]
    by_cases ht : ta > 0
    · simp [ht]
    · have : ta = 0 := by omega
      subst this
      by_cases hn : na > 0
      · simp [hn]
      · have : na = 0 := by omega
        subst this
        simp [h2, h0]

def lwCore : CV → LwCore
  | .lw r => (r.value, r.timestamp, r.nodeID)
  | _ => (none, 0, 0)

/-- the LWW values that occur: stamp ≥ 0, the value is the one written under the stamp, and only a
    never-written register holds nil -/
def lwOk (valOf : Int × Nat → Option Nat) (v : CV) : Prop :=
  ∃ r, v = .lw r ∧ 0 ≤ r.timestamp ∧ r.value = valOf (r.timestamp, r.nodeID)
    ∧ (r.value = none → r.timestamp = 0 ∧ r.nodeID = 0 ∧ r.dirty = false)

/-- `Set(v, ts, node)` with a non-negative timestamp, `v` being THE value written under that stamp;
    the stamp is not the one the register already holds (that case is re-stamped by Set itself, see
    fixes/C38-lww-unique-stamps and `C38.LWW_join`) -/
def lwMut (valOf : Int × Nat → Option Nat) (f : CV → CV) (s : CV) : Prop :=
  ∃ v ts n, f = lwSet v ts n ∧ 0 ≤ ts ∧ valOf (ts, n) = some v ∧
    ∀ r, s = .lw r → ¬ (ts = r.timestamp ∧ n = r.nodeID)

theorem lw_laws (valOf : Int × Nat → Option Nat) (h0 : valOf (0, 0) = none) :
    Laws cvOps (wire idSer) (.lw .new) (lwSemi valOf h0) lwCore (lwOk valOf) (lwMut valOf) where
  ok_wf := by rintro v ⟨r, rfl, h1, h2, _⟩; exact ⟨h1, h2⟩
  ok_init := ⟨.new, rfl, Int.le_refl 0, h0.symm, fun _ => ⟨rfl, rfl, rfl⟩⟩
  core_init := rfl
  merge_ok := by
    rintro a b ⟨ra, rfl, a1, a2, a3⟩ ⟨rb, rfl, b1, b2, b3⟩
    obtain ⟨va, ta, na, da⟩ := ra
    obtain ⟨vb, tb, nb, db⟩ := rb
    simp only at a1 a2 a3 b1 b2 b3
    by_cases hw : LWWRegister.otherWins ⟨va, ta, na, da⟩ ⟨vb, tb, nb, db⟩ = true
    · refine ⟨⟨⟨vb, tb, nb, false⟩, by simp [cvOps, CV.merge, LWWRegister.merge, hw], b1, b2, ?_⟩, ?_⟩
      · intro h; obtain ⟨x, y, _⟩ := b3 h; exact ⟨x, y, rfl⟩
      · simp only [cvOps, CV.merge, LWWRegister.merge, hw, lwCore, lwSemi, lwJoin, lwWins]
        simp only [LWWRegister.otherWins] at hw
        simp [hw]
    · refine ⟨⟨⟨va, ta, na, false⟩, by simp [cvOps, CV.merge, LWWRegister.merge, hw], a1, a2, ?_⟩, ?_⟩
      · intro h; obtain ⟨x, y, _⟩ := a3 h; exact ⟨x, y, rfl⟩
      · simp only [cvOps, CV.merge, LWWRegister.merge, hw, lwCore, lwSemi, lwJoin, lwWins]
        simp only [LWWRegister.otherWins] at hw
        simp [hw]
  wire_ok := by
    rintro v v' ⟨r, rfl, h1, h2, h3⟩ hw
    obtain ⟨vr, tr, nr, dr⟩ := r
    cases vr with
    | none => simp [wire, encode, encLWW] at hw
    | some x =>
      simp [wire, encode, encLWW, decode, decLWW, idSer, LWWRegister.fromState] at hw
      subst hw
      exact ⟨⟨_, rfl, h1, h2, by simp⟩, rfl⟩
  upd_none := by
    rintro f s ⟨v, ts, n, rfl, hts, hval, hfresh⟩ ⟨r, rfl, h1, h2, h3⟩ hnone
    obtain ⟨vr, tr, nr, dr⟩ := r
    simp only at h1 h2 h3
    have htie : ¬ (ts = tr ∧ n = nr) := hfresh _ rfl
    have htie' : ¬ (ts = tr ∧ n = nr ∧ ts < 9223372036854775807) := fun h => htie ⟨h.1, h.2.1⟩
    by_cases hst : ts < tr ∨ (ts = tr ∧ n < nr)
    · have hfs : lwSet v ts n (.lw ⟨vr, tr, nr, dr⟩) = .lw ⟨vr, tr, nr, dr⟩ := by
        simp [lwSet, LWWRegister.set, hst]
      rw [hfs]
      exact ⟨⟨_, rfl, h1, h2, fun h => by obtain ⟨x, y, _⟩ := h3 h; exact ⟨x, y, rfl⟩⟩, rfl⟩
    · simp [cvOps, lwSet, LWWRegister.set, hst, htie', CV.delta?, LWWRegister.delta?] at hnone
  upd_some := by
    rintro f s d ⟨v, ts, n, rfl, hts, hval, hfresh⟩ ⟨r, rfl, h1, h2, h3⟩ hsome
    obtain ⟨vr, tr, nr, dr⟩ := r
    simp only at h1 h2 h3
    have htie : ¬ (ts = tr ∧ n = nr) := hfresh _ rfl
    have htie' : ¬ (ts = tr ∧ n = nr ∧ ts < 9223372036854775807) := fun h => htie ⟨h.1, h.2.1⟩
    by_cases hst : ts < tr ∨ (ts = tr ∧ n < nr)
    · -- stale write: the register is returned unchanged; it is re-shipped only if it was dirty
      have hfs : lwSet v ts n (.lw ⟨vr, tr, nr, dr⟩) = .lw ⟨vr, tr, nr, dr⟩ := by
        simp [lwSet, LWWRegister.set, hst]
      rw [hfs] at hsome ⊢
      cases dr with
      | false => simp [cvOps, CV.delta?, LWWRegister.delta?] at hsome
      | true =>
        simp [cvOps, CV.delta?, LWWRegister.delta?] at hsome
        subst hsome
        cases vr with
        | none => have := (h3 rfl).2.2; simp at this
        | some x =>
          refine ⟨.lw ⟨some x, tr, nr, false⟩, rfl, ⟨_, rfl, h1, h2, by intro h; cases h⟩, ⟨_, rfl, h1, h2, by intro h; cases h⟩, ?_⟩
          show (some x, tr, nr) = lwJoin (some x, tr, nr) (some x, tr, nr)
          simp [lwJoin, lwWins]
    · have hfs : lwSet v ts n (.lw ⟨vr, tr, nr, dr⟩) = .lw ⟨some v, ts, n, true⟩ := by
        simp [lwSet, LWWRegister.set, hst, htie']
      rw [hfs] at hsome ⊢
      simp [cvOps, CV.delta?, LWWRegister.delta?] at hsome
      subst hsome
      refine ⟨.lw ⟨some v, ts, n, false⟩, rfl, ⟨_, rfl, hts, hval.symm, by intro h; cases h⟩, ⟨_, rfl, hts, hval.symm, by intro h; cases h⟩, ?_⟩
      show (some v, ts, n) = lwJoin (vr, tr, nr) (some v, ts, n)
      simp only [lwJoin, lwWins]
      by_cases hgt : ts > tr
      · simp [hgt]
      · have hte : ts = tr := by omega
        subst hte
        by_cases hn : n > nr
        · simp [hn]
        · have hne : n = nr := by omega
          exact absurd ⟨rfl, hne⟩ htie

/-- LWW register: for all histories of writes with non-negative timestamps in which a stamp names
    one write, all delivery orders / duplications / losses and any full-state merges, replicas that
    have seen the same set of deltas expose the same value (and stamp). -/
theorem C39_lww (valOf : Int × Nat → Option Nat) (h0 : valOf (0, 0) = none) (w : Net) (arr : Nat → List Nat)
    (h : Reach cvOps (wire idSer) (.lw .new) (lwMut valOf) 2 2 w arr) (i i' : Nat)
    (h1 : ∀ j ∈ arr i, j ∈ arr i') (h2 : ∀ j ∈ arr i', j ∈ arr i)
    (v v' : CV) (hv : w.at i 2 = some v) (hv' : w.at i' 2 = some v') : lwCore v = lwCore v' :=
  converge (lw_laws valOf h0) w arr h i i' h1 h2 v v' hv hv'

def omVals : Option CV → List (Nat × Nat)
  | some (.om m) => m.entriesOf.map fun p => (p.1, p.2.value)
  | _ => []

def omSet (n k x : Nat) : CV → CV
  | .om m => .om (m.set n k (GCounter.new.increment n x))
  | v => v

def omRem (k : Nat) : CV → CV
  | .om m => .om (m.remove k)
  | v => v

/-- replica 0 sets key 1 to a counter worth 4, replica 1 receives it; replica 0 removes key 1 and
    sets it again to a counter worth 1; replica 1 receives that last (full-state) delta.  Same keys
    everywhere, replica 0 exposes 1, replica 1 exposes 4. -/
theorem ormap_readd_diverges :
    omVals ((Net.run [.upd 0 4 4 (.om .new) (omSet 1 1 4), .dlv 1 0, .upd 0 4 4 (.om .new) (omRem 1),
                      .upd 0 4 4 (.om .new) (omSet 1 1 1), .dlv 1 2]).at 0 4) = [(1, 1)]
    ∧ omVals ((Net.run [.upd 0 4 4 (.om .new) (omSet 1 1 4), .dlv 1 0, .upd 0 4 4 (.om .new) (omRem 1),
                      .upd 0 4 4 (.om .new) (omSet 1 1 1), .dlv 1 2]).at 1 4) = [(1, 4)] := by
  decide

/-! ### the full statement -/

/-- the public API mutators of each CRDT type (numbered by `crdt.DataType`), with any node ids and arguments -/
inductive IsOp : Nat → (CV → CV) → Prop where
  | gcIncr (n x : Nat) : IsOp 0 (gcIncr n x)
  | pnIncr (n x : Nat) : IsOp 1 (fun | .pn c => .pn (c.increment n x) | v => v)
  | pnDecr (n x : Nat) : IsOp 1 (fun | .pn c => .pn (c.decrement n x) | v => v)
  | lwSet (v : Nat) (ts : Int) (n : Nat) : IsOp 2 (lwSet v ts n)
  | osAdd (n e : Nat) : IsOp 3 (osAdd n e)
  | osRem (e : Nat) : IsOp 3 (fun | .os s => .os (s.remove e) | v => v)
  | omSet (n k x : Nat) : IsOp 4 (omSet n k x)
  | omRem (k : Nat) : IsOp 4 (omRem k)
  | flEnable : IsOp 5 flEnable
  | mvSet (n v : Nat) : IsOp 6 (fun | .mv r => .mv (r.set n v) | x => x)

def initialOf : Nat → CV
  | 0 => .gc .new | 1 => .pn .new | 2 => .lw .new | 3 => .os .new | 4 => .om .new | 5 => .fl .new | _ => .mv .new

/-- the value a replica exposes, canonically (multi-value registers and sets as sorted lists) -/
def expose : CV → List Int × List (Nat × Nat)
  | .gc c => ([c.value], [])
  | .pn c => ([c.value], [])
  | .fl x => ([if x.value then 1 else 0], [])
  | .lw r => (match r.value with | some v => [v] | none => [], [])
  | .mv r => ((r.values.mergeSort (· ≤ ·)).map Int.ofNat, [])
  | .os s => (s.elements.map Int.ofNat, [])
  | .om m => (m.keyList.map Int.ofNat, m.entriesOf.map fun p => (p.1, p.2.value))

/-- The full statement: for each of the seven CRDT types, any history of API operations at any
    replicas and any delivery order / duplication / loss of the published deltas, two replicas that
    have seen the same set of deltas expose the same value. -/
def C39_full : Prop :=
  ∀ (dt : Nat), dt ≤ 6 → ∀ (w : Net) (arr : Nat → List Nat),
    Reach cvOps (wire idSer) (initialOf dt) (fun f _ => IsOp dt f) dt dt w arr →
    ∀ i i' v v', (∀ j ∈ arr i, j ∈ arr i') → (∀ j ∈ arr i', j ∈ arr i) →
      w.at i dt = some v → w.at i' dt = some v' → expose v = expose v'

theorem C39_refuted : ¬ C39_full := by
  intro h
  -- the OR-set witness as a reachable network with its seen-lists
  have r1 := Reach.upd (ops := cvOps) (wire := wire idSer) (init := initialOf 3) (Mut := fun f _ => IsOp 3 f)
    (k := 3) (dt := 3) _ _ 0 (osAdd 1 1) Reach.init (IsOp.osAdd 1 1)
  have r2 := Reach.upd _ _ 0 (osAdd 1 2) r1 (IsOp.osAdd 1 2)
  have r3 := Reach.dlv _ _ 1 0 r2
  have r4 := Reach.dlv _ _ 1 1 r3
  have := h 3 (by decide) _ _ r4 0 1 _ _ (by decide) (by decide) rfl rfl
  revert this
  decide

/-- the true part: LWW registers (one write per stamp, timestamps ≥ 0), G-counters and PN-counters
    (non-overflowing slots) and flags converge — for all
    histories, all delivery orders, duplications and losses of deltas, and any full-state merges -/
def C39_guarded : Prop :=
  (∀ (valOf : Int × Nat → Option Nat), valOf (0, 0) = none →
    ∀ (w : Net) (arr : Nat → List Nat), Reach cvOps (wire idSer) (.lw .new) (lwMut valOf) 2 2 w arr →
    ∀ i i' v v', (∀ j ∈ arr i, j ∈ arr i') → (∀ j ∈ arr i', j ∈ arr i) →
      w.at i 2 = some v → w.at i' 2 = some v' → expose v = expose v') ∧
  (∀ (w : Net) (arr : Nat → List Nat), Reach cvOps (wire idSer) (.pn .new) pnMut 1 1 w arr →
    ∀ i i' v v', (∀ j ∈ arr i, j ∈ arr i') → (∀ j ∈ arr i', j ∈ arr i) →
      w.at i 1 = some v → w.at i' 1 = some v' → expose v = expose v') ∧
  (∀ (w : Net) (arr : Nat → List Nat), Reach cvOps (wire idSer) (.gc .new) gcMut 0 0 w arr →
    ∀ i i' v v', (∀ j ∈ arr i, j ∈ arr i') → (∀ j ∈ arr i', j ∈ arr i) →
      w.at i 0 = some v → w.at i' 0 = some v' → expose v = expose v')
  ∧ (∀ (w : Net) (arr : Nat → List Nat), Reach cvOps (wire idSer) (.fl .new) flMut 5 5 w arr →
    ∀ i i' v v', (∀ j ∈ arr i, j ∈ arr i') → (∀ j ∈ arr i', j ∈ arr i) →
      w.at i 5 = some v → w.at i' 5 = some v' → expose v = expose v')

theorem C39_partial : C39_guarded := by
  refine ⟨?_, ?_, ?_, ?_⟩
  · intro valOf h0 w arr h i i' v v' h1 h2 hv hv'
    have hc := C39_lww valOf h0 w arr h i i' h1 h2 v v' hv hv'
    have inv := reach_inv (lw_laws valOf h0) w arr h
    have a := inv.val i
    have b := inv.val i'
    unfold FNet.at at hv hv'
    rw [hv] at a; rw [hv'] at b
    obtain ⟨⟨x, rfl, _⟩, _⟩ := a
    obtain ⟨⟨y, rfl, _⟩, _⟩ := b
    simp only [lwCore, Prod.mk.injEq] at hc
    simp [expose, hc.1]
  · intro w arr h i i' v v' h1 h2 hv hv'
    obtain ⟨c, c', rfl, rfl, hval⟩ := C39_pncounter w arr h i i' h1 h2 v v' hv hv'
    simp [expose, hval]
  · intro w arr h i i' v v' h1 h2 hv hv'
    obtain ⟨c, c', rfl, rfl, _, hval⟩ := C39_gcounter w arr h i i' h1 h2 v v' hv hv'
    simp [expose, hval]
  · intro w arr h i i' v v' h1 h2 hv hv'
    have hc := C39_flag w arr h i i' h1 h2 v v' hv hv'
    have inv := reach_inv fl_laws w arr h
    have a := inv.val i
    have b := inv.val i'
    unfold FNet.at at hv hv'
    rw [hv] at a; rw [hv'] at b
    obtain ⟨⟨x, rfl⟩, _⟩ := a
    obtain ⟨⟨y, rfl⟩, _⟩ := b
    obtain ⟨e, d⟩ := x
    obtain ⟨e', d'⟩ := y
    simp only [flCore] at hc
    subst hc
    rfl

/-- non-vacuity: a reachable G-counter network with interleaved increments and out-of-order,
    duplicated deliveries, in which two replicas have seen the same deltas -/
example : ∃ (w : Net) (arr : Nat → List Nat), Reach cvOps (wire idSer) (.gc .new) gcMut 0 0 w arr
    ∧ w.log.length = 2 ∧ (∀ j ∈ arr 0, j ∈ arr 1) ∧ (∀ j ∈ arr 1, j ∈ arr 0) ∧ (w.at 1 0).isSome := by
  have hm : ∀ s, gcMut (gcIncr 1 3) s → True := fun _ _ => trivial
  have r1 := Reach.upd (ops := cvOps) (wire := wire idSer) (init := CV.gc .new) (Mut := gcMut) (k := 0) (dt := 0)
    _ _ 0 (gcIncr 1 3) Reach.init ⟨1, 3, rfl, by intro c hc; cases hc; decide⟩
  have r2 := Reach.upd _ _ 1 (gcIncr 2 4) r1 ⟨2, 4, rfl, by intro c hc; cases hc; decide⟩
  have r3 := Reach.dlv _ _ 1 0 r2
  have r4 := Reach.dlv _ _ 0 1 r3
  have r5 := Reach.dlv _ _ 1 0 r4
  exact ⟨_, _, r5, by decide, by decide, by decide, by decide⟩

end GoaktVerif.C39

/-
C43 — The producer never outruns the consumer's demand.

"The producer controller never sends a sequenced message beyond the highest sequence the consumer
 controller has requested, so the consumer-side buffer never exceeds the configured flow-control window,
 under any fault and speed pattern."

Model, spec monitor, tie and scope are those of C42 (Model/C42.lean, Spec/C42.lean, Lemmas/C42/*): both
controllers field by field on the volatile, unchunked path; any loss / duplication / reordering on the
controller links; any tick and endpoint schedule.  Out of the model: chunking (a chunked message occupies
several buffer slots), durable queue, controller restart.
-/
import GoaktVerif.Lemmas.C42.World

namespace GoaktVerif.C43
open GoaktVerif.Model.C42 GoaktVerif.Spec.C42 GoaktVerif.C42

/-- C43 in full, for every window, interval, script: every SequencedMessage the producer controller sends
    has a sequence ≤ the highest requestUpToSeq the consumer controller has sent so far (`okDemand`); after
    every consumer-controller handler `len(buffer) ≤ window` and `requestUpToSeq ≤ confirmedSeq + window`
    (`okWindow`). -/
def C43_full : Prop :=
  ∀ (window interval : Nat) (dc : Bool) (ss : List Step),
    (monitorOf window interval dc ss).okDemand = true ∧ (monitorOf window interval dc ss).okWindow = true

theorem C43_holds : C43_full := by
  intro window interval dc ss
  obtain ⟨_, h⟩ := monitor_inv window interval dc ss
  exact ⟨h.dm, h.cm.win⟩

/-- the state form of the same fact, at every reachable world: what the producer controller may still emit
    (demandUpTo), what it has stored (currentSeq), and everything in flight is within the consumer
    controller's granted demand -/
theorem C43_window (window interval : Nat) (dc : Bool) (ss : List Step) :
    let w := ((World.init window interval dc).run ss).1
    w.p.demandUpTo ≤ w.c.requestUpToSeq ∧ w.p.currentSeq ≤ w.c.requestUpToSeq ∧
    w.c.buffer.length ≤ w.c.window ∧ w.c.requestUpToSeq ≤ w.c.confirmedSeq + w.c.window := by
  have : ∀ (ss : List Step) (w : World) (m : Mon), Inv w m →
      (w.run ss).1.p.demandUpTo ≤ (w.run ss).1.c.requestUpToSeq ∧ (w.run ss).1.p.currentSeq ≤ (w.run ss).1.c.requestUpToSeq ∧
      (w.run ss).1.c.buffer.length ≤ (w.run ss).1.c.window ∧
      (w.run ss).1.c.requestUpToSeq ≤ (w.run ss).1.c.confirmedSeq + (w.run ss).1.c.window := by
    intro ss
    induction ss with
    | nil => intro w m h; exact ⟨h.pd.dem, h.pd.cur, h.cl.buflen, h.cl.win⟩
    | cons s ss ih => intro w m h; simp only [World.run]; exact ih _ _ (h.step s)
  exact this ss _ _ (Inv.init window interval dc)

/-- TEST (evaluated): the monitor does flag a message beyond the requested demand … -/
example : (Mon.run {} [.requested 4, .sent 5]).okDemand = false := by decide
/-- TEST (evaluated): … and an over-full buffer -/
example : (Mon.run {} [.cstate 2 0 2 3]).okWindow = false := by decide
/-- TEST (evaluated): a run that fills the window (window 2: two messages stored before any delivery) stays fine -/
example : (monitorOf 2 1 false [.deliverCP 0, .deliverPC 0, .deliverCP 0, .userP, .userP, .userP, .userP,
    .deliverPC 1, .deliverPC 0]).maxReq = 2 := by decide

end GoaktVerif.C43

/-
C43 — The producer never outruns the consumer's demand.

"The producer controller never sends a sequenced message beyond the highest sequence the consumer
 controller has requested, so the consumer-side buffer never exceeds the configured flow-control window,
 under any fault and speed pattern."

Model, spec monitor, tie and scope are those of C42 (Model/C42.lean, Spec/C42.lean, Lemmas/C42/*): both
controllers field by field on the volatile, unchunked path; any loss / duplication / reordering on the
controller links; any tick and endpoint schedule.  Out of the model: chunking (a chunked message occupies
several buffer slots), durable queue, controller restart.
-/
import GoaktVerif.Lemmas.C42.World
import GoaktVerif.Lemmas.C42c.Demand

namespace GoaktVerif.C43
open GoaktVerif.Model.C42 GoaktVerif.Spec.C42 GoaktVerif.C42

/-- C43 in full, for every window, interval, script: every SequencedMessage the producer controller sends
    has a sequence ≤ the highest requestUpToSeq the consumer controller has sent so far (`okDemand`); after
    every consumer-controller handler `len(buffer) ≤ window` and `requestUpToSeq ≤ confirmedSeq + window`
    (`okWindow`). -/
def C43_full : Prop :=
  ∀ (window interval : Nat) (dc : Bool) (ss : List Step),
    (monitorOf window interval dc ss).okDemand = true ∧ (monitorOf window interval dc ss).okWindow = true

theorem C43_holds : C43_full := by
  intro window interval dc ss
  obtain ⟨_, h⟩ := monitor_inv window interval dc ss
  exact ⟨h.dm, h.cm.win⟩

/-- the state form of the same fact, at every reachable world: what the producer controller may still emit
    (demandUpTo), what it has stored (currentSeq), and everything in flight is within the consumer
    controller's granted demand -/
theorem C43_window (window interval : Nat) (dc : Bool) (ss : List Step) :
    let w := ((World.init window interval dc).run ss).1
    w.p.demandUpTo ≤ w.c.requestUpToSeq ∧ w.p.currentSeq ≤ w.c.requestUpToSeq ∧
    w.c.buffer.length ≤ w.c.window ∧ w.c.requestUpToSeq ≤ w.c.confirmedSeq + w.c.window := by
  have : ∀ (ss : List Step) (w : World) (m : Mon), Inv w m →
      (w.run ss).1.p.demandUpTo ≤ (w.run ss).1.c.requestUpToSeq ∧ (w.run ss).1.p.currentSeq ≤ (w.run ss).1.c.requestUpToSeq ∧
      (w.run ss).1.c.buffer.length ≤ (w.run ss).1.c.window ∧
      (w.run ss).1.c.requestUpToSeq ≤ (w.run ss).1.c.confirmedSeq + (w.run ss).1.c.window := by
    intro ss
    induction ss with
    | nil => intro w m h; exact ⟨h.pd.dem, h.pd.cur, h.cl.buflen, h.cl.win⟩
    | cons s ss ih => intro w m h; simp only [World.run]; exact ih _ _ (h.step s)
  exact this ss _ _ (Inv.init window interval dc)

/-- TEST (evaluated): the monitor does flag a message beyond the requested demand … -/
example : (Mon.run {} [.requested 4, .sent 5]).okDemand = false := by decide
/-- TEST (evaluated): … and an over-full buffer -/
example : (Mon.run {} [.cstate 2 0 2 3]).okWindow = false := by decide
/-- TEST (evaluated): a run that fills the window (window 2: two messages stored before any delivery) stays fine -/
example : (monitorOf 2 1 false [.deliverCP 0, .deliverPC 0, .deliverCP 0, .userP, .userP, .userP, .userP,
    .deliverPC 1, .deliverPC 0]).maxReq = 2 := by decide

/-! ### the demand clause on the chunk-aware model (Model/C42c), proved since /repo 78360fc -/

/-- For every window, chunk size, sequence of frame lengths and script: at every step, every SequencedMessage
    the producer controller sends — whole message or chunk — has a sequence ≤ the highest requestUpToSeq the
    consumer controller has sent so far (`demandOK` runs the script and checks exactly that). -/
def C43c_full : Prop :=
  ∀ (window interval : Nat) (dc : Bool) (maxChunk : Nat) (lens : List Nat) (ss : List Step),
    GoaktVerif.C43c.demandOK (GoaktVerif.Model.C42c.World.init window interval dc maxChunk lens) 0 ss = true

theorem C43c_holds : C43c_full := by
  intro window interval dc maxChunk lens ss
  exact GoaktVerif.C43c.demandOK_of_inv (GoaktVerif.C43c.init_inv window interval dc maxChunk lens) ss

/-- TEST (evaluated): the former C43-F1 witness on the chunk-aware model — a 4-chunk message is stored with
    currentSeq 6 > demandUpTo 4, the consumer re-registers, and the StoredAck now emits only chunks 3 and 4 -/
example :
    let w := (((GoaktVerif.Model.C42c.World.init 4 1 false 32 [48, 100]).step (.deliverCP 0)).1.step (.deliverPC 0)).1
    let run := fun (w : GoaktVerif.Model.C42c.World) (ss : List Step) => ss.foldl (fun w s => (w.step s).1) w
    let w9 := run w [.deliverCP 0, .userP, .userP, .userP, .tickC, .tickC, .deliverCP 0]
    w9.p.currentSeq = 6 ∧ w9.p.demandUpTo = 4 ∧
    GoaktVerif.C43c.sentSeqs (w9.step .userP).2.pouts = [3, 4] := by decide

end GoaktVerif.C43

/-
C36 — "A cluster singleton runs at most once cluster-wide."

  For any interleaving of SpawnSingleton calls for one name from several nodes and of leader changes,
  at most one instance of that singleton runs in the cluster at any time.

Model: `GoaktVerif.Model.C36` — operations are the phases of SpawnSingleton calls (begin: follow the
leader views, registry precondition read, PreStart entered; end: the instance runs and publishes with a
plain put), leader-view changes per node, and kills; every interleaving at that granularity is an
operation sequence.  Tied to /repo by the same scripts on real in-process actor systems sharing a fake
registry (tools/props/c36.py).

Result: FALSE of the current code (`C36_refuted`, finding C36-F1): nothing reserves the name between
the precondition read (ActorExists) and the publication (plain PutActor), so when the coordinator changes
(or views disagree) while a spawn is inside that window, a second node passes the same check and both
instances run; the later put silently overwrites the earlier record.
`C36_partial`: with one coordinator that every node agrees on and that does not change, every interleaving
of calls from any nodes (and kills) keeps at most one instance running.  olric's per-key atomicity and
the leader election itself are parameters of the model.
-/
import GoaktVerif.Model.C36

namespace GoaktVerif.C36
open GoaktVerif.Model.C36

/-- THE FULL PROPERTY: any number of nodes, any operation sequence (hence at any time). -/
def C36_full : Prop := ∀ (nn : Nat) (ops : List Op), totalLive (run (St.init nn) ops).1 ≤ 1

/-- node 0 is the coordinator and starts the singleton (held inside PreStart, after its registry check);
the coordinator changes to node 1 everywhere; node 1 is asked, finds no record, starts the singleton and
publishes; node 0's spawn completes and publishes over it -/
def witness : List Op := [.sBegin 0, .view 0 1, .view 1 1, .spawn 1, .sEnd 0]

theorem witness_two : totalLive (run (St.init 2) witness).1 = 2 ∧ (run (St.init 2) witness).1.reg = some 0 := by
  decide

theorem C36_refuted : ¬ C36_full := by
  intro h
  have := h 2 witness
  rw [witness_two.1] at this
  omega

/-! ### partial: a single, agreed, unchanging coordinator -/

def noViewChange : Op → Bool
  | .view _ _ => false
  | _ => true

/-- invariant under a constant agreed coordinator `ℓ`: only `ℓ` ever hosts or starts the singleton -/
structure Inv (nn ℓ : Nat) (s : St) : Prop where
  views : s.views = List.replicate nn ℓ
  onlyL : ∀ m, m ≠ ℓ → liveAt s m = false
  heldL : ∀ n m, (n, m) ∈ s.held → m = ℓ

theorem filter_le_one_of_only : ∀ (l : List Bool) (ℓ : Nat), (∀ m, m ≠ ℓ → l.getD m false = false) →
    (l.filter id).length ≤ 1
  | [], _, _ => by simp
  | b :: t, ℓ, h => by
    cases ℓ with
    | zero =>
      have ht : t.filter id = [] := by
        apply List.filter_eq_nil_iff.mpr
        intro a ha
        obtain ⟨i, hi, e⟩ := List.getElem_of_mem ha
        have := h (i + 1) (by omega)
        simp [List.getD, hi, e] at this
        simp [this]
      cases b <;> simp [List.filter_cons, ht]
    | succ ℓ =>
      have hb : b = false := by simpa [List.getD] using h 0 (by omega)
      subst hb
      have := filter_le_one_of_only t ℓ (fun m hm => by
        have := h (m + 1) (by omega)
        simpa [List.getD] using this)
      simpa [List.filter_cons] using this

theorem total_le_one {nn ℓ : Nat} {s : St} (h : Inv nn ℓ s) : totalLive s ≤ 1 :=
  filter_le_one_of_only s.live ℓ h.onlyL

theorem getD_set (l : List Bool) (m m' : Nat) (v : Bool) :
    (l.set m v).getD m' false = if m' = m ∧ m < l.length then v else l.getD m' false := by
  simp only [List.getD, List.getElem?_set]
  by_cases e : m = m'
  · subst e
    by_cases hl : m < l.length
    · simp [hl]
    · simp [hl, List.getElem?_eq_none (Nat.le_of_not_lt hl)]
  · have : ¬ (m' = m ∧ m < l.length) := fun x => e x.1.symm
    simp [e, this]

theorem route_const {nn ℓ : Nat} {s : St} (hv : s.views = List.replicate nn ℓ) (hl : ℓ < nn) (n : Nat) (hn : n < nn) :
    (route s n).2 = some ℓ := by
  have hlen : s.views.length = nn := by rw [hv]; simp
  have hget : ∀ i, i < nn → s.views.getD i i = ℓ := by
    intro i hi
    rw [hv]; simp [List.getD, List.getElem?_replicate, hi]
  unfold route Model.C36.nn
  rw [hlen]
  show (chase s.views (nn + 1 + 1) n 0).2 = some ℓ
  simp only [chase, hget n hn]
  by_cases e : ℓ = n
  · simp [e]
  · simp only [e, if_false, hlen]
    have : ¬ (0 ≥ nn) := by omega
    simp only [this, if_false]
    cases hnn : nn with
    | zero => omega
    | succ k =>
      simp only [chase]
      rw [← hnn, hget ℓ hl]
      simp

theorem localEnd_inv {nn ℓ : Nat} {s : St} (h : Inv nn ℓ s) : Inv nn ℓ (localEnd s ℓ) where
  views := h.views
  onlyL := by
    intro m hm
    show (s.live.set ℓ true).getD m false = false
    rw [getD_set, if_neg (fun x => hm x.1)]
    exact h.onlyL m hm
  heldL := h.heldL

theorem localBegin_inv {nn ℓ : Nat} {s : St} (h : Inv nn ℓ s) (m : Node) : Inv nn ℓ (localBegin s m).1 := by
  unfold localBegin
  split
  · exact ⟨h.views, h.onlyL, h.heldL⟩
  · simp only []
    split <;> exact ⟨h.views, h.onlyL, h.heldL⟩

theorem logMembers_inv {nn ℓ : Nat} {s : St} (h : Inv nn ℓ s) (vis : List Node) : Inv nn ℓ (logMembers s vis) :=
  ⟨h.views, h.onlyL, h.heldL⟩

theorem step_inv {nn ℓ : Nat} (hl : ℓ < nn) {s : St} (h : Inv nn ℓ s) (op : Op) (hop : noViewChange op = true) :
    Inv nn ℓ (step s op).1 := by
  have hlen : Model.C36.nn s = nn := by unfold Model.C36.nn; rw [h.views]; simp
  cases op with
  | view n k => cases hop
  | bad => exact h
  | follow n =>
    simp only [step]
    (repeat' split) <;> first | exact h | exact ⟨h.views, h.onlyL, h.heldL⟩
  | cancel n =>
    simp only [step]
    (repeat' split) <;> first | exact h | exact ⟨h.views, h.onlyL, h.heldL⟩
  | join n =>
    simp only [step]
    (repeat' split) <;> first | exact h | exact ⟨h.views, h.onlyL, h.heldL⟩
  | kill n =>
    simp only [step]
    split
    · exact h
    · split
      · refine ⟨h.views, ?_, h.heldL⟩
        intro m hm
        show (s.live.set n false).getD m false = false
        rw [getD_set]
        split
        · rfl
        · exact h.onlyL m hm
      · exact h
  | sEnd n =>
    simp only [step]
    split
    · exact h
    · split
      · rename_i x m hf
        have hm : m = ℓ := h.heldL _ m (List.mem_of_find?_eq_some hf)
        subst hm
        have h' : Inv nn m { s with held := s.held.filter (·.1 ≠ n) } :=
          ⟨h.views, h.onlyL, fun a b hab => h.heldL a b (List.mem_filter.mp hab).1⟩
        have same : ∀ {t t' : St}, Inv nn m t → t'.views = t.views → t'.live = t.live → t'.held = t.held → Inv nn m t' := by
          intro t t' ht e1 e2 e3
          exact ⟨by rw [e1]; exact ht.views, by intro k hk; unfold liveAt; rw [e2]; exact ht.onlyL k hk,
            by intro a b hab; rw [e3] at hab; exact ht.heldL a b hab⟩
        split
        · -- second release of a retry
          exact same (localEnd_inv (same h' rfl rfl rfl)) rfl rfl rfl
        · split
          · -- the held call had given up
            split
            · split
              · exact same h rfl rfl (by rfl) |> fun x => ⟨x.views, x.onlyL, fun a b hab => h.heldL a b (List.mem_filter.mp hab).1⟩
              · exact same h rfl rfl rfl
            · exact same h' rfl rfl rfl
          · exact same (localEnd_inv h') rfl rfl rfl
      · exact h
  | cancelHeld n =>
    simp only [step]
    (repeat' split) <;> first | exact h | exact ⟨h.views, h.onlyL, h.heldL⟩
  | spawn n =>
    simp only [step]
    split
    · exact h
    · rename_i hn
      have hn' : n < nn := by rw [hlen] at hn; simpa using hn
      split
      · exact h
      · have hr := route_const h.views hl n hn'
        split
        · rename_i vis heq
          rw [heq] at hr; cases hr
        · rename_i vis m heq
          rw [heq] at hr; injection hr with hr; subst hr
          split
          · exact h
          · have hb := localBegin_inv (logMembers_inv h vis) m
            split
            · rename_i s' o he
              rw [he] at hb; exact hb
            · rename_i s' he
              rw [he] at hb; exact localEnd_inv hb
  | sBegin n =>
    simp only [step]
    split
    · exact h
    · rename_i hn
      have hn' : n < nn := by rw [hlen] at hn; simpa using hn
      split
      · exact h
      · have hr := route_const h.views hl n hn'
        split
        · rename_i vis heq
          rw [heq] at hr; cases hr
        · rename_i vis m heq
          rw [heq] at hr; injection hr with hr; subst hr
          split
          · exact h
          · have hb := localBegin_inv (logMembers_inv h vis) m
            split
            · rename_i s' o he
              rw [he] at hb; exact hb
            · rename_i s' he
              rw [he] at hb
              refine ⟨hb.views, hb.onlyL, ?_⟩
              intro a b hab
              rcases List.mem_cons.mp hab with e | e
              · cases e; rfl
              · exact hb.heldL a b e

theorem run_inv {nn ℓ : Nat} (hl : ℓ < nn) : ∀ (ops : List Op) (s : St), Inv nn ℓ s → ops.all noViewChange = true →
    Inv nn ℓ (run s ops).1
  | [], _, h, _ => h
  | op :: ops, s, h, hall => by
    simp only [List.all_cons, Bool.and_eq_true] at hall
    simp only [run]
    exact run_inv hl ops _ (step_inv hl h op hall.1) hall.2

theorem inv_init (nn ℓ : Nat) : Inv nn ℓ (St.init nn ℓ) where
  views := rfl
  onlyL := by intro m _; simp only [liveAt, St.init, List.getD, List.getElem?_replicate]; split <;> rfl
  heldL := by intro n m h; cases h

/-- PARTIAL (code as it is): one agreed coordinator `ℓ` that never changes ⇒ for every interleaving of
SpawnSingleton phases issued on any nodes, and of kills, at most one instance runs at any time. -/
theorem C36_partial (nn ℓ : Nat) (hl : ℓ < nn) (ops : List Op) (h : ops.all noViewChange = true) :
    totalLive (run (St.init nn ℓ) ops).1 ≤ 1 :=
  total_le_one (run_inv hl ops _ (inv_init nn ℓ) h)

/-- non-vacuity: 3 nodes agreeing on coordinator 2; held and full spawns from every node, a kill and a
re-spawn: exactly one instance at the end, hosted by node 2 and named by the registry -/
example :
    let ops : List Op := [.sBegin 0, .spawn 1, .sEnd 0, .spawn 2, .kill 2, .sBegin 1, .kill 2, .sEnd 1, .spawn 0]
    ops.all noViewChange = true ∧ totalLive (run (St.init 3 2) ops).1 = 1 ∧ (run (St.init 3 2) ops).1.reg = some 2 ∧
    (run (St.init 3 2) ops).1.started = 2 := by
  decide

end GoaktVerif.C36

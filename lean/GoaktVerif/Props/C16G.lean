/-
C16 — second part: a GRAIN as the requester (actor/grain_pid.go, GrainContext.RequestGrain/RequestActor).

Same property text as Props/C16.lean.  For a grain the code is stronger than for an actor in two
places, and the theorems say so: (1) every completed request with a continuation has run it exactly
once — also the ones completed by the deactivation teardown and the ones refused at admission; (2) a
blocking request PAUSES the user mailbox, so the handling order of ordinary messages is the global
arrival order, not only the order among the held ones.

Model: Model/C16G.lean.  All theorems are for every configuration and every script (`run`).
-/
import GoaktVerif.Lemmas.C16.GOps

namespace GoaktVerif.C16G
open GoaktVerif.Model.C16G
open GoaktVerif.Model.C16 (Mode)

/-! ### the invariant holds in every reachable state -/

theorem run_inv_gen (ops : List Op) (s : St) (h : Inv s) : ∀ r ∈ run s ops, Inv r.1 := by
  induction ops generalizing s with
  | nil => intro r hr; simp [run] at hr
  | cons op ops ih =>
    intro r hr
    simp only [run, List.mem_cons] at hr
    rcases hr with rfl | hr
    · exact inv_step h op
    · exact ih _ (inv_step h op) r hr

theorem G_run_inv (inst : Bool) (m : Mode) (max : Nat) (g : Bool) (ops : List Op) :
    ∀ r ∈ run (St.init inst m max g) ops, Inv r.1 :=
  run_inv_gen ops _ (inv_init inst m max g)

/-- at most once -/
theorem G_once {s : St} (h : Inv s) (k : Nat) : cbCount k s.log ≤ 1 := by
  rw [h.log_cb k]
  unfold firedOf
  cases hg : getReq s.reqs k with
  | none => simp
  | some r => simpa using (h.reqs_ok k r hg).fired_le

/-- exactly once, whoever completed the request (reply, timeout, cancellation, admission failure,
    deactivation teardown): a completed request with a continuation has run it exactly once -/
theorem G_exactly_once {s : St} (h : Inv s) (k : Nat) (r : Req) (hg : getReq s.reqs k = some r)
    (hc : r.completed = true) (hcb : r.hasCb = true) : cbCount k s.log = 1 := by
  rw [h.log_cb k]
  simp [firedOf, hg, (h.reqs_ok k r hg).done_fired hc hcb]

theorem G_limit {s : St} (h : Inv s) (hmax : s.maxInFlight > 0) : s.inFlight ≤ s.maxInFlight := h.limit hmax

theorem G_counters {s : St} (h : Inv s) :
    s.inFlight = (cnt inMapP s.reqs : Nat) ∧ s.blocking = (cnt blockP s.reqs : Nat)
    ∧ (cnt inMapP s.reqs = 0 → s.inFlight = 0 ∧ s.blocking = 0) := by
  refine ⟨h.inflight, h.blocking, ?_⟩
  intro h0
  refine ⟨by rw [h.inflight, h0]; rfl, ?_⟩
  rw [h.blocking]
  have : cnt blockP s.reqs ≤ cnt inMapP s.reqs := by
    unfold cnt
    induction s.reqs with
    | nil => simp
    | cons p rest ih =>
      simp only [List.filter_cons]
      by_cases hb : blockP p.2 = true
      · have hm : inMapP p.2 = true := by
          simp only [blockP, Bool.and_eq_true] at hb; exact hb.1
        simp [hb, hm]; omega
      · by_cases hm : inMapP p.2 = true <;> simp [hb, hm] <;> omega
  omega

/-- the pause: with a blocking request outstanding and no response queued the grain's turn does nothing —
    in particular it does not take anything from the user mailbox -/
theorem G_pause_gate (s : St) (fuel : Nat) (hp : paused s = true) (hr : s.responses = []) : pump fuel s = s := by
  cases fuel with
  | zero => rfl
  | succ n =>
    unfold pump
    split
    · rfl
    · simp [hr, hp]


/-! ### arrival order -/

/-- the log entry a user-mailbox message leaves when it is handled -/
def entryOf : Msg → Entry
  | .user k => .handled k
  | .hold => .held
  | .reqCmd k _ _ => .req k
  | .pill => .deactivated

def isOrd : Entry → Bool
  | .cb _ _ _ => false
  | _ => true

/-- the ordinary entries of the log, in order -/
def ord (log : List Entry) : List Entry := log.filter isOrd

/-- handled so far, then what still waits in the user mailbox -/
def seqOf (s : St) : List Entry := ord s.log ++ s.queue.map entryOf

theorem ord_append (a b : List Entry) : ord (a ++ b) = ord a ++ ord b := by simp [ord, List.filter_append]

theorem ord_teardown (l : List (Nat × Req)) : ord (teardownReqs l).2 = [] := by
  induction l with
  | nil => rfl
  | cons p rest ih =>
    obtain ⟨k, r⟩ := p
    rcases hq : teardownReqs rest with ⟨rest', ev⟩
    rw [hq] at ih
    simp only at ih
    simp only [teardownReqs, hq]
    split
    · simp only [ord_append, ih]
      cases r.hasCb <;> simp [ord, isOrd]
    · exact ih

/-- the three ways `doRequest` can end: duplicate label, refused, admitted -/
theorem doRequest_cases (s : St) (k : Nat) (m : Option Mode) (t : Bool) :
    doRequest s k m t = { s with log := s.log ++ [Entry.req k] }
    ∨ (∃ o, doRequest s k m t = refuse s k o t)
    ∨ (∃ mode, doRequest s k m t =
          { s with inFlight := s.inFlight + 1,
                   blocking := if mode = Mode.stash then s.blocking + 1 else s.blocking,
                   reqs := setReq s.reqs k { mode := mode, hasCb := t },
                   log := s.log ++ [Entry.req k] }) := by
  unfold doRequest
  by_cases h0 : (getReq s.reqs k).isSome = true
  · left; simp [h0]
  · by_cases h1 : s.installed = true
    · by_cases h2 : m.getD s.defMode = Mode.off
      · right; left; exact ⟨.disabled, by simp [h0, h1, h2]⟩
      · by_cases h3 : s.maxInFlight > 0 ∧ s.inFlight ≥ s.maxInFlight
        · right; left; exact ⟨.limit, by simp [h0, h1, h2, h3]⟩
        · right; right; exact ⟨m.getD s.defMode, by simp [h0, h1, h2, h3]⟩
    · right; left; exact ⟨.disabled, by simp [h0, h1]⟩

theorem doResponse_cases (s : St) (k : Nat) (o : Outcome) :
    doResponse s k o = s
    ∨ (∃ r : Req, doResponse s k o =
          { s with reqs := setReq s.reqs k (completedReq r o),
                   inFlight := s.inFlight - 1,
                   blocking := if r.mode = Mode.stash then s.blocking - 1 else s.blocking,
                   log := if r.hasCb then s.log ++ [Entry.cb k o true] else s.log }) := by
  unfold doResponse
  by_cases h1 : s.installed = true
  · cases hg : getReq s.reqs k with
    | none => left; simp [h1]
    | some r =>
      by_cases h2 : r.inMap = true
      · by_cases h3 : r.completed = true
        · left; simp [h1, h2, h3]
        · right; exact ⟨r, by simp [h1, h2, h3, completedReq]⟩
      · left; simp [h1, h2]
  · left; simp [h1]

theorem ord_doRequest (s : St) (k : Nat) (m : Option Mode) (t : Bool) :
    ord (doRequest s k m t).log = ord s.log ++ [Entry.req k] := by
  rcases doRequest_cases s k m t with he | ⟨o, he⟩ | ⟨mode, he⟩ <;> rw [he]
  · simp [ord_append, ord, isOrd]
  · cases t <;> simp [refuse, ord_append, ord, isOrd, List.filter]
  · simp [ord_append, ord, isOrd]

theorem ord_doResponse (s : St) (k : Nat) (o : Outcome) : ord (doResponse s k o).log = ord s.log := by
  rcases doResponse_cases s k o with he | ⟨r, he⟩ <;> rw [he]
  simp only
  split
  · simp [ord_append, ord, isOrd]
  · rfl

theorem queue_doResponse (s : St) (k : Nat) (o : Outcome) : (doResponse s k o).queue = s.queue := by
  rcases doResponse_cases s k o with he | ⟨r, he⟩ <;> rw [he]

theorem queue_doRequest (s : St) (k : Nat) (m : Option Mode) (t : Bool) : (doRequest s k m t).queue = s.queue := by
  rcases doRequest_cases s k m t with he | ⟨o, he⟩ | ⟨mode, he⟩ <;> rw [he]
  rfl

/-- handling a user-mailbox message appends exactly its entry to the ordinary log and leaves the mailbox alone -/
theorem dispatch_seq (s : St) (m : Msg) :
    ord (dispatch s m).log = ord s.log ++ [entryOf m] ∧ (dispatch s m).queue = s.queue := by
  cases m with
  | user k => simp [dispatch, ord_append, ord, isOrd, entryOf]
  | hold => simp only [dispatch]; split <;> simp [ord_append, ord, isOrd, entryOf]
  | reqCmd k m t => exact ⟨by simp [dispatch, ord_doRequest, entryOf], by simp [dispatch, queue_doRequest]⟩
  | pill =>
    simp only [dispatch, entryOf]
    rcases hq : teardownReqs s.reqs with ⟨reqs', ev⟩
    have := ord_teardown s.reqs
    rw [hq] at this
    simp only at this
    constructor
    · show ord (s.log ++ ev ++ [Entry.deactivated]) = ord s.log ++ [Entry.deactivated]
      rw [ord_append, ord_append, this]
      simp [ord, isOrd]
    · trivial

theorem pump_seq (fuel : Nat) (s : St) : seqOf (pump fuel s) = seqOf s := by
  induction fuel generalizing s with
  | zero => rfl
  | succ n ih =>
    unfold pump
    split
    · rfl
    · split
      · next k o rest hr =>
        rw [ih]
        simp only [seqOf, ord_doResponse, queue_doResponse]
      · split
        · rfl
        · split
          · rfl
          · next m rest hq =>
            rw [ih]
            obtain ⟨h1, h2⟩ := dispatch_seq { s with queue := rest } m
            simp only [seqOf, h1, h2, hq, List.map_cons, List.append_assoc, List.singleton_append]

/-- what an op delivers into the user mailbox -/
def delivered (s : St) : Op → List Entry
  | .q k _ _ => if s.poisoned then [] else [Entry.req k]
  | .m k => if s.poisoned then [] else [Entry.handled k]
  | .H => if s.poisoned then [] else [Entry.held]
  | .S => if s.poisoned then [] else [Entry.deactivated]
  | _ => []

/-- ARRIVAL ORDER (global): at every moment, the ordinary messages handled so far followed by the ones
    still waiting are exactly the messages delivered so far, in delivery order.  The user mailbox is never
    reordered — neither by a pause nor by its end — and nothing is handled twice or lost while the grain
    is active. -/
theorem G_step_seq (s : St) (op : Op) : seqOf (step s op).1 = seqOf s ++ delivered s op := by
  have hdel : ∀ m, seqOf (deliver s m).1 = seqOf s ++ (if s.poisoned then [] else [entryOf m]) := by
    intro m
    unfold deliver
    split
    · simp
    · simp only [drain, pump_seq]
      simp [seqOf]
  have hresp : ∀ k o, seqOf (respond s k o) = seqOf s := by
    intro k o
    unfold respond
    split
    · rfl
    · simp only [drain, pump_seq]; rfl
  cases op with
  | q k m t => simpa [step, delivered, entryOf] using hdel (.reqCmd k m t)
  | m k => simpa [step, delivered, entryOf] using hdel (.user k)
  | H => simpa [step, delivered, entryOf] using hdel .hold
  | L =>
    simp only [step, delivered]
    split
    · simp only [drain, pump_seq]; simp [seqOf]
    · simp [seqOf]
  | r k =>
    simp only [step, delivered]
    split
    · simp
    · split
      · simp
      · split
        · simp
        · next r hg _ _ =>
          have : ∀ (s' : St) k o, s'.log = s.log → s'.queue = s.queue → seqOf (respond s' k o) = seqOf s := by
            intro s' k o h1 h2
            unfold respond
            split
            · simp [seqOf, h1, h2]
            · simp only [drain, pump_seq]; simp [seqOf, h1, h2]
          rw [List.append_nil]
          exact this { s with reqs := setReq s.reqs k { r with replied := true } } k Outcome.ok rfl rfl
  | x k => simp only [step, delivered]; split <;> (try split) <;> simp [hresp]
  | c k =>
    simp only [step, delivered]
    split
    · simp
    · split
      · simp
      · next r hg _ =>
        have : ∀ (s' : St) k o, s'.log = s.log → s'.queue = s.queue → seqOf (respond s' k o) = seqOf s := by
          intro s' k o h1 h2
          unfold respond
          split
          · simp [seqOf, h1, h2]
          · simp only [drain, pump_seq]; simp [seqOf, h1, h2]
        rw [List.append_nil]
        exact this { s with reqs := setReq s.reqs k { r with cancelRequested := true } } k Outcome.canceled rfl rfl
  | T k =>
    simp only [step, delivered]
    split
    · simp
    · split
      · simp
      · split
        · simp [seqOf, ord_append, ord, isOrd]
        · simp [seqOf]
  | S =>
    simp only [step, delivered]
    split
    · simp
    · simp only [drain, pump_seq]
      simp [seqOf, entryOf]

/-! ### on the turn -/

def offTurn (log : List Entry) : List Entry :=
  log.filter (fun e => match e with | .cb _ _ false => true | _ => false)

theorem offTurn_append (a b : List Entry) : offTurn (a ++ b) = offTurn a ++ offTurn b := by
  simp [offTurn, List.filter_append]

theorem offTurn_teardown (l : List (Nat × Req)) : offTurn (teardownReqs l).2 = [] := by
  induction l with
  | nil => rfl
  | cons p rest ih =>
    obtain ⟨k, r⟩ := p
    rcases hq : teardownReqs rest with ⟨rest', ev⟩
    rw [hq] at ih
    simp only at ih
    simp only [teardownReqs, hq]
    split
    · simp only [offTurn_append, ih]
      cases r.hasCb <;> simp [offTurn]
    · exact ih

theorem offTurn_doRequest (s : St) (k : Nat) (m : Option Mode) (t : Bool) : offTurn (doRequest s k m t).log = offTurn s.log := by
  rcases doRequest_cases s k m t with he | ⟨o, he⟩ | ⟨mode, he⟩ <;> rw [he]
  · simp [offTurn_append, offTurn]
  · cases t <;> simp [refuse, offTurn_append, offTurn, List.filter]
  · simp [offTurn_append, offTurn]

theorem offTurn_doResponse (s : St) (k : Nat) (o : Outcome) : offTurn (doResponse s k o).log = offTurn s.log := by
  rcases doResponse_cases s k o with he | ⟨r, he⟩ <;> rw [he]
  simp only
  split
  · simp [offTurn_append, offTurn]
  · rfl

theorem offTurn_dispatch (s : St) (m : Msg) : offTurn (dispatch s m).log = offTurn s.log := by
  cases m with
  | user k => simp [dispatch, offTurn_append, offTurn]
  | hold => simp only [dispatch]; split <;> simp [offTurn_append, offTurn]
  | reqCmd k m t => simp [dispatch, offTurn_doRequest]
  | pill =>
    simp only [dispatch]
    rcases hq : teardownReqs s.reqs with ⟨reqs', ev⟩
    have := offTurn_teardown s.reqs
    rw [hq] at this
    simp only at this
    show offTurn (s.log ++ ev ++ [Entry.deactivated]) = offTurn s.log
    rw [offTurn_append, offTurn_append, this]
    simp [offTurn]

theorem offTurn_pump (fuel : Nat) (s : St) : offTurn (pump fuel s).log = offTurn s.log := by
  induction fuel generalizing s with
  | zero => rfl
  | succ n ih =>
    unfold pump
    split
    · rfl
    · split
      · rw [ih, offTurn_doResponse]
      · split
        · rfl
        · split
          · rfl
          · rw [ih, offTurn_dispatch]

/-- on the grain's turn: continuations fired by a reply, a timeout, a cancellation, an admission failure or
    the deactivation teardown all run inside the turn loop; only a `Then` registered after completion from
    outside the grain (op `T`) runs elsewhere -/
theorem G_on_turn (s : St) (op : Op) (hT : ∀ k, op ≠ .T k) : offTurn (step s op).1.log = offTurn s.log := by
  cases op with
  | T k => exact absurd rfl (hT k)
  | q k m t => simp only [step, deliver]; split <;> simp [drain, offTurn_pump]
  | m k => simp only [step, deliver]; split <;> simp [drain, offTurn_pump]
  | H => simp only [step, deliver]; split <;> simp [drain, offTurn_pump]
  | L => simp only [step]; split <;> simp [drain, offTurn_pump]
  | r k => simp only [step, respond]; split <;> (try split) <;> (try split) <;> (try split) <;> simp [drain, offTurn_pump]
  | x k => simp only [step, respond]; split <;> (try split) <;> (try split) <;> simp [drain, offTurn_pump]
  | c k => simp only [step, respond]; split <;> (try split) <;> (try split) <;> simp [drain, offTurn_pump]
  | S => simp only [step]; split <;> simp [drain, offTurn_pump]

/-! ### the property, grain side -/

def C16G_full : Prop :=
  ∀ (inst : Bool) (m : Mode) (max : Nat) (grainTarget : Bool) (ops : List Op), ∀ r ∈ run (St.init inst m max grainTarget) ops,
    let s := r.1
    (∀ k, cbCount k s.log ≤ 1)
    ∧ (∀ k q, getReq s.reqs k = some q → q.completed = true → q.hasCb = true → cbCount k s.log = 1)
    ∧ (s.maxInFlight > 0 → s.inFlight ≤ s.maxInFlight)
    ∧ s.inFlight = (cnt inMapP s.reqs : Nat) ∧ s.blocking = (cnt blockP s.reqs : Nat)
    ∧ (cnt inMapP s.reqs = 0 → s.inFlight = 0 ∧ s.blocking = 0)
    ∧ (∀ fuel, paused s = true → s.responses = [] → pump fuel s = s)
    ∧ (∀ op, seqOf (step s op).1 = seqOf s ++ delivered s op)
    ∧ (∀ op, (∀ k, op ≠ .T k) → offTurn (step s op).1.log = offTurn s.log)

theorem C16G_holds : C16G_full := by
  intro inst m max g ops r hr
  have h := G_run_inv inst m max g ops r hr
  have hc := G_counters h
  exact ⟨G_once h, fun k q hg a b => G_exactly_once h k q hg a b, G_limit h, hc.1, hc.2.1, hc.2.2,
    fun fuel a b => G_pause_gate _ fuel a b, fun op => G_step_seq _ op, fun op hT => G_on_turn _ op hT⟩

/-- non-vacuity: a paused grain with two buffered messages; the reply unpauses it and they are handled in
    arrival order; a shutdown with a request still in flight runs its continuation with the cancellation -/
example :
    let ops := [Op.q 1 none true, .m 1, .m 2, .r 1, .q 2 (some .allowAll) true, .S]
    (run (St.init true .stash 0) ops).map (fun r => (r.1.inFlight, r.1.blocking, r.1.queue.length, r.1.active))
      = [(1, 1, 0, true), (1, 1, 1, true), (1, 1, 2, true), (0, 0, 0, true), (1, 0, 0, true), (0, 0, 0, false)]
    ∧ ((run (St.init true .stash 0) ops).getLast?.map (·.1.log))
      = some [.req 1, .cb 1 .ok true, .handled 1, .handled 2, .req 2, .cb 2 .canceled true, .deactivated] := by decide

end GoaktVerif.C16G

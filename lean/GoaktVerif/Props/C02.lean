/-
C02 — Accepted messages to a live actor are processed exactly once.

"Every message whose Tell/Ask to a local actor was accepted (no error returned) is handed to that
 actor's handler exactly once, provided the actor stays running until the message is dequeued; no
 message is processed twice. An actor with a pending message is always eventually scheduled, so its
 mailbox never stalls while a worker is free (no lost wake-up)."

Same model as C01 (`Model/C01.lean`), same tie (E3 replay on the real code).  Proved for every
schedule, any number of senders / workers / restart threads:
  * accounting: accepted ≈ handled ++ dropped ++ held-by-a-worker ++ still-in-the-mailbox (as multisets),
    hence nothing is handled twice or invented, and nothing is lost;
  * `dropped` stays empty when no restart thread exists (the property's proviso);
  * no lost wake-up, as absence of stuck states: whenever the mailbox holds a message, the dispatch state
    is not Idle, or a sender is still between its reservation and the outcome of its TrySchedule, or a
    worker is still inside its reclaim check; and when the state is not Idle a ready-queue entry, a token
    holder or a turn owner exists (C01's invariant).  Eventual scheduling under a fair scheduler is NOT
    stated temporally (named gap).
-/
import GoaktVerif.Props.C01

set_option linter.unusedSimpArgs false

namespace GoaktVerif.C02
open GoaktVerif.Model.C01 GoaktVerif.Lemmas.C01 GoaktVerif.C01

/-! ### list plumbing -/

theorem flatMap_eraseIdx {β} (f : Thread → List β) (l : List Thread) (i : Nat) (h : i < l.length) :
    (l.flatMap f).Perm ((l.eraseIdx i).flatMap f ++ f l[i]) := by
  induction l generalizing i with
  | nil => simp at h
  | cons x xs ih =>
    cases i with
    | zero => simp only [List.flatMap_cons, List.eraseIdx_cons_zero, List.getElem_cons_zero]; exact List.perm_append_comm
    | succ j =>
      have := ih j (by simpa using h)
      simp only [List.flatMap_cons, List.eraseIdx_cons_succ, List.getElem_cons_succ, List.append_assoc]
      exact List.Perm.append_left _ this

theorem flatMap_set {β} (f : Thread → List β) (l : List Thread) (i : Nat) (t' : Thread) (h : i < l.length) :
    ((l.set i t').flatMap f).Perm ((l.eraseIdx i).flatMap f ++ f t') := by
  induction l generalizing i with
  | nil => simp at h
  | cons x xs ih =>
    cases i with
    | zero => simp only [List.set_cons_zero, List.flatMap_cons, List.eraseIdx_cons_zero]; exact List.perm_append_comm
    | succ j =>
      have := ih j (by simpa using h)
      simp only [List.set_cons_succ, List.flatMap_cons, List.eraseIdx_cons_succ, List.append_assoc]
      exact List.Perm.append_left _ this

/-! ### accounting -/

/-- message a worker has dequeued and not yet finished handling -/
def heldPc : Option PC → List Nat
  | some (.wDeq3 _ m) | some (.wDeq4 _ m) | some (.wRecv _ m) => [m]
  | _ => []

def held (t : Thread) : List Nat := heldPc t.pc

theorem heldPc_sE0 (m : Nat) : heldPc (some (.sE0 m)) = [] := rfl
theorem heldPc_sE1 (m : Nat) : heldPc (some (.sE1 m)) = [] := rfl
theorem heldPc_sE2 (m : Nat) : heldPc (some (.sE2 m)) = [] := rfl
theorem heldPc_sT1 : heldPc (some .sT1) = [] := rfl
theorem heldPc_sT2 : heldPc (some .sT2) = [] := rfl
theorem heldPc_sPush : heldPc (some .sPush) = [] := rfl
theorem heldPc_wTake : heldPc (some .wTake) = [] := rfl
theorem heldPc_wTfp : heldPc (some .wTfp) = [] := rfl
theorem heldPc_wSys1 (b : Nat) : heldPc (some (.wSys1 b)) = [] := rfl
theorem heldPc_wSys2 (b : Nat) : heldPc (some (.wSys2 b)) = [] := rfl
theorem heldPc_wDeq1 (b : Nat) : heldPc (some (.wDeq1 b)) = [] := rfl
theorem heldPc_wDeq2 (b : Nat) : heldPc (some (.wDeq2 b)) = [] := rfl
theorem heldPc_wDeq3 (b m : Nat) : heldPc (some (.wDeq3 b m)) = [m] := rfl
theorem heldPc_wDeq4 (b m : Nat) : heldPc (some (.wDeq4 b m)) = [m] := rfl
theorem heldPc_wRecv (b m : Nat) : heldPc (some (.wRecv b m)) = [m] := rfl
theorem heldPc_wReset (b : Nat) : heldPc (some (.wReset b)) = [] := rfl
theorem heldPc_wEmp1 (b : Nat) : heldPc (some (.wEmp1 b)) = [] := rfl
theorem heldPc_wEmp2 (b : Nat) : heldPc (some (.wEmp2 b)) = [] := rfl
theorem heldPc_wSEmp1 (b : Nat) : heldPc (some (.wSEmp1 b)) = [] := rfl
theorem heldPc_wSEmp2 (b : Nat) : heldPc (some (.wSEmp2 b)) = [] := rfl
theorem heldPc_wTs1 (b : Nat) : heldPc (some (.wTs1 b)) = [] := rfl
theorem heldPc_wTs2 (b : Nat) : heldPc (some (.wTs2 b)) = [] := rfl
theorem heldPc_wRetake (b : Nat) : heldPc (some (.wRetake b)) = [] := rfl
theorem heldPc_wYield : heldPc (some .wYield) = [] := rfl
theorem heldPc_wResched : heldPc (some .wResched) = [] := rfl
theorem heldPc_rWait : heldPc (some .rWait) = [] := rfl
theorem heldPc_rCount : heldPc (some .rCount) = [] := rfl
theorem heldPc_rLoad : heldPc (some .rLoad) = [] := rfl

def ids (cells : List Cell) : List Nat := cells.map (·.id)

theorem ids_publish (m : Nat) (cells : List Cell) : ids (publish m cells) = ids cells := by
  induction cells with
  | nil => rfl
  | cons c cs ih =>
    simp only [publish]
    split
    · simp [ids]
    · simp only [ids, List.map_cons] at ih ⊢; rw [ih]

theorem nextOp_held (s : Shared) (p : List Op) (r : List String) : heldPc (nextOp s p r).pc = [] := by
  rcases nextOp_pc s p r with h | ⟨m, h⟩ | h <;> simp [h, heldPc]

theorem nextIter_held (b : Nat) : heldPc (some (nextIter b)) = [] := by
  unfold nextIter; split <;> simp [heldPc]

/-- Accounting invariant: every accepted message is in exactly one place. -/
def Acct (c : Cfg) : Prop :=
  (c.sh.handled ++ c.sh.dropped ++ c.threads.flatMap held ++ ids c.sh.cells).Perm c.sh.accepted

theorem headReady_cons (cells : List Cell) (m : Nat) (h : headReady cells = some m) :
    ids cells = m :: ids cells.tail := by
  cases cells with
  | nil => simp [headReady] at h
  | cons c cs =>
    simp only [headReady] at h
    split at h <;> simp at h
    simp [ids, h]

/-- one step, seen from the stepping thread; `H` = messages held by the other threads -/
theorem exec_acct (s : Shared) (t : Thread) (others : Nat) (pc : PC) (H : List Nat)
    (hpc : t.pc = some pc)
    (h : (s.handled ++ s.dropped ++ (H ++ heldPc t.pc) ++ ids s.cells).Perm s.accepted) :
    ((exec s t others pc).1.handled ++ (exec s t others pc).1.dropped ++ (H ++ heldPc (exec s t others pc).2.pc)
      ++ ids (exec s t others pc).1.cells).Perm (exec s t others pc).1.accepted := by
  rw [hpc] at h
  cases pc
  case sE1 m =>
    simp only [exec, heldPc_sE1, heldPc_sE2, List.append_nil] at h ⊢
    simp only [ids, List.map_append, List.map_cons, List.map_nil, ← List.append_assoc]
    exact List.Perm.append_right _ h
  case wDeq2 b =>
    simp only [exec]
    split
    · rename_i m hm
      simp only [heldPc_wDeq2, heldPc_wDeq3, List.append_nil] at h ⊢
      rw [headReady_cons _ _ hm] at h
      refine List.Perm.trans ?_ h
      simp only [List.append_assoc]
      refine List.Perm.append_left _ (List.Perm.append_left _ (List.Perm.append_left _ ?_))
      simp
    · simpa only [heldPc_wDeq2, heldPc_wReset] using h
  case wDeq4 b m =>
    simp only [exec]
    split
    · simpa only [heldPc_wDeq4, heldPc_wRecv] using h
    · simp only [heldPc_wDeq4, nextIter_held, List.append_nil] at h ⊢
      refine List.Perm.trans ?_ h
      simp only [List.append_assoc]
      refine List.Perm.append_left _ ?_
      have : (m :: s.dropped ++ (H ++ ids s.cells)).Perm (s.dropped ++ (H ++ ([m] ++ ids s.cells))) := by
        refine (@List.perm_middle _ m s.dropped (H ++ ids s.cells)).symm.trans ?_
        refine List.Perm.append_left _ ?_
        simpa using (@List.perm_middle _ m H (ids s.cells)).symm
      simpa using this
  case wRecv b m =>
    simp only [exec, heldPc_wRecv, nextIter_held, List.append_nil] at h ⊢
    refine List.Perm.trans ?_ h
    simp only [List.append_assoc, List.cons_append]
    refine (@List.perm_middle _ m s.handled _).symm.trans (List.Perm.append_left _ ?_)
    refine (@List.perm_middle _ m s.dropped _).symm.trans (List.Perm.append_left _ ?_)
    exact (@List.perm_middle _ m H _).symm.trans (by simp)
  all_goals
    simp only [exec, finishOp]
    (try split) <;>
      simp only [heldPc_sE0, heldPc_sE1, heldPc_sE2, heldPc_sT1, heldPc_sT2, heldPc_sPush, heldPc_wTake, heldPc_wTfp, heldPc_wSys1, heldPc_wSys2, heldPc_wDeq1, heldPc_wDeq2, heldPc_wDeq3, heldPc_wDeq4, heldPc_wRecv, heldPc_wReset, heldPc_wEmp1, heldPc_wEmp2, heldPc_wSEmp1, heldPc_wSEmp2, heldPc_wTs1, heldPc_wTs2, heldPc_wRetake, heldPc_wYield, heldPc_wResched, heldPc_rWait, heldPc_rCount, heldPc_rLoad, nextOp_held, nextIter_held, List.append_nil, ids_publish, hpc] at h ⊢ <;>
      exact h

theorem step_acct (c : Cfg) (tid : Nat) (h : Acct c) : Acct (step c tid).2 := by
  unfold step
  split
  · exact h
  · rename_i t ht
    split
    · exact h
    · rename_i pc hpc
      have hlt : tid < c.threads.length := (List.getElem?_eq_some_iff.mp ht).1
      have hget : c.threads[tid] = t := (List.getElem?_eq_some_iff.mp ht).2
      unfold Acct at h ⊢
      have p1 := flatMap_eraseIdx held c.threads tid hlt
      rw [hget] at p1
      have h' : (c.sh.handled ++ c.sh.dropped ++ ((c.threads.eraseIdx tid).flatMap held ++ heldPc t.pc) ++ ids c.sh.cells).Perm c.sh.accepted :=
        (List.Perm.append_right _ (List.Perm.append_left _ p1.symm)).trans h
      have g := exec_acct c.sh t (sumBy inRecv c.threads - inRecv t) pc _ hpc h'
      have p2 := flatMap_set held c.threads tid (exec c.sh t (sumBy inRecv c.threads - inRecv t) pc).2 hlt
      exact (List.Perm.append_right _ (List.Perm.append_left _ p2)).trans g

theorem spawn_acct (s : Shared) (progs : List (List Op)) :
    (spawn s progs).2.flatMap held = [] ∧ (spawn s progs).1.handled = s.handled ∧ (spawn s progs).1.dropped = s.dropped
    ∧ (spawn s progs).1.cells = s.cells ∧ (spawn s progs).1.accepted = s.accepted := by
  induction progs generalizing s with
  | nil => simp [spawn]
  | cons p ps ih =>
    simp only [spawn]
    split
    · obtain ⟨a, b, c, d, e⟩ := ih s
      exact ⟨by simp [List.flatMap_cons, held, heldPc, a], b, c, d, e⟩
    · obtain ⟨a, b, c, d, e⟩ := ih s
      exact ⟨by simp [List.flatMap_cons, held, nextOp_held, a], b, c, d, e⟩

theorem init_acct (budget : Nat) (progs : List (List Op)) : Acct (init budget progs) := by
  unfold init Acct
  obtain ⟨a, b, c, d, e⟩ := spawn_acct (initShared budget) progs
  simp only [a, b, c, d, e]
  simp [ids, initShared]

theorem run_acct (c : Cfg) (sched : List Nat) (h : Acct c) : Acct (run c sched) := by
  induction sched generalizing c with
  | nil => exact h
  | cons t ts ih => exact ih _ (step_acct c t h)

/-- Exactly-once, part 1: in every reachable configuration the accepted messages are, as a multiset,
    exactly those handled, dropped-while-stopped, held by a worker, or still in the mailbox. -/
theorem C02_accounting (budget : Nat) (progs : List (List Op)) (sched : List Nat) :
    Acct (run (init budget progs) sched) := run_acct _ _ (init_acct budget progs)

/-- no message is handled more often than it was accepted (so: never twice when ids are distinct) -/
theorem C02_no_duplicate (budget : Nat) (progs : List (List Op)) (sched : List Nat) (m : Nat) :
    (run (init budget progs) sched).sh.handled.count m ≤ (run (init budget progs) sched).sh.accepted.count m := by
  have h := (C02_accounting budget progs sched).count_eq m
  simp only [List.count_append] at h
  omega

/-! ### the proviso: without a restart thread the actor stays running and nothing is dropped -/

def notRestartPc (p : Option PC) : Prop := p ≠ some .rLoad ∧ p ≠ some .rWait ∧ p ≠ some .rCount

def noRestart (c : Cfg) : Prop := ∀ t ∈ c.threads, notRestartPc t.pc

def Live (c : Cfg) : Prop := noRestart c ∧ c.sh.running = true ∧ c.sh.dropped = []

theorem nextOp_notRestart (s : Shared) (p : List Op) (r : List String) : notRestartPc (nextOp s p r).pc := by
  rcases nextOp_pc s p r with h | ⟨m, h⟩ | h <;> simp [h, notRestartPc]

theorem exec_live (s : Shared) (t : Thread) (others : Nat) (pc : PC) (hpc : t.pc = some pc)
    (h1 : notRestartPc (some pc)) (hr : s.running = true) (hd : s.dropped = []) :
    notRestartPc (exec s t others pc).2.pc
    ∧ (exec s t others pc).1.running = true ∧ (exec s t others pc).1.dropped = [] := by
  have hn := nextOp_notRestart
  cases pc <;> simp only [exec, finishOp] <;> (try split) <;>
    simp_all [nextIter, notRestartPc] <;> (try split) <;> simp_all

theorem step_live (c : Cfg) (tid : Nat) (h : Live c) : Live (step c tid).2 := by
  unfold step
  split
  · exact h
  · rename_i t ht
    split
    · exact h
    · rename_i pc hpc
      have hlt : tid < c.threads.length := (List.getElem?_eq_some_iff.mp ht).1
      have hmem : t ∈ c.threads := List.mem_of_getElem? ht
      obtain ⟨h1, h2, h3⟩ := h
      have ht1 := h1 t hmem
      rw [hpc] at ht1
      have g := exec_live c.sh t (sumBy inRecv c.threads - inRecv t) pc hpc ht1 h2 h3
      refine ⟨?_, g.2.1, g.2.2⟩
      intro t' ht'
      rcases List.mem_or_eq_of_mem_set ht' with hm | rfl
      · exact h1 t' hm
      · exact g.1

theorem spawn_live (s : Shared) (progs : List (List Op)) (h : ∀ p ∈ progs, p.head? ≠ some .restart) :
    (∀ t ∈ (spawn s progs).2, notRestartPc t.pc) ∧ (spawn s progs).1.running = s.running := by
  induction progs generalizing s with
  | nil => simp [spawn]
  | cons p ps ih =>
    simp only [spawn]
    split
    · exact absurd rfl (h _ List.mem_cons_self)
    · obtain ⟨a, b⟩ := ih s (fun q hq => h q (List.mem_cons_of_mem _ hq))
      refine ⟨?_, b⟩
      intro t ht
      rcases List.mem_cons.mp ht with rfl | ht
      · exact nextOp_notRestart s p []
      · exact a t ht

/-- Exactly-once, part 2 (the property's proviso made explicit): if no thread restarts the actor, it
    stays running, nothing is ever dropped, and the accounting reads
    accepted ≈ handled ++ held ++ in-mailbox. -/
theorem C02_live (budget : Nat) (progs : List (List Op)) (sched : List Nat)
    (h : ∀ p ∈ progs, p.head? ≠ some .restart) :
    (run (init budget progs) sched).sh.dropped = [] := by
  have h0 : Live (init budget progs) := by
    unfold init Live noRestart
    obtain ⟨a, b⟩ := spawn_live (initShared budget) progs h
    obtain ⟨_, _, c, _, _⟩ := spawn_acct (initShared budget) progs
    exact ⟨a, b, c⟩
  have : ∀ (c : Cfg) (sched : List Nat), Live c → Live (run c sched) := by
    intro c sched
    induction sched generalizing c with
    | nil => exact id
    | cons t ts ih => exact fun h => ih _ (step_live c t h)
  exact (this _ sched h0).2.2


/-! ### no lost wake-up -/

/-- senders between their reservation and the outcome of their TrySchedule -/
def inflightPc : Option PC → Nat
  | some (.sE2 _) | some .sT1 | some .sT2 => 1
  | _ => 0

/-- workers inside finishOrReclaim, after the reset and before they leave or re-take the turn -/
def reclaimPc : Option PC → Nat
  | some (.wEmp1 _) | some (.wEmp2 _) | some (.wTs1 _) | some (.wTs2 _) => 1
  | _ => 0

/-- the message a sender has reserved but not yet published -/
def e2Pc : Option PC → List Nat
  | some (.sE2 m) => [m]
  | _ => []

theorem inflightPc_sE0 (m : Nat) : inflightPc (some (.sE0 m)) = 0 := rfl
theorem inflightPc_sE1 (m : Nat) : inflightPc (some (.sE1 m)) = 0 := rfl
theorem inflightPc_sE2 (m : Nat) : inflightPc (some (.sE2 m)) = 1 := rfl
theorem inflightPc_sT1 : inflightPc (some .sT1) = 1 := rfl
theorem inflightPc_sT2 : inflightPc (some .sT2) = 1 := rfl
theorem inflightPc_sPush : inflightPc (some .sPush) = 0 := rfl
theorem inflightPc_wTake : inflightPc (some .wTake) = 0 := rfl
theorem inflightPc_wTfp : inflightPc (some .wTfp) = 0 := rfl
theorem inflightPc_wSys1 (b : Nat) : inflightPc (some (.wSys1 b)) = 0 := rfl
theorem inflightPc_wSys2 (b : Nat) : inflightPc (some (.wSys2 b)) = 0 := rfl
theorem inflightPc_wDeq1 (b : Nat) : inflightPc (some (.wDeq1 b)) = 0 := rfl
theorem inflightPc_wDeq2 (b : Nat) : inflightPc (some (.wDeq2 b)) = 0 := rfl
theorem inflightPc_wDeq3 (b m : Nat) : inflightPc (some (.wDeq3 b m)) = 0 := rfl
theorem inflightPc_wDeq4 (b m : Nat) : inflightPc (some (.wDeq4 b m)) = 0 := rfl
theorem inflightPc_wRecv (b m : Nat) : inflightPc (some (.wRecv b m)) = 0 := rfl
theorem inflightPc_wReset (b : Nat) : inflightPc (some (.wReset b)) = 0 := rfl
theorem inflightPc_wEmp1 (b : Nat) : inflightPc (some (.wEmp1 b)) = 0 := rfl
theorem inflightPc_wEmp2 (b : Nat) : inflightPc (some (.wEmp2 b)) = 0 := rfl
theorem inflightPc_wSEmp1 (b : Nat) : inflightPc (some (.wSEmp1 b)) = 0 := rfl
theorem inflightPc_wSEmp2 (b : Nat) : inflightPc (some (.wSEmp2 b)) = 0 := rfl
theorem inflightPc_wTs1 (b : Nat) : inflightPc (some (.wTs1 b)) = 0 := rfl
theorem inflightPc_wTs2 (b : Nat) : inflightPc (some (.wTs2 b)) = 0 := rfl
theorem inflightPc_wRetake (b : Nat) : inflightPc (some (.wRetake b)) = 0 := rfl
theorem inflightPc_wYield : inflightPc (some .wYield) = 0 := rfl
theorem inflightPc_wResched : inflightPc (some .wResched) = 0 := rfl
theorem inflightPc_rWait : inflightPc (some .rWait) = 0 := rfl
theorem inflightPc_rCount : inflightPc (some .rCount) = 0 := rfl
theorem inflightPc_rLoad : inflightPc (some .rLoad) = 0 := rfl
theorem reclaimPc_sE0 (m : Nat) : reclaimPc (some (.sE0 m)) = 0 := rfl
theorem reclaimPc_sE1 (m : Nat) : reclaimPc (some (.sE1 m)) = 0 := rfl
theorem reclaimPc_sE2 (m : Nat) : reclaimPc (some (.sE2 m)) = 0 := rfl
theorem reclaimPc_sT1 : reclaimPc (some .sT1) = 0 := rfl
theorem reclaimPc_sT2 : reclaimPc (some .sT2) = 0 := rfl
theorem reclaimPc_sPush : reclaimPc (some .sPush) = 0 := rfl
theorem reclaimPc_wTake : reclaimPc (some .wTake) = 0 := rfl
theorem reclaimPc_wTfp : reclaimPc (some .wTfp) = 0 := rfl
theorem reclaimPc_wSys1 (b : Nat) : reclaimPc (some (.wSys1 b)) = 0 := rfl
theorem reclaimPc_wSys2 (b : Nat) : reclaimPc (some (.wSys2 b)) = 0 := rfl
theorem reclaimPc_wDeq1 (b : Nat) : reclaimPc (some (.wDeq1 b)) = 0 := rfl
theorem reclaimPc_wDeq2 (b : Nat) : reclaimPc (some (.wDeq2 b)) = 0 := rfl
theorem reclaimPc_wDeq3 (b m : Nat) : reclaimPc (some (.wDeq3 b m)) = 0 := rfl
theorem reclaimPc_wDeq4 (b m : Nat) : reclaimPc (some (.wDeq4 b m)) = 0 := rfl
theorem reclaimPc_wRecv (b m : Nat) : reclaimPc (some (.wRecv b m)) = 0 := rfl
theorem reclaimPc_wReset (b : Nat) : reclaimPc (some (.wReset b)) = 0 := rfl
theorem reclaimPc_wEmp1 (b : Nat) : reclaimPc (some (.wEmp1 b)) = 1 := rfl
theorem reclaimPc_wEmp2 (b : Nat) : reclaimPc (some (.wEmp2 b)) = 1 := rfl
theorem reclaimPc_wSEmp1 (b : Nat) : reclaimPc (some (.wSEmp1 b)) = 0 := rfl
theorem reclaimPc_wSEmp2 (b : Nat) : reclaimPc (some (.wSEmp2 b)) = 0 := rfl
theorem reclaimPc_wTs1 (b : Nat) : reclaimPc (some (.wTs1 b)) = 1 := rfl
theorem reclaimPc_wTs2 (b : Nat) : reclaimPc (some (.wTs2 b)) = 1 := rfl
theorem reclaimPc_wRetake (b : Nat) : reclaimPc (some (.wRetake b)) = 0 := rfl
theorem reclaimPc_wYield : reclaimPc (some .wYield) = 0 := rfl
theorem reclaimPc_wResched : reclaimPc (some .wResched) = 0 := rfl
theorem reclaimPc_rWait : reclaimPc (some .rWait) = 0 := rfl
theorem reclaimPc_rCount : reclaimPc (some .rCount) = 0 := rfl
theorem reclaimPc_rLoad : reclaimPc (some .rLoad) = 0 := rfl
theorem e2Pc_sE0 (m : Nat) : e2Pc (some (.sE0 m)) = [] := rfl
theorem e2Pc_sE1 (m : Nat) : e2Pc (some (.sE1 m)) = [] := rfl
theorem e2Pc_sE2 (m : Nat) : e2Pc (some (.sE2 m)) = [m] := rfl
theorem e2Pc_sT1 : e2Pc (some .sT1) = [] := rfl
theorem e2Pc_sT2 : e2Pc (some .sT2) = [] := rfl
theorem e2Pc_sPush : e2Pc (some .sPush) = [] := rfl
theorem e2Pc_wTake : e2Pc (some .wTake) = [] := rfl
theorem e2Pc_wTfp : e2Pc (some .wTfp) = [] := rfl
theorem e2Pc_wSys1 (b : Nat) : e2Pc (some (.wSys1 b)) = [] := rfl
theorem e2Pc_wSys2 (b : Nat) : e2Pc (some (.wSys2 b)) = [] := rfl
theorem e2Pc_wDeq1 (b : Nat) : e2Pc (some (.wDeq1 b)) = [] := rfl
theorem e2Pc_wDeq2 (b : Nat) : e2Pc (some (.wDeq2 b)) = [] := rfl
theorem e2Pc_wDeq3 (b m : Nat) : e2Pc (some (.wDeq3 b m)) = [] := rfl
theorem e2Pc_wDeq4 (b m : Nat) : e2Pc (some (.wDeq4 b m)) = [] := rfl
theorem e2Pc_wRecv (b m : Nat) : e2Pc (some (.wRecv b m)) = [] := rfl
theorem e2Pc_wReset (b : Nat) : e2Pc (some (.wReset b)) = [] := rfl
theorem e2Pc_wEmp1 (b : Nat) : e2Pc (some (.wEmp1 b)) = [] := rfl
theorem e2Pc_wEmp2 (b : Nat) : e2Pc (some (.wEmp2 b)) = [] := rfl
theorem e2Pc_wSEmp1 (b : Nat) : e2Pc (some (.wSEmp1 b)) = [] := rfl
theorem e2Pc_wSEmp2 (b : Nat) : e2Pc (some (.wSEmp2 b)) = [] := rfl
theorem e2Pc_wTs1 (b : Nat) : e2Pc (some (.wTs1 b)) = [] := rfl
theorem e2Pc_wTs2 (b : Nat) : e2Pc (some (.wTs2 b)) = [] := rfl
theorem e2Pc_wRetake (b : Nat) : e2Pc (some (.wRetake b)) = [] := rfl
theorem e2Pc_wYield : e2Pc (some .wYield) = [] := rfl
theorem e2Pc_wResched : e2Pc (some .wResched) = [] := rfl
theorem e2Pc_rWait : e2Pc (some .rWait) = [] := rfl
theorem e2Pc_rCount : e2Pc (some .rCount) = [] := rfl
theorem e2Pc_rLoad : e2Pc (some .rLoad) = [] := rfl

def unready (cells : List Cell) : List Nat := (cells.filter (fun c => !c.ready)).map (·.id)

theorem nextOp_inflight (s : Shared) (p : List Op) (r : List String) : inflightPc (nextOp s p r).pc = 0 := by
  rcases nextOp_pc s p r with h | ⟨m, h⟩ | h <;> simp [h, inflightPc]
theorem nextOp_reclaim (s : Shared) (p : List Op) (r : List String) : reclaimPc (nextOp s p r).pc = 0 := by
  rcases nextOp_pc s p r with h | ⟨m, h⟩ | h <;> simp [h, reclaimPc]
theorem nextOp_e2 (s : Shared) (p : List Op) (r : List String) : e2Pc (nextOp s p r).pc = [] := by
  rcases nextOp_pc s p r with h | ⟨m, h⟩ | h <;> simp [h, e2Pc]
theorem nextIter_inflight (b : Nat) : inflightPc (some (nextIter b)) = 0 := by
  unfold nextIter; split <;> rfl
theorem nextIter_reclaim (b : Nat) : reclaimPc (some (nextIter b)) = 0 := by
  unfold nextIter; split <;> rfl
theorem nextIter_e2 (b : Nat) : e2Pc (some (nextIter b)) = [] := by
  unfold nextIter; split <;> rfl

theorem e2_le_inflight (p : Option PC) : (e2Pc p).length ≤ inflightPc p := by
  unfold e2Pc inflightPc; split <;> simp

theorem unready_append (cells : List Cell) (m : Nat) : unready (cells ++ [⟨m, false⟩]) = unready cells ++ [m] := by
  simp [unready, List.filter_append]

theorem unready_publish (m : Nat) (cells : List Cell) : unready (publish m cells) = (unready cells).erase m := by
  induction cells with
  | nil => rfl
  | cons c cs ih =>
    simp only [publish]
    split
    · rename_i h
      simp [unready, List.filter_cons, h.1, h.2]
    · rename_i h
      cases hr : c.ready
      · have hne : c.id ≠ m := fun e => h ⟨e, hr⟩
        simp only [unready, List.filter_cons, hr, Bool.not_false, if_true, List.map_cons] at ih ⊢
        rw [List.erase_cons_tail (by simpa using hne)]
        rw [ih]
      · simp only [unready, List.filter_cons, hr, Bool.not_true] at ih ⊢
        simpa using ih

theorem unready_tail_of_headReady (cells : List Cell) (m : Nat) (h : headReady cells = some m) :
    unready cells.tail = unready cells := by
  cases cells with
  | nil => rfl
  | cons c cs =>
    simp only [headReady] at h
    split at h <;> simp at h
    rename_i hr
    simp [unready, List.filter_cons, hr]

theorem unready_pos_of_head (cells : List Cell) (hne : cells ≠ []) (h : (headReady cells).isNone = true) :
    0 < (unready cells).length := by
  cases cells with
  | nil => exact absurd rfl hne
  | cons c cs =>
    simp only [headReady] at h
    split at h
    · simp at h
    · rename_i hr
      simp [unready, List.filter_cons, hr]

theorem publish_ne_nil (m : Nat) (cells : List Cell) : publish m cells ≠ [] ↔ cells ≠ [] := by
  cases cells with
  | nil => simp [publish]
  | cons c cs => simp only [publish]; split <;> simp

/-- K: the unpublished cells are exactly the reservations of the senders parked at their publishing store -/
theorem exec_K (s : Shared) (t : Thread) (others : Nat) (pc : PC) (E : List Nat) (hpc : t.pc = some pc)
    (h : (E ++ e2Pc t.pc).Perm (unready s.cells)) :
    (E ++ e2Pc (exec s t others pc).2.pc).Perm (unready (exec s t others pc).1.cells) := by
  rw [hpc] at h
  cases pc
  case sE1 m =>
    simp only [exec, e2Pc_sE1, e2Pc_sE2, List.append_nil, unready_append] at h ⊢
    exact List.Perm.append_right _ h
  case sE2 m =>
    simp only [exec, e2Pc_sE2, e2Pc_sT1, List.append_nil, unready_publish] at h ⊢
    have h1 : (m :: E).Perm (unready s.cells) := (List.perm_append_comm (l₁ := [m]) (l₂ := E)).trans h
    have := h1.erase m
    simpa using this
  case wDeq2 b =>
    simp only [exec]
    split
    · rename_i m hm
      simpa only [e2Pc_wDeq2, e2Pc_wDeq3, unready_tail_of_headReady _ _ hm] using h
    · simpa only [e2Pc_wDeq2, e2Pc_wReset] using h
  all_goals
    simp only [exec, finishOp]
    (try split) <;>
      simp only [e2Pc_sE0, e2Pc_sE1, e2Pc_sE2, e2Pc_sT1, e2Pc_sT2, e2Pc_sPush, e2Pc_wTake, e2Pc_wTfp, e2Pc_wSys1, e2Pc_wSys2, e2Pc_wDeq1, e2Pc_wDeq2, e2Pc_wDeq3, e2Pc_wDeq4, e2Pc_wRecv, e2Pc_wReset, e2Pc_wEmp1, e2Pc_wEmp2, e2Pc_wSEmp1, e2Pc_wSEmp2, e2Pc_wTs1, e2Pc_wTs2, e2Pc_wRetake, e2Pc_wYield, e2Pc_wResched, e2Pc_rWait, e2Pc_rCount, e2Pc_rLoad, nextOp_e2, nextIter_e2, List.append_nil, hpc] at h ⊢ <;>
      exact h

/-- J, seen from the stepping thread -/
theorem exec_J (s : Shared) (t : Thread) (others : Nat) (pc : PC) (Rin Rre : Nat) (hpc : t.pc = some pc)
    (hK : (unready s.cells).length ≤ Rin + inflightPc t.pc)
    (hJ : s.cells ≠ [] → s.sched ≠ .idle ∨ 0 < Rin + inflightPc t.pc ∨ 0 < Rre + reclaimPc t.pc) :
    (exec s t others pc).1.cells ≠ [] →
      (exec s t others pc).1.sched ≠ .idle ∨ 0 < Rin + inflightPc (exec s t others pc).2.pc
        ∨ 0 < Rre + reclaimPc (exec s t others pc).2.pc := by
  rw [hpc] at hJ hK
  cases pc
  case sE1 m => intro _; simp only [exec, inflightPc_sE2]; omega
  case sE2 m =>
    intro _
    simp only [exec, inflightPc_sT1]; omega
  case wDeq2 b =>
    simp only [exec]
    split
    · rename_i m hm
      intro hc
      have hne : s.cells ≠ [] := by intro e; simp [e, headReady] at hm
      simpa only [inflightPc_wDeq2, reclaimPc_wDeq2, inflightPc_wDeq3, reclaimPc_wDeq3] using hJ hne
    · simpa only [inflightPc_wDeq2, reclaimPc_wDeq2, inflightPc_wReset, reclaimPc_wReset] using hJ
  case wEmp2 b =>
    simp only [exec]
    split
    · rename_i he
      intro hc
      have := unready_pos_of_head s.cells hc he
      simp only [inflightPc_wEmp2, inflightPc_wSEmp1, Nat.add_zero] at hK ⊢
      omega
    · intro hc
      simp only [reclaimPc_wTs1]; omega
  all_goals
    cases hs : s.sched <;>
    simp only [exec, finishOp, hs, reduceCtorEq, if_true, if_false] <;>
    (try split) <;>
    simp only [inflightPc_sE0, inflightPc_sE1, inflightPc_sE2, inflightPc_sT1, inflightPc_sT2, inflightPc_sPush, inflightPc_wTake, inflightPc_wTfp, inflightPc_wSys1, inflightPc_wSys2, inflightPc_wDeq1, inflightPc_wDeq2, inflightPc_wDeq3, inflightPc_wDeq4, inflightPc_wRecv, inflightPc_wReset, inflightPc_wEmp1, inflightPc_wEmp2, inflightPc_wSEmp1, inflightPc_wSEmp2, inflightPc_wTs1, inflightPc_wTs2, inflightPc_wRetake, inflightPc_wYield, inflightPc_wResched, inflightPc_rWait, inflightPc_rCount, inflightPc_rLoad, reclaimPc_sE0, reclaimPc_sE1, reclaimPc_sE2, reclaimPc_sT1, reclaimPc_sT2, reclaimPc_sPush, reclaimPc_wTake, reclaimPc_wTfp, reclaimPc_wSys1, reclaimPc_wSys2, reclaimPc_wDeq1, reclaimPc_wDeq2, reclaimPc_wDeq3, reclaimPc_wDeq4, reclaimPc_wRecv, reclaimPc_wReset, reclaimPc_wEmp1, reclaimPc_wEmp2, reclaimPc_wSEmp1, reclaimPc_wSEmp2, reclaimPc_wTs1, reclaimPc_wTs2, reclaimPc_wRetake, reclaimPc_wYield, reclaimPc_wResched, reclaimPc_rWait, reclaimPc_rCount, reclaimPc_rLoad, nextOp_inflight, nextOp_reclaim, nextIter_inflight, nextIter_reclaim,
      hs, hpc, ne_eq, reduceCtorEq, not_true_eq_false, not_false_eq_true, false_or, true_or, Nat.add_zero,
      imp_self, implies_true] at hJ hK ⊢ <;>
    (try (intro hc; have := hJ hc; omega)) <;>
    (try omega)

def e2 (t : Thread) : List Nat := e2Pc t.pc
def inflight (t : Thread) : Nat := inflightPc t.pc
def reclaim (t : Thread) : Nat := reclaimPc t.pc

/-- K ∧ J -/
def Wake (c : Cfg) : Prop :=
  (c.threads.flatMap e2).Perm (unready c.sh.cells)
  ∧ (c.sh.cells ≠ [] → c.sh.sched ≠ .idle ∨ 0 < sumBy inflight c.threads ∨ 0 < sumBy reclaim c.threads)

theorem flatMap_length_le (l : List Thread) : (l.flatMap e2).length ≤ sumBy inflight l := by
  induction l with
  | nil => simp [sumBy]
  | cons x xs ih =>
    have := e2_le_inflight x.pc
    simp only [List.flatMap_cons, List.length_append, sumBy, e2, inflight] at ih ⊢
    omega

theorem step_wake (c : Cfg) (tid : Nat) (h : Wake c) : Wake (step c tid).2 := by
  unfold step
  split
  · exact h
  · rename_i t ht
    split
    · exact h
    · rename_i pc hpc
      have hlt : tid < c.threads.length := (List.getElem?_eq_some_iff.mp ht).1
      have hget : c.threads[tid] = t := (List.getElem?_eq_some_iff.mp ht).2
      obtain ⟨hK, hJ⟩ := h
      have p1 := flatMap_eraseIdx e2 c.threads tid hlt
      rw [hget] at p1
      have hK' : ((c.threads.eraseIdx tid).flatMap e2 ++ e2Pc t.pc).Perm (unready c.sh.cells) := p1.symm.trans hK
      have hlen : (unready c.sh.cells).length ≤ sumBy inflight (c.threads.eraseIdx tid) + inflightPc t.pc := by
        rw [← hK'.length_eq, List.length_append]
        have := flatMap_length_le (c.threads.eraseIdx tid)
        have := e2_le_inflight t.pc
        omega
      have s1 := sumBy_eraseIdx inflight c.threads tid hlt
      have s2 := sumBy_eraseIdx reclaim c.threads tid hlt
      rw [hget] at s1 s2
      have hJ' : c.sh.cells ≠ [] → c.sh.sched ≠ .idle ∨ 0 < sumBy inflight (c.threads.eraseIdx tid) + inflightPc t.pc
          ∨ 0 < sumBy reclaim (c.threads.eraseIdx tid) + reclaimPc t.pc := by
        intro hc
        have := hJ hc
        simp only [inflight, reclaim] at s1 s2
        rw [s1, s2] at this
        exact this
      have gK := exec_K c.sh t (sumBy inRecv c.threads - inRecv t) pc _ hpc hK'
      have gJ := exec_J c.sh t (sumBy inRecv c.threads - inRecv t) pc _ _ hpc hlen hJ'
      refine ⟨?_, ?_⟩
      · exact (flatMap_set e2 c.threads tid _ hlt).trans gK
      · intro hc
        have := gJ hc
        rw [sumBy_set inflight _ _ _ hlt, sumBy_set reclaim _ _ _ hlt]
        exact this

theorem spawn_wake (s : Shared) (progs : List (List Op)) :
    (spawn s progs).2.flatMap e2 = [] := by
  induction progs generalizing s with
  | nil => simp [spawn]
  | cons p ps ih =>
    simp only [spawn]
    split
    · simp [List.flatMap_cons, e2, e2Pc, ih]
    · simp [List.flatMap_cons, e2, nextOp_e2, ih]

theorem init_wake (budget : Nat) (progs : List (List Op)) : Wake (init budget progs) := by
  unfold init Wake
  obtain ⟨_, _, _, d, _⟩ := spawn_acct (initShared budget) progs
  simp only [spawn_wake, d]
  simp [initShared, unready]

theorem run_wake (c : Cfg) (sched : List Nat) (h : Wake c) : Wake (run c sched) := by
  induction sched generalizing c with
  | nil => exact h
  | cons t ts ih => exact ih _ (step_wake c t h)

theorem exists_of_sumBy_pos (f : Thread → Nat) (l : List Thread) (h : 0 < sumBy f l) : ∃ t ∈ l, 0 < f t := by
  induction l with
  | nil => simp [sumBy] at h
  | cons x xs ih =>
    simp only [sumBy] at h
    by_cases hx : 0 < f x
    · exact ⟨x, List.mem_cons_self, hx⟩
    · obtain ⟨t, ht, h'⟩ := ih (by omega)
      exact ⟨t, List.mem_cons_of_mem _ ht, h'⟩

/-- No lost wake-up (absence of stuck states).  In EVERY reachable configuration, for every schedule:
    if the mailbox holds a message then the ready queue holds an entry for the actor (any free worker's
    next take gets it), or some thread is still responsible for it: a token holder about to push or
    take, the owner of the current turn, a sender that has not finished its TrySchedule, or a worker
    still inside its reclaim check. -/
def C02_no_lost_wakeup_stmt : Prop :=
  ∀ (budget : Nat) (progs : List (List Op)) (sched : List Nat),
    let c := run (init budget progs) sched
    c.sh.cells ≠ [] →
      0 < c.sh.rq ∨ ∃ t ∈ c.threads, 0 < tok t.pc ∨ 0 < own t.pc ∨ 0 < inflightPc t.pc ∨ 0 < reclaimPc t.pc

theorem C02_no_lost_wakeup : C02_no_lost_wakeup_stmt := by
  intro budget progs sched c hc
  have hw := run_wake _ sched (init_wake budget progs)
  have hi := run_inv _ sched (init_inv budget progs)
  obtain ⟨h1, h2, _⟩ := hi
  rcases hw.2 hc with hs | hin | hre
  · -- not Idle: Scheduled (a token exists) or Processing (an owner exists)
    cases hsc : (run (init budget progs) sched).sh.sched
    · exact absurd hsc hs
    · simp only [tokens, ind, hsc, if_true] at h1
      by_cases hrq : 0 < (run (init budget progs) sched).sh.rq
      · exact .inl hrq
      · obtain ⟨t, ht, h'⟩ := exists_of_sumBy_pos _ _ (by omega : 0 < sumBy (fun t => tok t.pc) (run (init budget progs) sched).threads)
        exact .inr ⟨t, ht, .inl h'⟩
    · simp only [owners, ind, hsc, if_true] at h2
      obtain ⟨t, ht, h'⟩ := exists_of_sumBy_pos _ _ (by omega : 0 < sumBy (fun t => own t.pc) (run (init budget progs) sched).threads)
      exact .inr ⟨t, ht, .inr (.inl h')⟩
  · obtain ⟨t, ht, h'⟩ := exists_of_sumBy_pos _ _ hin
    exact .inr ⟨t, ht, .inr (.inr (.inl h'))⟩
  · obtain ⟨t, ht, h'⟩ := exists_of_sumBy_pos _ _ hre
    exact .inr ⟨t, ht, .inr (.inr (.inr h'))⟩

/-- Corollary: when every thread has run to completion, a non-empty mailbox always comes with a
    ready-queue entry — a free worker will take the actor; the mailbox cannot be stranded. -/
theorem C02_quiescent (budget : Nat) (progs : List (List Op)) (sched : List Nat)
    (hq : ∀ t ∈ (run (init budget progs) sched).threads, t.pc = none) :
    (run (init budget progs) sched).sh.cells = [] ∨ 0 < (run (init budget progs) sched).sh.rq := by
  by_cases hc : (run (init budget progs) sched).sh.cells = []
  · exact .inl hc
  · rcases C02_no_lost_wakeup budget progs sched hc with h | ⟨t, ht, h⟩
    · exact .inr h
    · rw [hq t ht] at h
      simp [tok_none, own_none, inflightPc, reclaimPc] at h

/-- The full statement of C02 for the modelled scope. -/
def C02_full : Prop :=
  (∀ budget progs sched, Acct (run (init budget progs) sched))
  ∧ (∀ budget progs sched m, (run (init budget progs) sched).sh.handled.count m ≤ (run (init budget progs) sched).sh.accepted.count m)
  ∧ (∀ budget progs sched, (∀ p ∈ progs, p.head? ≠ some Op.restart) → (run (init budget progs) sched).sh.dropped = [])
  ∧ C02_no_lost_wakeup_stmt

theorem C02_holds : C02_full :=
  ⟨C02_accounting, C02_no_duplicate, C02_live, C02_no_lost_wakeup⟩

-- non-vacuity: a run that accepts, handles and finishes (mailbox empty, state Idle)
set_option maxRecDepth 4000 in
example : let c := run (init 2 [[.tell 1], [.work]]) [0,0,0,0,0,0,1,1,1,1,1,1,1,1,1,1,1,1,1,1,1,1,1,1,1,1,1]
    c.sh.handled = [1] ∧ c.sh.cells = [] ∧ c.sh.accepted = [1] ∧ c.sh.sched = .idle := by decide

end GoaktVerif.C02

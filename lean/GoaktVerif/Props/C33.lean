/-
C33 — Relocation accounts for every item and runs once per departure.

"After a node departs, each of its relocatable actors ends up running on exactly one survivor or is
 listed in the single RelocationFailed event for that departure, and duplicate departure
 notifications while a relocation is in flight do not start a second relocation of the same node."

Model: `Model/C33.lean`.
* Part B (`relocate`, `relocateShare`, `sendBatches`, `enqueueRelocation`, `recordUnsent`,
  `releaseUndeliverableLazyGrains`, `reportAbortedRelocation`) is a pure function of the map iteration
  orders, the plan inputs and an environment `Env` (what each node answers for each item, which batches
  reach which peer).  The theorems quantify over EVERY environment, i.e. every pattern of item failures
  and peer failures during the relocation, every order, every survivor set.
* Part A (`beginRelocation/endRelocation`, relocator, worker bookkeeping) is a transition system; the
  theorems hold for EVERY history of NodeLeft notifications (duplicates included), order deliveries,
  spawn failures, worker completions, worker deaths and Terminated deliveries.

What stays a parameter (property labelled partial): real cluster membership and transport.  A batch
whose RPC fails is modelled as not applied by the target; the registry gate of
`recreateActorFromWire` that protects against a half-applied batch is outside the model.
-/
import GoaktVerif.Model.C33
import GoaktVerif.Spec.C33
import GoaktVerif.Lemmas.C33Jobs
import GoaktVerif.Lemmas.C33Acct

namespace GoaktVerif.C33
open GoaktVerif.Model.C32 GoaktVerif.Model.C33 GoaktVerif.C32

/-! ### small facts -/

theorem filter_item_length (recs : List Rec) (it : Item) :
    (recs.filter (fun r => decide (r.item = it))).length = (recs.map Rec.item).count it := by
  induction recs with
  | nil => rfl
  | cons r rs ih =>
    simp only [List.filter_cons, List.map_cons, List.count_cons]
    by_cases h : r.item = it
    · simp [h, ih]
    · simp [h, ih]

theorem count_eq_one_of_nodup_mem {α : Type} [DecidableEq α] (l : List α) (hn : l.Nodup) (a : α) (ha : a ∈ l) :
    l.count a = 1 := by
  induction l with
  | nil => cases ha
  | cons x xs ih =>
    rw [List.nodup_cons] at hn
    rw [List.count_cons]
    rcases List.mem_cons.1 ha with h | h
    · subst h
      have : xs.count a = 0 := List.count_eq_zero.2 hn.1
      simp [this]
    · have hne : x ≠ a := by intro e; subst e; exact hn.1 h
      simp [hne, ih hn.2 h]

theorem nodup_map_inj {α β : Type} (f : α → β) (hf : ∀ a b, f a = f b → a = b) (l : List α) (h : l.Nodup) :
    (l.map f).Nodup := by
  induction l with
  | nil => simp
  | cons x xs ih =>
    rw [List.nodup_cons] at h
    rw [List.map_cons, List.nodup_cons]
    refine ⟨?_, ih h.2⟩
    intro hm
    obtain ⟨y, hy, hxy⟩ := List.mem_map.1 hm
    have := hf y x hxy
    subst this
    exact h.1 hy

theorem items_nodup (actors : List Actor) (grains : List Grain) (ha : actors.Nodup) (hg : grains.Nodup) :
    (itemsA actors ++ itemsG grains).Nodup := by
  rw [List.nodup_append]
  refine ⟨?_, ?_, ?_⟩
  · exact nodup_map_inj Item.actor (fun a b h => by cases h; rfl) _ ha
  · exact nodup_map_inj Item.grain (fun a b h => by cases h; rfl) _ hg
  · intro x hx y hy hxy
    simp only [itemsA, itemsG, List.mem_map] at hx hy
    obtain ⟨a, _, rfl⟩ := hx
    obtain ⟨g, _, rfl⟩ := hy
    cases hxy

theorem eventsOfRun_le (recs : List Rec) : eventsOfRun recs ≤ 1 := by
  unfold eventsOfRun; split <;> omega

theorem eventsOfRun_iff (recs : List Rec) : eventsOfRun recs = 1 ↔ failedItems recs ≠ [] := by
  unfold eventsOfRun
  split
  · rename_i h
    simp only [List.isEmpty_iff] at h
    simp [h]
  · rename_i h
    simp only [List.isEmpty_iff] at h
    simp [h]

/-! ### B. accounting of one worker run -/

/-- every relocatable item of the departed node gets exactly one outcome, whatever fails -/
def C33_accounting : Prop :=
  ∀ (env : Env) (bs : Nat) (leaderRoles : List Role) (peers : List (List Role)) (base : List Nat)
    (actorOrder : List Actor) (grainOrder : List Grain), 0 < bs →
    let recs := relocate env bs leaderRoles peers base actorOrder grainOrder
    let items := itemsA actorOrder ++ itemsG (relocatableGrains grainOrder)
    -- one record per item of the snapshot, no record for anything else
    (recs.map Rec.item).Perm items
    -- with distinct entries (map keys): each item has exactly ONE record, which is either
    -- "handled by node n" (one node) or "failed" (listed in the event): never both, never neither
    ∧ (actorOrder.Nodup → grainOrder.Nodup → ∀ it ∈ items, (recs.filter (fun r => decide (r.item = it))).length = 1)
    -- the single event: at most one per run, exactly when something failed; its content is `failedItems`
    ∧ eventsOfRun recs ≤ 1
    ∧ (eventsOfRun recs = 1 ↔ failedItems recs ≠ [])

theorem C33_accounting_holds : C33_accounting := by
  intro env bs leaderRoles peers base actorOrder grainOrder hbs recs items
  have hperm : (recs.map Rec.item).Perm items := relocate_items env bs hbs leaderRoles peers base actorOrder grainOrder
  refine ⟨hperm, ?_, eventsOfRun_le recs, eventsOfRun_iff recs⟩
  intro ha hg it hit
  rw [filter_item_length, hperm.count_eq]
  exact count_eq_one_of_nodup_mem items (items_nodup _ _ ha (hg.filter _)) it hit

/-- same for a relocation that cannot run (cluster.Peers failed, worker not spawned, worker died):
    everything is accounted as failed except lazy grains the leader could release; one event -/
def C33_abort_accounting : Prop :=
  ∀ (env : Env) (actors : List Actor) (grainOrder : List Grain),
    let recs := abortRecs env actors grainOrder
    recs.map Rec.item = itemsA actors ++ itemsG (relocatableGrains grainOrder)
    ∧ (∀ a ∈ actors, Rec.failed (.actor a) ∈ recs)
    ∧ (∀ r ∈ recs, ∀ n it, r = Rec.ok n it → n = 0 ∧ ∃ g, it = .grain g ∧ g.eager = false ∧ env.releaseOK g = true)

theorem C33_abort_accounting_holds : C33_abort_accounting := by
  intro env actors grainOrder recs
  refine ⟨abortRecs_items env actors grainOrder, ?_, ?_⟩
  · intro a ha
    simp only [recs, abortRecs, List.mem_append, List.mem_map, itemsA]
    left
    exact ⟨.actor a, ⟨a, ha, rfl⟩, rfl⟩
  · intro r hr n it hrn
    subst hrn
    simp only [recs, abortRecs, List.mem_append, List.mem_map, itemsA, itemsG] at hr
    rcases hr with ⟨x, _, hx⟩ | ⟨x, ⟨g, _, rfl⟩, hx⟩
    · cases hx
    · simp only [unsentRec] at hx
      split at hx
      · cases hx
      · rename_i he
        split at hx
        · rename_i hr
          cases hx
          exact ⟨rfl, g, rfl, by simpa using he, hr⟩
        · cases hx

/-- redistribution of one share (`relocateShare`) on its own: exactly one record per item of the share -/
theorem C33_share_accounting (env : Env) (bs : Nat) (hbs : 0 < bs) (leaderRoles : List Role)
    (peers : List (List Role)) (target : Nat) (requests : List Batch) :
    ((relocateShare env bs leaderRoles peers target requests).map Rec.item).Perm (batchesItems requests) :=
  relocateShare_items env bs hbs leaderRoles peers target requests

/-! ### A. once per departure -/

def C33_once : Prop :=
  -- a duplicate NodeLeft while a job is registered for the address starts nothing: state unchanged
  (∀ (s : Sys) (addr snap : Nat), s.jobs addr = some snap → step s (.nodeLeft addr) = s)
  ∧ (∀ evs : List Ev,
      let s := run Sys.init evs
      -- per departure (= snapshot): its relocation ends at most once and at most one
      -- RelocationFailed event is ever published for it
      (∀ snap, s.closed snap ≤ 1 ∧ s.events snap ≤ 1)
      -- a Rebalance order still queued, or a worker that has not run yet, always owns the registered
      -- job of its address (so every further NodeLeft of that address is ignored by the first clause)
      ∧ (∀ snap addr, s.queued snap = some addr → s.jobs addr = some snap)
      ∧ (∀ name, s.live name = true → ∃ addr snap, s.workers name = some (addr, snap) ∧ s.jobs addr = some snap)
      -- never two workers waiting/running for the same departed address, nor a worker and a queued order
      ∧ (∀ n n' a sn sn', s.live n = true → s.live n' = true →
            s.workers n = some (a, sn) → s.workers n' = some (a, sn') → n = n')
      ∧ (∀ n a sn sn', s.live n = true → s.workers n = some (a, sn) → s.queued sn' ≠ some a)
      -- a relocation that ended is not registered any more: the same address may depart again
      ∧ (∀ snap addr, 1 ≤ s.closed snap → s.jobs addr ≠ some snap))

theorem C33_once_holds : C33_once := by
  refine ⟨step_nodeLeft_of_some, ?_⟩
  intro evs s
  have inv : Inv s := inv_run evs Sys.init inv_init
  refine ⟨?_, inv.k2, inv.k6, ?_, ?_, inv.k1⟩
  · intro snap
    exact ⟨inv.g1 snap, Nat.le_trans (inv.g2 snap) (inv.g1 snap)⟩
  · intro n n' a sn sn' hl hl' hw hw'
    obtain ⟨_, _, hu⟩ := owner_unique_of_live s inv n a sn hl hw
    by_cases hnn : n' = n
    · exact hnn.symm
    · exact absurd rfl (hu n' hnn hl' a sn' hw')
  · intro n a sn sn' hl hw hq
    obtain ⟨_, hu, _⟩ := owner_unique_of_live s inv n a sn hl hw
    exact hu sn' a hq rfl

/-! ### A'. no window at the end of a worker run -/

def depSafe (d : Dep) : Prop := d.job = true ∨ d.snapshot = false

theorem nodeLeftSnap_of_safe (d : Dep) (h : depSafe d) : nodeLeftSnap d = d := by
  unfold nodeLeftSnap
  rcases h with h | h <;> simp [h]

theorem runActs_nodeLefts_of_safe (n : Nat) (d : Dep) (h : depSafe d) :
    runActs d (List.replicate n Act.nodeLeft) = d := by
  induction n with
  | zero => rfl
  | succ n ih =>
    simp only [List.replicate_succ, runActs, List.foldl_cons, act]
    rw [nodeLeftSnap_of_safe d h]
    exact ih

theorem runActs_append (d : Dep) (x y : List Act) : runActs d (x ++ y) = runActs (runActs d x) y := by
  simp [runActs, List.foldl_append]

/-- with the code's order (snapshot deleted BEFORE the job is released) no number of duplicate
    NodeLefts handled before, between or after the two calls of `finish` starts another relocation of
    the departure, and the run ends with the job released and the snapshot gone -/
def C33_finish_window : Prop :=
  ∀ (a b c n : Nat),
    let d := runActs ⟨true, true, n⟩ (finishWith finishOrder a b c)
    d.started = n ∧ d.job = false ∧ d.snapshot = false

theorem C33_finish_window_holds : C33_finish_window := by
  intro a b c n
  simp only [finishWith, finishOrder, runActs_append]
  rw [runActs_nodeLefts_of_safe a _ (Or.inl rfl)]
  have h1 : runActs ⟨true, true, n⟩ [Act.call .deletePeerState] = ⟨false, true, n⟩ := rfl
  rw [h1, runActs_nodeLefts_of_safe b _ (Or.inl rfl)]
  have h2 : runActs ⟨false, true, n⟩ [Act.call .endRelocation] = ⟨false, false, n⟩ := rfl
  rw [h2, runActs_nodeLefts_of_safe c _ (Or.inr rfl)]
  exact ⟨rfl, rfl, rfl⟩

/-- the reverse order opens a window: one duplicate NodeLeft between the calls starts a second
    relocation of the same departure (this is what the `nl` differential and the FACTS entry guard) -/
theorem finish_reversed_refuted :
    (runActs ⟨true, true, 1⟩ (finishWith [.endRelocation, .deletePeerState] 0 1 0)).started = 2 := by decide

/-! ### A''. the whole life of one departure: duplicates, abort, re-request -/

/-- invariant: while a job is registered exactly `aborts + 1` relocations were started; otherwise
    either as many as aborted (a re-request may start the next one) or one more with nothing left to
    relocate (no further NodeLeft can start anything) -/
def lifeInv (d : Life) : Prop :=
  if d.job then d.runs = d.aborts + 1
  else d.runs = d.aborts ∨ (d.snapshot = false ∧ d.records = false ∧ d.runs = d.aborts + 1)

theorem lifeInv_step (d : Life) (a : LifeAct) (h : lifeInv d) : lifeInv (lifeStep d a) := by
  obtain ⟨sn, rc, jb, rn, an, ab, em⟩ := d
  unfold lifeInv at h ⊢
  cases a <;> cases sn <;> cases rc <;> cases jb <;> simp_all [lifeStep] <;> omega

theorem lifeInv_run (l : List LifeAct) (d : Life) (h : lifeInv d) : lifeInv (lifeRun d l) := by
  induction l generalizing d with
  | nil => exact h
  | cons a l ih => exact ih _ (lifeInv_step d a h)

/-- once per departure, re-requests included: over EVERY sequence of NodeLefts (duplicates at any
    moment, on either path), completed runs and aborted runs, the number of relocations started never
    exceeds the number of aborted ones plus one; and while one is in flight it is exactly that -/
def C33_life : Prop :=
  ∀ (snapshot : Bool) (l : List LifeAct),
    let d := lifeRun (Life.init snapshot) l
    d.runs ≤ d.aborts + 1 ∧ (d.job = true → d.runs = d.aborts + 1)

theorem C33_life_holds : C33_life := by
  intro snapshot l d
  have h : lifeInv d := lifeInv_run l _ (by simp [lifeInv, Life.init])
  unfold lifeInv at h
  constructor
  · split at h
    · omega
    · rcases h with h | ⟨_, _, h⟩ <;> omega
  · intro hj
    simpa [hj] using h

/-- "one RelocationStarted per started relocation" at full strength -/
def C33_announce_full : Prop :=
  ∀ (snapshot : Bool) (l : List LifeAct), (lifeRun (Life.init snapshot) l).announced = (lifeRun (Life.init snapshot) l).runs

/-- still not true at full strength, BY DESIGN: without a snapshot and without a job the crash path
    announces the derived set even when it is empty (a late NodeLeft after the relocation completed).
    This is the only missing part; the defect C33-F1 (announcement while a relocation is in flight) is
    gone since 51adf01. -/
theorem C33_announce_empty_set_witness : ¬ C33_announce_full := by
  intro h
  have := h false [.nodeLeft, .runOK, .nodeLeft]
  revert this
  decide

theorem announce_step (d : Life) (a : LifeAct) (h : d.announced = d.runs + d.empty) :
    (lifeStep d a).announced = (lifeStep d a).runs + (lifeStep d a).empty := by
  obtain ⟨sn, rc, jb, rn, an, ab, em⟩ := d
  cases a <;> cases sn <;> cases rc <;> cases jb <;> simp_all [lifeStep] <;> omega

/-- the repaired code, for EVERY sequence of NodeLefts (either path, any moment), completed and
    aborted runs:
    * a NodeLeft handled while a relocation of the departure is in flight changes nothing - no event,
      no dispatch - on BOTH paths (C33-F1 fixed);
    * every RelocationStarted event is either the announcement of a relocation that is started, or a
      crash-path announcement of an empty derived set: `announced = runs + empty`;
    * an empty-set announcement only happens with no snapshot, no registry record and no job. -/
def C33_announce_partial : Prop :=
  (∀ d : Life, d.job = true → lifeStep d .nodeLeft = d)
  ∧ (∀ (snapshot : Bool) (l : List LifeAct),
      let d := lifeRun (Life.init snapshot) l
      d.announced = d.runs + d.empty)
  ∧ (∀ d : Life, (lifeStep d .nodeLeft).empty ≠ d.empty → d.snapshot = false ∧ d.records = false ∧ d.job = false)

theorem C33_announce_partial_holds : C33_announce_partial := by
  refine ⟨?_, ?_, ?_⟩
  · intro d hj
    obtain ⟨sn, rc, jb, rn, an, ab, em⟩ := d
    cases sn <;> simp_all [lifeStep]
  · intro snapshot l
    have : ∀ (l : List LifeAct) (d : Life), d.announced = d.runs + d.empty →
        (lifeRun d l).announced = (lifeRun d l).runs + (lifeRun d l).empty := by
      intro l
      induction l with
      | nil => intro d h; exact h
      | cons a l ih => intro d h; exact ih _ (announce_step d a h)
    exact this l _ (by simp [Life.init])
  · intro d hne
    obtain ⟨sn, rc, jb, rn, an, ab, em⟩ := d
    cases sn <;> cases rc <;> cases jb <;> simp_all [lifeStep]

-- regression for C33-F1: two duplicate NodeLefts on the crash path while the relocation is in flight
example : (lifeRun (Life.init false) [.nodeLeft, .nodeLeft, .nodeLeft]).announced = 1 := by decide

example : (lifeRun (Life.init true) [.nodeLeft, .nodeLeft, .runAbort, .nodeLeft, .nodeLeft, .runOK, .nodeLeft]).runs = 2 := by decide

/-! ### the full statement -/

def C33_full : Prop := C33_accounting ∧ C33_abort_accounting ∧ C33_once ∧ C33_finish_window ∧ C33_life

theorem C33_holds : C33_full := ⟨C33_accounting_holds, C33_abort_accounting_holds, C33_once_holds, C33_finish_window_holds, C33_life_holds⟩

/-! ### non-vacuity (tests by evaluation on concrete histories) -/

-- NodeLeft(7), duplicate NodeLeft(7), order handled, worker completes with a failure, Terminated,
-- NodeLeft(7) again (new departure), its worker dies, Terminated aborts it
private def h1 : List Ev :=
  [.nodeLeft 7, .nodeLeft 7, .rebalance 0 true, .nodeLeft 7, .complete 1 true, .terminated 1,
   .nodeLeft 7, .rebalance 1 true, .die 2, .nodeLeft 7, .terminated 2]

example : (run Sys.init h1).events 0 = 1 ∧ (run Sys.init h1).events 1 = 1 ∧ (run Sys.init h1).nextSnap = 2 := by decide
example : (run Sys.init h1).jobs 7 = none := by decide
-- the hypothesis of the dedup clause is reachable
example : (run Sys.init [.nodeLeft 7]).jobs 7 = some 0 := by decide
-- stale Terminated of a completed worker does not abort the newer job of the same address
example : (run Sys.init [.nodeLeft 7, .rebalance 0 true, .complete 1 false, .nodeLeft 7, .terminated 1]).jobs 7 = some 1 := by decide

private def envEx : Env :=
  { localOK := fun it => it != .actor ⟨1, 0, false, true, false⟩, remoteOK := fun _ _ => true,
    poison := fun p _ => p == 0, releaseOK := fun _ => true }

-- two role-less actors, one peer that is unreachable: the leader keeps actor 1 (fails locally), the
-- peer's share (actor 2) comes back to the leader
example : (relocate envEx 500 [] [[]] [] [⟨1, 0, false, true, false⟩, ⟨2, 0, false, true, false⟩] []).map Rec.item
    = [.actor ⟨1, 0, false, true, false⟩, .actor ⟨2, 0, false, true, false⟩] := by decide
example : eventsOfRun (relocate envEx 500 [] [[]] [] [⟨1, 0, false, true, false⟩, ⟨2, 0, false, true, false⟩] []) = 1 := by decide

end GoaktVerif.C33

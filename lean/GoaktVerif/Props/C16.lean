/-
C16 — Every reentrant request completes exactly once, on the requester's turn.

"Each Request/RequestName/RequestGrain completes exactly once with a reply, an error, a timeout or a
 cancellation, and its continuation runs on the requesting actor's turn. In StashNonReentrant mode no
 ordinary message is handled while a blocking request is outstanding and the held messages are handled
 afterwards in arrival order; the in-flight limit is never exceeded and the in-flight counters return
 to zero."

Reading of "completes": the request's state is completed exactly once (first completion wins).  A
shutdown (cancelInFlightRequests) completes the pending requests with ErrRequestCanceled WITHOUT
running their continuations; "exactly once" for the continuation is therefore stated for requests
completed by an envelope the requester dequeued, i.e. while it keeps running.

Model: Model/C16.lean.  All theorems are for every configuration (installed or not, default mode,
limit, actor or grain target — Request / RequestGrain) and every script of events (requests with per-call mode, ordinary messages, replies incl.
duplicates, timeouts, cancels, late Then, hold/release batching of the mailbox, shutdown) — `run`.
Tie: differential run of a real requester/responder pair (harness/verifdrv/c16) against `run`.
-/
import GoaktVerif.Lemmas.C16.Ops

namespace GoaktVerif.C16
open GoaktVerif.Model.C16

/-! ### the invariant holds in every reachable state -/

theorem step_inv {s : St} (h : Inv s) (op : Op) : Inv (step s op).1 := inv_step h op

theorem run_inv_gen (ops : List Op) (s : St) (h : Inv s) : ∀ r ∈ run s ops, Inv r.1 := by
  induction ops generalizing s with
  | nil => intro r hr; simp [run] at hr
  | cons op ops ih =>
    intro r hr
    simp only [run, List.mem_cons] at hr
    rcases hr with rfl | hr
    · exact inv_step h op
    · exact ih _ (inv_step h op) r hr

theorem run_inv (inst : Bool) (m : Mode) (max : Nat) (g : Bool) (ops : List Op) :
    ∀ r ∈ run (St.init inst m max g) ops, Inv r.1 :=
  run_inv_gen ops _ (inv_init inst m max g)

/-! ### clauses -/

/-- at most once: no continuation runs twice -/
theorem C16_once {s : St} (h : Inv s) (k : Nat) : cbCount k s.log ≤ 1 := by
  rw [h.log_cb k]
  unfold firedOf
  cases hg : getReq s.reqs k with
  | none => simp
  | some r => simpa using (h.reqs_ok k r hg).fired_le

/-- exactly once: a request completed by an envelope the requester dequeued, with a continuation
    registered (before or after), has run it exactly once -/
theorem C16_exactly_once {s : St} (h : Inv s) (k : Nat) (r : Req) (hg : getReq s.reqs k = some r)
    (hc : r.completed = true) (he : r.who = .envelope) (hcb : r.hasCb = true) : cbCount k s.log = 1 := by
  rw [h.log_cb k]
  simp [firedOf, hg, (h.reqs_ok k r hg).env_fired hc he hcb]

/-- the in-flight limit -/
theorem C16_limit {s : St} (h : Inv s) (hmax : s.maxInFlight > 0) : s.inFlight ≤ s.maxInFlight := h.limit hmax

/-- the counters are the table: in-flight = tracked requests, blocking = tracked stash-mode requests,
    both zero when nothing is tracked -/
theorem C16_counters {s : St} (h : Inv s) :
    s.inFlight = (cnt inMapP s.reqs : Nat) ∧ s.blocking = (cnt blockP s.reqs : Nat)
    ∧ (cnt inMapP s.reqs = 0 → s.inFlight = 0 ∧ s.blocking = 0) := by
  refine ⟨h.inflight, h.blocking, ?_⟩
  intro h0
  refine ⟨by rw [h.inflight, h0]; rfl, ?_⟩
  rw [h.blocking]
  have : cnt blockP s.reqs ≤ cnt inMapP s.reqs := by
    unfold cnt
    induction s.reqs with
    | nil => simp
    | cons p rest ih =>
      simp only [List.filter_cons]
      by_cases hb : blockP p.2 = true
      · have hm : inMapP p.2 = true := by
          simp only [blockP, Bool.and_eq_true] at hb; exact hb.1
        simp [hb, hm]; omega
      · by_cases hm : inMapP p.2 = true <;> simp [hb, hm] <;> omega
  omega

/-- the stash gate: while a blocking request is outstanding, `dispatchOne` does not handle an ordinary
    message (anything but an AsyncResponse): it goes to the stash, in arrival order, and nothing else changes -/
theorem C16_stash_gate (s : St) (m : Msg) (hi : s.installed = true) (hb : s.blocking > 0) (hm : m.isResp = false) :
    dispatch s m = { s with stash := s.stash ++ [m] } := by
  unfold dispatch
  simp [hi, hb, hm]

/-- release: when the completion of the last blocking request is dequeued, the held messages re-enter the
    mailbox behind what is already queued, in the order they were held -/
theorem C16_release_order (s : St) (k : Nat) (o : Outcome) (r : Req) (hg : getReq s.reqs k = some r)
    (hm : r.inMap = true) (hc : r.completed = false) (hi : s.installed = true) (hrel : releases s r) :
    (doResponse s k o).queue = s.queue ++ s.stash ∧ (doResponse s k o).stash = [] := by
  rcases doResponse_cases s k o with he | ⟨r', hg', _, _, _, he⟩
  · exfalso
    unfold doResponse at he
    simp [hi, hg, hm, hc] at he
    -- the completed state differs from s in its table: the request is no longer tracked
    have := congrArg (fun t => getReq t.reqs k) he
    simp [getReq_setReq, hg] at this
    have := congrArg Req.inMap this
    simp [hm] at this
  · rw [hg] at hg'
    cases hg'
    rw [he]
    simp [hrel]

theorem dispatch_user (s : St) (u : Nat) (hb : s.installed = false ∨ s.blocking ≤ 0) :
    dispatch s (Msg.user u) = { s with log := s.log ++ [Entry.handled u] } := by
  have hgate : (s.installed && decide (s.blocking > 0) && !(Msg.user u).isResp) = false := by
    rcases hb with hb | hb
    · simp [hb]
    · have : ¬ s.blocking > 0 := by omega
      simp [this]
  unfold dispatch
  simp only [hgate]
  rfl

/-- the mailbox is FIFO: with no blocking request outstanding, queued user messages are handled in order -/
theorem pump_fifo (us : List Nat) (s : St) (fuel : Nat) (hf : us.length ≤ fuel) (hh : s.held = false)
    (hb : s.installed = false ∨ s.blocking ≤ 0) (hq : s.queue = us.map Msg.user) :
    (pump fuel s).log = s.log ++ us.map Entry.handled := by
  induction us generalizing s fuel with
  | nil =>
    cases fuel with
    | zero => simp [pump]
    | succ n => simp [pump, hh, hq]
  | cons u rest ih =>
    cases fuel with
    | zero => simp at hf
    | succ n =>
      unfold pump
      rw [if_neg (by simp [hh])]
      simp only [hq, List.map_cons]
      rw [dispatch_user { s with queue := List.map Msg.user rest } u hb]
      have := ih { s with queue := List.map Msg.user rest, log := s.log ++ [Entry.handled u] } n
        (by simp at hf; omega) hh hb rfl
      simp only at this ⊢
      rw [this]
      simp

/-- continuations that ran off the requester's turn -/
def offTurn (log : List Entry) : List Entry :=
  log.filter (fun e => match e with | .cb _ _ false => true | _ => false)

theorem offTurn_dispatch (s : St) (m : Msg) : offTurn (dispatch s m).log = offTurn s.log := by
  unfold dispatch
  split
  · rfl
  · cases m with
    | user k => simp [offTurn, List.filter_append]
    | hold => simp only; split <;> simp [offTurn, List.filter_append]
    | reqCmd k m t =>
      show offTurn (doRequest s k m t).log = offTurn s.log
      rcases doRequest_cases s k m t with he | ⟨q, he⟩ | ⟨_, _, _, he⟩ <;> rw [he] <;> simp [offTurn, List.filter_append]
    | resp k o =>
      show offTurn (doResponse s k o).log = offTurn s.log
      rcases doResponse_cases s k o with he | ⟨r, _, _, _, _, he⟩
      · rw [he]
      · rw [he]; simp only; split <;> simp [offTurn, List.filter_append]

theorem offTurn_pump (fuel : Nat) (s : St) : offTurn (pump fuel s).log = offTurn s.log := by
  induction fuel generalizing s with
  | zero => rfl
  | succ n ih =>
    unfold pump
    split
    · rfl
    · split
      · rfl
      · rw [ih, offTurn_dispatch]

/-- on the requester's turn: every continuation run by a completion (reply, timeout, cancellation
    dequeued from the mailbox) runs inside `dispatchOne`; the only continuations that run elsewhere are
    those of a `Then` registered after completion from outside the actor (op `T`), which by contract run in
    the caller -/
theorem C16_on_turn (s : St) (op : Op) (hT : ∀ k, op ≠ .T k) : offTurn (step s op).1.log = offTurn s.log := by
  cases op with
  | T k => exact absurd rfl (hT k)
  | q k m t => simp only [step]; split <;> simp [enqueue, drain, offTurn_pump]
  | m k => simp only [step]; split <;> simp [enqueue, drain, offTurn_pump]
  | a k => simp only [step]; split <;> simp [enqueue, drain, offTurn_pump]
  | H => simp only [step]; split <;> simp [enqueue, drain, offTurn_pump]
  | L => simp only [step]; split <;> simp [drain, offTurn_pump]
  | r k => simp only [step]; split <;> (try split) <;> simp [enqueue, drain, offTurn_pump]
  | x k => simp only [step]; split <;> (try split) <;> simp [enqueue, drain, offTurn_pump]
  | c k => simp only [step]; split <;> (try split) <;> (try split) <;> simp [enqueue, drain, offTurn_pump]
  | S => simp only [step]; split <;> (try split) <;> rfl

/-! ### the property -/

/-- C16 over the model: in every state reached by any script from any configuration -/
def C16_full : Prop :=
  ∀ (inst : Bool) (m : Mode) (max : Nat) (grainTarget : Bool) (ops : List Op), ∀ r ∈ run (St.init inst m max grainTarget) ops,
    let s := r.1
    -- a continuation runs at most once, exactly once when the request was completed by a dequeued envelope
    (∀ k, cbCount k s.log ≤ 1)
    ∧ (∀ k q, getReq s.reqs k = some q → q.completed = true → q.who = .envelope → q.hasCb = true → cbCount k s.log = 1)
    -- the limit, the counters
    ∧ (s.maxInFlight > 0 → s.inFlight ≤ s.maxInFlight)
    ∧ s.inFlight = (cnt inMapP s.reqs : Nat) ∧ s.blocking = (cnt blockP s.reqs : Nat)
    ∧ (cnt inMapP s.reqs = 0 → s.inFlight = 0 ∧ s.blocking = 0)
    -- the gate and the turn, as properties of every dispatch / op from this state
    ∧ (∀ msg, s.installed = true → s.blocking > 0 → msg.isResp = false → dispatch s msg = { s with stash := s.stash ++ [msg] })
    ∧ (∀ op, (∀ k, op ≠ .T k) → offTurn (step s op).1.log = offTurn s.log)

theorem C16_holds : C16_full := by
  intro inst m max g ops r hr
  have h := run_inv inst m max g ops r hr
  have hc := C16_counters h
  exact ⟨C16_once h, fun k q hg a b c => C16_exactly_once h k q hg a b c, C16_limit h, hc.1, hc.2.1, hc.2.2,
    fun msg a b c => C16_stash_gate _ msg a b c, fun op hT => C16_on_turn _ op hT⟩

/-! ### non-vacuity -/

/-- a script that reaches a state with a blocking request outstanding and two held messages, then releases
    them in arrival order behind the continuation -/
example :
    let ops := [Op.q 1 none true, .m 1, .m 2, .r 1, .m 3]
    (run (St.init true .stash 0) ops).map (fun r => (r.1.inFlight, r.1.blocking, r.1.stash.length, r.1.log.length))
      = [(1, 1, 0, 1), (1, 1, 1, 1), (1, 1, 2, 1), (0, 0, 0, 4), (0, 0, 0, 5)]
    ∧ ((run (St.init true .stash 0) ops).getLast?.map (·.1.log))
      = some [.req 1 .ok, .cb 1 .ok true, .handled 1, .handled 2, .handled 3] := by decide

/-- hypotheses of `C16_exactly_once` and `C16_release_order` are satisfiable -/
example : ∃ s r, Inv s ∧ getReq s.reqs 1 = some r ∧ r.completed = true ∧ r.who = .envelope ∧ r.hasCb = true :=
  ⟨(step (step (St.init true .allowAll 0) (.q 1 none true)).1 (.r 1)).1,
    { mode := .allowAll, completed := true, outcome := .ok, who := .envelope, hasCb := true, inMap := false, fired := 1 },
    inv_step (inv_step (inv_init _ _ _) _) _, by decide, by decide, by decide, by decide⟩

end GoaktVerif.C16

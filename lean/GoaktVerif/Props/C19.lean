/-
C19 — Scheduled messages are delivered as scheduled, and cancelled ones stop.

"A ScheduleOnce message is delivered exactly once and not before its delay; a Schedule message is
 delivered repeatedly at its interval until cancelled or paused, with at most one delivery already
 in flight completing after CancelSchedule returns; a cancelled or unknown reference reports an
 error. In cluster mode a cron schedule delivers each tick at most once across all nodes."
 Quantifier: all orders of schedule/pause/resume/cancel operations and, for cluster cron, all
 interleavings of nodes racing to claim a tick.

go-quartz (the job store and the clock-driven firing) and wall-clock timing are PARAMETERS: the
job-store rules in Model/C19 are sampled against the real library by the differential; "not before
its delay" / "at most one in flight" are checked one-sidedly on the real scheduler.
-/
import GoaktVerif.Gen.C19
import GoaktVerif.Model.C19
import GoaktVerif.Spec.C19

namespace GoaktVerif.C19
open GoaktVerif.Model.C19 GoaktVerif.Spec.C19

/-! ### constants regenerated from actor/scheduler.go -/

theorem ttl_bounds_tie : Gen.C19.minScheduleFireClaimTTL = minTTL ∧ Gen.C19.maxScheduleFireClaimTTL = maxTTL
    ∧ Gen.C19.maxScheduleFireClaimTTL = Gen.C19.scheduleOutdatedThreshold := by decide

theorem claimTTL_bounds (p : Option Int) : minTTL ≤ claimTTL p ∧ claimTTL p ≤ maxTTL := by
  cases p with
  | none => simp [claimTTL, minTTL, maxTTL]
  | some p =>
    simp only [claimTTL]
    split
    · simp [minTTL, maxTTL]
    · split
      · simp [minTTL, maxTTL]
      · omega

theorem claimTTL_spec (p : Option Int) : ttlOK minTTL maxTTL p (claimTTL p) = true := by
  have hb := claimTTL_bounds p
  cases p with
  | none => simp [ttlOK, hb.1, hb.2]
  | some p =>
    simp only [ttlOK, hb.1, hb.2, decide_true, Bool.and_self, Bool.true_and]
    split
    · rename_i h
      have h1 : ¬ p < minTTL := by omega
      have h2 : ¬ p > maxTTL := by omega
      simp [claimTTL, h1, h2]
    · rfl

/-! ### references: error iff unknown or cancelled — for all op orders -/

/-- is `r` known to the scheduler after the history (starting from `b`): some schedule op
    since the last cancel -/
def liveAux : List Op → String → Bool → Bool
  | [], _, b => b
  | .schedule _ r' :: os, r, b => liveAux os r (if r' = r then true else b)
  | .cancel r' :: os, r, b => liveAux os r (if r' = r then false else b)
  | _ :: os, r, b => liveAux os r b

def liveHist (os : List Op) (r : String) : Bool := liveAux os r false

theorem mem_addKey (s : State) (r x : String) : x ∈ (s.addKey r).keys ↔ x = r ∨ x ∈ s.keys := by
  unfold State.addKey
  split
  · rename_i h
    simp only [List.contains_iff_mem] at h
    constructor
    · intro hx; exact Or.inr hx
    · rintro (rfl | hx)
      · exact h
      · exact hx
  · simp

theorem mem_delKey (s : State) (r x : String) : x ∈ (s.delKey r).keys ↔ x ≠ r ∧ x ∈ s.keys := by
  simp [State.delKey, and_comm]

/-- the scheduler stays started, and `keys` is exactly the set of live references -/
theorem keys_step (s : State) (o : Op) (hs : s.started = true) (r : String) (b : Bool)
    (h : r ∈ s.keys ↔ b = true) :
    (step s o).1.started = true ∧ (r ∈ (step s o).1.keys ↔ liveAux [o] r b = true) := by
  cases o with
  | schedule k r' =>
    simp only [step, schedule, hs, Bool.not_true, Bool.false_eq_true, ↓reduceIte, liveAux]
    have hk : ∀ t : State, t.started = true → (t.putJob r' { kind := k }).started = true := fun t ht => ht
    split
    · refine ⟨by simp [State.addKey]; split <;> exact hs, ?_⟩
      rw [mem_addKey]
      by_cases hr : r' = r
      · simp [hr]
      · simp [hr, h, Ne.symm hr]
    · refine ⟨by simp [State.putJob, State.delJob, State.addKey]; split <;> exact hs, ?_⟩
      show r ∈ (s.addKey r').keys ↔ _
      rw [mem_addKey]
      by_cases hr : r' = r
      · simp [hr]
      · simp [hr, h, Ne.symm hr]
  | cancel r' =>
    simp only [step, cancel, hs, Bool.not_true, Bool.false_eq_true, ↓reduceIte, liveAux]
    have key : ∀ t : State, t.keys = s.keys → t.started = true →
        (t.delKey r').started = true ∧ (r ∈ (t.delKey r').keys ↔ (if r' = r then false else b) = true) := by
      intro t ht hst
      refine ⟨hst, ?_⟩
      rw [mem_delKey, ht]
      by_cases hr : r' = r
      · simp [hr]
      · simp [hr, h, Ne.symm hr]
    split
    · exact key s rfl hs
    · split
      · exact key s rfl hs
      · exact key (s.delJob r') rfl hs
  | pause r' =>
    simp only [step, pause, hs, Bool.not_true, Bool.false_eq_true, ↓reduceIte, liveAux]
    split
    · exact ⟨hs, h⟩
    · split
      · exact ⟨hs, h⟩
      · split
        · exact ⟨hs, h⟩
        · exact ⟨hs, h⟩
  | resume r' =>
    simp only [step, resume, hs, Bool.not_true, Bool.false_eq_true, ↓reduceIte, liveAux]
    split
    · exact ⟨hs, h⟩
    · split
      · exact ⟨hs, h⟩
      · split
        · exact ⟨hs, h⟩
        · exact ⟨hs, h⟩
  | fire r' =>
    simp only [step, fire, liveAux]
    split
    · exact ⟨hs, h⟩
    · split
      · exact ⟨hs, h⟩
      · split
        · exact ⟨hs, h⟩
        · exact ⟨hs, h⟩

theorem liveAux_append (os ps : List Op) (r : String) (b : Bool) :
    liveAux (os ++ ps) r b = liveAux ps r (liveAux os r b) := by
  induction os generalizing b with
  | nil => rfl
  | cons o os ih => cases o <;> simp [liveAux, ih]

theorem keys_run (s : State) (os : List Op) (hs : s.started = true) (r : String) (b : Bool)
    (h : r ∈ s.keys ↔ b = true) :
    (run s os).started = true ∧ (r ∈ (run s os).keys ↔ liveAux os r b = true) := by
  induction os generalizing s b with
  | nil => exact ⟨hs, h⟩
  | cons o os ih =>
    have h1 := keys_step s o hs r b h
    have := ih (step s o).1 h1.1 _ h1.2
    rw [show o :: os = [o] ++ os from rfl, liveAux_append]
    exact this

/-- after ANY sequence of operations on a started scheduler, a reference that is unknown or whose
    last schedule/cancel operation was a cancel makes Cancel, Pause and Resume report an error -/
theorem C19_refs (os : List Op) (r : String) (h : liveAux os r false = false) :
    (cancel (run {} os) r).2 = .noref ∧ (pause (run {} os) r).2 = .noref ∧ (resume (run {} os) r).2 = .noref := by
  have hk := keys_run {} os rfl r false (by simp)
  have hn : r ∉ (run {} os).keys := fun hm => by simpa [h] using hk.2.mp hm
  simp [cancel, pause, resume, hk.1, hn]

/-- and conversely the error kinds are exactly the code's rules (started scheduler) -/
theorem cancel_ok_iff (s : State) (r : String) (hs : s.started = true) :
    (cancel s r).2 = .ok ↔ r ∈ s.keys ∧ (s.job r).isSome = true := by
  simp only [cancel, hs, Bool.not_true, Bool.false_eq_true, ↓reduceIte]
  by_cases hk : r ∈ s.keys
  · cases hj : s.job r <;> simp [hk]
  · simp [hk]

theorem pause_ok_iff (s : State) (r : String) (hs : s.started = true) :
    (pause s r).2 = .ok ↔ r ∈ s.keys ∧ ∃ j, s.job r = some j ∧ j.suspended = false := by
  simp only [pause, hs, Bool.not_true, Bool.false_eq_true, ↓reduceIte]
  by_cases hk : r ∈ s.keys
  · cases hj : s.job r with
    | none => simp [hk]
    | some j => cases hsu : j.suspended <;> simp [hk, hsu]
  · simp [hk]

theorem resume_ok_iff (s : State) (r : String) (hs : s.started = true) :
    (resume s r).2 = .ok ↔ r ∈ s.keys ∧ ∃ j, s.job r = some j ∧ j.suspended = true := by
  simp only [resume, hs, Bool.not_true, Bool.false_eq_true, ↓reduceIte]
  by_cases hk : r ∈ s.keys
  · cases hj : s.job r with
    | none => simp [hk]
    | some j => cases hsu : j.suspended <;> simp [hk, hsu]
  · simp [hk]

/-! ### cancelled and paused schedules stop; a one-shot fires at most once -/

theorem job_delJob (s : State) (r : String) : (s.delJob r).job r = none := by
  simp only [State.job, State.delJob]
  induction s.jobs with
  | nil => rfl
  | cons p ps ih =>
    simp only [List.filter]
    by_cases h : p.1 = r
    · simp [h, ih]
    · have h' : (p.1 != r) = true := by simpa using h
      have h2 : (r == p.1) = false := by simpa using Ne.symm h
      simp only [h', List.lookup, h2]
      exact ih

/-- every job in the queue has its reference in `scheduledKeys` (started scheduler) -/
def JobsKeyed (s : State) : Prop := ∀ r, (s.job r).isSome = true → r ∈ s.keys

theorem job_delJob_ne (s : State) (r x : String) (h : x ≠ r) : (s.delJob r).job x = s.job x := by
  simp only [State.job, State.delJob]
  induction s.jobs with
  | nil => rfl
  | cons p ps ih =>
    simp only [List.filter]
    by_cases hp : p.1 = r
    · have h2 : (x == p.1) = false := by simpa [hp] using h
      have h' : (p.1 != r) = false := by simpa using hp
      simp only [h', List.lookup, h2]
      exact ih
    · have h' : (p.1 != r) = true := by simpa using hp
      simp only [h', List.lookup]
      split
      · rfl
      · exact ih

theorem job_putJob (s : State) (r x : String) (j : Job) :
    (s.putJob r j).job x = if x = r then some j else s.job x := by
  by_cases h : x = r
  · subst h; simp [State.putJob, State.job]
  · have h2 : (x == r) = false := by simpa using h
    have := job_delJob_ne s r x h
    simp only [State.job] at this
    simp [State.putJob, State.job, List.lookup, h2, h, this]

theorem job_addKey (s : State) (r x : String) : (s.addKey r).job x = s.job x := by
  unfold State.addKey; split <;> rfl

theorem jobsKeyed_step (s : State) (o : Op) (hs : s.started = true) (h : JobsKeyed s) : JobsKeyed (step s o).1 := by
  intro x hx
  cases o with
  | schedule k r =>
    cases hj : (s.addKey r).job r with
    | some j =>
      simp only [step, schedule, hs, Bool.not_true, Bool.false_eq_true, ↓reduceIte, hj] at hx ⊢
      rw [job_addKey] at hx
      exact (mem_addKey s r x).mpr (Or.inr (h x hx))
    | none =>
      simp only [step, schedule, hs, Bool.not_true, Bool.false_eq_true, ↓reduceIte, hj] at hx ⊢
      rw [job_putJob] at hx
      show x ∈ (s.addKey r).keys
      by_cases hxr : x = r
      · exact (mem_addKey s r x).mpr (Or.inl hxr)
      · simp only [hxr, ↓reduceIte, job_addKey] at hx
        exact (mem_addKey s r x).mpr (Or.inr (h x hx))
  | cancel r =>
    by_cases hk : r ∈ s.keys
    · have hc : s.keys.contains r = true := by simpa using hk
      cases hj : s.job r with
      | none =>
        simp only [step, cancel, hs, Bool.not_true, Bool.false_eq_true, ↓reduceIte, hc, hj] at hx ⊢
        have hx' : (s.job x).isSome = true := hx
        refine (mem_delKey s r x).mpr ⟨?_, h x hx'⟩
        intro hxr; subst hxr; simp [hj] at hx'
      | some j =>
        simp only [step, cancel, hs, Bool.not_true, Bool.false_eq_true, ↓reduceIte, hc, hj] at hx ⊢
        have hx' : ((s.delJob r).job x).isSome = true := hx
        have hne : x ≠ r := by intro hxr; subst hxr; simp [job_delJob] at hx'
        rw [job_delJob_ne s r x hne] at hx'
        exact (mem_delKey (s.delJob r) r x).mpr ⟨hne, h x hx'⟩
    · have hc : s.keys.contains r = false := by simpa using hk
      simp only [step, cancel, hs, Bool.not_true, Bool.false_eq_true, ↓reduceIte, hc, Bool.not_false] at hx ⊢
      have hx' : (s.job x).isSome = true := hx
      refine (mem_delKey s r x).mpr ⟨?_, h x hx'⟩
      intro hxr; subst hxr; exact hk (h x hx')
  | pause r =>
    by_cases hk : r ∈ s.keys
    · have hc : s.keys.contains r = true := by simpa using hk
      cases hj : s.job r with
      | none =>
        simp only [step, pause, hs, Bool.not_true, Bool.false_eq_true, ↓reduceIte, hc, hj] at hx ⊢
        exact h x hx
      | some j =>
        cases hsu : j.suspended
        · simp only [step, pause, hs, Bool.not_true, Bool.false_eq_true, ↓reduceIte, hc, hj, hsu] at hx ⊢
          rw [job_putJob] at hx
          show x ∈ s.keys
          by_cases hxr : x = r
          · subst hxr; exact hk
          · simp only [hxr, ↓reduceIte] at hx; exact h x hx
        · simp only [step, pause, hs, Bool.not_true, Bool.false_eq_true, ↓reduceIte, hc, hj, hsu] at hx ⊢
          exact h x hx
    · have hc : s.keys.contains r = false := by simpa using hk
      simp only [step, pause, hs, Bool.not_true, Bool.false_eq_true, ↓reduceIte, hc, Bool.not_false] at hx ⊢
      exact h x hx
  | resume r =>
    by_cases hk : r ∈ s.keys
    · have hc : s.keys.contains r = true := by simpa using hk
      cases hj : s.job r with
      | none =>
        simp only [step, resume, hs, Bool.not_true, Bool.false_eq_true, ↓reduceIte, hc, hj] at hx ⊢
        exact h x hx
      | some j =>
        cases hsu : j.suspended
        · simp only [step, resume, hs, Bool.not_true, Bool.false_eq_true, ↓reduceIte, hc, hj, hsu] at hx ⊢
          exact h x hx
        · simp only [step, resume, hs, Bool.not_true, Bool.false_eq_true, ↓reduceIte, hc, hj, hsu] at hx ⊢
          rw [job_putJob] at hx
          show x ∈ s.keys
          by_cases hxr : x = r
          · subst hxr; exact hk
          · simp only [hxr, ↓reduceIte] at hx; exact h x hx
    · have hc : s.keys.contains r = false := by simpa using hk
      simp only [step, resume, hs, Bool.not_true, Bool.false_eq_true, ↓reduceIte, hc, Bool.not_false] at hx ⊢
      exact h x hx
  | fire r =>
    cases hj : s.job r with
    | none =>
      simp only [step, fire, hj] at hx ⊢
      exact h x hx
    | some j =>
      cases hsu : j.suspended
      · cases hkd : j.kind <;> simp only [step, fire, hj, hsu, hkd, Bool.false_eq_true, ↓reduceIte] at hx ⊢
        · show x ∈ s.keys
          by_cases hxr : x = r
          · subst hxr
            have : ((State.delJob { s with delivered := x :: s.delivered } x).job x) = none := job_delJob _ _
            simp [this] at hx
          · have : ((State.delJob { s with delivered := r :: s.delivered } r).job x) = s.job x := job_delJob_ne _ r x hxr
            rw [this] at hx; exact h x hx
        all_goals exact h x hx
      · simp only [step, fire, hj, hsu, ↓reduceIte] at hx ⊢
        exact h x hx

theorem started_step (s : State) (o : Op) (hs : s.started = true) : (step s o).1.started = true :=
  (keys_step s o hs "" (decide ("" ∈ s.keys)) (by simp)).1

theorem jobsKeyed_run (s : State) (os : List Op) (hs : s.started = true) (h : JobsKeyed s) :
    JobsKeyed (run s os) ∧ (run s os).started = true := by
  induction os generalizing s with
  | nil => exact ⟨h, hs⟩
  | cons o os ih => exact ih (step s o).1 (started_step s o hs) (jobsKeyed_step s o hs h)


/-- after `CancelSchedule` returned (whatever it returned) on a reachable, started scheduler the
    reference has no job: no later tick of quartz delivers for it (deliveries already in flight —
    goroutines quartz started before the cancel — are outside the model, see the timing check) -/
theorem cancel_stops (os : List Op) (r : String) :
    (fire (cancel (run {} os) r).1 r).delivered = (cancel (run {} os) r).1.delivered := by
  obtain ⟨hjk, hst⟩ := jobsKeyed_run {} os rfl (by intro x hx; simp [State.job] at hx)
  generalize run {} os = s at hjk hst
  have hnone : ((cancel s r).1).job r = none := by
    by_cases hk : r ∈ s.keys
    · have hc : s.keys.contains r = true := by simpa using hk
      cases hj : s.job r with
      | none => simp only [cancel, hst, hc, hj, Bool.not_true, Bool.false_eq_true, ↓reduceIte]; exact hj
      | some j =>
        simp only [cancel, hst, hc, hj, Bool.not_true, Bool.false_eq_true, ↓reduceIte]
        exact job_delJob s r
    · have hc : s.keys.contains r = false := by simpa using hk
      simp only [cancel, hst, hc, Bool.not_true, Bool.false_eq_true, ↓reduceIte, Bool.not_false]
      cases hj : s.job r with
      | none => exact hj
      | some j => exact absurd (hjk r (by simp [hj])) hk
  simp [fire, hnone]

/-- a paused schedule does not deliver -/
theorem paused_silent (s : State) (r : String) (j : Job) (hj : s.job r = some j) (hp : j.suspended = true) :
    fire s r = s := by
  simp [fire, hj, hp]

/-- a one-shot job is gone once it has fired: a second tick delivers nothing -/
theorem fire_absent (s : State) (r : String) (h : s.job r = none) : fire s r = s := by
  unfold fire; rw [h]

theorem once_fires_once (s : State) (r : String) (j : Job) (hj : s.job r = some j) (hk : j.kind = .once) :
    fire (fire s r) r = fire s r := by
  cases hp : j.suspended
  · have : (fire s r).job r = none := by
      simp only [fire, hj, hp, hk, Bool.false_eq_true, ↓reduceIte]
      exact job_delJob _ r
    exact fire_absent _ r this
  · rw [paused_silent s r j hj hp, paused_silent s r j hj hp]

/-! ### a paused schedule can be resumed (was finding C19-F1, fixed by c88f7fc) -/

/-- the full statement for references, including "a paused schedule can be resumed" -/
def C19_refs_full : Prop :=
  ∀ (os : List Op) (r : String) (j : Job), (run {} os).job r = some j → j.suspended = true →
    (resume (run {} os) r).2 = .ok ∧ (resume (run {} os) r).1.job r = some { j with suspended := false }

/-- for ALL op sequences and every kind of schedule — one-shot included since c88f7fc (before, a paused
    one-shot was dropped by quartz.ResumeJob: `refs | once A ; pause A ; resume A` gave `expired`) -/
theorem C19_refs_holds : C19_refs_full := by
  intro os r j hj hp
  obtain ⟨hjk, hst⟩ := jobsKeyed_run {} os rfl (by intro x hx; simp [State.job] at hx)
  have hk : r ∈ (run {} os).keys := hjk r (by simp [hj])
  have hc : (run {} os).keys.contains r = true := by simpa using hk
  have : resume (run {} os) r = ((run {} os).putJob r { j with suspended := false }, .ok) := by
    simp only [resume, hst, hc, hj, hp, Bool.not_true, Bool.false_eq_true, ↓reduceIte]
  rw [this]
  exact ⟨rfl, by simp [job_putJob]⟩

example : (run {} [.schedule .once "a", .pause "a"]).job "a" = some { kind := .once, suspended := true } := by decide

/-! ### cluster cron claim: at most one winner per tick, for all interleavings -/

theorem putNX_lookup (st : Store) (key : Nat) (now ttl : Int) (h : (putNX st key now ttl).2 = true) :
    (putNX st key now ttl).1.lookup key = some (now + ttl) := by
  unfold putNX at *
  cases hl : st.lookup key with
  | none => simp [List.lookup]
  | some exp =>
    rw [hl] at h
    by_cases hlt : now < exp
    · simp [hlt] at h
    · simp [hlt, List.lookup]

/-- once the tick's entry outlives every remaining attempt, nobody wins any more -/
theorem no_more_wins (runTime : Nat → Int) (ttl : Int) (tick : Nat) (exp : Int) (st : Store) (as : List Attempt)
    (hst : st.lookup tick = some exp) (hall : ∀ a ∈ as, a.tick = tick ∧ a.t < exp) :
    wins (claims runTime ttl st as) = 0 := by
  induction as generalizing st with
  | nil => rfl
  | cons a as ih =>
    have ha := hall a (by simp)
    have hrest : ∀ b ∈ as, b.tick = tick ∧ b.t < exp := fun b hb => hall b (by simp [hb])
    simp only [claims, wins, List.count_cons]
    have hput : putNX st a.tick a.t ttl = (st, false) := by
      simp [putNX, ha.1, hst, ha.2]
    have hstep : claim runTime ttl st a = (st, .skip) ∨ claim runTime ttl st a = (st, .lose) := by
      unfold claim
      by_cases hl : a.t + a.k - runTime a.tick > ttl
      · left; simp [hl]
      · right; simp [hl, hput]
    rcases hstep with h | h
    · rw [h]; simpa [wins] using ih st hst hrest
    · rw [h]; simpa [wins] using ih st hst hrest

/-- The cluster clause.  Nodes handle one tick at true times `a.t` (any order of arrival at the
    store that respects time), with local clocks off by `a.k`.  PROVIDED every node's clock is
    within `S` of true time, no node handles the tick before its scheduled time on its own clock,
    every node's lag on its own clock is at most `L`, and `2·S + L < ttl`, at most one claim wins. -/
theorem C19_claim (runTime : Nat → Int) (ttl S L : Int) (tick : Nat) (st : Store) (as : List Attempt)
    (hfresh : st.lookup tick = none)
    (hsorted : as.Pairwise (fun a b => a.t ≤ b.t))
    (htick : ∀ a ∈ as, a.tick = tick)
    (hskew : ∀ a ∈ as, -S ≤ a.k ∧ a.k ≤ S)
    (hnotEarly : ∀ a ∈ as, runTime tick ≤ a.t + a.k)
    (hlag : ∀ a ∈ as, a.t + a.k - runTime tick ≤ L)
    (hbound : 2 * S + L < ttl) :
    atMostOne (wins (claims runTime ttl st as)) = true := by
  cases as with
  | nil => rfl
  | cons a as =>
    have hat := htick a (by simp)
    subst hat
    simp only [claims]
    have hlagA : ¬ (a.t + a.k - runTime a.tick > ttl) := by
      have := hlag a (by simp); have := hskew a (by simp); omega
    have hput : (putNX st a.tick a.t ttl).2 = true := by simp [putNX, hfresh]
    have hclaim : claim runTime ttl st a = ((putNX st a.tick a.t ttl).1, .win) := by
      unfold claim
      simp only [hlagA, ↓reduceIte]
      generalize hp : putNX st a.tick a.t ttl = p at hput
      obtain ⟨st', b⟩ := p
      simp only at hput
      subst hput
      rfl
    rw [hclaim]
    have hlk := putNX_lookup st a.tick a.t ttl hput
    have h0 : wins (claims runTime ttl (putNX st a.tick a.t ttl).1 as) = 0 := by
      apply no_more_wins runTime ttl a.tick (a.t + ttl) _ as hlk
      intro b hb
      refine ⟨htick b (by simp [hb]), ?_⟩
      have h1 := hnotEarly a (by simp)
      have h2 := hskew a (by simp)
      have h3 := hlag b (by simp [hb])
      have h4 := hskew b (by simp [hb])
      omega
    simp only [wins] at h0
    simp [wins, atMostOne, List.count_cons, h0]

/-- without the proviso two nodes win the same tick: a node whose clock runs 5 s ahead claims the
    tick 5 s early; its claim (ttl 60 s) has expired when an on-time node replays the tick 58 s late
    — still inside the `lag > ttl` skip -/
theorem C19_claim_two_winners :
    wins (claims (fun _ => 0) 60 [] [⟨1, -5, 5⟩, ⟨1, 58, 0⟩]) = 2 := by decide

example : atMostOne (wins (claims (fun _ => 0) 60 [] [⟨1, 0, 0⟩, ⟨1, 3, -1⟩, ⟨1, 40, 2⟩])) = true := by decide

/-- a tick older than the claim TTL on the node's clock is skipped without touching the store -/
theorem claim_skip (runTime : Nat → Int) (ttl : Int) (st : Store) (a : Attempt)
    (h : a.t + a.k - runTime a.tick > ttl) : claim runTime ttl st a = (st, .skip) := by
  simp [claim, h]

end GoaktVerif.C19

/-
C31 — Grain activations are ordered and single-threaded.

"For each grain activation, OnActivate completes before the first OnReceive, OnDeactivate runs
 exactly once after the last OnReceive of that activation and never concurrently with it, and a
 message sent after deactivation activates a fresh instance that receives it."

Quantifier: all interleavings of sends, passivation, explicit deactivation and system shutdown.

Model: `Model/C31.lean` (grain_pid.go activate/deactivate/receive/runTurn/dispatchOne/
handlePoisonPill/handlePassivationPill/passivationTry, grain_engine.go ensureGrainProcess/localSend).
Spec: the monitor of `Spec/C06.lean` read as OnActivate / OnReceive / OnDeactivate
(clause 1: OnActivate-end before the first OnReceive; 2: OnDeactivate at most once; 3: no OnReceive
starts after OnDeactivate started; 4: never concurrent on different goroutines).

Result: the property HOLDS (`C31_holds`): every pool, every schedule, with or without reentrancy.
History: C31-F2 (messages queued behind a pill reached the deactivated instance) was fixed by 6dc1e0c;
C31-F1 (the passivation manager deactivated a non-reentrant grain on its own goroutine, concurrently
with the grain's turn) by 5462477: the manager now deactivates directly only while it owns the
grain's dispatch turn (CAS Idle→Processing, re-test, releaseTurn) and otherwise sends the passivation
pill through the mailbox.  Also proved for every schedule: `C31_activate_first`,
`C31_send_after_deactivation`; regression theorems on the former witness schedules.
-/
import GoaktVerif.Lemmas.C31.Guard

namespace GoaktVerif.C31
open GoaktVerif.Model.C31 GoaktVerif.Spec.C06
open GoaktVerif.Model.C06 (Sched trySchedule)

theorem C31_mon_is_log (reent expired : Bool) (budget : Nat) (prog : Nat → GT) (s : List Nat) :
    (run (init reent expired budget prog) s).mon = monOf (run (init reent expired budget prog) s).log :=
  run_mon _ s rfl

/-- the property at full strength for one activation: any pool of senders, PoisonPill senders
    (system shutdown) and passivation attempts, any schedule -/
def C31_full : Prop :=
  ∀ (reent expired : Bool) (budget : Nat) (prog : Nat → GT), admissible prog →
    ∀ s : List Nat, (monOf (run (init reent expired budget prog) s).log).ok = true

def progOf (l : List GT) : Nat → GT := fun i => l.getD i .done

theorem progOf_admissible (p : Bool) (l : List GT) (h : l.all GT.initial = true) :
    admissible (progOf (.aB p :: l)) := by
  refine ⟨⟨p, rfl⟩, ?_⟩
  intro i hi
  cases i with
  | zero => exact absurd rfl hi
  | succ j =>
    simp only [progOf, List.getD_eq_getElem?_getD, List.getElem?_cons_succ]
    cases hj : l[j]? with
    | none => rfl
    | some t =>
      simp only [Option.getD_some]
      exact (List.all_eq_true.mp h) t (List.mem_of_getElem? hj)

/-- regression for the fixed C31-F1 (former clause-4 witness): the passivation manager finds the grain
    inside OnReceive; it cannot take the dispatch turn (Processing), so the decision travels through
    the mailbox and OnDeactivate runs in the turn after the handler: no overlap. -/
theorem C31_passivation_during_receive_goes_through_mailbox :
    (monOf (run (init false true 32 (progOf [.aB false, .mCheck])) [1, 1, 1, 0, 0, 2, 2, 0, 0, 0, 0, 0, 0]).log).ok = true
    ∧ ((run (init false true 32 (progOf [.aB false, .mCheck])) [1, 1, 1, 0, 0, 2, 2, 0, 0, 0, 0, 0, 0]).log.filter
        (fun e => match e with | .postB _ _ => true | _ => false)) = [.postB 0 .ppill] := by decide

/-- regression (former clause-2 witness): the manager owns the turn of an idle grain and is inside
    OnDeactivate when a PoisonPill arrives; the pill cannot be handled until the turn is released and
    then finds the grain inactive: one OnDeactivate. -/
theorem C31_direct_deactivation_owns_the_turn :
    (monOf (run (init false true 32 (progOf [.aB false, .mCheck, .sEnsure true])) [1, 1, 1, 0, 0, 0, 0, 2, 2, 2, 3, 3, 0, 2, 2, 0, 0, 0]).log).ok = true
    ∧ ((run (init false true 32 (progOf [.aB false, .mCheck, .sEnsure true])) [1, 1, 1, 0, 0, 0, 0, 2, 2, 2, 3, 3, 0, 2, 2, 0, 0, 0]).log.filter
        (fun e => match e with | .postB _ _ => true | _ => false)) = [.postB 3 .pass] := by decide

/-- regression for fix 6dc1e0c (C31-F2): a message queued behind a PoisonPill is failed, not received -/
def scheduleBehindPill : List Nat := [1, 1, 1, 0, 0, 0, 2, 2, 3, 3, 0, 0, 0, 0, 0, 0]

theorem C31_message_behind_pill_not_received :
    (monOf (run (init true true 32 (progOf [.aB false, .sEnsure true, .sEnsure false])) scheduleBehindPill).log).ok = true
    ∧ (run (init true true 32 (progOf [.aB false, .sEnsure true, .sEnsure false])) scheduleBehindPill).box = []
    ∧ (run (init true true 32 (progOf [.aB false, .sEnsure true, .sEnsure false])) scheduleBehindPill).deleted = true := by
  decide

/-! ### what holds for every schedule -/

theorem base_init (reent expired : Bool) (budget : Nat) (prog : Nat → GT) (hp : admissible prog) :
    Base (init reent expired budget prog) := by
  obtain ⟨⟨p, h0⟩, hrest⟩ := hp
  constructor <;> simp [init, Mon.init, h0, GT.creating]
  · intro i hi
    have := hrest i hi
    cases h : prog i <;> simp_all [GT.initial, GT.creating]
  · exact hrest

/-- frame: after activation has completed, a step that leaves the threads alone -/
theorem base_upd (c c' : Cfg) (hB : Base c) (hpd : c.mon.preDone = true) (ht : c'.threads = c.threads)
    (hm1 : c'.mon.preDone = true) (hm2 : c'.mon.c1 = true)
    (hdel : c'.deleted = true → c'.inMap = false ∧ c'.active = false) : Base c' := by
  obtain ⟨others, pre, quiet, early, ok1, del⟩ := hB
  have hpc : (c.threads 0).creating = false := by
    cases h : (c.threads 0).creating
    · rfl
    · have := pre.2 h; simp_all
  constructor
  · intro i hi; rw [ht]; exact others i hi
  · rw [ht]; simp [hm1, hpc]
  · intro h; simp [hm1] at h
  · intro h; simp [hm1] at h
  · exact hm2
  · exact hdel

/-- frame: re-pointing a thread that is not creating the process -/
theorem base_setT (c : Cfg) (k : Nat) (pc : GT) (hB : Base c) (hnc : (c.threads k).creating = false)
    (h1 : pc.creating = false) (h2 : c.mon.preDone = false → pc.initial = true) : Base (setT c k pc) := by
  obtain ⟨others, pre, quiet, early, ok1, del⟩ := hB
  constructor
  · intro i hi
    by_cases h : i = k
    · subst h; simp [setT, h1]
    · simp [setT, h, others i hi]
  · by_cases h : k = 0
    · subst h
      simp only [setT, if_true, h1]
      constructor
      · intro hp; have := pre.1 hp; rw [hnc] at this; exact this
      · intro hx; simp at hx
    · have h' : ¬ 0 = k := fun e => h e.symm
      simp [setT, h', pre]
  · exact quiet
  · intro hp i hi
    by_cases h : i = k
    · subst h; simp [setT, h2 hp]
    · simp [setT, h, early hp i hi]
  · exact ok1
  · exact del

theorem base_w (c : Cfg) (hB : Base c) : Base (wStep c) := by
  by_cases hpd : c.mon.preDone = true
  · unfold wStep
    have hdel := hB.del
    have hok := hB.ok1
    split <;> (try split) <;> (try split) <;>
      (apply base_upd c _ hB hpd <;> (try rfl) <;> (try (simp_all [emit, monStep, finish, hB.ok1])) <;>
        (try (intro hd; exact hB.del hd)) <;> (try (exact hB.ok1)))
  · have hq := hB.quiet (by simpa using hpd)
    unfold wStep
    simp only [hq.2.2.1, hq.2.2.2.1]
    exact hB

theorem base_t (c : Cfg) (k : Nat) (hB : Base c) : Base (tStep c k) := by
  have hdel := hB.del
  have hok := hB.ok1
  unfold tStep
  simp only []
  split
  · exact hB
  · exact hB
  · -- aB: only thread 0 creates
    rename_i p hpc
    have hk : k = 0 := by
      apply Classical.byContradiction; intro hk
      have := hB.others k hk; simp [hpc, GT.creating] at this
    subst hk
    obtain ⟨others, pre, quiet, early, ok1, del⟩ := hB
    have hpd : c.mon.preDone = false := pre.2 (by simp [hpc, GT.creating])
    have hq := quiet hpd
    constructor <;> (try intro j) <;> (try (by_cases hj : j = 0)) <;>
      simp_all [emit, monStep, setT, GT.creating, GT.initial]
  · -- aE
    rename_i p hpc
    have hk : k = 0 := by
      apply Classical.byContradiction; intro hk
      have := hB.others k hk; simp [hpc, GT.creating] at this
    subst hk
    obtain ⟨others, pre, quiet, early, ok1, del⟩ := hB
    have hpd : c.mon.preDone = false := pre.2 (by simp [hpc, GT.creating])
    have hq := quiet hpd
    constructor <;> (try intro j) <;> (try (by_cases hj : j = 0)) <;>
      simp_all [emit, monStep, setT, GT.creating, GT.initial]
  · -- sEnsure
    rename_i p hpc
    have hnc : (c.threads k).creating = false := by simp [hpc, GT.creating]
    split
    · rename_i h
      refine base_setT c k _ hB hnc (by simp [GT.creating]) ?_
      intro hp; have := hB.quiet hp; simp_all
    · split
      · rename_i h
        refine base_setT c k _ hB hnc (by simp [GT.creating]) ?_
        intro hp; have := hB.quiet hp; simp_all
      · split
        · rename_i h
          refine base_setT c k _ hB hnc (by simp [GT.creating]) ?_
          intro hp; have := hB.quiet hp; simp_all
        · exact hB
  · -- sRecv
    rename_i p hpc
    have hnc : (c.threads k).creating = false := by simp [hpc, GT.creating]
    split
    · rename_i ha
      have hpd : c.mon.preDone = true := by
        cases hq : c.mon.preDone
        · have := hB.quiet hq; simp_all
        · rfl
      refine base_setT _ k _ (base_upd c _ hB hpd rfl hpd hok hdel) hnc (by simp [GT.creating]) (by simp [GT.initial])
    · exact base_setT c k _ hB hnc (by simp [GT.creating]) (by simp [GT.initial])
  · -- mCheck
    rename_i hpc
    have hnc : (c.threads k).creating = false := by simp [hpc, GT.creating]
    split
    · exact base_setT c k _ hB hnc (by simp [GT.creating]) (by simp [GT.initial])
    · rename_i ha
      have hpd : c.mon.preDone = true := by
        cases hq : c.mon.preDone
        · have := hB.quiet hq; simp_all
        · rfl
      split
      · refine base_setT _ k _ (base_upd c _ hB hpd rfl hpd hok hdel) hnc (by simp [GT.creating]) (by simp [GT.initial])
      · exact base_setT c k _ hB hnc (by simp [GT.creating]) (by simp [hpd])
  · -- mTake
    rename_i hpc
    have hnc : (c.threads k).creating = false := by simp [hpc, GT.creating]
    have hpd : c.mon.preDone = true := by
      cases hq : c.mon.preDone
      · by_cases hk : k = 0
        · subst hk; have := hB.pre.1 hq; simp [hpc, GT.creating] at this
        · have := hB.early hq k hk; simp [hpc, GT.initial] at this
      · rfl
    split
    · split
      · exact base_setT _ k _ (base_upd c _ hB hpd rfl hpd hok hdel) hnc (by simp [GT.creating]) (by simp [GT.initial])
      · exact base_setT _ k _ (base_upd c _ hB hpd rfl hpd hok hdel) hnc (by simp [GT.creating]) (by simp [hpd])
    · exact base_setT _ k _ (base_upd c _ hB hpd rfl hpd hok hdel) hnc (by simp [GT.creating]) (by simp [GT.initial])
  · -- mDea deaB
    rename_i hpc
    have hnc : (c.threads k).creating = false := by simp [hpc, GT.creating]
    have hpd : c.mon.preDone = true := by
      cases hq : c.mon.preDone
      · by_cases hk : k = 0
        · subst hk; have := hB.pre.1 hq; simp [hpc, GT.creating] at this
        · have := hB.early hq k hk; simp [hpc, GT.initial] at this
      · rfl
    refine base_setT _ k _ (base_upd c _ hB hpd rfl ?_ ?_ hdel) hnc (by simp [GT.creating]) ?_
    · simp [emit, monStep, hpd]
    · simp [emit, monStep, hok]
    · simp [emit, monStep, hpd]
  · rename_i hpc
    have hnc : (c.threads k).creating = false := by simp [hpc, GT.creating]
    have hpd : c.mon.preDone = true := by
      cases hq : c.mon.preDone
      · by_cases hk : k = 0
        · subst hk; have := hB.pre.1 hq; simp [hpc, GT.creating] at this
        · have := hB.early hq k hk; simp [hpc, GT.initial] at this
      · rfl
    refine base_setT _ k _ (base_upd c _ hB hpd rfl ?_ ?_ hdel) hnc (by simp [GT.creating]) ?_
    · simp [emit, monStep, hpd]
    · simp [emit, monStep, hok]
    · simp [emit, monStep, hpd]
  · rename_i hpc
    have hnc : (c.threads k).creating = false := by simp [hpc, GT.creating]
    have hpd : c.mon.preDone = true := by
      cases hq : c.mon.preDone
      · by_cases hk : k = 0
        · subst hk; have := hB.pre.1 hq; simp [hpc, GT.creating] at this
        · have := hB.early hq k hk; simp [hpc, GT.initial] at this
      · rfl
    refine base_setT _ k _ (base_upd c _ hB hpd rfl hpd hok ?_) hnc (by simp [GT.creating]) (by simp [finish, hpd])
    simp [finish]

theorem base_step (c : Cfg) (a : Nat) (hB : Base c) : Base (step c a) := by
  cases a with
  | zero => exact base_w c hB
  | succ k => exact base_t c k hB

theorem base_run (c : Cfg) (s : List Nat) (hB : Base c) : Base (run c s) := by
  induction s generalizing c with
  | nil => exact hB
  | cons a s ih => exact ih _ (base_step c a hB)

/-- `C31_activate_first`: OnActivate has completed before any OnReceive of the activation starts —
    every pool, every schedule, with or without reentrancy. -/
theorem C31_activate_first (reent expired : Bool) (budget : Nat) (prog : Nat → GT) (hp : admissible prog) (s : List Nat) :
    (monOf (run (init reent expired budget prog) s).log).c1 = true := by
  rw [← C31_mon_is_log]
  exact (base_run _ s (base_init reent expired budget prog hp)).ok1

/-- `C31_send_after_deactivation`: in every reachable configuration in which deactivate has removed
    the process from the grain map, (a) a send that now resolves its target leaves for a FRESH
    process (it never reaches the deactivated one), (b) the process is inactive and unregistered,
    and (c) this stays so after every further step.  The fresh process is again an instance of this
    model, created by that send (`init … (progOf (.aB p :: …))`), so `C31_activate_first` gives
    "OnActivate completes before it receives the message". -/
theorem C31_send_after_deactivation (reent expired : Bool) (budget : Nat) (prog : Nat → GT) (hp : admissible prog)
    (s : List Nat) (hd : (run (init reent expired budget prog) s).deleted = true) :
    (∀ i p, (run (init reent expired budget prog) s).threads i = .sEnsure p →
        (step (run (init reent expired budget prog) s) (i + 1)).threads i = .fresh p)
    ∧ (run (init reent expired budget prog) s).active = false ∧ (run (init reent expired budget prog) s).inMap = false
    ∧ ∀ a, (step (run (init reent expired budget prog) s) a).deleted = true := by
  have hB := base_run _ s (base_init reent expired budget prog hp)
  generalize run (init reent expired budget prog) s = c at *
  have hd2 := hB.del hd
  refine ⟨?_, hd2.2, hd2.1, ?_⟩
  · intro i p hi
    simp [step, tStep, hi, hd, hd2.1, setT]
  · intro a
    have := (base_step c a hB)
    cases a with
    | zero =>
      simp only [step, wStep]
      split <;> (try split) <;> (try split) <;> simp_all [emit, finish]
    | succ k =>
      simp only [step, tStep]
      have hpdT : c.mon.preDone = true := by
        cases hq : c.mon.preDone
        · have := (hB.quiet hq).2.2.2.2.1; simp_all
        · rfl
      split <;> (try split) <;> (try split) <;> (try split) <;> simp_all [emit, finish, setT]
      all_goals (
        have h0 := hB.pre
        have h1 := hB.others k
        by_cases hk : k = 0
        · subst hk; simp_all [GT.creating]
        · simp_all [GT.creating])

/-! ### all four clauses on every schedule -/

theorem ginv_init (reent expired : Bool) (budget : Nat) (prog : Nat → GT) (hp : admissible prog) :
    GInv (init reent expired budget prog) := by
  obtain ⟨⟨p, h0⟩, hrest⟩ := hp
  have hnd : ∀ i pc, prog i ≠ .mDea pc := by
    intro i pc h
    by_cases hi : i = 0
    · subst hi; simp [h0] at h
    · have := hrest i hi; simp [h, GT.initial] at this
  constructor <;> simp [init, Mon.init, lateDirect]
  · intro i
    cases hpi : prog i <;> simp [GT.direct]
    exact absurd hpi (hnd i _)
  · intro i; exact hnd i _

theorem ginv_run (c : Cfg) (s : List Nat) (hB : Base c) (hG : GInv c) : GInv (run c s) := by
  induction s generalizing c with
  | nil => exact hG
  | cons a s ih => exact ih _ (base_step c a hB) (ginv_step c a hB hG)

/-- `C31_holds`: the property at full strength — every pool of senders, PoisonPill senders and
    passivation attempts, with or without reentrancy, every schedule of any length: OnActivate
    completes before the first OnReceive, OnDeactivate starts at most once, no OnReceive starts after
    it, and it never overlaps an OnReceive. -/
theorem C31_holds : C31_full := by
  intro reent expired budget prog hp s
  have hB := base_init reent expired budget prog hp
  have hG := ginv_run _ s hB (ginv_init reent expired budget prog hp)
  rw [← C31_mon_is_log]
  simp [Mon.ok, (base_run _ s hB).ok1, hG.ok2, hG.ok3, hG.ok4]

example : (run (init false true 32 (progOf [.aB false, .sEnsure true, .sEnsure false]))
    [1, 1, 1, 0, 0, 0, 0, 2, 2, 0, 0, 0, 0, 0]).deleted = true := by decide

end GoaktVerif.C31

/-
C31 — Grain activations are ordered and single-threaded.

"For each grain activation, OnActivate completes before the first OnReceive, OnDeactivate runs
 exactly once after the last OnReceive of that activation and never concurrently with it, and a
 message sent after deactivation activates a fresh instance that receives it."

Quantifier: all interleavings of sends, passivation, explicit deactivation and system shutdown.

Model: `Model/C31.lean` (grain_pid.go activate/deactivate/receive/runTurn/dispatchOne/
handlePoisonPill/handlePassivationPill/passivationTry, grain_engine.go ensureGrainProcess/localSend).
Spec: the monitor of `Spec/C06.lean` read as OnActivate / OnReceive / OnDeactivate
(clause 1: OnActivate-end before the first OnReceive; 2: OnDeactivate at most once; 3: no OnReceive
starts after OnDeactivate started; 4: never concurrent on different goroutines).

Result: FALSE of the current code (`C31_refuted` and three witnesses): a grain without reentrancy is
deactivated by the passivation manager on the manager's own goroutine (overlap with OnReceive, and
a second OnDeactivate when it races a PoisonPill, an OnReceive started after it).  (`handleGrainContext`
delivering the messages queued behind a pill to the deactivated instance was fixed by 6dc1e0c.)
TRUE: all four clauses on schedules in which sends and deactivations do not overlap (`C31_partial`);
for every schedule: clause 1 (`C31_activate_first`); all four clauses whenever deactivation only
happens inside the turn (`C31_inturn`); a send that finds the process deleted goes to a fresh
process, and deletion is permanent (`C31_send_after_deactivation`).
-/
import GoaktVerif.Lemmas.C31.Guard

namespace GoaktVerif.C31
open GoaktVerif.Model.C31 GoaktVerif.Spec.C06
open GoaktVerif.Model.C06 (Sched trySchedule)

theorem C31_mon_is_log (reent : Bool) (budget : Nat) (prog : Nat → GT) (s : List Nat) :
    (run (init reent budget prog) s).mon = monOf (run (init reent budget prog) s).log :=
  run_mon _ s rfl

/-- the property at full strength for one activation: any pool of senders, PoisonPill senders
    (system shutdown) and passivation attempts, any schedule -/
def C31_full : Prop :=
  ∀ (reent : Bool) (budget : Nat) (prog : Nat → GT), admissible prog →
    ∀ s : List Nat, (monOf (run (init reent budget prog) s).log).ok = true

def progOf (l : List GT) : Nat → GT := fun i => l.getD i .done

theorem progOf_admissible (p : Bool) (l : List GT) (h : l.all GT.initial = true) :
    admissible (progOf (.aB p :: l)) := by
  refine ⟨⟨p, rfl⟩, ?_⟩
  intro i hi
  cases i with
  | zero => exact absurd rfl hi
  | succ j =>
    simp only [progOf, List.getD_eq_getElem?_getD, List.getElem?_cons_succ]
    cases hj : l[j]? with
    | none => rfl
    | some t =>
      simp only [Option.getD_some]
      exact (List.all_eq_true.mp h) t (List.mem_of_getElem? hj)

/-- clause 4 witness — no reentrancy: the creating send is handled (thread 0: aB aE sRecv; worker
    takes the grain and enters OnReceive), the passivation manager checks the flags and calls
    deactivate directly: OnDeactivate starts on the manager's goroutine during OnReceive. -/
def witnessDirect : List Nat := [1, 1, 1, 0, 0, 2, 2]

theorem C31_overlap_direct_passivation :
    (monOf (run (init false 32 (progOf [.aB false, .mCheck])) witnessDirect).log).c4 = false := by decide

/-- regression for fix 6dc1e0c (finding C31-F2, fixed): a PoisonPill and then a message are enqueued
    while the grain is active; the turn handles the pill (OnDeactivate, inside the turn) and then FAILS
    the queued message instead of handing it to OnReceive of the deactivated instance. -/
def scheduleBehindPill : List Nat := [1, 1, 1, 0, 0, 0, 2, 2, 3, 3, 0, 0, 0, 0, 0, 0]

theorem C31_message_behind_pill_not_received :
    (monOf (run (init true 32 (progOf [.aB false, .sEnsure true, .sEnsure false])) scheduleBehindPill).log).ok = true
    ∧ (run (init true 32 (progOf [.aB false, .sEnsure true, .sEnsure false])) scheduleBehindPill).box = []
    ∧ (run (init true 32 (progOf [.aB false, .sEnsure true, .sEnsure false])) scheduleBehindPill).deleted = true := by
  decide

/-- clause 3 witness — no reentrancy: two messages queued; between them the manager's direct
    deactivation begins (`activated` stays true until its end), and the turn starts the second
    OnReceive after OnDeactivate has started. -/
def witnessRecvAfterDirect : List Nat := [1, 1, 1, 2, 2, 0, 0, 0, 3, 3, 0]

theorem C31_receive_after_direct_deactivate :
    (monOf (run (init false 32 (progOf [.aB false, .sEnsure false, .mCheck])) witnessRecvAfterDirect).log).c3 = false := by
  decide

/-- clause 2 witness — no reentrancy: the manager is inside its direct deactivation (OnDeactivate
    begun, `activated` still true) when the turn handles a PoisonPill: second OnDeactivate. -/
def witnessDouble : List Nat := [1, 1, 1, 0, 0, 0, 0, 2, 2, 3, 3, 0, 0, 0]

theorem C31_double_deactivate :
    (monOf (run (init false 32 (progOf [.aB false, .mCheck, .sEnsure true])) witnessDouble).log).c2 = false := by
  decide

theorem C31_refuted : ¬ C31_full := by
  intro h
  have h1 := h false 32 (progOf [.aB false, .mCheck]) (progOf_admissible false [.mCheck] (by decide)) witnessDirect
  have h2 := C31_overlap_direct_passivation
  simp only [Mon.ok, Bool.and_eq_true] at h1
  rw [h1.2] at h2
  exact absurd h2 (by decide)

/-! ### what holds for every schedule -/

theorem base_init (reent : Bool) (budget : Nat) (prog : Nat → GT) (hp : admissible prog) :
    Base (init reent budget prog) := by
  obtain ⟨⟨p, h0⟩, hrest⟩ := hp
  constructor <;> simp [init, Mon.init, h0, GT.creating]
  · intro i hi
    have := hrest i hi
    cases h : prog i <;> simp_all [GT.initial, GT.creating]
  · exact hrest

/-- frame: after activation has completed, a step that leaves the threads alone -/
theorem base_upd (c c' : Cfg) (hB : Base c) (hpd : c.mon.preDone = true) (ht : c'.threads = c.threads)
    (hm1 : c'.mon.preDone = true) (hm2 : c'.mon.c1 = true)
    (hdel : c'.deleted = true → c'.inMap = false ∧ c'.active = false) : Base c' := by
  obtain ⟨others, pre, quiet, early, ok1, del⟩ := hB
  have hpc : (c.threads 0).creating = false := by
    cases h : (c.threads 0).creating
    · rfl
    · have := pre.2 h; simp_all
  constructor
  · intro i hi; rw [ht]; exact others i hi
  · rw [ht]; simp [hm1, hpc]
  · intro h; simp [hm1] at h
  · intro h; simp [hm1] at h
  · exact hm2
  · exact hdel

/-- frame: re-pointing a thread that is not creating the process -/
theorem base_setT (c : Cfg) (k : Nat) (pc : GT) (hB : Base c) (hnc : (c.threads k).creating = false)
    (h1 : pc.creating = false) (h2 : c.mon.preDone = false → pc.initial = true) : Base (setT c k pc) := by
  obtain ⟨others, pre, quiet, early, ok1, del⟩ := hB
  constructor
  · intro i hi
    by_cases h : i = k
    · subst h; simp [setT, h1]
    · simp [setT, h, others i hi]
  · by_cases h : k = 0
    · subst h
      simp only [setT, if_true, h1]
      constructor
      · intro hp; have := pre.1 hp; rw [hnc] at this; exact this
      · intro hx; simp at hx
    · have h' : ¬ 0 = k := fun e => h e.symm
      simp [setT, h', pre]
  · exact quiet
  · intro hp i hi
    by_cases h : i = k
    · subst h; simp [setT, h2 hp]
    · simp [setT, h, early hp i hi]
  · exact ok1
  · exact del

theorem base_w (c : Cfg) (hB : Base c) : Base (wStep c) := by
  by_cases hpd : c.mon.preDone = true
  · unfold wStep
    have hdel := hB.del
    have hok := hB.ok1
    split <;> (try split) <;> (try split) <;>
      (apply base_upd c _ hB hpd <;> (try rfl) <;> (try (simp_all [emit, monStep, finish, hB.ok1])) <;>
        (try (intro hd; exact hB.del hd)) <;> (try (exact hB.ok1)))
  · have hq := hB.quiet (by simpa using hpd)
    unfold wStep
    simp only [hq.2.2.1, hq.2.2.2.1]
    exact hB

theorem base_t (c : Cfg) (k : Nat) (hB : Base c) : Base (tStep c k) := by
  have hdel := hB.del
  have hok := hB.ok1
  unfold tStep
  simp only []
  split
  · exact hB
  · exact hB
  · -- aB: only thread 0 creates
    rename_i p hpc
    have hk : k = 0 := by
      apply Classical.byContradiction; intro hk
      have := hB.others k hk; simp [hpc, GT.creating] at this
    subst hk
    obtain ⟨others, pre, quiet, early, ok1, del⟩ := hB
    have hpd : c.mon.preDone = false := pre.2 (by simp [hpc, GT.creating])
    have hq := quiet hpd
    constructor <;> (try intro j) <;> (try (by_cases hj : j = 0)) <;>
      simp_all [emit, monStep, setT, GT.creating, GT.initial]
  · -- aE
    rename_i p hpc
    have hk : k = 0 := by
      apply Classical.byContradiction; intro hk
      have := hB.others k hk; simp [hpc, GT.creating] at this
    subst hk
    obtain ⟨others, pre, quiet, early, ok1, del⟩ := hB
    have hpd : c.mon.preDone = false := pre.2 (by simp [hpc, GT.creating])
    have hq := quiet hpd
    constructor <;> (try intro j) <;> (try (by_cases hj : j = 0)) <;>
      simp_all [emit, monStep, setT, GT.creating, GT.initial]
  · -- sEnsure
    rename_i p hpc
    have hnc : (c.threads k).creating = false := by simp [hpc, GT.creating]
    split
    · rename_i h
      refine base_setT c k _ hB hnc (by simp [GT.creating]) ?_
      intro hp; have := hB.quiet hp; simp_all
    · split
      · rename_i h
        refine base_setT c k _ hB hnc (by simp [GT.creating]) ?_
        intro hp; have := hB.quiet hp; simp_all
      · split
        · rename_i h
          refine base_setT c k _ hB hnc (by simp [GT.creating]) ?_
          intro hp; have := hB.quiet hp; simp_all
        · exact hB
  · -- sRecv
    rename_i p hpc
    have hnc : (c.threads k).creating = false := by simp [hpc, GT.creating]
    split
    · rename_i ha
      have hpd : c.mon.preDone = true := by
        cases hq : c.mon.preDone
        · have := hB.quiet hq; simp_all
        · rfl
      refine base_setT _ k _ (base_upd c _ hB hpd rfl hpd hok hdel) hnc (by simp [GT.creating]) (by simp [GT.initial])
    · exact base_setT c k _ hB hnc (by simp [GT.creating]) (by simp [GT.initial])
  · -- mCheck
    rename_i hpc
    have hnc : (c.threads k).creating = false := by simp [hpc, GT.creating]
    split
    · exact base_setT c k _ hB hnc (by simp [GT.creating]) (by simp [GT.initial])
    · rename_i ha
      have hpd : c.mon.preDone = true := by
        cases hq : c.mon.preDone
        · have := hB.quiet hq; simp_all
        · rfl
      split
      · refine base_setT _ k _ (base_upd c _ hB hpd rfl hpd hok hdel) hnc (by simp [GT.creating]) (by simp [GT.initial])
      · exact base_setT _ k _ (base_upd c _ hB hpd rfl hpd hok hdel) hnc (by simp [GT.creating]) (by simp [hpd])
  · -- mDea deaB
    rename_i hpc
    have hnc : (c.threads k).creating = false := by simp [hpc, GT.creating]
    have hpd : c.mon.preDone = true := by
      cases hq : c.mon.preDone
      · by_cases hk : k = 0
        · subst hk; have := hB.pre.1 hq; simp [hpc, GT.creating] at this
        · have := hB.early hq k hk; simp [hpc, GT.initial] at this
      · rfl
    refine base_setT _ k _ (base_upd c _ hB hpd rfl ?_ ?_ hdel) hnc (by simp [GT.creating]) ?_
    · simp [emit, monStep, hpd]
    · simp [emit, monStep, hok]
    · simp [emit, monStep, hpd]
  · rename_i hpc
    have hnc : (c.threads k).creating = false := by simp [hpc, GT.creating]
    have hpd : c.mon.preDone = true := by
      cases hq : c.mon.preDone
      · by_cases hk : k = 0
        · subst hk; have := hB.pre.1 hq; simp [hpc, GT.creating] at this
        · have := hB.early hq k hk; simp [hpc, GT.initial] at this
      · rfl
    refine base_setT _ k _ (base_upd c _ hB hpd rfl ?_ ?_ hdel) hnc (by simp [GT.creating]) ?_
    · simp [emit, monStep, hpd]
    · simp [emit, monStep, hok]
    · simp [emit, monStep, hpd]
  · rename_i hpc
    have hnc : (c.threads k).creating = false := by simp [hpc, GT.creating]
    have hpd : c.mon.preDone = true := by
      cases hq : c.mon.preDone
      · by_cases hk : k = 0
        · subst hk; have := hB.pre.1 hq; simp [hpc, GT.creating] at this
        · have := hB.early hq k hk; simp [hpc, GT.initial] at this
      · rfl
    refine base_setT _ k _ (base_upd c _ hB hpd rfl hpd hok ?_) hnc (by simp [GT.creating]) (by simp [finish, hpd])
    simp [finish]

theorem base_step (c : Cfg) (a : Nat) (hB : Base c) : Base (step c a) := by
  cases a with
  | zero => exact base_w c hB
  | succ k => exact base_t c k hB

theorem base_run (c : Cfg) (s : List Nat) (hB : Base c) : Base (run c s) := by
  induction s generalizing c with
  | nil => exact hB
  | cons a s ih => exact ih _ (base_step c a hB)

/-- `C31_activate_first`: OnActivate has completed before any OnReceive of the activation starts —
    every pool, every schedule, with or without reentrancy. -/
theorem C31_activate_first (reent : Bool) (budget : Nat) (prog : Nat → GT) (hp : admissible prog) (s : List Nat) :
    (monOf (run (init reent budget prog) s).log).c1 = true := by
  rw [← C31_mon_is_log]
  exact (base_run _ s (base_init reent budget prog hp)).ok1

/-- `C31_send_after_deactivation`: in every reachable configuration in which deactivate has removed
    the process from the grain map, (a) a send that now resolves its target leaves for a FRESH
    process (it never reaches the deactivated one), (b) the process is inactive and unregistered,
    and (c) this stays so after every further step.  The fresh process is again an instance of this
    model, created by that send (`init … (progOf (.aB p :: …))`), so `C31_activate_first` gives
    "OnActivate completes before it receives the message". -/
theorem C31_send_after_deactivation (reent : Bool) (budget : Nat) (prog : Nat → GT) (hp : admissible prog)
    (s : List Nat) (hd : (run (init reent budget prog) s).deleted = true) :
    (∀ i p, (run (init reent budget prog) s).threads i = .sEnsure p →
        (step (run (init reent budget prog) s) (i + 1)).threads i = .fresh p)
    ∧ (run (init reent budget prog) s).active = false ∧ (run (init reent budget prog) s).inMap = false
    ∧ ∀ a, (step (run (init reent budget prog) s) a).deleted = true := by
  have hB := base_run _ s (base_init reent budget prog hp)
  generalize run (init reent budget prog) s = c at *
  have hd2 := hB.del hd
  refine ⟨?_, hd2.2, hd2.1, ?_⟩
  · intro i p hi
    simp [step, tStep, hi, hd, hd2.1, setT]
  · intro a
    have := (base_step c a hB)
    cases a with
    | zero =>
      simp only [step, wStep]
      split <;> (try split) <;> (try split) <;> simp_all [emit, finish]
    | succ k =>
      simp only [step, tStep]
      have hpdT : c.mon.preDone = true := by
        cases hq : c.mon.preDone
        · have := (hB.quiet hq).2.2.2.2.1; simp_all
        · rfl
      split <;> (try split) <;> (try split) <;> (try split) <;> simp_all [emit, finish, setT]
      all_goals (
        have h0 := hB.pre
        have h1 := hB.others k
        by_cases hk : k = 0
        · subst hk; simp_all [GT.creating]
        · simp_all [GT.creating])

/-! ### all four clauses on guarded schedules -/

theorem ginv_init (reent : Bool) (budget : Nat) (prog : Nat → GT) (hp : admissible prog) :
    GInv (init reent budget prog) := by
  obtain ⟨⟨p, h0⟩, hrest⟩ := hp
  have hnd : ∀ i pc, prog i ≠ .mDea pc := by
    intro i pc h
    by_cases hi : i = 0
    · subst hi; simp [h0] at h
    · have := hrest i hi; simp [h, GT.initial] at this
  constructor <;> simp [init, Mon.init, lateDirect]
  · intro i
    cases hpi : prog i <;> simp [GT.direct]
    exact absurd hpi (hnd i _)
  · intro i; exact hnd i _

theorem ginv_run (c : Cfg) (s : List Nat) (hB : Base c) (hG : GInv c) (hg : guarded c s = true) :
    GInv (run c s) := by
  induction s generalizing c with
  | nil => exact hG
  | cons a s ih =>
    simp only [guarded, Bool.and_eq_true] at hg
    exact ih _ (base_step c a hB) (ginv_step c a hB hG hg.1) hg.2

/-- `C31_partial`: all four clauses hold on every history of every execution — any pool, any length,
    with or without reentrancy — whose schedule satisfies `okStep` at every step, i.e. in which
    the passivation manager starts its direct deactivation only while no turn of the grain is in
    progress, no turn starts while it runs, and at most one runs at a time (sends are unrestricted
    since fix 6dc1e0c).  The guard excludes exactly the interleavings of the three witnesses above. -/
theorem C31_partial (reent : Bool) (budget : Nat) (prog : Nat → GT) (hp : admissible prog)
    (s : List Nat) (hg : guarded (init reent budget prog) s = true) :
    (monOf (run (init reent budget prog) s).log).ok = true := by
  have hB := base_init reent budget prog hp
  have hG := ginv_run _ s hB (ginv_init reent budget prog hp) hg
  rw [← C31_mon_is_log]
  simp [Mon.ok, (base_run _ s hB).ok1, hG.ok2, hG.ok3, hG.ok4]

/-- non-vacuity of the guard: a message is received, the manager then passivates the idle grain
    directly, a PoisonPill that was sent meanwhile finds it inactive: guarded, one OnDeactivate. -/
example :
    guarded (init false 32 (progOf [.aB false, .mCheck, .sEnsure true]))
      [1, 1, 1, 0, 0, 0, 0, 2, 3, 2, 3, 2, 2, 0, 0, 0] = true
    ∧ ((run (init false 32 (progOf [.aB false, .mCheck, .sEnsure true]))
      [1, 1, 1, 0, 0, 0, 0, 2, 3, 2, 3, 2, 2, 0, 0, 0]).log.filter
        (fun e => match e with | .postB _ _ => true | _ => false)) = [.postB 3 .pass] := by decide

/-! ### deactivation inside the turn only: at most once, never concurrent — every schedule -/

/-- invariant of executions in which no thread performs the direct (manager-goroutine) deactivation -/
structure InTurn (c : Cfg) : Prop where
  nd1 : ∀ i, (c.threads i).direct = false
  nd2 : ∀ i, c.threads i = .mCheck → c.reent = true
  recvBy : c.mon.recvBy = (match c.w with | .rcv _ => some 0 | _ => none)
  postBy : c.mon.postBy = (match c.w with | .dea .deaE _ _ => [0] | _ => [])
  k : c.active = true → c.mon.posts = 0 ∨ c.w.inDeaLate = true
  kb : ∀ v b, c.w = .dea .deaB v b → c.active = true
  early0 : c.mon.preDone = false → c.mon.posts = 0
  ok2 : c.mon.c2 = true
  ok3 : c.mon.c3 = true
  ok4 : c.mon.c4 = true

theorem inturn_w (c : Cfg) (hB : Base c) (hT : InTurn c) : InTurn (wStep c) := by
  obtain ⟨nd1, nd2, recvBy, postBy, k, kb, early0, ok2, ok3, ok4⟩ := hT
  have hq := hB.quiet
  unfold wStep
  split <;> (try split) <;> (try split) <;>
    (constructor <;> (try assumption) <;> simp_all [emit, monStep, finish, GW.inDeaLate, sameOrNone, wid] <;> (try assumption))

theorem inturn_t (c : Cfg) (i : Nat) (hB : Base c) (hT : InTurn c) : InTurn (tStep c i) := by
  obtain ⟨nd1, nd2, recvBy, postBy, k, kb, early0, ok2, ok3, ok4⟩ := hT
  have hnd := nd1 i
  unfold tStep
  simp only []
  split
  · exact ⟨nd1, nd2, recvBy, postBy, k, kb, early0, ok2, ok3, ok4⟩
  · exact ⟨nd1, nd2, recvBy, postBy, k, kb, early0, ok2, ok3, ok4⟩
  · rename_i p hpc
    constructor <;> (try intro j) <;> (try (by_cases hj : j = i)) <;>
      simp_all [emit, monStep, setT, GT.direct] <;> (first | assumption | exact nd2 _ | exact kb _ | skip)
  · rename_i p hpc
    have hpd : c.mon.preDone = false := by
      by_cases hi : i = 0
      · subst hi; exact hB.pre.2 (by simp [hpc, GT.creating])
      · have := hB.others i hi; simp [hpc, GT.creating] at this
    have hq := hB.quiet hpd
    have hp0 := early0 hpd
    constructor <;> (try intro j) <;> (try (by_cases hj : j = i)) <;>
      simp_all [emit, monStep, setT, GT.direct] <;> (first | assumption | exact nd2 _ | exact kb _ | skip)
  · split <;> (try split) <;> (try split) <;>
      (first
        | exact ⟨nd1, nd2, recvBy, postBy, k, kb, early0, ok2, ok3, ok4⟩
        | (constructor <;> (try intro j) <;> (try (by_cases hj : j = i)) <;> simp_all [setT, GT.direct] <;> (first | assumption | exact nd2 _ | exact kb _ | skip)))
  · split <;>
      (constructor <;> (try intro j) <;> (try (by_cases hj : j = i)) <;> simp_all [setT, GT.direct] <;> (first | assumption | exact nd2 _ | exact kb _ | skip))
  · rename_i hpc
    have hre := nd2 i hpc
    split
    · constructor <;> (try intro j) <;> (try (by_cases hj : j = i)) <;> simp_all [setT, GT.direct] <;> (first | assumption | exact nd2 _ | exact kb _ | skip)
    · simp only [hre, if_true]
      constructor <;> (try intro j) <;> (try (by_cases hj : j = i)) <;> simp_all [setT, GT.direct] <;> (first | assumption | exact nd2 _ | exact kb _ | skip)
  · rename_i hpc; simp [hpc, GT.direct] at hnd
  · rename_i hpc; simp [hpc, GT.direct] at hnd
  · rename_i hpc; simp [hpc, GT.direct] at hnd

theorem inturn_run (c : Cfg) (s : List Nat) (hB : Base c) (hT : InTurn c) : InTurn (run c s) := by
  induction s generalizing c with
  | nil => exact hT
  | cons a s ih =>
    cases a with
    | zero => exact ih _ (base_step c 0 hB) (inturn_w c hB hT)
    | succ k => exact ih _ (base_step c (k + 1) hB) (inturn_t c k hB hT)

/-- `C31_inturn`: if the grain carries a reentrancy state (so the passivation manager only sends a
    pill through the mailbox) or no passivation attempt exists at all — i.e. every deactivation runs
    inside the grain's turn: PoisonPill from a user or from system shutdown, passivation pill — then
    for EVERY pool and EVERY schedule ALL FOUR clauses hold: OnActivate precedes every OnReceive,
    OnDeactivate starts at most once, no OnReceive starts after it (messages queued behind the pill
    are failed: fix 6dc1e0c) and it never overlaps an OnReceive. -/
theorem C31_inturn (reent : Bool) (budget : Nat) (prog : Nat → GT) (hp : admissible prog)
    (hsafe : reent = true ∨ ∀ i, prog i ≠ .mCheck) (s : List Nat) :
    (monOf (run (init reent budget prog) s).log).ok = true := by
  have hB := base_init reent budget prog hp
  have hT : InTurn (init reent budget prog) := by
    obtain ⟨⟨p, h0⟩, hrest⟩ := hp
    constructor <;> simp [init, Mon.init]
    · intro i
      by_cases hi : i = 0
      · subst hi; simp [h0, GT.direct]
      · have := hrest i hi
        cases hpi : prog i <;> simp_all [GT.initial, GT.direct]
    · intro i hi
      rcases hsafe with h | h
      · exact h
      · exact absurd hi (h i)
  have h := inturn_run _ s hB hT
  rw [← C31_mon_is_log]
  simp [Mon.ok, (base_run _ s hB).ok1, h.ok2, h.ok3, h.ok4]

example : (run (init false 32 (progOf [.aB false, .sEnsure true, .sEnsure false]))
    [1, 1, 1, 0, 0, 0, 0, 2, 2, 0, 0, 0, 0, 0]).deleted = true := by decide

end GoaktVerif.C31

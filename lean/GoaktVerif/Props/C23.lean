/-
C23 — Wire frames round-trip and malformed frames are rejected safely.

"For every protocol message and every header map within the wire limits (fewer than 65536
 headers, keys and values shorter than 65536 bytes) and deadline, decoding an encoded frame yields
 an equal message with the same type name, equal headers and a deadline within clock tolerance,
 whether or not metadata is attached. Concatenated frames are read back one by one in order.
 Truncated, malformed or oversized input yields an error and never a panic, an out-of-range read
 or an allocation beyond the frame limit."

Model: `Model/C23.lean` (byte lists; every Go slice expression is a checked operation that yields
`Err.panic` when Go's bounds check would fire).  protobuf and the type registry are parameters
(`Codec`); a message is its type name plus its payload bytes.  Tie: differential run of the real
ProtoSerializer / Metadata / readProtoFrame / Client.unmarshalProtoResponse / ProtoServer.handleConn
/ FramePool against the model (tools/props/c23.py), and the constants `defaultMaxFrameSize`,
`minBucketShift`, `maxBucketShift`, `numBuckets` regenerated from the source (`Gen.C23`).  Every length /
bound condition of the decoders is regenerated as well (go2lean `if_cond`) and proved equal to the named
condition the model branches on (`Lemmas/C23Gen.lean`, theorems `gen_*`): editing a bound in the Go source
breaks a proof obligation, not only the differential.

Result: the full statement holds (`C23_holds`).  History: finding C23-F1 — the client's format
heuristic required `nameLen < 256` and handed metadata-format frames with longer type names to the
legacy parser ("unknown message type"); repaired in /repo by fb98906, after which the model dropped the
conjunct and the refutation became the regression theorem `client_long_name_ok`.
-/
import GoaktVerif.Lemmas.C23Frame
import GoaktVerif.Lemmas.C23Pool
import GoaktVerif.Lemmas.C23Gen
import GoaktVerif.Gen.C23

namespace GoaktVerif.C23
open GoaktVerif.Model.C23

/-! ## vocabulary -/

/-- how a message is sent: `none` = `MarshalBinary` (legacy frame); `some md` =
    `MarshalBinaryWithMetadata` with `md = none` for a nil `*Metadata`, else headers (in the map's
    iteration order) and the remaining-time field computed by the sender -/
abbrev Enc := Option (Option (Headers × Int))

def mdBytes : Option (Headers × Int) → Bytes
  | none => []
  | some (hs, r) => mdMarshal hs r

/-- the encoder of the code -/
def encode (e : Enc) (name payload : Bytes) : R Bytes :=
  match e with
  | none => marshal name payload
  | some md => marshalWithMeta name payload (mdBytes md)

/-- the bytes it must produce -/
def encFrame (e : Enc) (name payload : Bytes) : Bytes :=
  match e with
  | none => legacyFrame name payload
  | some md => metaFrame name payload (mdBytes md)

/-- the metadata block of the frame -/
def metaOf : Enc → Bytes
  | none => []
  | some md => mdBytes md

/-- what the receiver must see -/
def expected (e : Enc) (name payload : Bytes) : Decoded :=
  ⟨name, payload, match e with | some (some (hs, r)) => some ⟨hs, r⟩ | _ => none⟩

/-- the wire limits of the property -/
structure MdOK (md : Option (Headers × Int)) : Prop where
  limits : ∀ hs r, md = some (hs, r) → Spec.C23.inLimits hs = true ∧ Spec.C23.distinctKeys hs = true
  int64 : ∀ hs r, md = some (hs, r) → -2 ^ 63 ≤ r ∧ r < 2 ^ 63

/-- the exact guard of the format detection: the frame limit must stay below `'A' · 2^24` -/
def detectLimit : Nat := 65 * 2 ^ 24

structure WithinLimits (max : Nat) (e : Enc) (name payload : Bytes) : Prop where
  nameOK : Spec.C23.validName name = true
  sizeOK : (encFrame e name payload).length ≤ max
  maxOK : max < detectLimit
  mdOK : ∀ m, e = some m → MdOK m

/-- the parameters accept the message: its type is registered and protobuf accepts the payload -/
def Knows (c : Codec) (name payload : Bytes) : Prop := c.reg name = true ∧ c.pdec name payload = true

/-- non-vacuity: a message `A.B` with payload `01 02 03`, one header `k → v` and 5 ns remaining,
    under the default 16 MiB limit, known to the all-accepting codec -/
example : WithinLimits (2 ^ 24) (some (some ([([107], [118])], 5))) [65, 46, 66] [1, 2, 3] ∧
    Knows Codec.top [65, 46, 66] [1, 2, 3] := by
  refine ⟨⟨by decide, by decide, by decide, ?_⟩, rfl, rfl⟩
  intro m hm
  simp only [Option.some.injEq] at hm
  subst hm
  refine ⟨fun hs r h => ?_, fun hs r h => ?_⟩ <;>
    (simp only [Option.some.injEq, Prod.mk.injEq] at h; obtain ⟨rfl, rfl⟩ := h; decide)

/-! ## metadata codec -/

theorem inLimits_iff (hs : Headers) : Spec.C23.inLimits hs = true ↔
    hs.length < 65536 ∧ ∀ kv ∈ hs, kv.1.length < 65536 ∧ kv.2.length < 65536 := by
  simp [Spec.C23.inLimits]

/-- `Metadata.UnmarshalBinary ∘ Metadata.MarshalBinary` = identity on header map and remaining time -/
theorem metadata_roundtrip (hs : Headers) (r : Int) (hl : Spec.C23.inLimits hs = true)
    (hd : Spec.C23.distinctKeys hs = true) (h1 : -2 ^ 63 ≤ r) (h2 : r < 2 ^ 63) :
    mdUnmarshal (mdMarshal hs r) = .ok ⟨hs, r⟩ := by
  obtain ⟨hc, hk⟩ := (inLimits_iff hs).mp hl
  exact mdUnmarshal_mdMarshal hs r hc hk hd h1 h2

example : Spec.C23.inLimits [([107], [118, 119]), ([], [])] = true ∧ Spec.C23.distinctKeys [([107], [118, 119]), ([], [])] = true := by decide

/-- the model's layout is the documented layout -/
theorem mdMarshal_eq_spec (hs : Headers) (r : Int) : mdMarshal hs r = Spec.C23.metadata hs r := by
  have h8 : ∀ n, Spec.C23.be 8 n = be64 n := by
    intro n
    simp [Spec.C23.be, be64, be32, Nat.div_div_eq_div_mul]
  have hh : ∀ kv, encHeader kv = Spec.C23.header kv := by
    intro kv; simp only [encHeader, Spec.C23.header, spec_be2]
  simp only [mdMarshal, Spec.C23.metadata, spec_be2, h8, ofInt64]
  have hfun : encHeader = Spec.C23.header := funext hh
  rw [hfun]

theorem legacyFrame_eq_spec (name payload : Bytes) : legacyFrame name payload = Spec.C23.frame name payload := by
  simp only [legacyFrame, Spec.C23.frame, spec_be4]

theorem metaFrame_eq_spec (name payload mb : Bytes) : metaFrame name payload mb = Spec.C23.frameM name mb payload := by
  simp only [metaFrame, Spec.C23.frameM, spec_be4]
  congr 2; omega

/-! ## the deadline on the wire -/

theorem wrap64_id {i : Int} (h1 : -2 ^ 63 ≤ i) (h2 : i < 2 ^ 63) : wrap64 i = i := toInt64_ofInt64 h1 h2

theorem wrap64_range (i : Int) : -2 ^ 63 ≤ wrap64 i ∧ wrap64 i < 2 ^ 63 := by
  unfold wrap64 toInt64 ofInt64
  split <;> omega

/-- what `MarshalBinary` writes is always an int64, is 0 exactly when no deadline is set -/
theorem remainingOf_range (d now : Int) : -2 ^ 63 ≤ remainingOf d now ∧ remainingOf d now < 2 ^ 63 := by
  unfold remainingOf
  have := wrap64_range (d - now)
  split
  · simp only []; split <;> omega
  · omega

theorem remainingOf_eq_zero (d now : Int) : remainingOf d now = 0 ↔ d = 0 := by
  unfold remainingOf
  split
  · simp only []; split <;> omega
  · omega

/-- "a deadline within clock tolerance": the receiver's deadline is the sender's, shifted by the
    difference of the two clock readings (minus one nanosecond when the sender's deadline was
    exactly "now"), as long as nothing overflows int64 -/
theorem deadline_transfer (d ts tr : Int) (hd : d ≠ 0)
    (h1 : -2 ^ 63 ≤ d - ts ∧ d - ts < 2 ^ 63) (h2 : -2 ^ 63 ≤ d + (tr - ts) - 1 ∧ d + (tr - ts) < 2 ^ 63) :
    deadlineOf tr (remainingOf d ts) = if d = ts then tr - 1 else d + (tr - ts) := by
  have hne : remainingOf d ts ≠ 0 := fun h => hd ((remainingOf_eq_zero d ts).mp h)
  unfold deadlineOf
  rw [if_pos hne]
  unfold remainingOf
  rw [if_pos hd, wrap64_id h1.1 h1.2]
  simp only []
  split
  · rename_i h0
    have : d = ts := by omega
    rw [if_pos this, wrap64_id (by omega) (by omega)]; omega
  · rename_i h0
    have : d ≠ ts := by omega
    rw [if_neg this, wrap64_id (by omega) (by omega)]; omega

example : (1000 : Int) ≠ 0 ∧ (-2 ^ 63 ≤ (1000 : Int) - 400 ∧ (1000 : Int) - 400 < 2 ^ 63) := by decide

theorem deadline_none (ts tr : Int) : deadlineOf tr (remainingOf 0 ts) = 0 := by
  simp [deadlineOf, remainingOf]

/-! ### tie: the remaining-time computation of the SOURCE (regenerated) = the model, for all inputs

`Gen.C23.marshalRemaining` is `Metadata.MarshalBinary` with every statement that does not touch
`remaining` skipped, `m.deadlineNano` and `time.Now().UnixNano()` bound as arguments.  The 0 → −1
rule cannot be exercised by any test (it needs `deadline == now` to the nanosecond). -/

theorem wrap64_bmod (i : Int) : wrap64 i = Int.bmod i (2 ^ 64) := by
  unfold wrap64 toInt64 ofInt64 Int.bmod
  have e : ((2 ^ 64 : Nat) : Int) = 2 ^ 64 := by norm_cast
  simp only [e]
  split <;> split <;> omega

theorem gen_remaining (d now x : Int64) :
    (Gen.C23.marshalRemaining d now x).toInt = remainingOf d.toInt now.toInt := by
  unfold Gen.C23.marshalRemaining remainingOf
  simp only [bne_iff_ne, ne_eq, beq_iff_eq]
  by_cases hd : d = 0
  · subst hd; simp
  · have hd' : d.toInt ≠ 0 := fun h => hd (Int64.toInt_inj.mp (by simpa using h))
    rw [if_pos hd, if_pos hd']
    simp only [wrap64_bmod, ← Int64.toInt_sub]
    by_cases hr : d - now = 0
    · rw [if_pos hr]
      have : (d - now).toInt = 0 := by rw [hr]; rfl
      rw [if_pos this]; rfl
    · have : (d - now).toInt ≠ 0 := fun h => hr (Int64.toInt_inj.mp (by simpa using h))
      rw [if_neg hr, if_neg this]

/-! ## one frame: round trips and format detection -/

theorem validName_cons {name : Bytes} (h : Spec.C23.validName name = true) :
    ∃ a name', name = a :: name' ∧ 65 ≤ a.toNat := by
  match name, h with
  | a :: name', h =>
    refine ⟨a, name', rfl, ?_⟩
    simp only [Spec.C23.validName, Spec.C23.asciiLetter, Bool.or_eq_true, Bool.and_eq_true, decide_eq_true_eq] at h
    omega

theorem encode_eq {e : Enc} {name payload : Bytes} (h : Spec.C23.validName name = true) :
    encode e name payload = .ok (encFrame e name payload) := by
  obtain ⟨a, n', rfl, _⟩ := validName_cons h
  cases e with
  | none => exact marshal_eq payload (by simp)
  | some md => exact marshalWithMeta_eq payload _ (by simp)

theorem finish_expected {c : Codec} {e : Enc} {name payload : Bytes} (hk : Knows c name payload)
    (hmd : ∀ m, e = some m → MdOK m) :
    finish c ⟨name, (metaOf e), payload⟩ = .ok (expected e name payload) := by
  obtain ⟨hr, hp⟩ := hk
  unfold finish
  simp only [hr, hp, Bool.not_true, Bool.false_eq_true, if_false]
  match e, hmd with
  | none, _ => simp [expected, metaOf]
  | some none, _ => simp [expected, metaOf, mdBytes]
  | some (some (hs, r)), hmd =>
    have ok := hmd _ rfl
    obtain ⟨hl, hd⟩ := ok.limits hs r rfl
    obtain ⟨h1, h2⟩ := ok.int64 hs r rfl
    simp only [metaOf, mdBytes, mdMarshal_length_pos, if_true, metadata_roundtrip hs r hl hd h1 h2, expected]

/-- framing at the server: a legacy frame falls through to the legacy parser (never mis-parsed as
    metadata), a metadata frame is parsed as metadata (never handed to the legacy parser) -/
theorem serverFrame_encFrame {max : Nat} {e : Enc} {name payload : Bytes} (h : WithinLimits max e name payload) :
    serverFrame (encFrame e name payload) = .ok ⟨name, (metaOf e), payload⟩ := by
  obtain ⟨a, n', hn, ha⟩ := validName_cons h.nameOK
  have hsz := h.sizeOK
  have hmax := h.maxOK
  unfold detectLimit at hmax
  cases e with
  | none =>
    simp only [encFrame, legacyFrame_length] at hsz
    simp only [encFrame]
    unfold serverFrame
    rw [frameMeta_legacyFrame hn (by omega) (by omega), frameLegacy_legacyFrame name payload (by omega)]
    split <;> rfl
  | some md =>
    simp only [encFrame, metaFrame_length] at hsz
    simp only [encFrame]
    unfold serverFrame
    rw [if_pos (by rw [metaFrame_length]; omega), frameMeta_metaFrame name payload _ (by omega)]
    rfl

/-- C23 round trip, server side (`handleConn`'s decode block), with and without metadata -/
theorem roundtrip_server (c : Codec) (max : Nat) (e : Enc) (name payload : Bytes)
    (h : WithinLimits max e name payload) (hk : Knows c name payload) :
    encode e name payload = .ok (encFrame e name payload) ∧
    serverDecode c (encFrame e name payload) = .ok (expected e name payload) := by
  refine ⟨encode_eq h.nameOK, ?_⟩
  rw [serverDecode_eq_finish, serverFrame_encFrame h]
  exact finish_expected hk h.mdOK

/-- the two plain decoders on their own format -/
theorem roundtrip_plain (c : Codec) (max : Nat) (e : Enc) (name payload : Bytes)
    (h : WithinLimits max e name payload) (hk : Knows c name payload) :
    (match e with
     | none => unmarshal c (encFrame e name payload)
     | some _ => unmarshalWithMeta c (encFrame e name payload)) = .ok (expected e name payload) := by
  have hsz := h.sizeOK
  have hmax := h.maxOK
  unfold detectLimit at hmax
  cases e with
  | none =>
    simp only [encFrame, legacyFrame_length] at hsz
    simp only [encFrame]
    rw [unmarshal_eq_finish, frameLegacy_legacyFrame name payload (by omega)]
    exact finish_expected (e := none) hk h.mdOK
  | some md =>
    simp only [encFrame, metaFrame_length] at hsz
    simp only [encFrame]
    rw [unmarshalWithMeta_eq_finish, frameMeta_metaFrame name payload _ (by omega)]
    exact finish_expected (e := some md) hk h.mdOK

/-- C23_detect: for EVERY codec the metadata-format parser rejects a legacy frame with
    `ErrInvalidMessageLength` (so the server falls back), and the client's heuristic does not even try it -/
theorem detect_legacy (c : Codec) (max : Nat) (name payload : Bytes) (h : WithinLimits max none name payload) :
    unmarshalWithMeta c (legacyFrame name payload) = .error .invalidLength ∧
    clientTriesMeta (legacyFrame name payload) = false := by
  obtain ⟨a, n', hn, ha⟩ := validName_cons h.nameOK
  have hsz := h.sizeOK
  have hmax := h.maxOK
  unfold detectLimit at hmax
  simp only [encFrame, legacyFrame_length] at hsz
  refine ⟨?_, clientTriesMeta_legacyFrame hn (by omega) (by omega)⟩
  rw [unmarshalWithMeta_eq_finish, frameMeta_legacyFrame hn (by omega) (by omega)]
  rfl

/-- C23 round trip, client side (`unmarshalProtoResponse`): every legacy frame and every
    metadata-format frame, whatever the length of the type name -/
theorem roundtrip_client (c : Codec) (max : Nat) (e : Enc) (name payload : Bytes)
    (h : WithinLimits max e name payload) (hk : Knows c name payload) :
    clientDecode c (encFrame e name payload) = .ok (expected e name payload) := by
  obtain ⟨a, n', hn, ha⟩ := validName_cons h.nameOK
  have hsz := h.sizeOK
  have hmax := h.maxOK
  unfold detectLimit at hmax
  cases e with
  | none =>
    simp only [encFrame, legacyFrame_length] at hsz
    have hp := roundtrip_plain c max none name payload h hk
    simp only [encFrame] at hp ⊢
    rw [clientDecode_eq, clientTriesMeta_legacyFrame hn (by omega) (by omega)]
    simp only [Bool.false_eq_true, if_false]
    exact hp
  | some md =>
    simp only [encFrame, metaFrame_length] at hsz
    have hpos : 0 < name.length := by rw [hn]; simp
    have := roundtrip_plain c max (some md) name payload h hk
    simp only [encFrame] at this ⊢
    rw [clientDecode_eq, clientTriesMeta_metaFrame name payload _ (by omega)]
    simp only [hpos, decide_true, if_true, this]

/-- regression for finding C23-F1 (fixed by fb98906): a metadata-format frame whose type name has 256
    bytes or more is decoded by the client like any other -/
theorem client_long_name_ok (c : Codec) (max : Nat) (md : Option (Headers × Int)) (name payload : Bytes)
    (_hlong : 256 ≤ name.length) (h : WithinLimits max (some md) name payload) (hk : Knows c name payload) :
    clientDecode c (metaFrame name payload (mdBytes md)) = .ok (expected (some md) name payload) :=
  roundtrip_client c max (some md) name payload h hk

/-! ## streams: concatenation -/

def frames (msgs : List (Enc × Bytes × Bytes)) : List Bytes := msgs.map fun m => encFrame m.1 m.2.1 m.2.2

theorem wellFramed_encFrame {max : Nat} {e : Enc} {name payload : Bytes} (h : WithinLimits max e name payload) :
    Spec.C23.wellFramed max (encFrame e name payload) = true := by
  have hsz := h.sizeOK
  have hmax := h.maxOK
  unfold detectLimit at hmax
  cases e with
  | none =>
    simp only [encFrame, legacyFrame_length] at hsz
    simp only [encFrame, Spec.C23.wellFramed, legacyFrame_length, Bool.and_eq_true, decide_eq_true_eq, beq_iff_eq, spec_be4]
    refine ⟨⟨⟨by omega, by omega⟩, by omega⟩, ?_⟩
    simp only [legacyFrame]
    rw [List.take_append_of_le_length (by simp [be32_length])]
    have : (be32 (4 + 4 + name.length + payload.length)).take 4 = be32 (4 + 4 + name.length + payload.length) := rfl
    rw [this]
  | some md =>
    simp only [encFrame, metaFrame_length] at hsz
    simp only [encFrame, Spec.C23.wellFramed, metaFrame_length, Bool.and_eq_true, decide_eq_true_eq, beq_iff_eq, spec_be4]
    refine ⟨⟨⟨by omega, by omega⟩, by omega⟩, ?_⟩
    simp only [metaFrame]
    rw [List.take_append_of_le_length (by simp [be32_length])]
    have : (be32 (4 + 4 + name.length + 4 + (mdBytes md).length + payload.length)).take 4 =
        be32 (4 + 4 + name.length + 4 + (mdBytes md).length + payload.length) := rfl
    rw [this]; congr 1; omega

/-- C23_concat, reader: any concatenation of complete frames within the limit is read back one by
    one, in order, followed by EOF (`readProtoFrame` / the read half of `handleConn`) -/
theorem concat_read (max : Nat) (fs : List Bytes) (h : ∀ f ∈ fs, Spec.C23.wellFramed max f = true) :
    readAll max fs.flatten = (fs, .eof) := readAll_concat max fs h

example : Spec.C23.wellFramed 64 [0, 0, 0, 9, 0, 0, 0, 1, 65] = true := by decide

/-- C23_concat, server: a pipelined batch of requests (each with or without metadata) is decoded
    one by one, in order -/
theorem concat_server (c : Codec) (max : Nat) (msgs : List (Enc × Bytes × Bytes))
    (h : ∀ m ∈ msgs, WithinLimits max m.1 m.2.1 m.2.2 ∧ Knows c m.2.1 m.2.2) :
    serverLoop c max (frames msgs).flatten = msgs.map fun m => expected m.1 m.2.1 m.2.2 := by
  -- decode by frame content: use the message that produced the frame
  induction msgs with
  | nil => rw [serverLoop]; simp [frames, readFrame, readFull]
  | cons m rest ih =>
    obtain ⟨hw, hk⟩ := h m (by simp)
    have hrest := ih (fun g hg => h g (by simp [hg]))
    have hf := wellFramed_encFrame hw
    have hd := (roundtrip_server c max m.1 m.2.1 m.2.2 hw hk).2
    rw [serverLoop]
    simp only [frames, List.map_cons, List.flatten_cons]
    rw [readFrame_append _ _ hf]
    simp only [hd]
    have h8 := wellFramed_len hf
    have hlt : (List.map (fun m => encFrame m.1 m.2.1 m.2.2) rest).flatten.length <
        (encFrame m.1 m.2.1 m.2.2 ++ (List.map (fun m => encFrame m.1 m.2.1 m.2.2) rest).flatten).length := by
      simp only [List.length_append]; omega
    simp only [hlt, dite_true]
    simp only [frames] at hrest
    rw [hrest]

/-- C23_concat, client: the `n` responses of a batch (legacy frames, which is what the server
    writes, or metadata frames) are decoded one by one, in order -/
theorem concat_client (c : Codec) (max : Nat) (msgs : List (Enc × Bytes × Bytes)) (rest : Bytes)
    (h : ∀ m ∈ msgs, WithinLimits max m.1 m.2.1 m.2.2 ∧ Knows c m.2.1 m.2.2) :
    clientReadN c max msgs.length ((frames msgs).flatten ++ rest) = .ok (msgs.map fun m => expected m.1 m.2.1 m.2.2) := by
  induction msgs with
  | nil => simp [clientReadN, frames]
  | cons m tl ih =>
    obtain ⟨hw, hk⟩ := h m (by simp)
    have htl := ih (fun g hg => h g (by simp [hg]))
    have hf := wellFramed_encFrame hw
    have hd := roundtrip_client c max m.1 m.2.1 m.2.2 hw hk
    simp only [List.length_cons, clientReadN, frames, List.map_cons, List.flatten_cons, List.append_assoc]
    rw [readFrame_append _ _ hf]
    simp only [hd]
    simp only [frames] at htl
    simp only [htl]

/-- `marshalProtoWithContext` picks the format from the context: no metadata or a nil one → legacy -/
theorem clientMarshal_eq (ctx : Option (Option (Headers × Int))) (name payload : Bytes) :
    clientMarshal (ctx.map fun m => m.map fun hr => mdMarshal hr.1 hr.2) name payload =
      encode (match ctx with | some (some hr) => some (some hr) | _ => none) name payload := by
  match ctx with
  | none => rfl
  | some none => rfl
  | some (some (hs, r)) => rfl

/-- the whole request/response pipeline of `SendBatchProto` against a server whose handler echoes:
    every request (with or without metadata) reaches the handler in order with the same name,
    payload, headers and remaining time; the server writes one legacy frame per request; the client
    reads the responses back one by one, in order -/
theorem echo_pipeline (c : Codec) (max : Nat) (msgs : List (Enc × Bytes × Bytes))
    (h : ∀ m ∈ msgs, WithinLimits max m.1 m.2.1 m.2.2 ∧ WithinLimits max none m.2.1 m.2.2 ∧ Knows c m.2.1 m.2.2) :
    serverEcho c max (frames msgs).flatten =
      (msgs.map (fun m => expected m.1 m.2.1 m.2.2), (msgs.map fun m => legacyFrame m.2.1 m.2.2).flatten) ∧
    clientReadN c max msgs.length (msgs.map fun m => legacyFrame m.2.1 m.2.2).flatten =
      .ok (msgs.map fun m => ⟨m.2.1, m.2.2, none⟩) := by
  constructor
  · induction msgs with
    | nil => rw [serverEcho]; simp [frames, readFrame, readFull]
    | cons m rest ih =>
      obtain ⟨hw, hwl, hk⟩ := h m (by simp)
      have hrest := ih (fun g hg => h g (by simp [hg]))
      have hf := wellFramed_encFrame hw
      have hd := (roundtrip_server c max m.1 m.2.1 m.2.2 hw hk).2
      obtain ⟨a, n', hn, _⟩ := validName_cons hw.nameOK
      have hm : marshal (expected m.1 m.2.1 m.2.2).name (expected m.1 m.2.1 m.2.2).payload
          = .ok (legacyFrame m.2.1 m.2.2) := by
        simp only [expected]
        exact marshal_eq _ (by rw [hn]; simp)
      rw [serverEcho]
      simp only [frames, List.map_cons, List.flatten_cons]
      rw [readFrame_append _ _ hf]
      simp only [hd, hm]
      have h8 := wellFramed_len hf
      have hlt : (List.map (fun m => encFrame m.1 m.2.1 m.2.2) rest).flatten.length <
          (encFrame m.1 m.2.1 m.2.2 ++ (List.map (fun m => encFrame m.1 m.2.1 m.2.2) rest).flatten).length := by
        simp only [List.length_append]; omega
      simp only [hlt, dite_true]
      simp only [frames] at hrest
      rw [hrest]
  · have := concat_client c max (msgs.map fun m => ((none : Enc), m.2.1, m.2.2)) [] (by
      intro m hm
      simp only [List.mem_map] at hm
      obtain ⟨x, hx, rfl⟩ := hm
      obtain ⟨_, b, k⟩ := h x hx
      exact ⟨b, k⟩)
    simpa [frames, encFrame, expected, Function.comp_def] using this

/-! ## totality, memory safety, allocation limit -/

/-- C23_total: on ANY byte string every decoder returns a value or one of the documented errors;
    no slice expression or fixed-width read is ever out of range (`Err.panic` is unreachable) -/
theorem decoders_total (c : Codec) (max : Nat) (data : Bytes) :
    mdUnmarshal data ≠ .error .panic ∧
    unmarshal c data ≠ .error .panic ∧
    unmarshalWithMeta c data ≠ .error .panic ∧
    serverDecode c data ≠ .error .panic ∧
    clientDecode c data ≠ .error .panic ∧
    readFrame max data ≠ .error .panic ∧
    (readAll max data).2 ≠ .panic :=
  ⟨mdUnmarshal_nopanic data, unmarshal_nopanic c data, unmarshalWithMeta_nopanic c data,
   serverDecode_nopanic c data, clientDecode_nopanic c data, readFrame_nopanic max data, readAll_nopanic max data⟩

/-- the metadata decoder has exactly one error -/
theorem metadata_error (data : Bytes) (e : Err) (h : mdUnmarshal data = .error e) : e = .invalidMetadata :=
  mdUnmarshal_err h

/-- allocation limit: the buffer size requested for an incoming frame is within [8, maxFrameSize];
    every frame returned has exactly the requested size; the frames of a stream are its prefix -/
theorem alloc_limit (max : Nat) (s : Bytes) :
    (∀ n, allocRequest max s = some n → 8 ≤ n ∧ n ≤ max) ∧
    (∀ f, readFrame max s = .ok f → allocRequest max s = some f.alloc ∧ f.frame.length = f.alloc ∧ s = f.frame ++ f.rest) ∧
    (∀ f ∈ (readAll max s).1, f.length ≤ max) ∧ (∃ rest, s = (readAll max s).1.flatten ++ rest) := by
  refine ⟨fun n h => allocRequest_le h, fun f h => ?_, (readAll_frames max s).1, (readAll_frames max s).2⟩
  obtain ⟨hs, hl, _⟩ := readFrame_ok h
  exact ⟨readFrame_alloc h, hl, hs⟩

/-! ## frame pool, tied to the constants of the source -/

/-- the pool configuration of the code, from the regenerated constants -/
def poolCfg : PoolCfg := ⟨Gen.C23.minBucketShift.toNat, Gen.C23.numBuckets.toNat⟩

/-- facts about the regenerated constants the theorems and the driver rely on -/
theorem gen_facts :
    poolCfg = ⟨8, 15⟩ ∧
    Gen.C23.numBuckets = Gen.C23.maxBucketShift - Gen.C23.minBucketShift + 1 ∧
    Gen.C23.defaultMaxFrameSize.toNat < detectLimit ∧ Gen.C23.defaultMaxFrameSize = 16 * 2 ^ 20 :=
  ⟨rfl, by decide, by decide, by decide⟩

/-- the default frame limit satisfies the detection guard: with the default configuration every
    frame the reader lets through is classified correctly -/
theorem default_limit_ok (e : Enc) (name payload : Bytes) (hn : Spec.C23.validName name = true)
    (hsz : (encFrame e name payload).length ≤ Gen.C23.defaultMaxFrameSize.toNat) (hmd : ∀ m, e = some m → MdOK m) :
    WithinLimits Gen.C23.defaultMaxFrameSize.toNat e name payload :=
  ⟨hn, hsz, gen_facts.2.2.1, hmd⟩

/-- frame pool: `Get(n)` never slices beyond its buffer, uses the smallest bucket, wastes less than
    half above 256 bytes, pooled buffers are at most 4 MiB, and `Put` finds the same bucket -/
theorem pool_sizing (n : Nat) :
    (∃ cap, poolGet poolCfg n = .ok (n, cap) ∧ n ≤ cap ∧ cap = poolCap poolCfg n) ∧
    bucketIndex poolCfg n ≤ poolCfg.numBuckets ∧
    (0 < bucketIndex poolCfg n → 2 ^ (poolCfg.minBucketShift + bucketIndex poolCfg n - 1) < n) ∧
    (2 ^ poolCfg.minBucketShift < n → poolCap poolCfg n < 2 * n) ∧
    (bucketIndex poolCfg n < poolCfg.numBuckets →
      poolCap poolCfg n ≤ 2 ^ Gen.C23.maxBucketShift.toNat ∧
      bucketIndexExact poolCfg (poolCap poolCfg n) = bucketIndex poolCfg n) := by
  refine ⟨poolGet_ok poolCfg n, bucketIndex_le poolCfg n, bucketIndex_smallest poolCfg n,
    poolCap_lt_double poolCfg n, fun h => ?_⟩
  have hc : poolCap poolCfg n = 2 ^ (poolCfg.minBucketShift + bucketIndex poolCfg n) := by
    unfold poolCap; simp only []; rw [if_neg (by omega)]
  rw [hc]
  refine ⟨?_, bucketIndexExact_bucket poolCfg _ h⟩
  have e : poolCfg = ⟨8, 15⟩ := gen_facts.1
  rw [e] at h ⊢
  simp only [] at h ⊢
  apply Nat.pow_le_pow_right (by decide)
  have : Gen.C23.maxBucketShift.toNat = 22 := by decide
  omega

/-! ## the property -/

/-- round trip at the server for every message, name and metadata within the limits -/
def RoundTripServer : Prop :=
  ∀ (c : Codec) (max : Nat) (e : Enc) (name payload : Bytes),
    WithinLimits max e name payload → Knows c name payload →
    encode e name payload = .ok (encFrame e name payload) ∧
    serverDecode c (encFrame e name payload) = .ok (expected e name payload) ∧
    serverLoop c max (encFrame e name payload) = [expected e name payload]

/-- round trip at the client (`unmarshalProtoResponse`) for every message, name and format -/
def RoundTripClient : Prop :=
  ∀ (c : Codec) (max : Nat) (e : Enc) (name payload : Bytes),
    WithinLimits max e name payload → Knows c name payload →
    clientDecode c (encFrame e name payload) = .ok (expected e name payload)

def Concat : Prop :=
  (∀ (max : Nat) (fs : List Bytes), (∀ f ∈ fs, Spec.C23.wellFramed max f = true) → readAll max fs.flatten = (fs, .eof)) ∧
  (∀ (c : Codec) (max : Nat) (msgs : List (Enc × Bytes × Bytes)),
    (∀ m ∈ msgs, WithinLimits max m.1 m.2.1 m.2.2 ∧ Knows c m.2.1 m.2.2) →
    serverLoop c max (frames msgs).flatten = msgs.map fun m => expected m.1 m.2.1 m.2.2) ∧
  (∀ (c : Codec) (max : Nat) (msgs : List (Bytes × Bytes)) (rest : Bytes),
    (∀ m ∈ msgs, WithinLimits max none m.1 m.2 ∧ Knows c m.1 m.2) →
    clientReadN c max msgs.length ((msgs.map fun m => legacyFrame m.1 m.2).flatten ++ rest) =
      .ok (msgs.map fun m => ⟨m.1, m.2, none⟩))

def Safe : Prop :=
  ∀ (c : Codec) (max : Nat) (data : Bytes),
    mdUnmarshal data ≠ .error .panic ∧ unmarshal c data ≠ .error .panic ∧
    unmarshalWithMeta c data ≠ .error .panic ∧ serverDecode c data ≠ .error .panic ∧
    clientDecode c data ≠ .error .panic ∧ readFrame max data ≠ .error .panic ∧
    (readAll max data).2 ≠ .panic ∧
    (∀ n, allocRequest max data = some n → n ≤ max) ∧
    (∀ f ∈ (readAll max data).1, f.length ≤ max)

def DeadlineTolerance : Prop :=
  (∀ d now : Int, -2 ^ 63 ≤ remainingOf d now ∧ remainingOf d now < 2 ^ 63 ∧ (remainingOf d now = 0 ↔ d = 0)) ∧
  (∀ d ts tr : Int, d ≠ 0 → (-2 ^ 63 ≤ d - ts ∧ d - ts < 2 ^ 63) →
    (-2 ^ 63 ≤ d + (tr - ts) - 1 ∧ d + (tr - ts) < 2 ^ 63) →
    deadlineOf tr (remainingOf d ts) = if d = ts then tr - 1 else d + (tr - ts)) ∧
  (∀ ts tr : Int, deadlineOf tr (remainingOf 0 ts) = 0)

/-- the full property: both receivers decode every encoded frame, whatever the format; streams are
    read frame by frame in order; every decoder is total and memory safe within the frame limit;
    the deadline survives the transfer up to the clock difference -/
def C23_full : Prop :=
  RoundTripServer ∧ RoundTripClient ∧ Concat ∧ Safe ∧ DeadlineTolerance

theorem roundTripServer_holds : RoundTripServer := by
  intro c max e name payload hw hk
  obtain ⟨h1, h2⟩ := roundtrip_server c max e name payload hw hk
  refine ⟨h1, h2, ?_⟩
  have := concat_server c max [(e, name, payload)] (by simpa using ⟨hw, hk⟩)
  simpa [frames] using this

theorem concat_holds : Concat := by
  refine ⟨concat_read, concat_server, ?_⟩
  intro c max msgs rest h
  have := concat_client c max (msgs.map fun m => ((none : Enc), m.1, m.2)) rest (by
    intro m hm
    simp only [List.mem_map] at hm
    obtain ⟨x, hx, rfl⟩ := hm
    exact h x hx)
  simpa [frames, encFrame, expected, Function.comp_def] using this

theorem safe_holds : Safe := by
  intro c max data
  obtain ⟨a, b, c', d, e, f, g⟩ := decoders_total c max data
  exact ⟨a, b, c', d, e, f, g, fun n h => (allocRequest_le h).2, (readAll_frames max data).1⟩

theorem deadline_holds : DeadlineTolerance :=
  ⟨fun d now => ⟨(remainingOf_range d now).1, (remainingOf_range d now).2, remainingOf_eq_zero d now⟩,
   deadline_transfer, deadline_none⟩

theorem C23_holds : C23_full :=
  ⟨roundTripServer_holds, roundtrip_client, concat_holds, safe_holds, deadline_holds⟩

end GoaktVerif.C23

/-
C38 — CRDT merge is a join: commutative, associative, idempotent.

"For every reachable state of every CRDT type (GCounter, PNCounter, Flag, LWWRegister, MVRegister,
 ORSet, ORMap), merging is commutative, associative and idempotent with respect to the observable
 value, merging never shrinks the information already present, and merging or cloning never
 modifies its inputs."

Models: Model/Crdt/*.lean (one file per Go file of /repo/crdt, field by field, incl. the delta / dirty
bookkeeping).  "Reachable" is an inductive predicate per type: every value obtainable from New…() by
the public operations in any order, with any arguments, merged with any other reachable value in any
grouping, incl. Delta / ResetDelta / Clone / Compact.  For MVRegister reachability is stated on whole
systems (`MVRegister.World`): the laws need that a node id is used by one replica only (the contract
of the nodeID parameter), which is a property of a system, not of one value.

"Observable value" per type (`eqv…`): the replicated part of the state and the public value, without
the delta/dirty bookkeeping (Merge takes it from the receiver or clears it, by design) and without slice
order.  "Information" (`le…`, Spec/C38.lean): pointwise ≤ for counters, the write stamp for LWW, the
causal order of dot stores for MVRegister / ORSet / ORMap (context grows; nothing seen-and-absent
comes back).  Purity holds by construction (Lean functions cannot modify their arguments, `clone` is
the identity); on the Go side it is checked by the harness (before/after dumps, mutation of results).

Outcome: the statement is FALSE for the current code in one place (replayed on the real code,
corpus/C38/witnesses.case): ORMap.Merge is not associative on values when a key is removed in one
operand and concurrently set in another (C38-F2).  `C38_refuted` proves the negation with an explicit
witness, `C38_partial` is the strongest true statement: everything else, and ORMap associativity on the
key set always and on values under the decidable guard `ORMap.noResurrect`.
History (C38-F1, fixed): LWWRegister.Merge resolves a full (timestamp, node) tie in favour of its
receiver, and Set used to let one node write two values under one stamp (two Sets within one clock
reading), so Merge was not commutative on reachable registers.  Set now orders such a write right
after the stored one; `LWW_join` proves the laws for every reachable system of replicas that write
under their own node id (as for MVRegister).  `LWW_comm_shared_node_refuted` records why the node-id
contract is needed: two replicas writing under ONE node id still produce one stamp for two values.

Tie to /repo: differential run of the real crdt package against these models after every operation
(tools/props/c38.py, harness/verifdrv/c38), and the same laws evaluated on the implementation's own
merges by Spec.C38.judgeOutput.
-/
import GoaktVerif.Lemmas.C38.Counters
import GoaktVerif.Lemmas.C38.LWWReach
import GoaktVerif.Lemmas.C38.MVReach
import GoaktVerif.Lemmas.C38.ORSetReach
import GoaktVerif.Lemmas.C38.ORMapReach

set_option linter.unusedVariables false
namespace GoaktVerif.C38
open GoaktVerif.Model.Crdt GoaktVerif.Spec.C38

/-- the ORMap instance used throughout: values are reachable GCounters -/
abbrev OMReach : ORMap GCounter → Prop := ORMap.Reachable GCounter.Reachable

/-- "merging or cloning never modifies its inputs": in the model every operation is a function on
    immutable values and Clone returns an equal value -/
def ClonePure : Prop :=
  (∀ x : GCounter, x.clone = x) ∧ (∀ x : PNCounter, x.clone = x) ∧ (∀ x : Flag, x.clone = x) ∧
  (∀ x : LWWRegister, x.clone = x) ∧ (∀ x : MVRegister, x.clone = x) ∧ (∀ x : ORSet, x.clone = x) ∧
  (∀ x : ORMap GCounter, x.clone = x)

/-- the full property -/
def C38_full : Prop :=
  JoinLaws GCounter.Reachable GCounter.merge eqvGC leGC ∧
  JoinLaws PNCounter.Reachable PNCounter.merge eqvPN lePN ∧
  JoinLaws Flag.Reachable Flag.merge eqvFlag leFlag ∧
  (∀ w, LWWRegister.World.Reachable w → JoinLaws w.has LWWRegister.merge eqvLWW leLWW) ∧
  (∀ w, MVRegister.World.Reachable w → JoinLaws w.has MVRegister.merge eqvMV leMV) ∧
  JoinLaws ORSet.Reachable ORSet.merge eqvOS leOS ∧
  JoinLaws OMReach ORMap.merge (eqvOM eqvGC) (leOM leGC) ∧
  ClonePure

/-! ### per-type theorems -/

theorem GCounter_join : JoinLaws GCounter.Reachable GCounter.merge eqvGC leGC := GCounter.joinLaws

theorem PNCounter_join : JoinLaws PNCounter.Reachable PNCounter.merge eqvPN lePN := PNCounter.joinLaws

theorem Flag_join : JoinLaws Flag.Reachable Flag.merge eqvFlag leFlag where
  comm x y _ _ := Flag.joinLaws.comm x y trivial trivial
  assoc x y z _ _ _ := Flag.joinLaws.assoc x y z trivial trivial trivial
  idem x _ := Flag.joinLaws.idem x trivial
  infl x y _ _ := Flag.joinLaws.infl x y trivial trivial

/-- LWW: a join on every family of registers (reachable or not) in which a stamp determines the value -/
theorem LWW_join_unique_stamps (S : LWWRegister → Prop) (hS : ∀ x y, S x → S y → StampsAgree x y) :
    JoinLaws S LWWRegister.merge eqvLWW leLWW := LWW.joinLaws S hS

/-- LWW: associativity, idempotence and inflation need no hypothesis at all -/
theorem LWW_assoc_idem_infl :
    (∀ x y z : LWWRegister, eqvLWW ((x.merge y).merge z) (x.merge (y.merge z))) ∧
    (∀ x : LWWRegister, eqvLWW (x.merge x) x) ∧
    (∀ x y : LWWRegister, leLWW x (x.merge y) = true ∧ leLWW y (x.merge y) = true) :=
  ⟨LWW.assoc, LWW.idem, LWW.infl⟩

/-- LWW: a join on the registers of every reachable system of replicas writing under their own node id -/
theorem LWW_join (w : LWWRegister.World) (h : LWWRegister.World.Reachable w) :
    JoinLaws w.has LWWRegister.merge eqvLWW leLWW := LWW.joinLaws_world h

/-- without the node-id contract (per-value reachability: two replicas may write under one node id)
    commutativity fails; this is the precondition of `LWW_join`, not a defect -/
theorem LWW_comm_shared_node_refuted :
    ¬ (∀ x y, LWWRegister.Reachable x → LWWRegister.Reachable y → eqvLWW (x.merge y) (y.merge x)) :=
  LWW.comm_refuted

theorem MV_join (w : MVRegister.World) (h : MVRegister.World.Reachable w) :
    JoinLaws w.has MVRegister.merge eqvMV leMV := MV.joinLaws h

theorem ORSet_join : JoinLaws ORSet.Reachable ORSet.merge eqvOS leOS := ORSet.joinLaws

/-! ### ORMap, for any value CRDT with its own join laws -/

theorem ORMap_comm_idem_infl {V : Type} [CrdtValue V] {RV : V → Prop} {eqvV : V → V → Prop} {leV : V → V → Bool}
    (VL : ValueLaws RV eqvV leV) :
    (∀ x y, ORMap.Reachable RV x → ORMap.Reachable RV y → eqvOM eqvV (x.merge y) (y.merge x)) ∧
    (∀ x, ORMap.Reachable RV x → eqvOM eqvV (x.merge x) x) ∧
    (∀ x y, ORMap.Reachable RV x → ORMap.Reachable RV y →
      leOM leV x (x.merge y) = true ∧ leOM leV y (x.merge y) = true) :=
  ⟨fun x y hx hy => ORMap.comm VL (ORMap.wf_of_reachable VL hx) (ORMap.wf_of_reachable VL hy),
   fun x hx => ORMap.idem VL (ORMap.wf_of_reachable VL hx),
   fun x y hx hy => ORMap.infl VL (ORMap.wf_of_reachable VL hx) (ORMap.wf_of_reachable VL hy)⟩

/-- associativity on values when no key is dropped by an inner merge and brought back by the third operand -/
theorem ORMap_assoc_guarded {V : Type} [CrdtValue V] {RV : V → Prop} {eqvV : V → V → Prop} {leV : V → V → Bool}
    (VL : ValueLaws RV eqvV leV) (x y z : ORMap V)
    (hx : ORMap.Reachable RV x) (hy : ORMap.Reachable RV y) (hz : ORMap.Reachable RV z)
    (hg : ORMap.noResurrect x y z = true) :
    eqvOM eqvV ((x.merge y).merge z) (x.merge (y.merge z)) :=
  ORMap.assoc VL (ORMap.wf_of_reachable VL hx) (ORMap.wf_of_reachable VL hy) (ORMap.wf_of_reachable VL hz) hg

/-- associativity on the key set (clock, dots, Keys()) needs no guard -/
theorem ORMap_assoc_keys {V : Type} [CrdtValue V] {RV : V → Prop} {eqvV : V → V → Prop} {leV : V → V → Bool}
    (VL : ValueLaws RV eqvV leV) (x y z : ORMap V)
    (hx : ORMap.Reachable RV x) (hy : ORMap.Reachable RV y) (hz : ORMap.Reachable RV z) :
    eqvOS ((x.merge y).merge z).keys (x.merge (y.merge z)).keys :=
  ORMap.assoc_keys (ORMap.wf_of_reachable VL hx) (ORMap.wf_of_reachable VL hy) (ORMap.wf_of_reachable VL hz)

/-! ### the GCounter-valued instance -/

theorem OMReach_wf {m : ORMap GCounter} (h : OMReach m) : ORMap.Reachable GCounter.WF m := by
  induction h with
  | new => exact .new
  | set n k v _ hv ih => exact .set n k v ih (GCounter.wf_of_reachable hv)
  | remove k _ ih => exact .remove k ih
  | merge _ _ ih1 ih2 => exact .merge ih1 ih2
  | delta _ hd ih => exact .delta ih hd
  | resetDelta _ ih => exact .resetDelta ih
  | clone _ ih => exact .clone ih
  | compact _ ih => exact .compact ih

/-- witness of C38-F2: x holds key 7; y is x with key 7 removed; z sets key 7 concurrently -/
def omX : ORMap GCounter := ORMap.new.set 1 7 (GCounter.new.increment 1 5)
def omY : ORMap GCounter := omX.remove 7
def omZ : ORMap GCounter := ORMap.new.set 2 7 (GCounter.new.increment 2 3)

theorem omX_reach : OMReach omX := .set _ _ _ .new (.increment _ _ .new)
theorem omY_reach : OMReach omY := .remove _ omX_reach
theorem omZ_reach : OMReach omZ := .set _ _ _ .new (.increment _ _ .new)

/-- C38-F2 -/
theorem ORMap_assoc_refuted :
    ¬ (∀ x y z, OMReach x → OMReach y → OMReach z →
        eqvOM eqvGC ((x.merge y).merge z) (x.merge (y.merge z))) := by
  intro h
  have h7 := (h omX omY omZ omX_reach omY_reach omZ_reach).2 7
  have e1 : ((omX.merge omY).merge omZ).values.get? 7 = some ⟨[(2, 3)], [(2, 3)]⟩ := by decide
  have e2 : (omX.merge (omY.merge omZ)).values.get? 7 = some ⟨[(1, 5), (2, 3)], [(1, 5)]⟩ := by decide
  rw [e1, e2] at h7
  exact absurd h7.1 (by decide)

/-! ### refutation of the full statement and the strongest true part -/

theorem C38_refuted : ¬ C38_full := fun h =>
  ORMap_assoc_refuted fun x y z hx hy hz => h.2.2.2.2.2.2.1.assoc x y z hx hy hz

/-- everything that is true of the current code -/
def C38_partial_stmt : Prop :=
  JoinLaws GCounter.Reachable GCounter.merge eqvGC leGC ∧
  JoinLaws PNCounter.Reachable PNCounter.merge eqvPN lePN ∧
  JoinLaws Flag.Reachable Flag.merge eqvFlag leFlag ∧
  (∀ w, LWWRegister.World.Reachable w → JoinLaws w.has LWWRegister.merge eqvLWW leLWW) ∧
  -- LWW, also outside reachable systems: any family of registers in which a stamp determines the value
  (∀ S : LWWRegister → Prop, (∀ x y, S x → S y → StampsAgree x y) →
      JoinLaws S LWWRegister.merge eqvLWW leLWW) ∧
  (∀ w, MVRegister.World.Reachable w → JoinLaws w.has MVRegister.merge eqvMV leMV) ∧
  JoinLaws ORSet.Reachable ORSet.merge eqvOS leOS ∧
  -- ORMap: everything but associativity on values …
  (∀ x y, OMReach x → OMReach y → eqvOM eqvGC (x.merge y) (y.merge x)) ∧
  (∀ x, OMReach x → eqvOM eqvGC (x.merge x) x) ∧
  (∀ x y, OMReach x → OMReach y → leOM leGC x (x.merge y) = true ∧ leOM leGC y (x.merge y) = true) ∧
  (∀ x y z, OMReach x → OMReach y → OMReach z →
      eqvOS ((x.merge y).merge z).keys (x.merge (y.merge z)).keys) ∧
  -- … and associativity on values under the decidable guard
  (∀ x y z, OMReach x → OMReach y → OMReach z → ORMap.noResurrect x y z = true →
      eqvOM eqvGC ((x.merge y).merge z) (x.merge (y.merge z))) ∧
  ClonePure

theorem C38_partial : C38_partial_stmt := by
  have om := ORMap_comm_idem_infl GCounter.valueLaws
  refine ⟨GCounter_join, PNCounter_join, Flag_join, LWW_join, LWW_join_unique_stamps, MV_join, ORSet_join,
    fun x y hx hy => om.1 x y (OMReach_wf hx) (OMReach_wf hy),
    fun x hx => om.2.1 x (OMReach_wf hx),
    fun x y hx hy => om.2.2 x y (OMReach_wf hx) (OMReach_wf hy),
    fun x y z hx hy hz => ORMap_assoc_keys GCounter.valueLaws x y z (OMReach_wf hx) (OMReach_wf hy) (OMReach_wf hz),
    fun x y z hx hy hz hg =>
      ORMap_assoc_guarded GCounter.valueLaws x y z (OMReach_wf hx) (OMReach_wf hy) (OMReach_wf hz) hg,
    ⟨fun _ => rfl, fun _ => rfl, fun _ => rfl, fun _ => rfl, fun _ => rfl, fun _ => rfl, fun _ => rfl⟩⟩

/-! ### non-vacuity: non-trivial instances of every hypothesis -/

/-- a reachable ORSet with concurrent adds, a remove, a delta and a compaction -/
example : ORSet.Reachable
    (((ORSet.new.add 1 0).add 1 1).merge (((ORSet.new.add 2 0).remove 0).add 2 1)).compact :=
  .compact (.merge (.add _ _ (.add _ _ .new)) (.add _ _ (.remove _ (.add _ _ .new))))

/-- a reachable MVRegister world: replicas 1 and 2 write concurrently; their values merge to both writes -/
example : ∃ w : MVRegister.World, MVRegister.World.Reachable w ∧
    ∃ x y, w.has x ∧ w.has y ∧ (x.merge y).values = [5, 6] := by
  let w0 : MVRegister.World := ⟨fun _ => MVRegister.new, []⟩
  have r1 : MVRegister.World.Reachable (w0.setReplica 1 ((w0.replica 1).set 1 5)) := .set 1 5 .init
  have r2 := MVRegister.World.Reachable.set 2 6 r1
  refine ⟨_, r2, MVRegister.new.set 1 5, MVRegister.new.set 2 6, Or.inr ⟨1, by decide⟩, Or.inr ⟨2, by decide⟩, by decide⟩

/-- a reachable LWW world: replica 1 writes twice within one clock reading (the second write is ordered
    after the first), replica 2 writes concurrently under the same timestamp -/
example : ∃ w : LWWRegister.World, LWWRegister.World.Reachable w ∧
    (w.replica 1).timestamp = 10 ∧ (w.replica 1).value = some 3 ∧ (w.replica 2).timestamp = 9 := by
  let w0 : LWWRegister.World := ⟨fun _ => LWWRegister.new, []⟩
  have r1 := LWWRegister.World.Reachable.set 1 2 9 .init (by decide)
  have r2 := LWWRegister.World.Reachable.set 1 3 9 r1 (by decide)
  have r3 := LWWRegister.World.Reachable.set 2 4 9 r2 (by decide)
  exact ⟨_, r3, by decide, by decide, by decide⟩

/-- a family of LWW registers in which a stamp determines the value: two writes with different stamps -/
example : ∀ x y, (x = lwwA ∨ x = LWWRegister.new.set 3 10 1) → (y = lwwA ∨ y = LWWRegister.new.set 3 10 1) →
    StampsAgree x y := by
  intro x y hx hy
  rcases hx with rfl | rfl <;> rcases hy with rfl | rfl <;> intro h <;> first | rfl | (revert h; decide)

/-- the ORMap guard holds on a non-trivial triple: z removed a key that x and y hold, nobody re-added it -/
example : ORMap.noResurrect omX (omX.set 1 8 (GCounter.new.increment 1 1)) ((omX.set 1 8 (GCounter.new.increment 1 1)).remove 7) = true := by
  decide

/-- and fails on the witness of C38-F2 -/
example : ORMap.noResurrect omX omY omZ = false := by decide

/-- GCounter values satisfy the hypotheses asked of an ORMap value type -/
example : ValueLaws GCounter.WF eqvGC leGC := GCounter.valueLaws

end GoaktVerif.C38

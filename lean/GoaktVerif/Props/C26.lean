/-
C26 — Actor addresses survive their text form.

"For every valid actor address (any valid system and actor names, host names or IPv4/IPv6 hosts,
 ports, and an optional parent), parsing its string form yields an address equal to it with the
 same parent name, and the host:port extracted from the string equals the address's host and
 port. Parsing any string never panics."
 (quantifier: all addresses accepted by address validation, and all strings for the no-panic part)

Model: Model/C26.lean (internal/address/address.go as it is now: fix 59b56d7 — the port is what
follows the LAST colon —, fix 2166441 — Validate rejects hosts containing '/' or '@').
Tie: differential run of the real New/NewWithParent/String/Parse/HostPortOf/FormatHostPort/HostPort/
Validate against these definitions (tools/props/c26.py).

Result.
* `C26_full`: every ACTOR address accepted by Validate (i.e. not the all-empty NoSender sentinel, which
  stands for "no actor") round-trips.  `C26_holds` proves it: any name up to 255 bytes, any port
  0..65535, IPv6 hosts with any number of colons, zones, any parent chain.
* `C26_hostLike`: the corollary on the domain the English sentence names.
* `C26_total`: Parse reaches no slice-bounds panic on any string.
* `C26_sentinel_corner`: the sentinel is excluded for a reason — Validate returns nil for it before
  looking at a parent, so `NewWithParent("", "", "", 0, New("x/y", …))` validates and does not round-trip.
* history: before 2166441 Validate never inspected the host's characters and host "::1/64" validated but
  parsed to a different address (former finding C26-F2, now fixed).
-/
import GoaktVerif.Model.C26
import GoaktVerif.Spec.C26
import GoaktVerif.Lemmas.C26

namespace GoaktVerif.C26
open GoaktVerif.Model.C26 GoaktVerif.Spec.C26

/-! ### Parse on a string of the shape String() produces -/

theorem parse_shape (sys host P path : Str) (port : Int)
    (hsys : ∀ c ∈ sys, c ≠ ':' ∧ c ≠ '/' ∧ c ≠ '@')
    (hhost : '/' ∉ host ∧ '@' ∉ host)
    (hP : ∀ c ∈ P, c ≠ ':' ∧ c ≠ '/' ∧ c ≠ '@') (hPp : parseInt32 P = .ok port)
    (hpath0 : hasPrefix path ['/'] = false) (hpathd : dblSlash path = false) (hpathA : '@' ∉ path) :
    parse (scheme ++ sepScheme ++ sys ++ ['@'] ++ host ++ [':'] ++ P ++ ['/'] ++ path) = finish sys host port path := by
  -- name the pieces
  let HP := host ++ ':' :: P
  let H := HP ++ '/' :: path
  let R := sys ++ '@' :: H
  have hstr : scheme ++ sepScheme ++ sys ++ ['@'] ++ host ++ [':'] ++ P ++ ['/'] ++ path
      = 'g' :: 'o' :: 'a' :: 'k' :: 't' :: ':' :: '/' :: '/' :: R := by
    simp [scheme, sepScheme, R, H, HP, List.append_assoc]
  have hHPslash : '/' ∉ HP := by
    intro h
    simp only [HP, List.mem_append, List.mem_cons] at h
    rcases h with h | h | h
    · exact hhost.1 h
    · exact absurd h (by decide)
    · exact (hP _ h).2.1 rfl
  have hHPat : '@' ∉ HP := by
    intro h
    simp only [HP, List.mem_append, List.mem_cons] at h
    rcases h with h | h | h
    · exact hhost.2 h
    · exact absurd h (by decide)
    · exact (hP _ h).2.2 rfl
  have hsysAt : '@' ∉ sys := fun h => (hsys _ h).2.2 rfl
  have hsysSl : '/' ∉ sys := fun h => (hsys _ h).2.1 rfl
  -- 1. Cut at "://"
  have h1 : cut? sepScheme ('g' :: 'o' :: 'a' :: 'k' :: 't' :: ':' :: '/' :: '/' :: R) = some (scheme, R) := by
    simp [cut?, hasPrefix, sepScheme, scheme]
  -- 2. no second "://"
  have h2 : contains R sepScheme = false := by
    cases hc : contains R sepScheme with
    | false => rfl
    | true =>
      have hd := dblSlash_of_contains R hc
      have hA : '/' ∉ sys ++ '@' :: HP := by
        intro h
        simp only [List.mem_append, List.mem_cons] at h
        rcases h with h | h | h
        · exact hsysSl h
        · exact absurd h (by decide)
        · exact hHPslash h
      have := dblSlash_join (sys ++ '@' :: HP) path hA hpath0 hpathd
      have hR : R = (sys ++ '@' :: HP) ++ '/' :: path := by simp [R, H, List.append_assoc]
      rw [hR, this] at hd
      exact absurd hd (by decide)
  -- 3. Cut at "@", no second "@"
  have h3 : cut? ['@'] R = some (sys, H) := cut_single '@' sys H hsysAt
  have h4 : contains H ['@'] = false := by
    apply contains_single_false
    intro h
    simp only [H, List.mem_append, List.mem_cons] at h
    rcases h with h | h | h
    · exact hHPat h
    · exact absurd h (by decide)
    · exact hpathA h
  -- 4. Cut at "/"
  have h5 : cut? ['/'] H = some (HP, path) := cut_single '/' HP path hHPslash
  -- 5. last colon, slices, port
  have hPc : ':' ∉ P := fun h => (hP _ h).1 rfl
  have h6 : lastIndex ':' HP = some host.length := lastIndex_join ':' host P hPc
  have h7 : sliceTo HP host.length = some host := sliceTo_join host (':' :: P)
  have h8 : sliceFrom HP (host.length + 1) = some P := sliceFrom_join ':' host P
  have h9 : splitHostPort HP = .ok host P := by simp only [splitHostPort, h6, h7, h8]
  rw [hstr]
  simp only [parse, List.isEmpty_cons, Bool.false_eq_true, if_false, h1, h2, h3, h4, h5, hpath0, h9, hPp,
    ne_eq, not_true_eq_false]

/-! ### the guard and its consequences -/

/-- the decidable guard: accepted by Validate and not the all-empty NoSender sentinel -/
def guard (a : Addr) : Bool := validate a && !a.self.isZero

theorem selfOK_facts (n : Node) (h : selfOK n = true) :
    0 ≤ n.port ∧ n.port ≤ 65535 ∧ matchesPattern n.system = true ∧ matchesPattern (trimSpace n.name) = true ∧ n.name ≠ [] ∧
    ('/' ∉ n.host ∧ '@' ∉ n.host) := by
  simp only [selfOK, tcpOK, Bool.and_eq_true, decide_eq_true_eq, Bool.not_eq_true', List.contains_eq_mem,
    decide_eq_false_iff_not] at h
  obtain ⟨⟨⟨⟨⟨⟨⟨⟨hp0, hp1⟩, _⟩, hc⟩, _⟩, hne⟩, _⟩, hs⟩, hn⟩ := h
  refine ⟨hp0, hp1, hs, hn, ?_, hc⟩
  intro e; simp [e] at hne

/-- for a guarded address: the node checks hold, and an effective parent (one String() prints) has
    a name whose trimmed form matches the pattern -/
theorem guard_facts (a : Addr) (h : guard a = true) :
    selfOK a.self = true ∧ ('/' ∉ a.self.host ∧ '@' ∉ a.self.host) ∧
    (a.parentName ≠ [] → matchesPattern (trimSpace a.parentName) = true) := by
  suffices hs : selfOK a.self = true ∧ (a.parentName ≠ [] → matchesPattern (trimSpace a.parentName) = true) from
    ⟨hs.1, (selfOK_facts a.self hs.1).2.2.2.2.2, hs.2⟩
  obtain ⟨self, anc⟩ := a
  simp only [guard, validate, Bool.and_eq_true, Bool.not_eq_true'] at h
  obtain ⟨hv, hz⟩ := h
  cases anc with
  | nil =>
    simp only [validateChain, hz, Bool.false_or] at hv
    exact ⟨hv, by simp [Addr.parentName]⟩
  | cons p rest =>
    simp only [validateChain, hz, Bool.false_eq_true, if_false] at hv
    cases hpz : p.isZero with
    | true =>
      simp only [hpz, if_true] at hv
      exact ⟨hv, by simp [Addr.parentName, hpz]⟩
    | false =>
      simp only [hpz, Bool.false_eq_true, if_false, Bool.and_eq_true] at hv
      obtain ⟨⟨⟨⟨⟨hs, hpv⟩, _⟩, _⟩, _⟩, _⟩ := hv
      refine ⟨hs, ?_⟩
      intro _
      simp only [Addr.parentName, hpz, Bool.false_eq_true, if_false]
      -- the parent validated: it is not zero, so its own node checks hold
      cases rest with
      | nil =>
        simp only [validateChain, hpz, Bool.false_or] at hpv
        exact (selfOK_facts p hpv).2.2.2.1
      | cons q r =>
        simp only [validateChain, hpz, Bool.false_eq_true, if_false] at hpv
        cases hqz : q.isZero with
        | true => simp only [hqz, if_true] at hpv; exact (selfOK_facts p hpv).2.2.2.1
        | false =>
          simp only [hqz, Bool.false_eq_true, if_false, Bool.and_eq_true] at hpv
          exact (selfOK_facts p hpv.1.1.1.1.1).2.2.2.1

/-- the address Parse returns for the text form of `a`: same four fields, and a parent (built by
    `New(parentName, system, host, port)`) exactly when String() printed one -/
def reparsed (a : Addr) : Addr :=
  ⟨a.self, if a.parentName.isEmpty then [] else [⟨a.parentName, a.self.system, a.self.host, a.self.port⟩]⟩

/-- **round trip, parse side**: for every guarded address `Parse(String())` succeeds and returns
    the same name, system, host and port, with a parent carrying the same name -/
theorem parse_build (a : Addr) (h : guard a = true) : parse (build a) = .ok (reparsed a) := by
  obtain ⟨hself, hhost, hpar⟩ := guard_facts a h
  obtain ⟨hp0, hp1, hsys, hname, hnn, _⟩ := selfOK_facts a.self hself
  have hsysc := system_clean _ hsys
  have hnamec := name_clean _ hname
  have hP := intDigits_clean a.self.port hp0
  have hPp := parseInt32_intDigits a.self.port hp0 (by omega)
  have hnameSl : '/' ∉ a.self.name := fun h => (hnamec _ h).2.1 rfl
  have hnameAt : '@' ∉ a.self.name := fun h => (hnamec _ h).2.2 rfl
  have hname0 : hasPrefix a.self.name ['/'] = false := by
    cases hn : a.self.name with
    | nil => exact absurd hn hnn
    | cons x xs =>
      have : x ≠ '/' := fun e => hnameSl (by simp [hn, e])
      simp [hasPrefix, this]
  cases hpn : a.parentName with
  | nil =>
    have hb : build a = scheme ++ sepScheme ++ a.self.system ++ ['@'] ++ a.self.host ++ [':'] ++ intDigits a.self.port ++ ['/'] ++ a.self.name := by
      simp [build, hpn]
    rw [hb, parse_shape a.self.system a.self.host _ a.self.name a.self.port hsysc hhost hP hPp hname0
      (dblSlash_noSlash _ hnameSl) hnameAt]
    simp [finish, cut_single_none '/' _ hnameSl, reparsed, hpn]
  | cons x xs =>
    have hpm := hpar (by simp [hpn])
    rw [hpn] at hpm
    have hpc := name_clean _ hpm
    have hpSl : '/' ∉ x :: xs := fun h => (hpc _ h).2.1 rfl
    have hpAt : '@' ∉ x :: xs := fun h => (hpc _ h).2.2 rfl
    have hb : build a = scheme ++ sepScheme ++ a.self.system ++ ['@'] ++ a.self.host ++ [':'] ++ intDigits a.self.port ++ ['/'] ++
        ((x :: xs) ++ '/' :: a.self.name) := by
      simp [build, hpn, List.append_assoc]
    have hpath0 : hasPrefix ((x :: xs) ++ '/' :: a.self.name) ['/'] = false := by
      have : x ≠ '/' := fun e => hpSl (by simp [e])
      simp [hasPrefix, this]
    have hpathd := dblSlash_join (x :: xs) a.self.name hpSl hname0 (dblSlash_noSlash _ hnameSl)
    have hpathA : '@' ∉ (x :: xs) ++ '/' :: a.self.name := by
      intro h
      simp only [List.mem_append, List.mem_cons] at h
      rcases h with h | h | h
      · exact hpAt (by simpa using h)
      · exact absurd h (by decide)
      · exact hnameAt h
    rw [hb, parse_shape a.self.system a.self.host _ _ a.self.port hsysc hhost hP hPp hpath0 hpathd hpathA]
    simp only [finish, cut_single '/' (x :: xs) a.self.name hpSl, contains_single_false '/' _ hnameSl]
    simp [reparsed, hpn]

/-- **round trip, endpoint side**: `HostPortOf(String())` finds exactly `host:port`, which is also
    `FormatHostPort(host, port)` and `HostPort()` -/
theorem hostPortOf_build (a : Addr) (h : guard a = true) :
    hostPortOf (build a) = (hostPort a.self, true) ∧ hostPort a.self = formatHostPort a.self.host a.self.port := by
  obtain ⟨hself, hhost, _⟩ := guard_facts a h
  obtain ⟨hp0, _, hsys, _, _, _⟩ := selfOK_facts a.self hself
  have hsysc := system_clean _ hsys
  have hP := intDigits_clean a.self.port hp0
  refine ⟨?_, rfl⟩
  have hb : build a = (scheme ++ sepScheme ++ a.self.system) ++ '@' ::
      ((a.self.host ++ ':' :: intDigits a.self.port) ++ '/' :: ((if a.parentName.isEmpty then [] else a.parentName ++ ['/']) ++ a.self.name)) := by
    simp [build, List.append_assoc]
  have h1 : '@' ∉ scheme ++ sepScheme ++ a.self.system := by
    intro h
    simp only [List.mem_append] at h
    rcases h with (h | h) | h
    · revert h; decide
    · revert h; decide
    · exact (hsysc _ h).2.2 rfl
  have h2 : '/' ∉ a.self.host ++ ':' :: intDigits a.self.port := by
    intro h
    simp only [List.mem_append, List.mem_cons] at h
    rcases h with h | h | h
    · exact hhost.1 h
    · exact absurd h (by decide)
    · exact (hP _ h).2.1 rfl
  rw [hb]
  simp only [hostPortOf, cut_single '@' _ _ h1, cut_single '/' _ _ h2]
  simp [hostPort]

/-! ### the property -/

/-- what the property demands of one address, evaluated on the model's own functions through the
    spec predicate `Spec.C26.roundtripOK` (Address.Equals + same parent name + endpoint) -/
def roundtrip (a : Addr) : Prop :=
  ∃ b, parse (build a) = .ok b ∧ b.self = a.self ∧ b.parentName = a.parentName ∧
    hostPortOf (build a) = (formatHostPort a.self.host a.self.port, true)

/-- the English property: every actor address accepted by address validation (the all-empty
    NoSender sentinel is "no actor" and is excluded, see `C26_sentinel_corner`) -/
def C26_full : Prop := ∀ a : Addr, validate a = true → a.self.isZero = false → roundtrip a

theorem reparsed_parentName (a : Addr) (h : guard a = true) : (reparsed a).parentName = a.parentName := by
  unfold reparsed
  cases hpn : a.parentName with
  | nil => simp [Addr.parentName]
  | cons x xs => simp [Addr.parentName, Node.isZero]

theorem roundtrip_of_guard (a : Addr) (h : guard a = true) : roundtrip a := by
  refine ⟨reparsed a, parse_build a h, rfl, reparsed_parentName a h, ?_⟩
  have := hostPortOf_build a h
  rw [this.1, this.2]

/-- **the property holds** for every validated actor address -/
theorem C26_holds : C26_full := by
  intro a hv hz
  exact roundtrip_of_guard a (by simp [guard, hv, hz])

/-- the English sentence on the domain it names: valid names, a host name / IPv4 / IPv6 host, a
    valid port, an optional parent — all of it as decided by the real Validate -/
theorem C26_hostLike (a : Addr) (hv : validate a = true) (hh : hostLike a.self.host = true) : roundtrip a := by
  apply C26_holds a hv
  cases hz : a.self.isZero with
  | false => rfl
  | true =>
    simp only [Node.isZero, Bool.and_eq_true] at hz
    simp only [hostLike, Bool.and_eq_true, Bool.not_eq_true'] at hh
    rw [hz.1.2] at hh; exact absurd hh.1 (by decide)

/-- why the sentinel is excluded: Validate returns nil for the all-empty address before looking at
    its parent, so this one validates; its text form "goakt://@:0/x/y/" does not parse -/
def sentinelWitness : Addr := ⟨⟨[], [], [], 0⟩, [⟨['x', '/', 'y'], ['s'], ['h'], 1⟩]⟩

theorem C26_sentinel_corner : validate sentinelWitness = true ∧ parse (build sentinelWitness) = .err .format := by
  refine ⟨by decide, ?_⟩
  simp [sentinelWitness, build, Addr.parentName, Node.isZero, intDigits, natDigits, digitChar, scheme, sepScheme, parse, cut?,
    hasPrefix, contains, finish, splitHostPort, lastIndex, sliceTo, sliceFrom, parseInt32, parseUint, isDigit, digitVal]

/-- after fix 2166441 the former witness (an IPv6 host with a prefix length) no longer validates -/
example : validate ⟨⟨['a'], ['s'], [':', ':', '1', '/', '6', '4'], 80⟩, []⟩ = false := by decide

/-! ### no panic -/

theorem splitHostPort_ne_panic (hp : Str) : splitHostPort hp ≠ .panic := by
  unfold splitHostPort
  cases hl : lastIndex ':' hp with
  | none => simp
  | some sep =>
    have hlt := lastIndex_lt ':' hp sep hl
    have h1 : sliceTo hp sep = some (hp.take sep) := by simp [sliceTo]; omega
    have h2 : sliceFrom hp (sep + 1) = some (hp.drop (sep + 1)) := by simp [sliceFrom]; omega
    simp [h1, h2]

theorem finish_ne_panic (sys host : Str) (port : Int) (path : Str) : finish sys host port path ≠ .panic := by
  unfold finish
  repeat' split
  all_goals (intro h; exact Outcome.noConfusion h)

/-- **Parse never panics**: on every string the model of Parse returns an address or one of the
    five error classes; the two slice expressions are always in range -/
theorem C26_total (s : Str) : parse s ≠ .panic := by
  unfold parse
  repeat' split
  all_goals first
    | exact finish_ne_panic _ _ _ _
    | (intro h; exact Outcome.noConfusion h)
    | (exfalso; apply splitHostPort_ne_panic; assumption)

/-! ### canonical form and the NoSender sentinel -/

/-- `Parse(s).String() == s` for the text form of every guarded address (the remote server looks
    actors up by the raw wire string and retries with `addr.String()`) -/
theorem C26_canonical (a : Addr) (h : guard a = true) : build (reparsed a) = build a := by
  have hp := reparsed_parentName a h
  simp only [build, hp]
  rfl

/-- the all-empty sentinel (NoSender) without a parent also survives: "goakt://@:0/" -/
theorem C26_nosender : parse (build ⟨⟨[], [], [], 0⟩, []⟩) = .ok ⟨⟨[], [], [], 0⟩, []⟩ := by
  simp [build, Addr.parentName, intDigits, natDigits, digitChar, scheme, sepScheme, parse, cut?, hasPrefix,
    contains, finish, splitHostPort, lastIndex, sliceTo, sliceFrom, parseInt32, parseUint, isDigit, digitVal]

/-! ### the reverted fix is not this model -/

/-- the pre-fix Parse cut host and port at the FIRST colon (`strings.Cut(hostPort, ":")` and then
    rejected a port containing ':').  On the text form of an IPv6 address that test rejects: -/
theorem firstColon_rejects_ipv6 :
    (match cut? [':'] [':', ':', '1', ':', '8', '0'] with
     | some (_, portStr) => contains portStr [':']
     | none => true) = true := by decide

/-! ### non-vacuity -/

example : guard ⟨⟨['a'], ['s'], [':', ':', '1'], 3000⟩, []⟩ = true := by decide
example : guard ⟨⟨['c'], ['s'], ['f', 'e', '8', '0', ':', ':', '1', '%', 'e', '0'], 65535⟩, [⟨['p'], ['S'], ['f', 'e', '8', '0', ':', ':', '1', '%', 'e', '0'], 65535⟩]⟩ = true := by decide
example : hostLike [':', ':', '1'] = true := by decide

end GoaktVerif.C26

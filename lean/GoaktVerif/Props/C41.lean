/-
C41 — Deleted CRDT keys stay deleted until their tombstone expires.

"After a key is deleted on any replica, no replica that has received the tombstone exposes a
 value for it or accepts later updates, deltas or full-state entries for it until the tombstone
 expires."

Model: `Model/C41.lean`, the replicator's message handlers as a function
`step : Rep V → Msg V → Rep V × List (Out V)` over ABSTRACT CRDT values (any type `V`, any
merge/delta/reset/compact, any user `Modify` closure), clock values and peers' answers as inputs.
"Has received the tombstone" is a fact about one replica's state (`tombs` binds the key), so the
property is an invariant of every replica under every message sequence — the messages of the
other replicas arrive as `delta` / `tombstone` / `fullState` / `digest` / `batch` / peers'
answers, in any order, duplicated or never.

Result.  The full statement holds (`C41_holds`) — since fix eb69dd7.  Before it, `handleGet` with
`ReadFrom ≠ 0` stored what the peers answered without consulting the tombstones (the old model
proved `¬ C41_full` with the witness kept below as an example; seeded/C41-revert-fix reverts it).
-/
import GoaktVerif.Lemmas.C41

namespace GoaktVerif.C41
open GoaktVerif.Model.C41 GoaktVerif.Spec.C41

variable {V : Type}

/-- the invariant: a tombstoned key is absent from the store -/
def Inv (r : Rep V) : Prop := ∀ k, ahas r.tombs k = true → aget r.store k = none

/-- what the oracle sees of a model state -/
def viewOf (r : Rep V) : View :=
  ⟨r.store.map (·.1), r.tombs.map (fun p => (p.1, p.2.deletedAt))⟩

/-- the property-relevant kind of a message, with the response the handler produced -/
def kindOf : Msg V → List (Out V) → Kind
  | .get k _, [.value v] => .read k v.isNone
  | .readReq k, [.value v] => .read k v.isNone
  | .prune now, _ => .prune now
  | _, _ => .other

/-! ### the handlers preserve the invariant -/

theorem absorb_inv (ops : Ops V) (r : Rep V) (k dt : Nat) (v : V) (h : Inv r) :
    Inv (absorb ops r k dt v) := by
  unfold absorb
  split
  · exact h
  · rename_i hk
    split <;> (intro k' hk'; simp only at hk' ⊢; rw [aget_aset]
               have := h k' hk'
               by_cases e : k' = k
               · subst e; simp [hk'] at hk
               · simp [e, this])

theorem absorb_tombs (ops : Ops V) (r : Rep V) (k dt : Nat) (v : V) :
    (absorb ops r k dt v).tombs = r.tombs ∧ (absorb ops r k dt v).ttl = r.ttl
    ∧ (absorb ops r k dt v).nodeID = r.nodeID := by
  unfold absorb; split; · simp
  split <;> simp

theorem handleDelta_inv (ops : Ops V) (r : Rep V) (d : DeltaMsg V) (h : Inv r) :
    Inv (handleDelta ops r d) := by
  unfold handleDelta; split; · exact h
  exact absorb_inv ops r _ _ _ h

theorem handleDelta_tombs (ops : Ops V) (r : Rep V) (d : DeltaMsg V) :
    (handleDelta ops r d).tombs = r.tombs ∧ (handleDelta ops r d).ttl = r.ttl
    ∧ (handleDelta ops r d).nodeID = r.nodeID := by
  unfold handleDelta; split; · simp
  exact absorb_tombs ops r _ _ _

theorem handleTomb_inv (r : Rep V) (t : TombMsg) (h : Inv r) : Inv (handleTomb r t) := by
  unfold handleTomb; split; · exact h
  intro k' hk'
  simp only at hk' ⊢
  rw [aget_adel]
  rw [ahas_aset] at hk'
  by_cases e : k' = t.key
  · simp [e]
  · simp only [e, decide_false, Bool.false_or] at hk'
    simp [e, h k' hk']

/-- a tombstone message never removes a tombstone -/
theorem handleTomb_keeps (r : Rep V) (t : TombMsg) (k : Nat) (hk : ahas r.tombs k = true) :
    ahas (handleTomb r t).tombs k = true := by
  unfold handleTomb; split; · exact hk
  simp only; rw [ahas_aset]; simp [hk]

theorem handleTomb_ttl (r : Rep V) (t : TombMsg) :
    (handleTomb r t).ttl = r.ttl ∧ (handleTomb r t).nodeID = r.nodeID := by
  unfold handleTomb; split <;> simp

theorem foldl_absorb_inv (ops : Ops V) (es : List (Nat × Nat × V)) (r : Rep V) (h : Inv r) :
    Inv (es.foldl (fun r e => absorb ops r e.1 e.2.1 e.2.2) r) := by
  induction es generalizing r with
  | nil => exact h
  | cons e es ih => exact ih _ (absorb_inv ops r _ _ _ h)

theorem foldl_absorb_tombs (ops : Ops V) (es : List (Nat × Nat × V)) (r : Rep V) :
    (es.foldl (fun r e => absorb ops r e.1 e.2.1 e.2.2) r).tombs = r.tombs
    ∧ (es.foldl (fun r e => absorb ops r e.1 e.2.1 e.2.2) r).ttl = r.ttl := by
  induction es generalizing r with
  | nil => simp
  | cons e es ih =>
    have := ih (absorb ops r e.1 e.2.1 e.2.2)
    have h2 := absorb_tombs ops r e.1 e.2.1 e.2.2
    simp only [List.foldl_cons]
    exact ⟨this.1.trans h2.1, this.2.trans h2.2.1⟩

theorem foldl_delta_inv (ops : Ops V) (ds : List (DeltaMsg V)) (r : Rep V) (h : Inv r) :
    Inv (ds.foldl (handleDelta ops) r) := by
  induction ds generalizing r with
  | nil => exact h
  | cons d ds ih => exact ih _ (handleDelta_inv ops r d h)

theorem foldl_delta_tombs (ops : Ops V) (ds : List (DeltaMsg V)) (r : Rep V) :
    (ds.foldl (handleDelta ops) r).tombs = r.tombs ∧ (ds.foldl (handleDelta ops) r).ttl = r.ttl := by
  induction ds generalizing r with
  | nil => simp
  | cons d ds ih =>
    have := ih (handleDelta ops r d)
    have h2 := handleDelta_tombs ops r d
    simp only [List.foldl_cons]
    exact ⟨this.1.trans h2.1, this.2.trans h2.2.1⟩

theorem foldl_tomb_inv (ts : List TombMsg) (r : Rep V) (h : Inv r) : Inv (ts.foldl handleTomb r) := by
  induction ts generalizing r with
  | nil => exact h
  | cons t ts ih => exact ih _ (handleTomb_inv r t h)

theorem foldl_tomb_keeps (ts : List TombMsg) (r : Rep V) (k : Nat) (hk : ahas r.tombs k = true) :
    ahas (ts.foldl handleTomb r).tombs k = true := by
  induction ts generalizing r with
  | nil => exact hk
  | cons t ts ih => exact ih _ (handleTomb_keeps r t k hk)

theorem foldl_tomb_ttl (ts : List TombMsg) (r : Rep V) : (ts.foldl handleTomb r).ttl = r.ttl := by
  induction ts generalizing r with
  | nil => rfl
  | cons t ts ih => exact (ih _).trans (handleTomb_ttl r t).1

theorem handleUpdate_inv (ops : Ops V) (r : Rep V) (k dt : Nat) (init : V) (f : V → V) (h : Inv r) :
    Inv (handleUpdate ops r k dt init f).1 := by
  unfold handleUpdate
  split
  · exact h
  · rename_i hk
    have key : ∀ (r' : Rep V), r'.tombs = r.tombs →
        (∃ x, r'.store = aset r.store k x) → Inv r' := by
      intro r' ht ⟨x, hs⟩ k' hk'
      rw [ht] at hk'; rw [hs, aget_aset]
      by_cases e : k' = k
      · subst e; simp [hk'] at hk
      · simp [e, h k' hk']
    exact key _ rfl ⟨_, rfl⟩

theorem handleUpdate_tombs (ops : Ops V) (r : Rep V) (k dt : Nat) (init : V) (f : V → V) :
    (handleUpdate ops r k dt init f).1.tombs = r.tombs ∧ (handleUpdate ops r k dt init f).1.ttl = r.ttl := by
  unfold handleUpdate
  split <;> simp

theorem handleDelete_inv (r : Rep V) (k : Nat) (now : Int) (h : Inv r) : Inv (handleDelete r k now).1 := by
  have key : ∀ (r' : Rep V), (∃ t, r'.tombs = aset r.tombs k t) → r'.store = adel r.store k → Inv r' := by
    intro r' ⟨t, ht⟩ hs k' hk'
    rw [ht, ahas_aset] at hk'; rw [hs, aget_adel]
    by_cases e : k' = k
    · simp [e]
    · simp only [e, decide_false, Bool.false_or] at hk'
      simp [e, h k' hk']
  exact key _ ⟨_, rfl⟩ rfl

theorem handleDelete_keeps (r : Rep V) (k : Nat) (now : Int) (k' : Nat) (hk : ahas r.tombs k' = true) :
    ahas (handleDelete r k now).1.tombs k' = true ∧ (handleDelete r k now).1.ttl = r.ttl := by
  unfold handleDelete
  simp only; rw [ahas_aset]; simp [hk]

theorem handlePrune_inv (ops : Ops V) (r : Rep V) (now : Int) (h : Inv r) : Inv (handlePrune ops r now) := by
  intro k hk
  unfold handlePrune at hk ⊢
  simp only at hk ⊢
  rw [aget_map, h k (ahas_of_filter _ _ _ hk)]
  rfl

theorem handleGet_inv (ops : Ops V) (r : Rep V) (k : Nat) (peers : Option (List (Option V))) (h : Inv r) :
    Inv (handleGet ops r k peers).1 := by
  unfold handleGet
  split
  · exact h
  · rename_i hk
    cases peers with
    | none => exact h
    | some rs =>
      simp only
      split
      · intro k' hk'
        simp only at hk' ⊢
        rw [aget_aset]
        by_cases e : k' = k
        · subst e; simp [hk'] at hk
        · simp [e, h k' hk']
      · exact h

theorem handleGet_tombs (ops : Ops V) (r : Rep V) (k : Nat) (peers : Option (List (Option V))) :
    (handleGet ops r k peers).1.tombs = r.tombs ∧ (handleGet ops r k peers).1.ttl = r.ttl := by
  unfold handleGet
  split
  · exact ⟨rfl, rfl⟩
  · cases peers with
    | none => exact ⟨rfl, rfl⟩
    | some rs => simp only; split <;> exact ⟨rfl, rfl⟩

/-- a Get (local or coordinated) of a tombstoned key answers "no data" and changes nothing -/
theorem handleGet_tombed (ops : Ops V) (r : Rep V) (k : Nat) (peers : Option (List (Option V)))
    (hk : ahas r.tombs k = true) : handleGet ops r k peers = (r, [.value none]) := by
  unfold handleGet; simp [hk]

/-! ### the step theorem -/

theorem step_inv (ops : Ops V) (r : Rep V) (m : Msg V) (h : Inv r) :
    Inv (step ops r m).1 := by
  cases m with
  | update k dt init f => exact handleUpdate_inv ops r k dt init f h
  | get k peers => exact handleGet_inv ops r k peers h
  | delete k now => exact handleDelete_inv r k now h
  | tombstone t => exact handleTomb_inv r t h
  | delta d => exact handleDelta_inv ops r d h
  | fullState es => exact foldl_absorb_inv ops es r h
  | digest es => exact h
  | readReq k => exact h
  | prune now => exact handlePrune_inv ops r now h
  | batch sameDC ds ts =>
    simp only [step]
    split
    · exact h
    · exact foldl_tomb_inv ts _ (foldl_delta_inv ops ds r h)

/-- `ttl` is configuration: no message changes it -/
theorem step_ttl (ops : Ops V) (r : Rep V) (m : Msg V) : (step ops r m).1.ttl = r.ttl := by
  cases m with
  | update k dt init f => exact (handleUpdate_tombs ops r k dt init f).2
  | get k peers => exact (handleGet_tombs ops r k peers).2
  | delete k now => rfl
  | tombstone t => exact (handleTomb_ttl r t).1
  | delta d => exact (handleDelta_tombs ops r d).2.1
  | fullState es => exact (foldl_absorb_tombs ops es r).2
  | digest es => rfl
  | readReq k => rfl
  | prune now => rfl
  | batch sameDC ds ts =>
    simp only [step]
    split
    · rfl
    · exact (foldl_tomb_ttl ts _).trans (foldl_delta_tombs ops ds r).2

/-- (c): whatever the message (coordinated Gets included), a tombstone binding `(k, t)` present
    before is still bound afterwards, unless the message is a prune tick at a clock value with
    `now - t.deletedAt > ttl`. -/
theorem step_keeps (ops : Ops V) (r : Rep V) (m : Msg V) (k : Nat) (t : Tomb) (hk : (k, t) ∈ r.tombs) :
    ahas (step ops r m).1.tombs k = true ∨ ∃ now, m = .prune now ∧ now - t.deletedAt > r.ttl := by
  have hb : ahas r.tombs k = true := ahas_of_mem _ _ _ hk
  cases m with
  | update k' dt init f => left; rw [show (step ops r (.update k' dt init f)).1 = (handleUpdate ops r k' dt init f).1 from rfl, (handleUpdate_tombs ops r k' dt init f).1]; exact hb
  | get k' peers =>
    left
    show ahas (handleGet ops r k' peers).1.tombs k = true
    rw [(handleGet_tombs ops r k' peers).1]; exact hb
  | delete k' now => left; exact (handleDelete_keeps r k' now k hb).1
  | tombstone t' => left; exact handleTomb_keeps r t' k hb
  | delta d => left; rw [show (step ops r (.delta d)).1 = handleDelta ops r d from rfl, (handleDelta_tombs ops r d).1]; exact hb
  | fullState es => left; show ahas (es.foldl _ r).tombs k = true; rw [(foldl_absorb_tombs ops es r).1]; exact hb
  | digest es => left; exact hb
  | readReq k' => left; exact hb
  | prune now =>
    by_cases e : now - t.deletedAt > r.ttl
    · right; exact ⟨now, rfl, e⟩
    · left
      apply ahas_of_mem _ k t
      show (k, t) ∈ (handlePrune ops r now).tombs
      unfold handlePrune
      simp only [List.mem_filter]
      exact ⟨hk, by simp [e]⟩
  | batch sameDC ds ts =>
    left
    simp only [step]
    split
    · exact hb
    · apply foldl_tomb_keeps
      rw [(foldl_delta_tombs ops ds r).1]; exact hb

/-- a prune tick removes exactly the expired tombstones (so a key CAN come back after expiry) -/
theorem prune_expires (ops : Ops V) (r : Rep V) (now : Int) (k : Nat) (t : Tomb) :
    (k, t) ∈ (handlePrune ops r now).tombs ↔ (k, t) ∈ r.tombs ∧ ¬ (now - t.deletedAt > r.ttl) := by
  unfold handlePrune
  simp [List.mem_filter]

/-- (b): a Get — local or coordinated, whatever the peers answer — and a peer's read request for a
    tombstoned key answer "no data" -/
theorem read_none (ops : Ops V) (r : Rep V) (k : Nat) (h : Inv r) (hk : ahas r.tombs k = true) :
    (∀ peers, (step ops r (.get k peers)) = (r, [.value none])) ∧ (step ops r (.readReq k)).2 = [.value none] := by
  refine ⟨fun peers => handleGet_tombed ops r k peers hk, ?_⟩
  simp [step, h k hk]

/-- a local update / delta / full-state entry for a tombstoned key is not accepted: the state is
    unchanged and nothing is published -/
theorem rejects (ops : Ops V) (r : Rep V) (k : Nat) (hk : ahas r.tombs k = true) :
    (∀ dt init f, step ops r (.update k dt init f) = (r, [.ack]))
    ∧ (∀ o dt v, (step ops r (.delta ⟨o, k, dt, v⟩)).1 = r)
    ∧ (∀ dt v, (step ops r (.fullState [(k, dt, v)])).1 = r) := by
  refine ⟨?_, ?_, ?_⟩
  · intro dt init f; simp [step, handleUpdate, hk]
  · intro o dt v; simp only [step, handleDelta, absorb, hk]; split <;> rfl
  · intro dt v; simp [step, absorb, hk]

/-! ### tie between the model and the oracle (`Spec.C41.stepOK`) -/

theorem tombed_viewOf (r : Rep V) (k : Nat) : tombed (viewOf r) k = ahas r.tombs k := by
  unfold tombed viewOf
  rw [ahas_iff_any, List.any_map]
  rfl

theorem absentOK_of_inv (r : Rep V) (h : Inv r) : absentOK (viewOf r) = true := by
  unfold absentOK
  rw [List.all_eq_true]
  intro t ht
  have : tombed (viewOf r) t.1 = true := by
    unfold tombed; exact List.any_eq_true.mpr ⟨t, ht, by simp⟩
  rw [tombed_viewOf] at this
  have := (aget_none_iff _ _).mp (h t.1 this)
  simpa [viewOf] using this

/-- the model satisfies the oracle on every step -/
theorem step_ok (ops : Ops V) (r : Rep V) (m : Msg V) (h : Inv r) :
    stepOK r.ttl (viewOf r) (viewOf (step ops r m).1) (kindOf m (step ops r m).2) = true := by
  unfold stepOK
  simp only [Bool.and_eq_true]
  refine ⟨⟨absentOK_of_inv _ (step_inv ops r m h), ?_⟩, ?_⟩
  · -- reads
    cases m with
    | get k peers =>
      by_cases hk : ahas r.tombs k = true
      · simp only [step, handleGet_tombed ops r k peers hk, kindOf, readOK]
        simp
      · have ht : tombed (viewOf r) k = false := by rw [tombed_viewOf]; simpa using hk
        unfold kindOf
        split
        · rename_i heq _
          cases heq
          simp [readOK, ht]
        · rename_i heq _
          cases heq
        all_goals simp [readOK]
    | readReq k =>
      simp only [step, kindOf, readOK, Bool.or_eq_true, Bool.not_eq_true']
      rw [tombed_viewOf]
      by_cases hk : ahas r.tombs k = true
      · right; rw [h k hk]; rfl
      · left; simpa using hk
    | prune now => simp [kindOf, readOK]
    | update k dt init f => unfold kindOf; split <;> simp_all [readOK]
    | delete k now => unfold kindOf; split <;> simp_all [readOK]
    | tombstone t => unfold kindOf; split <;> simp_all [readOK]
    | delta d => unfold kindOf; split <;> simp_all [readOK]
    | fullState es => unfold kindOf; split <;> simp_all [readOK]
    | digest es => unfold kindOf; split <;> simp_all [readOK]
    | batch s ds ts => unfold kindOf; split <;> simp_all [readOK]
  · -- tombstones persist
    unfold keepOK
    rw [List.all_eq_true]
    intro kt hkt
    obtain ⟨p, hp, rfl⟩ := List.mem_map.mp hkt
    obtain ⟨k, t⟩ := p
    simp only [Bool.or_eq_true]
    rcases step_keeps ops r m k t hp with hkeep | ⟨now, rfl, hexp⟩
    · left; rw [tombed_viewOf]; exact hkeep
    · right; simp [kindOf, hexp]

/-! ### delivered tombstones are recorded -/

/-- the keys whose tombstone message `m` delivers to replica `r` (peer tombstones issued by `r`
    itself are ignored by handleProtoTombstone: the local delete already recorded them) -/
def deliveredOf (r : Rep V) : Msg V → List Nat
  | .delete k _ => [k]
  | .tombstone t => if t.deletedBy = r.nodeID then [] else [t.key]
  | .batch sameDC _ ts => if sameDC then [] else (ts.filter fun t => t.deletedBy != r.nodeID).map (·.key)
  | _ => []

theorem handleTomb_records (r : Rep V) (t : TombMsg) (h : t.deletedBy ≠ r.nodeID) :
    ahas (handleTomb r t).tombs t.key = true := by
  unfold handleTomb
  simp only [h, ↓reduceIte]
  rw [ahas_aset]; simp

theorem foldl_tomb_nodeID (ts : List TombMsg) (r : Rep V) : (ts.foldl handleTomb r).nodeID = r.nodeID := by
  induction ts generalizing r with
  | nil => rfl
  | cons t ts ih => exact (ih _).trans (handleTomb_ttl r t).2

theorem foldl_tomb_records (ts : List TombMsg) (r : Rep V) (t : TombMsg) (ht : t ∈ ts)
    (h : t.deletedBy ≠ r.nodeID) : ahas (ts.foldl handleTomb r).tombs t.key = true := by
  induction ts generalizing r with
  | nil => cases ht
  | cons a ts ih =>
    simp only [List.foldl_cons]
    rcases List.mem_cons.mp ht with rfl | hmem
    · exact foldl_tomb_keeps ts _ _ (handleTomb_records r t h)
    · exact ih _ hmem (by rw [(handleTomb_ttl r a).2]; exact h)

theorem foldl_delta_nodeID (ops : Ops V) (ds : List (DeltaMsg V)) (r : Rep V) :
    (ds.foldl (handleDelta ops) r).nodeID = r.nodeID := by
  induction ds generalizing r with
  | nil => rfl
  | cons d ds ih => exact (ih _).trans (handleDelta_tombs ops r d).2.2

/-- (d): every tombstone a message delivers is recorded, for a key the replica knows or not -/
theorem step_records (ops : Ops V) (r : Rep V) (m : Msg V) :
    recordOK (viewOf (step ops r m).1) (deliveredOf r m) = true := by
  unfold recordOK
  rw [List.all_eq_true]
  intro k hk
  rw [tombed_viewOf]
  cases m with
  | delete k' now =>
    simp only [deliveredOf, List.mem_singleton] at hk
    subst hk
    simp only [step, handleDelete]
    rw [ahas_aset]; simp
  | tombstone t =>
    simp only [deliveredOf] at hk
    split at hk
    · cases hk
    · rename_i hne
      simp only [List.mem_singleton] at hk
      subst hk
      exact handleTomb_records r t hne
  | batch sameDC ds ts =>
    simp only [deliveredOf] at hk
    split at hk
    · cases hk
    · rename_i hdc
      obtain ⟨t, htm, rfl⟩ := List.mem_map.mp hk
      have hf := List.mem_filter.mp htm
      simp only [step, hdc, Bool.false_eq_true, ↓reduceIte]
      apply foldl_tomb_records ts _ t hf.1
      rw [foldl_delta_nodeID]
      simpa using hf.2
  | update _ _ _ _ => cases hk
  | get _ _ => cases hk
  | delta _ => cases hk
  | fullState _ => cases hk
  | digest _ => cases hk
  | readReq _ => cases hk
  | prune _ => cases hk

/-! ### reachable states and the full statement -/

/-- states reachable from a fresh replicator by messages satisfying `P` -/
inductive Reach (ops : Ops V) (P : Msg V → Bool) : Rep V → Prop where
  | init (nodeID : Nat) (ttl : Int) : Reach ops P (Rep.init nodeID ttl)
  | step (r : Rep V) (m : Msg V) : Reach ops P r → P m = true → Reach ops P (step ops r m).1

/-- the property at one reachable state `r`, for the next message `m`:
    every tombstoned key is absent from the store, a read of it answers nothing,
    it stays tombstoned unless `m` is a prune tick past its expiry, and every tombstone `m` delivers
    is recorded ("has received the tombstone" ⇒ the key is tombstoned) -/
def holdsAt (ops : Ops V) (r : Rep V) (m : Msg V) : Prop :=
  stepOK r.ttl (viewOf r) (viewOf (step ops r m).1) (kindOf m (step ops r m).2) = true
  ∧ recordOK (viewOf (step ops r m).1) (deliveredOf r m) = true

/-- The full statement: for every CRDT value type and operations, every sequence of messages of
    every kind (any interleaving of updates, deletes, deltas, tombstones, digests, full states,
    batches, prune ticks, local and coordinated reads, with any clock values), the property holds
    at every step. -/
def C41_full : Prop :=
  ∀ (V : Type) (ops : Ops V) (r : Rep V) (m : Msg V),
    Reach ops (fun _ => true) r → holdsAt ops r m

theorem reach_inv (ops : Ops V) (P : Msg V → Bool) (r : Rep V) (h : Reach ops P r) : Inv r := by
  induction h with
  | init n ttl => intro k hk; simp [Rep.init, ahas, aget] at hk
  | step r m _ _ ih => exact step_inv ops r m ih

theorem C41_holds : C41_full := by
  intro V ops r m hr
  exact ⟨step_ok ops r m (reach_inv ops _ r hr), step_records ops r m⟩

/-- values are naturals merged by `max` -/
def natOps : Ops Nat := ⟨Nat.max, fun v => some v, id, id⟩

/-- the former counterexample (before fix eb69dd7 the replies were `[none], [some 5], [some 5]`):
    a replica deletes key 0, then handles `Get` with `ReadFrom ≠ 0` while one peer still answers 5 -/
example : (run natOps (Rep.init 0 24) [.delete 0 100, .get 0 (some [some 5]), .get 0 none]).2.map
    (fun os => os.map fun | Out.value v => v | _ => none) = [[none], [none], [none]] := by decide

/-- non-vacuity: a reachable state with a tombstone and other live data, at which update / delta /
    full state for the tombstoned key are all rejected -/
example : ∃ r : Rep Nat, Reach natOps (fun _ => true) r ∧ ahas r.tombs 1 = true ∧ ahas r.store 2 = true
    ∧ (step natOps r (.fullState [(1, 0, 7), (2, 0, 9)])).1.store = [(2, 9)] :=
  ⟨(step natOps (step natOps (step natOps (Rep.init 0 24) (.update 1 0 0 (· + 1))).1 (.update 2 0 0 (· + 3))).1 (.delete 1 100)).1,
   Reach.step _ _ (Reach.step _ _ (Reach.step _ _ (Reach.init 0 24) rfl) rfl) rfl, by decide, by decide, by decide⟩

end GoaktVerif.C41

/-
C09 — attach order (finding C09-F4, fixed by the `fix:` commit "PostStart is processed once the spawn attached
the actor to the tree").

"The actor tree stays consistent: every live actor's parent is live and registered."

A spawn does two things with the new actor: it starts it (newPID: init, PostStart queued) and it attaches it to
the tree (completeSpawn → attachAndPublish → tree.addNode(parent, pid)).  The actor's PostStart handler may itself
spawn a child, which calls tree.addNode(pid, child).  The two theorems below are about the tree model
(`Model.C09`, mirror of pid_tree.go) and say why the ORDER of these two addNode calls decides the property:

* `addNode_unknown_parent`: if the child's insertion comes first, the parent is unknown to the tree, addNode
  refuses ("parent pid does not exist") and leaves the tree as it was: the child is not registered, for every tree.
  goakt ignores that error (attachAndPublish: "other insertion failures keep the historical behavior"), so the
  child ran outside the tree.
* `attach_order_registers`: if the parent's insertion comes first and succeeded, the child's insertion succeeds,
  for every tree, and the child is registered with the parent's node as its parent.

The code is tied to the second order by the `attach` cases of the C09 check (zz_verif_c09attach.go): the spawning
goroutine is held between the two steps and the real tree is inspected afterwards.
-/
import GoaktVerif.Lemmas.C09.WF

namespace GoaktVerif.C09
open GoaktVerif.Model.C09

/-- child first: the parent is not registered, the insertion is refused and nothing changes -/
theorem addNode_unknown_parent (t : Tree) (parent p : Pid) (hp : parent.id ≠ NOS)
    (habs : aget p.id t.pids = none) (hpar : aget parent.id t.pids = none) :
    t.addNode parent p = (t, .parentMissing) := by
  simp [Tree.addNode, hp, habs, hpar]

/-- after a successful `addNode gp parent` the parent is registered and nobody else was added -/
theorem addNode_ok_registers (t t1 : Tree) (gp parent : Pid) (h : t.addNode gp parent = (t1, .ok)) :
    (aget parent.id t1.pids).map (·.pid) = some parent ∧
    (∀ k, k ≠ parent.id → aget k t.pids = none → aget k t1.pids = none) := by
  unfold Tree.addNode at h
  split at h
  · simp at h
  · split at h
    · simp at h
    · split at h
      · simp at h
      · simp only [Prod.mk.injEq, and_true] at h
        subst h
        constructor
        · simp [aget_aset]
        · intro k hk hnone
          simp only [aget_aset, hk, if_false, aget_modNode]
          split <;> simp [hnone]

/-- parent first: the child spawned by the parent's PostStart handler is registered, and its parent pointer is the
    parent's registered node object -/
theorem attach_order_registers (t t1 : Tree) (gp parent p : Pid)
    (h1 : t.addNode gp parent = (t1, .ok)) (hp : parent.id ≠ NOS) (hne : p.id ≠ parent.id)
    (habs : aget p.id t.pids = none) :
    (t1.addNode parent p).2 = .ok ∧
    (aget p.id (t1.addNode parent p).1.pids).map (·.pid) = some p ∧
    (aget p.id (t1.addNode parent p).1.pids).bind (·.parent) =
      (aget parent.id t1.pids).map (fun pn => (⟨parent.id, pn.ref⟩ : Ptr)) ∧
    (aget parent.id t1.pids).map (·.pid) = some parent := by
  obtain ⟨hreg, hrest⟩ := addNode_ok_registers t t1 gp parent h1
  have habs1 : aget p.id t1.pids = none := hrest p.id hne habs
  cases hpn : aget parent.id t1.pids with
  | none => simp [hpn] at hreg
  | some pn =>
    refine ⟨?_, ?_, ?_, ?_⟩
    · simp [Tree.addNode, hp, habs1, hpn]
    · simp [Tree.addNode, hp, habs1, hpn, aget_aset]
    · simp [Tree.addNode, hp, habs1, hpn, aget_aset]
    · simpa [hpn] using hreg

/-- non-vacuity: the concrete run of the `attach top` case (root 1, user guardian 3, P 11, K 12): child first is
    refused and K stays unregistered; parent first registers K under P -/
example :
    let t0 := ((Tree.empty.addRoot ⟨1, 1, 1⟩).1.addNode ⟨1, 1, 1⟩ ⟨3, 3, 3⟩).1
    (t0.addNode ⟨11, 11, 11⟩ ⟨12, 12, 12⟩).2 = .parentMissing ∧
    (aget 12 (t0.addNode ⟨11, 11, 11⟩ ⟨12, 12, 12⟩).1.pids).isNone = true ∧
    (t0.addNode ⟨3, 3, 3⟩ ⟨11, 11, 11⟩).2 = .ok ∧
    (((t0.addNode ⟨3, 3, 3⟩ ⟨11, 11, 11⟩).1.addNode ⟨11, 11, 11⟩ ⟨12, 12, 12⟩).1.parent 12) = some ⟨11, 11, 11⟩ := by
  decide

end GoaktVerif.C09

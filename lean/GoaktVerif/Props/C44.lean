/-
C44 — Work-pulling delivers every job to some worker.

"With a work-pulling producer and a changing set of workers, every produced job is handed to at least one
 worker and confirmed exactly once from the producer's point of view; a job held by a worker that stops is
 redelivered to another worker."

Model: Model/C44.lean — `workPullingProducerController` field by field on the volatile path: pending pool,
per-worker bindings (own sequence space, demand, unconfirmed list), round-robin cursor, producer handshake.
The theorems quantify over ALL input sequences to the controller (`List WIn`): any registrations (new
worker, replaced companion, refreshed nonce), any Request / Ack contents (legal, stale, illegal), any worker
terminations, any producer-endpoint messages and ticks, in any order and number — this covers every worker
join/leave pattern and every loss / duplication / reordering of worker traffic.
Tie: every handler of the real controller is replayed step by step under scripted worker churn
(harness/inpkg/actor/zz_verif_c44.go, Driver/C44.lean), all fields compared after every step.

Out of the model (partial): the durable work queue, controller restart, remote workers (registry
authentication), MaxInt64 exhaustion.  "Handed to at least one worker" is proved as: the controller never
keeps a job in the pool while a registered worker has free demand (`C44_dispatch_holds`), not as a temporal
statement about workers that never grant demand.
-/
import GoaktVerif.Lemmas.C44.Dispatch
import GoaktVerif.Lemmas.C44.Notices

namespace GoaktVerif.C44
open GoaktVerif.Model.C44

/-- after any input sequence from the initial controller: every job ever accepted is, as a multiset, exactly
    the jobs still held (pending pool + every worker's unconfirmed list) plus the jobs confirmed so far -/
def C44_conservation : Prop :=
  ∀ ms : List WIn, (held (runG {} ms).1 ++ (runG {} ms).2.2).Perm (runG {} ms).2.1

theorem C44_conservation_holds : C44_conservation := by
  intro ms
  have := (run_conserve {} ms (by simp [NodupNames])).1
  simpa [held, heldB] using this

/-- "exactly one of {pending, some worker's unconfirmed, confirmed}" and "confirmed once": when the producer
    endpoint never reuses a MessageID, every accepted job occurs exactly once across the pending pool, all
    unconfirmed lists and the confirmed log — so it is never lost, never held twice, never confirmed twice -/
def C44_exactly_once : Prop :=
  ∀ ms : List WIn, ((runG {} ms).2.1.map (·.id)).Nodup →
    ∀ j ∈ (runG {} ms).2.1,
      ((runG {} ms).1.pending ++ heldB (runG {} ms).1.bindings ++ (runG {} ms).2.2).count j = 1

theorem C44_exactly_once_holds : C44_exactly_once := by
  intro ms hnd j hj
  have hp := C44_conservation_holds ms
  have : ((runG {} ms).2.1).Nodup := List.Pairwise.of_map (fun x : Job => x.id) (fun a b h e => h (by rw [e])) hnd
  have hc := hp.count_eq j
  rw [this.count, if_pos hj] at hc
  simpa [held] using hc

/-- a worker's termination (or replacement) loses nothing: its binding is gone and every job is still held -/
def C44_requeue : Prop :=
  ∀ (x : WP) (n c : Nat), NodupNames x.bindings → (∃ b ∈ x.bindings, b.name = n ∧ b.comp = c) →
    (held (x.handleTerminated n c).1).Perm (held x) ∧ n ∉ (x.handleTerminated n c).1.bindings.map (·.name)

theorem C44_requeue_holds : C44_requeue := by
  intro x n c hn ⟨b, hb, hbn, hbc⟩
  unfold WP.handleTerminated
  split
  · rename_i hnone
    have := List.find?_eq_none.mp hnone b hb
    simp [hbn, hbc] at this
  · rename_i b' hf
    have hb' : b'.name = n := by
      have := List.find?_some hf; simp at this; exact this.1
    obtain ⟨hp, _, hnot⟩ := endBinding_conserve x b'.name hn
    have hpr := progress_conserve (x.endBinding b'.name)
    refine ⟨hpr.1.trans hp, ?_⟩
    rw [hpr.2, ← hb']; exact hnot

/-- `endBinding` puts the worker's unconfirmed jobs back at the head of the pending pool -/
theorem C44_endBinding_pending (x : WP) (n : Nat) (b : Binding) (h : x.find n = some b) :
    (x.endBinding n).pending = b.unconfirmed.map Disp.job ++ x.pending := by
  simp [WP.endBinding, h]

/-- the controller right after PreStart, with or without WithReliableDeliveryConfirmation -/
def start (dc : Bool) : WP := { deliveryConfirmation := dc }

/-- "confirmed exactly once from the producer's point of view": along every input sequence the
    DeliveryConfirmed notices sent to the producer endpoint are exactly the confirmed jobs, in order (none when
    the endpoint did not ask for them); with non-reused MessageIDs no MessageID is notified twice -/
def C44_confirmed_once : Prop :=
  ∀ (dc : Bool) (ms : List WIn),
    runNotices (start dc) ms = noticePairs dc (runG (start dc) ms).2.2 ∧
    (((runG (start dc) ms).2.1.map (·.id)).Nodup → ((runNotices (start dc) ms).map (·.1)).Nodup)

theorem C44_confirmed_once_holds : C44_confirmed_once := by
  intro dc ms
  have hn := run_notices (start dc) ms (by intro m hm; cases hm)
  refine ⟨hn, fun hnd => ?_⟩
  have hp := (run_conserve (start dc) ms (by simp [start, NodupNames])).1
  have hp' : (held (runG (start dc) ms).1 ++ (runG (start dc) ms).2.2).Perm (runG (start dc) ms).2.1 := by
    simpa [held, heldB, start] using hp
  have hall : ((held (runG (start dc) ms).1 ++ (runG (start dc) ms).2.2).map (·.id)).Nodup :=
    (hp'.map (·.id)).nodup_iff.mpr hnd
  have hconf : ((runG (start dc) ms).2.2.map (·.id)).Nodup := by
    rw [List.map_append] at hall
    exact (List.nodup_append.mp hall).2.1
  rw [hn]
  show ((noticePairs dc (runG (start dc) ms).2.2).map (·.1)).Nodup
  unfold noticePairs
  split
  · simpa [List.map_map, Function.comp_def] using hconf
  · simp

/-- "handed to at least one worker", as far as it is not temporal: after every input sequence a job is
    still in the pending pool only if no registered worker has free demand -/
def C44_dispatch : Prop :=
  ∀ (dc : Bool) (ms : List WIn), (runG (start dc) ms).1.pending ≠ [] → ∀ b ∈ (runG (start dc) ms).1.bindings, b.freeDemand = 0

theorem C44_dispatch_holds : C44_dispatch := by
  intro dc ms
  exact run_saturated (start dc) ms (by intro h; simp [start] at h)

/-- the property, as far as the model carries it -/
def C44_full : Prop := C44_conservation ∧ C44_exactly_once ∧ C44_requeue ∧ C44_confirmed_once ∧ C44_dispatch

theorem C44_holds : C44_full :=
  ⟨C44_conservation_holds, C44_exactly_once_holds, C44_requeue_holds, C44_confirmed_once_holds, C44_dispatch_holds⟩

/-! ### non-vacuity (evaluated tests on one script) -/

/-- two workers; six jobs; worker 1 stops holding two unconfirmed jobs; worker 2 confirms one -/
def churn : List WIn :=
  [.register 1 0 1, .request 1 0 1 1 0 2 true,
   .produced 1 1 1 10, .storedAck 1 1 1, .produced 1 2 2 20, .storedAck 1 2 2,
   .register 2 0 2, .request 2 0 1 2 0 3 false,
   .produced 1 3 3 30, .storedAck 1 3 3,
   .terminated 1 0, .ack 2 0 1 2 1]

example : ((runG {} churn).2.1.map (·.id)) = [1, 2, 3] ∧ ((runG {} churn).2.2.map (·.id)) = [3] ∧
    ((runG {} churn).1.bindings.map (·.name)) = [2] ∧
    ((held (runG {} churn).1).map (·.id)) = [1, 2] := by decide

/-- hypothesis of `C44_exactly_once` and of `C44_requeue` are satisfiable on that run -/
example : ((runG {} churn).2.1.map (·.id)).Nodup := by decide
example : ∃ b ∈ (runG {} (churn.take 10)).1.bindings, b.name = 1 ∧ b.comp = 0 := by decide

end GoaktVerif.C44

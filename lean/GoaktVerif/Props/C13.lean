/-
C13 — Stashed messages are neither lost, duplicated nor reordered.

"Messages stashed by an actor are delivered again exactly once when unstashed; UnstashAll
 re-delivers all of them in stash order and Unstash re-delivers the oldest. Stashing without a
 stash buffer reports an error instead of dropping silently."

Model (Model/C13): mailbox and stash box as FIFO lists, the three functions of actor/stash.go with
re-entry at the mailbox tail (doReceive), a handler that makes ANY list of stash calls per
delivery, and ANY interleaving of external arrivals with deliveries (`Step`).  The theorems are
invariants of every run (`runSteps`, arbitrary length).  The model is tied to /repo by the
differential run of a scripted actor in a real actor system (harness/verifdrv/c13).
-/
import GoaktVerif.Model.C13
import GoaktVerif.Spec.C13

namespace GoaktVerif.C13
open GoaktVerif.Model.C13

variable {α : Type}

/-! ### ghost logs read off the event trace -/

/-- messages put into the stash, in stash order -/
def stashedSeq (t : List (Ev α)) : List α := t.filterMap fun | .stashed m => some m | _ => none
/-- messages that left the stash and were re-enqueued, in that order -/
def restoredSeq (t : List (Ev α)) : List α := t.filterMap fun | .restored m => some m | _ => none
/-- messages handed to the handler, in delivery order -/
def deliveredSeq (t : List (Ev α)) : List α := t.filterMap fun | .delivered m => some m | _ => none
/-- everything ever enqueued in the main mailbox, in enqueue order; `true` = it came from the stash -/
def enqSeq (t : List (Ev α)) : List (Bool × α) :=
  t.filterMap fun | .arrived m => some (false, m) | .restored m => some (true, m) | _ => none
/-- the deliveries that are RE-deliveries: the mailbox is FIFO, so the k-th delivery is the k-th
    enqueue (`delivered_fifo`); keep those that came from the stash -/
def redelivered (t : List (Ev α)) : List α :=
  (((enqSeq t).take (deliveredSeq t).length).filter (·.1)).map (·.2)

theorem stashedSeq_append (a b : List (Ev α)) : stashedSeq (a ++ b) = stashedSeq a ++ stashedSeq b := List.filterMap_append ..
theorem restoredSeq_append (a b : List (Ev α)) : restoredSeq (a ++ b) = restoredSeq a ++ restoredSeq b := List.filterMap_append ..
theorem deliveredSeq_append (a b : List (Ev α)) : deliveredSeq (a ++ b) = deliveredSeq a ++ deliveredSeq b := List.filterMap_append ..
theorem enqSeq_append (a b : List (Ev α)) : enqSeq (a ++ b) = enqSeq a ++ enqSeq b := List.filterMap_append ..

theorem restored_map (box : List α) :
    stashedSeq (box.map Ev.restored) = [] ∧ restoredSeq (box.map Ev.restored) = box
    ∧ deliveredSeq (box.map Ev.restored) = [] ∧ enqSeq (box.map Ev.restored) = box.map (true, ·) := by
  induction box with
  | nil => exact ⟨rfl, rfl, rfl, rfl⟩
  | cons x xs ih =>
    obtain ⟨h1, h2, h3, h4⟩ := ih
    refine ⟨?_, ?_, ?_, ?_⟩
    · simpa [stashedSeq, List.filterMap_cons] using h1
    · simpa [restoredSeq, List.filterMap_cons] using h2
    · simpa [deliveredSeq, List.filterMap_cons] using h3
    · simpa [enqSeq, List.filterMap_cons] using h4

theorem restoredSeq_eq_enq (t : List (Ev α)) : restoredSeq t = ((enqSeq t).filter (·.1)).map (·.2) := by
  induction t with
  | nil => rfl
  | cons e es ih =>
    cases e <;> simp_all [restoredSeq, enqSeq, List.filterMap_cons]

theorem drain_eq (box mb : List α) : drain box mb = mb ++ box := by
  induction box generalizing mb with
  | nil => simp [drain]
  | cons x xs ih => simp [drain, ih]

/-! ### the invariant -/

/-- conservation: (stash) everything ever stashed = what already left the stash, in the same
    order, followed by what the stash still holds; (mailbox) everything ever enqueued = what was
    delivered, in the same order, followed by what the mailbox still holds. -/
structure Inv (c : Core α) (t : List (Ev α)) : Prop where
  stash : stashedSeq t = restoredSeq t ++ c.stash.getD []
  mbox : (enqSeq t).map (·.2) = deliveredSeq t ++ c.mailbox

theorem inv_doAct (c : Core α) (t : List (Ev α)) (cur : α) (a : Act) (h : Inv c t) :
    Inv (doAct c cur a).1 (t ++ (doAct c cur a).2) := by
  obtain ⟨hs, hm⟩ := h
  cases a with
  | stash =>
    simp only [doAct, doStash]
    cases hst : c.stash with
    | none =>
      constructor
      · simpa [stashedSeq_append, restoredSeq_append, stashedSeq, restoredSeq, hst] using hs
      · simpa [enqSeq_append, deliveredSeq_append, enqSeq, deliveredSeq] using hm
    | some box =>
      constructor
      · simp only [stashedSeq_append, restoredSeq_append, hs, hst]
        simp [stashedSeq, restoredSeq]
      · simpa [enqSeq_append, deliveredSeq_append, enqSeq, deliveredSeq] using hm
  | unstash =>
    simp only [doAct, doUnstash]
    cases hst : c.stash with
    | none =>
      constructor
      · simpa [stashedSeq_append, restoredSeq_append, stashedSeq, restoredSeq, hst] using hs
      · simpa [enqSeq_append, deliveredSeq_append, enqSeq, deliveredSeq] using hm
    | some box =>
      cases box with
      | nil =>
        constructor
        · simpa [stashedSeq_append, restoredSeq_append, stashedSeq, restoredSeq, hst] using hs
        · simpa [enqSeq_append, deliveredSeq_append, enqSeq, deliveredSeq] using hm
      | cons x xs =>
        constructor
        · simp only [stashedSeq_append, restoredSeq_append, hs, hst]
          simp [stashedSeq, restoredSeq]
        · simp only [enqSeq_append, deliveredSeq_append, List.map_append, hm]
          simp [enqSeq, deliveredSeq]
  | unstashAll =>
    simp only [doAct, doUnstashAll]
    cases hst : c.stash with
    | none =>
      constructor
      · simpa [stashedSeq_append, restoredSeq_append, stashedSeq, restoredSeq, hst] using hs
      · simpa [enqSeq_append, deliveredSeq_append, enqSeq, deliveredSeq] using hm
    | some box =>
      obtain ⟨r1, r2, r3, r4⟩ := restored_map box
      constructor
      · simp only [stashedSeq_append, restoredSeq_append, hs, hst, r1, r2]
        simp [stashedSeq, restoredSeq]
      · simp only [enqSeq_append, deliveredSeq_append, List.map_append, hm, r3, r4, drain_eq]
        simp [enqSeq, deliveredSeq, Function.comp_def]

theorem inv_runActs (c : Core α) (t : List (Ev α)) (cur : α) (acts : List Act) (h : Inv c t) :
    Inv (runActs c cur acts).1 (t ++ (runActs c cur acts).2) := by
  induction acts generalizing c t with
  | nil => simpa [runActs] using h
  | cons a as ih =>
    simp only [runActs]
    rw [← List.append_assoc]
    exact ih _ _ (inv_doAct c t cur a h)

theorem inv_sysStep (c : Core α) (t : List (Ev α)) (s : Step α) (h : Inv c t) :
    Inv (sysStep c s).1 (t ++ (sysStep c s).2) := by
  cases s with
  | arrive m =>
    obtain ⟨hs, hm⟩ := h
    constructor
    · simpa [sysStep, stashedSeq_append, restoredSeq_append, stashedSeq, restoredSeq] using hs
    · simp only [sysStep, enqSeq_append, deliveredSeq_append, List.map_append, hm]
      simp [enqSeq, deliveredSeq]
  | deliver acts =>
    simp only [sysStep]
    cases hmb : c.mailbox with
    | nil => simpa using h
    | cons m rest =>
      have h' : Inv { c with mailbox := rest } (t ++ [Ev.delivered m]) := by
        obtain ⟨hs, hm⟩ := h
        constructor
        · simpa [stashedSeq_append, restoredSeq_append, stashedSeq, restoredSeq] using hs
        · simp only [enqSeq_append, deliveredSeq_append, List.map_append, hm, hmb]
          simp [enqSeq, deliveredSeq]
      have := inv_runActs _ _ m acts h'
      simpa [List.append_assoc] using this

theorem inv_runSteps (c : Core α) (t : List (Ev α)) (steps : List (Step α)) (h : Inv c t) :
    Inv (runSteps c steps).1 (t ++ (runSteps c steps).2) := by
  induction steps generalizing c t with
  | nil => simpa [runSteps] using h
  | cons s ss ih =>
    simp only [runSteps]
    rw [← List.append_assoc]
    exact ih _ _ (inv_sysStep c t s h)

theorem inv_fresh (buf : Bool) : Inv (fresh buf : Core α) [] := by
  constructor <;> cases buf <;> rfl

/-- MAIN INVARIANT: for any stream of arrivals, any interleaving with deliveries and any stash
    decisions of the handler (a `Step` list of any length), conservation holds. -/
theorem inv_run (buf : Bool) (steps : List (Step α)) :
    Inv (runSteps (fresh buf) steps).1 (runSteps (fresh buf) steps).2 := by
  simpa using inv_runSteps (fresh buf) [] steps (inv_fresh buf)

/-! ### consequences -/

/-- FIFO: the deliveries are exactly the first enqueues, in enqueue order -/
theorem delivered_fifo {c : Core α} {t : List (Ev α)} (h : Inv c t) :
    deliveredSeq t = ((enqSeq t).take (deliveredSeq t).length).map (·.2) := by
  have h1 : ((enqSeq t).map (·.2)).take (deliveredSeq t).length = deliveredSeq t := by
    rw [h.mbox]; exact List.take_left' rfl
  rw [List.map_take]; exact h1.symm

/-- re-deliveries ⊑ released ⊑ stashed (prefixes): a stashed message is re-delivered at most as
    often as it was stashed, only after it was unstashed, and always in stash order -/
theorem redelivered_prefix {c : Core α} {t : List (Ev α)} (h : Inv c t) :
    redelivered t <+: restoredSeq t ∧ restoredSeq t <+: stashedSeq t := by
  constructor
  · rw [restoredSeq_eq_enq]
    exact ((List.take_prefix _ _).filter _).map _
  · rw [h.stash]; exact List.prefix_append _ _

/-- nothing is lost: every released message that was not yet re-delivered is still in the mailbox
    (as many as are missing), and every stashed message not yet released is still in the stash -/
theorem pending_accounted {c : Core α} {t : List (Ev α)} (h : Inv c t) :
    (enqSeq t).length = (deliveredSeq t).length + c.mailbox.length
    ∧ (stashedSeq t).length = (restoredSeq t).length + (c.stash.getD []).length := by
  constructor
  · have := congrArg List.length h.mbox
    simpa using this
  · have := congrArg List.length h.stash
    simpa using this

/-- exactly once, in order: when the mailbox has been drained and the stash is empty, the
    re-deliveries are precisely the stashed messages, in stash order -/
theorem exactly_once_quiescent {c : Core α} {t : List (Ev α)} (h : Inv c t)
    (hm : c.mailbox = []) (hs : c.stash.getD [] = []) :
    redelivered t = stashedSeq t := by
  have hlen := (pending_accounted h).1
  rw [hm] at hlen
  simp only [List.length_nil, Nat.add_zero] at hlen
  unfold redelivered
  rw [← hlen, List.take_length, ← restoredSeq_eq_enq, h.stash, hs, List.append_nil]

/-- even with messages left in the stash: after the mailbox is drained, the re-deliveries are
    exactly the released ones and the rest is still stashed -/
theorem drained_mailbox {c : Core α} {t : List (Ev α)} (h : Inv c t) (hm : c.mailbox = []) :
    redelivered t = restoredSeq t ∧ stashedSeq t = redelivered t ++ c.stash.getD [] := by
  have hlen := (pending_accounted h).1
  rw [hm] at hlen
  simp only [List.length_nil, Nat.add_zero] at hlen
  have : redelivered t = restoredSeq t := by
    unfold redelivered
    rw [← hlen, List.take_length, ← restoredSeq_eq_enq]
  exact ⟨this, by rw [this]; exact h.stash⟩

/-! ### the single operations -/

/-- Unstash re-enqueues the OLDEST stashed message (at the mailbox tail) and nothing else -/
theorem unstash_oldest (mb : List α) (x : α) (xs : List α) :
    doUnstash ⟨mb, some (x :: xs)⟩ = (⟨mb ++ [x], some xs⟩, [.restored x, .result .ok]) := rfl

/-- Unstash with nothing stashed reports the error and changes nothing -/
theorem unstash_empty (mb : List α) : doUnstash ⟨mb, some []⟩ = (⟨mb, some []⟩, [.result .empty]) := rfl

/-- UnstashAll re-enqueues ALL stashed messages in stash order and empties the stash -/
theorem unstashAll_order (mb box : List α) :
    doUnstashAll ⟨mb, some box⟩ = (⟨mb ++ box, some []⟩, box.map .restored ++ [.result .ok]) := by
  simp [doUnstashAll, drain_eq]

/-- Stash appends (a clone of) the current message to the stash tail; mailbox untouched -/
theorem stash_appends (mb box : List α) (cur : α) :
    doStash ⟨mb, some box⟩ cur = (⟨mb, some (box ++ [cur])⟩, [.stashed cur, .result .ok]) := rfl

/-- without a stash buffer every call reports ErrStashBufferNotSet and the state is unchanged -/
theorem no_buffer (mb : List α) (cur : α) (a : Act) :
    doAct ⟨mb, none⟩ cur a = (⟨mb, none⟩, [.result .notSet]) := by
  cases a <;> rfl

/-- …for whole runs: an actor without stash buffer never stashes and never re-delivers -/
theorem no_buffer_run (steps : List (Step α)) :
    stashedSeq (runSteps (fresh false) steps).2 = [] ∧ redelivered (runSteps (fresh false) steps).2 = [] := by
  have hstash : ∀ (c : Core α) (steps : List (Step α)), c.stash = none →
      (runSteps c steps).1.stash = none ∧ stashedSeq (runSteps c steps).2 = [] ∧ restoredSeq (runSteps c steps).2 = [] := by
    have hacts : ∀ (acts : List Act) (c : Core α) (cur : α), c.stash = none →
        (runActs c cur acts).1.stash = none ∧ stashedSeq (runActs c cur acts).2 = [] ∧ restoredSeq (runActs c cur acts).2 = [] := by
      intro acts
      induction acts with
      | nil => intro c cur h; exact ⟨h, rfl, rfl⟩
      | cons a as ih =>
        intro c cur h
        have hc : c = ⟨c.mailbox, none⟩ := by cases c; simp_all
        have h1 : doAct c cur a = (c, [.result .notSet]) := by rw [hc]; exact no_buffer _ _ _
        simp only [runActs, h1, stashedSeq_append, restoredSeq_append]
        obtain ⟨i1, i2, i3⟩ := ih c cur h
        exact ⟨i1, by simpa [stashedSeq] using i2, by simpa [restoredSeq] using i3⟩
    intro c steps
    induction steps generalizing c with
    | nil => intro h; exact ⟨h, rfl, rfl⟩
    | cons s ss ih =>
      intro h
      simp only [runSteps, stashedSeq_append, restoredSeq_append]
      cases s with
      | arrive m =>
        obtain ⟨i1, i2, i3⟩ := ih (sysStep c (.arrive m)).1 h
        exact ⟨i1, by simpa [sysStep, stashedSeq] using i2, by simpa [sysStep, restoredSeq] using i3⟩
      | deliver acts =>
        simp only [sysStep]
        cases hmb : c.mailbox with
        | nil =>
          obtain ⟨i1, i2, i3⟩ := ih c h
          exact ⟨i1, by simpa [stashedSeq] using i2, by simpa [restoredSeq] using i3⟩
        | cons m rest =>
          obtain ⟨a1, a2, a3⟩ := hacts acts { c with mailbox := rest } m h
          obtain ⟨i1, i2, i3⟩ := ih _ a1
          refine ⟨i1, ?_, ?_⟩
          · simp only [stashedSeq, List.filterMap_cons] at a2 ⊢; simp_all [stashedSeq]
          · simp only [restoredSeq, List.filterMap_cons] at a3 ⊢; simp_all [restoredSeq]
  obtain ⟨_, h2, h3⟩ := hstash (fresh false) steps rfl
  refine ⟨h2, ?_⟩
  have hp := (redelivered_prefix (inv_run false steps)).1
  rw [h3] at hp
  exact List.prefix_nil.mp hp

/-! ### the property -/

/-- Full statement.  For every message type, with or without stash buffer, for every stream of
    arrivals interleaved in any way with deliveries whose handlers make any stash calls:
    (1) the re-deliveries are a prefix of the released messages, which are a prefix of the stashed
        messages — same order, never more often than stashed (no duplicate, no reordering);
    (2) what is missing from those prefixes is exactly what the mailbox / the stash still hold
        (nothing lost), so once the mailbox is drained the re-deliveries ARE the released messages,
        and if the stash is empty too they are ALL stashed messages, exactly once, in stash order;
    (3) Unstash releases the oldest, UnstashAll all in stash order, to the mailbox tail;
    (4) without a stash buffer each call reports ErrStashBufferNotSet and changes nothing. -/
def C13_full : Prop :=
  ∀ (α : Type) (buf : Bool) (steps : List (Step α)),
    let r := runSteps (fresh buf : Core α) steps
    (redelivered r.2 <+: restoredSeq r.2 ∧ restoredSeq r.2 <+: stashedSeq r.2)
    ∧ (stashedSeq r.2 = restoredSeq r.2 ++ r.1.stash.getD []
       ∧ (enqSeq r.2).map (·.2) = deliveredSeq r.2 ++ r.1.mailbox)
    ∧ (r.1.mailbox = [] → redelivered r.2 = restoredSeq r.2 ∧ stashedSeq r.2 = redelivered r.2 ++ r.1.stash.getD [])
    ∧ (r.1.mailbox = [] → r.1.stash.getD [] = [] → redelivered r.2 = stashedSeq r.2)
    ∧ (∀ (mb : List α) (x : α) (xs : List α), (doUnstash ⟨mb, some (x :: xs)⟩).1 = ⟨mb ++ [x], some xs⟩)
    ∧ (∀ (mb box : List α), (doUnstashAll ⟨mb, some box⟩).1 = ⟨mb ++ box, some []⟩)
    ∧ (∀ (mb : List α) (cur : α) (a : Act), doAct ⟨mb, none⟩ cur a = (⟨mb, none⟩, [.result .notSet]))

theorem C13_holds : C13_full := by
  intro α buf steps
  have h := inv_run (α := α) buf steps
  exact ⟨redelivered_prefix h, ⟨h.stash, h.mbox⟩, drained_mailbox h, exactly_once_quiescent h,
    fun mb x xs => by rw [unstash_oldest], fun mb box => by rw [unstashAll_order], no_buffer⟩

/-- non-vacuous instance: 1 and 2 are stashed, 3 triggers UnstashAll; all three clauses are exercised
    and the final state is quiescent with an empty stash -/
example :
    let r := runSteps (fresh true : Core Nat)
      [.arrive 1, .arrive 2, .arrive 3, .deliver [.stash], .deliver [.stash], .deliver [.unstashAll], .deliver [], .deliver []]
    r.1 = ⟨[], some []⟩ ∧ stashedSeq r.2 = [1, 2] ∧ redelivered r.2 = [1, 2] ∧ deliveredSeq r.2 = [1, 2, 3, 1, 2] := by
  decide

/-! ### the scripted actor of the harness is an instance of `runSteps` -/

theorem runSteps_append (c : Core α) (s1 s2 : List (Step α)) :
    runSteps c (s1 ++ s2) = ((runSteps (runSteps c s1).1 s2).1, (runSteps c s1).2 ++ (runSteps (runSteps c s1).1 s2).2) := by
  induction s1 generalizing c with
  | nil => simp [runSteps]
  | cons s ss ih => simp [runSteps, ih, List.append_assoc]

/-- whatever the case line says, the run the driver prints is a `runSteps` run, so every theorem
    above applies to it -/
theorem caseLoop_is_run (batches : List (List Nat)) (fuel : Nat) (c : Core Msg) (ds : List (List Act)) :
    ∃ steps, runSteps c steps = ((caseLoop batches fuel c ds).1, (caseLoop batches fuel c ds).2.2) := by
  induction fuel generalizing c ds with
  | zero => exact ⟨[], rfl⟩
  | succ n ih =>
    unfold caseLoop
    cases hmb : c.mailbox with
    | nil => exact ⟨[], rfl⟩
    | cons m rest =>
      cases m with
      | user id =>
        obtain ⟨steps', hs'⟩ := ih (runSteps c (stepsFor batches (ds.headD []) (.user id))).1 ds.tail
        refine ⟨stepsFor batches (ds.headD []) (.user id) ++ steps', ?_⟩
        rw [runSteps_append, hs']
      | gate i =>
        obtain ⟨steps', hs'⟩ := ih (runSteps c (stepsFor batches [] (.gate i))).1 ds
        refine ⟨stepsFor batches [] (.gate i) ++ steps', ?_⟩
        rw [runSteps_append, hs']

theorem runCase_is_run (buf : Bool) (batches : List (List Nat)) (ds : List (List Act)) :
    ∃ steps, runSteps (fresh buf) steps = ((runCase buf batches ds).1, (runCase buf batches ds).2.2) := by
  obtain ⟨steps, hs⟩ := caseLoop_is_run batches (fuelFor batches ds) (runSteps (fresh buf) (firstSteps batches)).1 ds
  refine ⟨firstSteps batches ++ steps, ?_⟩
  rw [runSteps_append, hs]
  rfl

/-- so the conservation invariant (and with it every consequence above) holds of every run the
    driver prints and the harness is compared with -/
theorem runCase_inv (buf : Bool) (batches : List (List Nat)) (ds : List (List Act)) :
    Inv (runCase buf batches ds).1 (runCase buf batches ds).2.2 := by
  obtain ⟨steps, hs⟩ := runCase_is_run buf batches ds
  have := inv_run buf steps
  rw [hs] at this
  exact this

end GoaktVerif.C13
